------------------------------- MODULE T_Lock -------------------------------
(***************************************************************************)
(* Trace specification for C09: validates batches of traces recorded from  *)
(* the real anyio.Lock against the property-level observer P_Lock.         *)
(* One initial state per trace (tid); each step consumes one recorded      *)
(* event through LockApply; the walk stops at the first event that         *)
(* violates a clause.  The verdict of every trace is printed as one @@V    *)
(* line (total verdicts: consumed events, failing clause names, position). *)
(***************************************************************************)
EXTENDS P_Lock, Json, IOUtils, TLC

Batch == JsonDeserialize(IOEnv.TRACE_FILE).traces

VARIABLES tid, l, p, bad

Evs == Batch[tid].events

TInit == /\ tid \in 1..Len(Batch)
         /\ l = 1
         /\ p = LockP0
         /\ bad = {}

TStep == /\ l >= 1 /\ l <= Len(Evs) /\ bad = {}
         /\ LET r == LockApply(p, Evs[l]) IN
            /\ p' = r.p
            /\ bad' = r.bad
            /\ l' = IF r.bad = {} THEN l + 1 ELSE l
         /\ UNCHANGED tid

TDone == /\ l >= 1 /\ (l > Len(Evs) \/ bad # {})
         /\ PrintT(<<"@@V", ToJson([tid |-> tid, n |-> l - 1, bad |-> bad, at |-> l])>>)
         /\ l' = 0
         /\ UNCHANGED <<tid, p, bad>>

TSpec == TInit /\ [][TStep \/ TDone]_<<tid, l, p, bad>>
=============================================================================
