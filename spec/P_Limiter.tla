----------------------------- MODULE P_Limiter -----------------------------
(***************************************************************************)
(* Property-level observer for anyio.CapacityLimiter (property C10).       *)
(*                                                                         *)
(* holders = borrowers between the return of their acquire and their       *)
(* release.  A token that the limiter has already reserved for a woken     *)
(* waiter is counted by borrowed_tokens but not by the observer, so        *)
(*   |holders| <= borrowed_tokens <= |holders| + (acquirers in progress),  *)
(* with equality to |holders| when nobody is in progress.                  *)
(*                                                                         *)
(* Events (b = borrower id, t = calling task):                             *)
(*  [ev="start",t,b] [ev="end",t,b,res,borrowed,total,waiting]             *)
(*  [ev="nowait",t,b,res,...] [ev="rel",t,b,res,...] [ev="settotal",v,...] *)
(*  [ev="creq",t] [ev="quiescent",borrowed,total,waiting]                  *)
(* total / v: a Nat, or INF for math.inf (any value >= 1000 in traces).    *)
(***************************************************************************)
EXTENDS Naturals, Sequences, FiniteSets

LimP0(total) == [total |-> total, holders |-> {},
                 inprog |-> <<>>,     \* sequence of [t, b] in the order acquire was called
                 obl |-> {},          \* FIFO obligations, see P_Sem
                 free |-> {},         \* in-progress acquirers that have seen a free token since they called
                 low |-> {},          \* in-progress acquirers during whose call total_tokens was lowered
                 creq |-> {}, redo |-> {}]

LNames(r) == {n \in DOMAIN r : ~r[n]}
LTasks(s) == {s[i].t : i \in DOMAIN s}
LRemove(s, t) == SelectSeq(s, LAMBDA y : y.t # t)
LBefore(s, t) == {s[i].t : i \in {j \in DOMAIN s : \A k \in DOMAIN s : s[k].t = t => j < k}}

LOblAdd(obl, earlier, g) ==
  IF Cardinality(earlier) > g THEN obl \cup {[s |-> earlier, ok |-> g]} ELSE obl
LOblOnOk(obl, t) == {IF t \in o.s THEN [s |-> o.s \ {t}, ok |-> o.ok - 1] ELSE o : o \in obl}
LOblViolated(obl, t) == \E o \in obl : t \in o.s /\ o.ok = 0
LOblOnGone(obl, t) ==
  {o2 \in {[s |-> o.s \ {t}, ok |-> o.ok] : o \in obl} : Cardinality(o2.s) > o2.ok}
\* tokens reserved for woken waiters that have not returned yet
LTransit(borrowed, nholders) == IF borrowed > nholders THEN borrowed - nholders ELSE 0

LimObs(p, e) ==
  [ReportedTotalTrue |-> e.total = p.total,
   BorrowedNotBelowTrue |-> e.borrowed >= Cardinality(p.holders),
   BorrowedAccountsForHandOff |-> e.borrowed - Cardinality(p.holders) <= Len(p.inprog),
   WaitingCountTrue |-> e.waiting <= Len(p.inprog)]

LimApply0(p, e) ==
  CASE e.ev = "start" ->
         [p |-> [p EXCEPT !.inprog = Append(@, [t |-> e.t, b |-> e.b]),
                          !.redo = IF e.b \in p.holders THEN @ \cup {e.t} ELSE @],
          bad |-> {}]
    [] e.ev = "end" /\ e.res = "ok" ->
         \* granted only when a token was actually free: the caller saw a free token at some instant
         \* of its call, and on return the holders fit into the total unless the total was lowered
         \* while the call was in progress
         LET cl == [NeverOverGranted |-> /\ e.t \in p.free
                                         /\ (Cardinality(p.holders) < p.total \/ e.t \in p.low),
                    FifoNoOvertaking |-> ~LOblViolated(p.obl, e.t),
                    NoDoubleBorrow   |-> e.b \notin p.holders]
             h1 == p.holders \cup {e.b}
             p1 == [p EXCEPT !.holders = h1,
                             !.obl = LOblAdd(LOblOnGone(LOblOnOk(@, e.t), e.t), LBefore(p.inprog, e.t),
                                             LTransit(e.borrowed, Cardinality(h1))),
                             !.inprog = LRemove(@, e.t), !.redo = @ \ {e.t}]
         IN [p |-> p1, bad |-> LNames(cl) \cup LNames(LimObs(p1, e))]
    [] e.ev = "end" /\ e.res = "cancelled" ->
         LET cl == [CancelWasRequested |-> e.t \in p.creq]
             p1 == [p EXCEPT !.inprog = LRemove(@, e.t), !.obl = LOblOnGone(@, e.t), !.redo = @ \ {e.t}]
         IN [p |-> p1, bad |-> LNames(cl) \cup LNames(LimObs(p1, e))]
    [] e.ev = "end" /\ e.res = "error" ->
         LET cl == [ErrorOnlyForDoubleBorrow |-> e.t \in p.redo]
             p1 == [p EXCEPT !.inprog = LRemove(@, e.t), !.obl = LOblOnGone(@, e.t), !.redo = @ \ {e.t}]
         IN [p |-> p1, bad |-> LNames(cl) \cup LNames(LimObs(p1, e))]
    [] e.ev = "nowait" /\ e.res = "ok" ->
         LET cl == [NeverOverGranted |-> Cardinality(p.holders) < p.total,
                    NoDoubleBorrow   |-> e.b \notin p.holders]
             h1 == p.holders \cup {e.b}
             p1 == [p EXCEPT !.holders = h1,
                             !.obl = LOblAdd(@, LTasks(p.inprog), LTransit(e.borrowed, Cardinality(h1)))]
         IN [p |-> p1, bad |-> LNames(cl) \cup LNames(LimObs(p1, e))]
    [] e.ev = "nowait" /\ e.res = "wouldblock" ->
         LET cl == [WouldBlockOnlyWhenNoneFree |->
                      Cardinality(p.holders) + Len(p.inprog) >= p.total \/ p.inprog # <<>>,
                    DoubleBorrowIsError |-> e.b \notin p.holders]
         IN [p |-> p, bad |-> LNames(cl) \cup LNames(LimObs(p, e))]
    [] e.ev = "nowait" /\ e.res = "error" ->
         LET cl == [ErrorOnlyForDoubleBorrow |-> e.b \in p.holders]
         IN [p |-> p, bad |-> LNames(cl) \cup LNames(LimObs(p, e))]
    [] e.ev = "rel" /\ e.res = "ok" ->
         LET cl == [OnlyBorrowerReleases |-> e.b \in p.holders]
             p1 == [p EXCEPT !.holders = @ \ {e.b}]
         IN [p |-> p1, bad |-> LNames(cl) \cup LNames(LimObs(p1, e))]
    [] e.ev = "rel" /\ e.res = "error" ->
         LET cl == [BorrowerCanRelease |-> e.b \notin p.holders]
         IN [p |-> p, bad |-> LNames(cl) \cup LNames(LimObs(p, e))]
    [] e.ev = "settotal" ->
         LET p1 == [p EXCEPT !.total = e.v,
                             !.low = IF e.v < p.total THEN @ \cup LTasks(p.inprog) ELSE @]
         IN [p |-> p1, bad |-> LNames(LimObs(p1, e))]
    [] e.ev = "creq" -> [p |-> [p EXCEPT !.creq = @ \cup {e.t}], bad |-> {}]
    [] e.ev = "cdone" -> [p |-> [p EXCEPT !.creq = @ \ {e.t}], bad |-> {}]   \* t's scope absorbed the request; t carries on
    [] e.ev = "quiescent" ->
         LET cl == [NoFreeTokenWithWaiters |-> p.inprog # <<>> => Cardinality(p.holders) >= p.total,
                    CountsTrueWhenIdle |->
                       p.inprog = <<>> => (e.borrowed = Cardinality(p.holders) /\ e.waiting = 0)]
         IN [p |-> p, bad |-> LNames(cl) \cup LNames(LimObs(p, e))]
    [] OTHER -> [p |-> p, bad |-> {"UnknownEvent"}]

LimApply(p, e) ==
  LET r == LimApply0(p, e)
      q == r.p
      ts == LTasks(q.inprog)
      nowFree == IF Cardinality(q.holders) < q.total THEN ts ELSE {}
  IN [p |-> [q EXCEPT !.free = (@ \cup nowFree) \cap ts, !.low = @ \cap ts], bad |-> r.bad]
=============================================================================
