------------------------------ MODULE MC_C09 ------------------------------
(***************************************************************************)
(* Composition root for property C09 (Lock).                               *)
(*                                                                         *)
(* NT tasks share one Lock.  Every task is a most-general client: inside   *)
(* its own CancelScope it repeatedly CHOOSES its next operation from Ops   *)
(* (up to MaxOps operations), so TLC enumerates all programs up to the     *)
(* bound together with all schedules.  The environment may cancel a task's *)
(* scope (also before the task has started) or cancel the task natively    *)
(* (Task.cancel(), as asyncio.timeout/wait_for would) between any two      *)
(* handles, or when the loop is idle.                                      *)
(*                                                                         *)
(* Ghost state: pst/pbad = the property-level observer P_Lock fed with the *)
(* events the client sees (the same events the harness records from the    *)
(* real library); hist = the sequence of nondeterministic choices, hidden  *)
(* from the fingerprint by VIEW and printed on every choice edge so that   *)
(* the harness can replay every transition of the state graph on the real  *)
(* code.                                                                   *)
(***************************************************************************)
EXTENDS AioLock, P_Lock, Json

CONSTANTS Ops,        \* subset of {"acq","nowait","rel","yield"}
          MaxOps,     \* operations per task
          MaxEnv,     \* environment actions per behaviour
          Fast,       \* fast_acquire
          EnvKinds,   \* subset of {"cancel","native"}
          Cleanup,    \* TRUE: a client that is cancelled runs its remaining operations as clean-up inside
                      \* "with CancelScope(shield=True):" before it re-raises (its task then has a
                      \* non-zero cancellation-request count while it queues for the lock)
          Retry       \* TRUE: a client whose scope absorbed its cancellation opens a fresh scope and
                      \* carries on with its remaining operations (the move_on_after pattern)

VARIABLES L,          \* the lock
          E,          \* environment bookkeeping
          hist, pst, pbad

vars == <<K, L, E, hist, pst, pbad>>
View == <<K, L, E, pst, pbad>>

NoClean == [cl |-> FALSE, exc |-> Val]       \* b field of the client frame: in clean-up? / exception to re-raise
Client0 == <<Frame("client", "init", 0, NoClean)>>

Init ==
  /\ K = KInit([t \in Task |-> Client0], [t \in Task |-> NOSCOPE])
        \* the harness creates the tasks in order with loop.create_task: their first steps are queued
  /\ L = LockInit(Fast)
  /\ E = [n |-> 0, pre |-> [t \in Task |-> FALSE], scoped |-> {}, natived |-> {}, qat |-> 0]
  /\ hist = <<>>
  /\ pst = LockP0
  /\ pbad = {}

Boot == [K EXCEPT !.ready = [i \in 1..NT |-> HStep(i)]]

Obs(lk) == [owner |-> lk.owner, waiting |-> Len(lk.waiters)]
Ev(ev, t, op, res, lk) ==
  [ev |-> ev, t |-> t, op |-> op, res |-> res, owner |-> lk.owner, waiting |-> Len(lk.waiters)]

Feed(e) == /\ pst' = LockApply(pst, e).p
           /\ pbad' = pbad \cup LockApply(pst, e).bad
Feed2(e1, e2) == LET r1 == LockApply(pst, e1)
                     r2 == LockApply(r1.p, e2)
                 IN /\ pst' = r2.p
                    /\ pbad' = pbad \cup r1.bad \cup r2.bad

H(t, c) == [w |-> "t", t |-> t, c |-> c, at |-> K.nh, cyc |-> K.cycle]
HE(t, c) == [w |-> "e", t |-> t, c |-> c, at |-> K.nh, cyc |-> K.cycle]

ResOf(r) == IF ~IsExc(r) THEN "ok" ELSE IF IsCancel(r) THEN "cancelled" ELSE "error"

(****************************** client *************************************)
ClientInit(t) ==
  /\ At(K, t, "client", "init")
  /\ K' = SetPc(ScopeEnter(K, t, FALSE, INF, E.pre[t], "task"), t, "choose")
  /\ UNCHANGED <<L, E, hist, pst, pbad>>

ClientChoose(t) ==
  /\ At(K, t, "client", "choose")
  /\ LET n == Top(K, t).a
         bump(q) == SetTop(q, t, [Top(q, t) EXCEPT !.a = n + 1])
     IN
     \/ /\ n < MaxOps /\ "acq" \in Ops
        /\ K' = Call(bump(K), t, "ret", Frame("lock_acq", "start", 0, 0))
        /\ Feed(Ev("start", t, "acq", "", L))
        /\ hist' = Append(hist, H(t, "acq"))
        /\ UNCHANGED <<L, E>>
     \/ /\ n < MaxOps /\ "nowait" \in Ops
        /\ LET r == LockNowait(L, t) IN
           /\ L' = r.lk
           /\ Feed(Ev("nowait", t, "nowait", r.res, r.lk))
        /\ K' = bump(K)
        /\ hist' = Append(hist, H(t, "nowait"))
        /\ UNCHANGED E
     \/ /\ n < MaxOps /\ "rel" \in Ops
        /\ LET r == LockRelease(K, L, t) IN
           /\ L' = r.lk
           /\ K' = bump(r.q)
           /\ Feed(Ev("rel", t, "rel", IF r.err THEN "error" ELSE "ok", r.lk))
        /\ hist' = Append(hist, H(t, "rel"))
        /\ UNCHANGED E
     \/ /\ n < MaxOps /\ "yield" \in Ops
        /\ K' = Call(bump(K), t, "ret", Frame("yield", "start", 0, 0))
        /\ hist' = Append(hist, H(t, "yield"))
        /\ UNCHANGED <<L, E, pst, pbad>>
     \/ /\ K' = SetPc([K EXCEPT !.T[t].reg = Val], t, "fin")
        /\ hist' = Append(hist, H(t, "end"))
        /\ UNCHANGED <<L, E, pst, pbad>>

\* back from lock_acq / yield; the frame's b field is not needed: the callee is known from hist
ClientRet(t) ==
  /\ At(K, t, "client", "ret")
  /\ LET r == Reg(K, t)
         wasAcq == t \in SeqSet(pst.inprog)
     IN /\ IF wasAcq THEN Feed(Ev("end", t, "acq", ResOf(r), L)) ELSE UNCHANGED <<pst, pbad>>
        /\ K' = IF IsCancel(r) /\ Cleanup /\ ~Top(K, t).b.cl
                THEN \* except CancelledError: with CancelScope(shield=True): <remaining operations>; raise
                     LET q1 == SetTop(K, t, [Top(K, t) EXCEPT !.b = [cl |-> TRUE, exc |-> r], !.pc = "choose"])
                     IN ScopeEnter([q1 EXCEPT !.T[t].reg = Val], t, TRUE, INF, FALSE, "cleanup")
                ELSE SetPc(K, t, IF IsCancel(r) THEN "fin" ELSE "choose")
  /\ UNCHANGED <<L, E, hist>>

\* leave: "finally: release if holding", then __exit__ of the task's scope
ClientFin(t) ==
  /\ At(K, t, "client", "fin")
  /\ LET holding == pst.holder = t
         incl == Top(K, t).b.cl
         \* leave the shielded clean-up scope first; then "raise" (the saved cancellation, unless the
         \* clean-up itself was interrupted), "finally: release if holding", __exit__ of the task's scope
         x1 == IF incl THEN ScopeExit(K, t, Reg(K, t)) ELSE [q |-> K, reg |-> Reg(K, t)]
         reg2 == IF incl /\ ~IsExc(x1.reg) THEN Top(K, t).b.exc ELSE x1.reg
         r == IF holding THEN LockRelease(x1.q, L, t) ELSE [q |-> x1.q, lk |-> L, err |-> FALSE]
         x0 == ScopeExit(r.q, t, reg2)
         x == [x0 EXCEPT !.q = SetTop(x0.q, t, [Top(x0.q, t) EXCEPT !.b = NoClean])]
         again == Retry /\ x.caught
         rel == Ev("rel", t, "rel", IF r.err THEN "error" ELSE "ok", r.lk)
         cdone == [ev |-> "cdone", t |-> t]
     IN /\ L' = r.lk
        /\ K' = IF again THEN SetPc(ScopeEnter(x.q, t, FALSE, INF, FALSE, "task"), t, "choose")
                ELSE IF IsExc(x.reg) THEN Raise(x.q, t, x.reg) ELSE Ret(x.q, t)
        /\ E' = IF again THEN [E EXCEPT !.scoped = @ \ {t}] ELSE E
        /\ IF holding /\ again THEN Feed2(rel, cdone)
           ELSE IF holding THEN Feed(rel)
           ELSE IF again THEN Feed(cdone)
           ELSE UNCHANGED <<pst, pbad>>
  /\ UNCHANGED hist

(****************************** library frames *****************************)
LibStep(t) ==
  \/ /\ HelperEnabled(K, t)
     /\ K' = HelperStep(K, t)
     /\ UNCHANGED <<L, E, hist, pst, pbad>>
  \/ /\ LockAcqEnabled(K, t)
     /\ LET r == LockAcqStep(K, L, t) IN K' = r.q /\ L' = r.lk
     /\ UNCHANGED <<E, hist, pst, pbad>>
  \/ /\ FinishEnabled(K, t)
     /\ K' = FinishTask(K, t)
     /\ UNCHANGED <<L, E, hist, pst, pbad>>

(****************************** loop ****************************************)
Cycle ==
  /\ CycleStartEnabled(K)
  /\ K' = CycleStart(K)
  /\ UNCHANGED <<L, E, hist, pst, pbad>>

RunHandle ==
  /\ PopEnabled(K)
  /\ K' = RunKernelHandle(Popped(K), NextHandle(K))
  /\ UNCHANGED <<L, E, hist, pst, pbad>>

(****************************** environment *********************************)
EnvPoint == K.run = NONE /\ (K.left > 0 \/ (Quiescent(K) /\ E.qat = K.nh + 1))
SomeoneAlive == \E t \in Task : K.T[t].st # "done"

EnvCancel(t) ==
  /\ EnvPoint /\ "cancel" \in EnvKinds /\ E.n < MaxEnv /\ t \notin E.scoped /\ K.T[t].st # "done"
  /\ IF Depth(K, t) = 0
     THEN /\ K.T[t].st = "unborn"           \* scope object exists, not entered yet: cancel before entry
          /\ E' = [E EXCEPT !.n = @ + 1, !.scoped = @ \cup {t}, !.pre[t] = TRUE]
          /\ K' = K
     ELSE /\ K' = ScopeCancel(K, <<t, 1>>)
          /\ E' = [E EXCEPT !.n = @ + 1, !.scoped = @ \cup {t}]
  /\ Feed([ev |-> "creq", t |-> t])
  /\ hist' = Append(hist, HE(t, "cancel"))
  /\ UNCHANGED L

EnvNative(t) ==
  /\ EnvPoint /\ "native" \in EnvKinds /\ E.n < MaxEnv /\ t \notin E.natived /\ K.T[t].st # "done"
  /\ K' = TaskCancel(K, t, FALSE)
  /\ E' = [E EXCEPT !.n = @ + 1, !.natived = @ \cup {t}]
  /\ Feed([ev |-> "creq", t |-> t])
  /\ hist' = Append(hist, HE(t, "native"))
  /\ UNCHANGED L

\* the loop is idle and no timer is pending: the harness records a "quiescent" observation
Quiesce ==
  /\ Quiescent(K) /\ E.qat # K.nh + 1
  /\ E' = [E EXCEPT !.qat = K.nh + 1]
  /\ Feed([ev |-> "quiescent", owner |-> L.owner, waiting |-> Len(L.waiters)])
  /\ UNCHANGED <<K, L, hist>>

Start == K.cycle = 0 /\ K.ready = <<>> /\ K.nh = 0 /\ \A t \in Task : K.T[t].st = "unborn"

Next ==
  \/ /\ Start /\ E.qat = 0 /\ K' = Boot /\ UNCHANGED <<L, E, hist, pst, pbad>>
  \/ (~Start /\ Cycle)
  \/ RunHandle
  \/ \E t \in Task : ClientInit(t) \/ ClientChoose(t) \/ ClientRet(t) \/ ClientFin(t) \/ LibStep(t)
  \/ \E t \in Task : EnvCancel(t) \/ EnvNative(t)
  \/ (~Start /\ Quiesce)

Spec == Init /\ [][Next]_vars

(****************************** properties **********************************)
\* C09 itself: the property-level observer never sees a violated clause
PropertyHolds == pbad = {}

\* implementation-level invariants of the design
TypeOK == /\ L.owner \in 0..NT
          /\ \A i \in DOMAIN L.waiters : L.waiters[i] \in Task
NoDuplicateWaiters == \A i, j \in DOMAIN L.waiters : L.waiters[i] = L.waiters[j] => i = j
\* between handles: an unowned lock has no live waiter (no lost hand-off)
NoLiveWaiterOnFreeLock ==
  (K.run = NONE /\ L.owner = 0) => \A i \in DOMAIN L.waiters : K.T[L.waiters[i]].fut # "pending"
\* the owner is alive
OwnerAlive == (K.run = NONE /\ L.owner # 0) => (K.T[L.owner].st # "done" \/ pst.holder = L.owner)
\* a finished task is not left in the queue
NoDeadWaiters == K.run = NONE => \A i \in DOMAIN L.waiters : K.T[L.waiters[i]].st # "done"
\* no residue: a finished task whose scope absorbed its cancellation has a zero cancel count
\* unless it was cancelled natively
Residue == \A t \in Task : (K.T[t].st = "done" /\ t \notin E.natived) => K.T[t].nc = 0

(****************************** scenario output *****************************)
Final == [owner |-> L.owner, waiting |-> Len(L.waiters), nh |-> K.nh, cycle |-> K.cycle,
          out |-> [t \in Task |-> IF K.T[t].st # "done" THEN "blocked" ELSE ResOf(K.T[t].out)],
          nc |-> [t \in Task |-> K.T[t].nc]]

EmitFinalAC == (E'.qat # E.qat) => PrintT(<<"@@F", ToJson([h |-> hist', fin |-> Final])>>)
EmitAC == /\ (hist' # hist) => PrintT(<<"@@H", ToJson(hist')>>)
          /\ EmitFinalAC

=============================================================================
