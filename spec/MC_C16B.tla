------------------------------- MODULE MC_C16B -------------------------------
(***************************************************************************)
(* Exhaustive exploration of the stream machine BufStream (property C16).  *)
(*                                                                         *)
(* Initial states: every byte string over {0,1} up to MaxLen, every way    *)
(* the wrapped stream may chunk it (all subsets of cut points), both kinds *)
(* of wrapped stream.  Next: every call - receive(n), receive_exactly(n),  *)
(* receive_until(d, m) for n, m in 1..MaxN and the delimiters of           *)
(* DelimSet, feed_data of a few strings (at most MaxFeed times), aclose -  *)
(* with NO bound on the length of the call sequence: data is only          *)
(* consumed, so the graph is finite.  The quick tier takes only one slice  *)
(* (chosen by the seed) of the strings of full length MaxLen and all the   *)
(* shorter ones; NSlices = 1 takes everything.                             *)
(*                                                                         *)
(* Checked: every transition of the machine satisfies every clause of the  *)
(* observer P_ByteWrap (invariant PropertyHolds), and the observer's       *)
(* abstract state keeps describing the machine (ObserverTracks).           *)
(* Emitted (Emit = TRUE): one @@B line per transition of the state graph;  *)
(* the harness performs that call on a real BufferedByteReceiveStream      *)
(* brought to the source state.                                            *)
(***************************************************************************)
EXTENDS BufStream, P_ByteWrap, Json, TLC

CONSTANTS MaxLen, MaxN, DelimSet, FeedSet, MaxFeed, Kinds, Emit,
          NSlices, Slice     \* of the strings of full length MaxLen only slice Slice of NSlices is explored

VARIABLES st, fed, bad, tracks

Bytes == {0, 1}
RECURSIVE BinVal(_)
BinVal(s) == IF s = <<>> THEN 0 ELSE 2 * BinVal(SubSeq(s, 1, Len(s) - 1)) + s[Len(s)]
Datas == {d \in UNION {[1..n -> Bytes] : n \in 0..MaxLen} :
            Len(d) < MaxLen \/ BinVal(d) % NSlices = Slice}

SetMin(S) == CHOOSE x \in S : \A y \in S : x <= y

\* data cut after every position in cuts
RECURSIVE SplitAt(_, _, _)
SplitAt(data, cuts, from) ==
  IF from > Len(data) THEN <<>>
  ELSE LET e == SetMin({c \in cuts : c >= from} \cup {Len(data)})
       IN <<SubSeq(data, from, e)>> \o SplitAt(data, cuts, e + 1)

Chunkings(data) == {SplitAt(data, cuts, 1) : cuts \in SUBSET (1..(Len(data) - 1))}

Delims == CASE DelimSet = 1 -> {<<1>>, <<1, 0>>, <<1, 1>>}
            [] DelimSet = 2 -> {<<1>>, <<1, 0>>, <<1, 1>>, <<1, 0, 1>>, <<0, 0, 1>>}
            [] DelimSet = 3 -> {<<1>>, <<0>>, <<1, 0>>, <<1, 1>>, <<0, 1>>, <<1, 0, 1>>, <<0, 0, 1>>,
                                <<1, 1, 0>>, <<1, 1, 1>>}

Feeds == CASE FeedSet = 0 -> {}
           [] FeedSet = 1 -> {<<1>>, <<0, 1>>}
           [] FeedSet = 2 -> {<<0>>, <<1>>, <<0, 1>>, <<1, 0>>}

Call(op, n, d) == [op |-> op, n |-> n, d |-> d]

Calls == {Call("rx", n, <<>>) : n \in 1..MaxN}
         \cup {Call("rex", n, <<>>) : n \in 1..MaxN}
         \cup {Call("ru", m, d) : m \in 1..MaxN, d \in Delims}
         \cup (IF fed < MaxFeed THEN {Call("feed", 0, x) : x \in Feeds} ELSE {})
         \cup (IF st.closed THEN {} ELSE {Call("close", 0, <<>>)})

Abs(s) == [buf |-> s.buf, rest |-> Flatten(s.cs), closed |-> s.closed]

Init == /\ \E kind \in Kinds, data \in Datas :
             \E cs \in Chunkings(data) : st = St(kind, <<>>, cs, FALSE)
        /\ fed = 0
        /\ bad = {}
        /\ tracks = TRUE

\* (bound variables instead of LET: TLC evaluates a LET body again at every use)
Next ==
  \E c \in Calls :
    \E r \in {Step(st, c)} :
      \E np \in {Pulled(st, c, r)} :
        \E e \in {[op |-> c.op, n |-> c.n, d |-> c.d, k |-> r.k, v |-> r.v, buf |-> r.st.buf,
                   pulled |-> np]} :
          \E a \in {ByteApply(Abs(st), e)} :
            /\ st' = r.st
            /\ fed' = IF c.op = "feed" THEN fed + 1 ELSE fed
            /\ bad' = a.bad
            /\ tracks' = (a.p = Abs(r.st))
            /\ Emit => PrintT(<<"@@B", ToJson([kind |-> st.kind, buf |-> st.buf, cs |-> st.cs,
                                                closed |-> st.closed, op |-> c.op, n |-> c.n,
                                                d |-> c.d, k |-> r.k, v |-> r.v,
                                                nbuf |-> r.st.buf, pulled |-> np])>>)

Spec == Init /\ [][Next]_<<st, fed, bad, tracks>>

PropertyHolds == bad = {}
ObserverTracks == tracks
TypeOK == /\ st.kind \in Kinds
          /\ st.closed \in BOOLEAN
          /\ \A i \in 1..Len(st.cs) : st.cs[i] # <<>>
=============================================================================
