--------------------------- MODULE CheckpointSpec ---------------------------
(***************************************************************************)
(* C08 - checkpoint discipline.                                            *)
(*                                                                         *)
(* Every potentially blocking operation of anyio is written down as its    *)
(* sequence of SEGMENTS (DESIGN.md, Appendix A), for the object states q   *)
(* in which it can complete without waiting:                               *)
(*                                                                         *)
(*   "cic"  checkpoint_if_cancelled: yields (and is then cancelled) iff    *)
(*          the caller is effectively cancelled, otherwise does nothing    *)
(*   "Y"    checkpoint() / sleep(0): one yield; raises the cancellation    *)
(*          exception iff the caller is effectively cancelled              *)
(*   "csc"  cancel_shielded_checkpoint: one yield, never cancelled         *)
(*   "F"    wait on a future that the environment resolves (worker thread) *)
(*   "E"    the effect the statement speaks about happens here (lock       *)
(*          taken, permit / token taken, item sent / consumed, waiter      *)
(*          registered and lock released, thread function started)         *)
(*   "T+" / "T-"  the limiter token of to_thread.run_sync taken / returned *)
(*   "X"    the call ends with its regular exception (EndOfStream,         *)
(*          TaskFailed ...) - recorded, the statement is silent            *)
(*   "W"    a real wait (never reached in this matrix)                     *)
(*                                                                         *)
(* A CELL is a row of that table together with a scope configuration:      *)
(* which task runs the call (host), which cancel scopes the caller has     *)
(* entered (stack: cancelled? shielded?) and HOW the cancelled ones got    *)
(* cancelled before the call (how).  TLC walks every cell through its      *)
(* segments; the two clauses of the property are invariants of this table  *)
(* (InvCheckpointed, InvPreCancelled, InvOnlyExemption ...), and the       *)
(* observable outcome of each cell is printed as                           *)
(*      @@X {cell ..., "exp": {outcome, yielded, ny, effect}}              *)
(* The harness executes EVERY printed cell on the real library and lets    *)
(* TLC judge the recorded observations with P_Checkpoint (T_Checkpoint).   *)
(*                                                                         *)
(* itertools: _IterableAsyncIterator.__anext__ is  cic; next(); csc  (a    *)
(* "pull"); every function is described by the number of pulls from its    *)
(* sources (sp: they only yield when the source is synchronous), pulls     *)
(* from internal stdlib iterators (ip), own cic/csc pairs (own) and        *)
(* trailing checkpoint() calls (ys: the "if not element_yielded" tails).   *)
(***************************************************************************)
EXTENDS P_Checkpoint, Integers, TLC, Json

CONSTANTS Tier,     \* "quick" | "thorough": which scope configurations / inputs are enumerated
          Table,    \* "pinned", or the name of a deliberately wrong table (see Broken): TLC must then
                    \* report an invariant violation - shows that the invariants are not vacuous
          Ops,      \* the operations (field op) this run enumerates: the harness splits the matrix
          Fns       \* over several TLC runs; Fns: the anyio.itertools functions this run enumerates

---------------------------------------------------------------------------
\* small arithmetic

Min(a, b) == IF a < b THEN a ELSE b
Max(a, b) == IF a > b THEN a ELSE b

RECURSIVE Choose(_, _)
Choose(n, r) == IF r = 0 THEN 1 ELSE IF n = 0 THEN 0 ELSE Choose(n - 1, r - 1) + Choose(n - 1, r)
RECURSIVE Perm(_, _)
Perm(n, r) == IF r = 0 THEN 1 ELSE IF r > n THEN 0 ELSE n * Perm(n - 1, r - 1)
MultiChoose(n, r) == IF r = 0 THEN 1 ELSE IF n = 0 THEN 0 ELSE Choose(n + r - 1, r)
RECURSIVE Pow(_, _)
Pow(b, e) == IF e = 0 THEN 1 ELSE b * Pow(b, e - 1)
RECURSIVE SumLen1(_)                  \* sum of (length + 1) over a sequence of sequences
SumLen1(ss) == IF ss = <<>> THEN 0 ELSE Len(Head(ss)) + 1 + SumLen1(Tail(ss))
RECURSIVE ProdLen(_)
ProdLen(ss) == IF ss = <<>> THEN 1 ELSE Len(Head(ss)) * ProdLen(Tail(ss))
AllEmpty(ss) == \A i \in DOMAIN ss : ss[i] = <<>>
RECURSIVE Rep(_, _)
Rep(s, k) == IF k <= 0 THEN <<>> ELSE s \o Rep(s, k - 1)

---------------------------------------------------------------------------
\* the table

Row(op, q, fast, enforce, dom, a, segs) ==
  [op |-> op, q |-> q, fast |-> fast, enforce |-> enforce, dom |-> dom, a |-> a, segs |-> segs]

NoArg == [z |-> 0]
Y1 == <<"Y">>
Impls == {"native", "adapter"}       \* created inside the running loop / before it (adapter classes)
Acq(fast) == IF fast = 1 THEN <<"cic", "E">> ELSE <<"cic", "E", "csc">>

SleepRows ==
  {Row("sleep", d, 0, "both", "any", NoArg, Y1) : d \in {"0", "0.0", "-0.0", "-1", "-0.5"}}
  \cup {Row("sleep_until", w, 0, "both", "any", NoArg, Y1) : w \in {"past", "now"}}
  \cup {Row("checkpoint", "-", 0, "both", "any", NoArg, Y1)}

EventRows == {Row("event_wait", "set", 0, "both", "any", [impl |-> i], Y1) : i \in Impls}

LockRows ==
  {Row("lock_acquire", "free", f, "both", "any", [impl |-> i, via |-> v], Acq(f)) :
     f \in {0, 1}, i \in Impls, v \in {"acquire", "aenter"}}

\* pinned behaviour: SemaphoreAdapter (a Semaphore created outside an event loop) does not pass
\* fast_acquire on to the backend semaphore, so it always takes the slow path (it yields)
SemRows ==
  {Row("sem_acquire", "avail", f, "both", "any", [impl |-> i, via |-> v, init |-> n],
       Acq(IF i = "adapter" THEN 0 ELSE f)) :
     f \in {0, 1}, i \in Impls, v \in {"acquire", "aenter"}, n \in {1, 2}}

\* total tokens / tokens already borrowed by somebody else
LimRows ==
  {Row("lim_acquire", "avail", 0, "both", "any", [impl |-> i, via |-> v, total |-> t[1], used |-> t[2]],
       <<"cic", "E", "csc">>) :
     i \in Impls, v \in {"acquire", "aenter", "behalf"}, t \in {<<1, 0>>, <<2, 1>>, <<99, 0>>}}

\* fast = 1: Condition(Lock(fast_acquire=True))
CondRows ==
  {Row("cond_acquire", "free", f, "both", "any", [via |-> v], Acq(f)) : f \in {0, 1}, v \in {"acquire", "aenter"}}

\* Condition.wait holding the lock; "held_contended": another task is queued for the lock, so a lock
\* that is let go even for a moment is observably handed over.  Only in cancelled scopes (dom "canc").
CondWaitRows ==
  {Row("cond_wait", q, 0, "both", "canc", [lockfast |-> f], <<"cic", "E", "W">>) :
     q \in {"held", "held_contended"}, f \in {0, 1}}

\* buf: max_buffer_size (99 = math.inf), pre: items already buffered
SendRows ==
  {Row("send", "room", 0, "both", "any", [buf |-> b[1], pre |-> b[2]], <<"Y", "E">>) :
     b \in {<<1, 0>>, <<2, 1>>, <<99, 0>>, <<99, 2>>}}
  \cup {Row("send", "receiver", 0, "both", "any", [buf |-> b, pre |-> 0], <<"Y", "E">>) : b \in {0, 1}}
  \cup {Row("send", q, 0, "none", "any", [buf |-> 1, pre |-> 0], <<"Y", "X">>) : q \in {"broken", "closed"}}

RecvRows ==
  {Row("receive", "item", 0, "both", "any", [buf |-> b[1], pre |-> b[2]], <<"Y", "E">>) :
     b \in {<<1, 1>>, <<2, 2>>, <<99, 1>>}}
  \cup {Row("receive", "sender", 0, "both", "any", [buf |-> 0, pre |-> 0], <<"Y", "E">>)}
  \cup {Row("receive", "item_sender", 0, "both", "any", [buf |-> 1, pre |-> 1], <<"Y", "E">>)}
  \cup {Row("receive", "item_closed", 0, "both", "any", [buf |-> 2, pre |-> 1], <<"Y", "E">>)}
  \cup {Row("receive", q, 0, "none", "any", [buf |-> 1, pre |-> 0], <<"Y", "X">>) : q \in {"eos", "closed"}}

\* q: no idle worker thread exists / one does; lim: default limiter / limiter argument
ThreadRows ==
  {Row("run_sync", q, 0, "both", "any", [lim |-> l, abandon |-> ab],
       <<"Y", "cic", "T+", "csc", "E", "F", "T-">>) :
     q \in {"fresh", "idle"}, l \in {"default", "own"}, ab \in {0, 1}}

HandleRows ==
  {Row("handle_wait", st, 0, "both", "any", NoArg, Y1) : st \in {"finished", "failed", "cancelled"}}
  \cup {Row("handle_await", "finished", 0, "both", "any", NoArg, Y1)}
  \cup {Row("handle_await", st, 0, "none", "any", NoArg, <<"Y", "X">>) : st \in {"failed", "cancelled"}}

FutureRows ==
  {Row("future_wait", st, 0, "both", "any", [impl |-> i], Y1) :
     st \in {"finished", "failed", "cancelled"}, i \in Impls}
  \cup {Row("future_await", "finished", 0, "both", "any", [impl |-> i], Y1) : i \in Impls}
  \cup {Row("future_await", st, 0, "none", "any", [impl |-> i], <<"Y", "X">>) :
          st \in {"failed", "cancelled"}, i \in Impls}

\* inputs on which the callback is never called
ReduceRows ==
  {Row("reduce", q, 0, "both", "any", [src |-> k], Y1) :
     q \in {"empty_init", "single"}, k \in {"list", "gen", "anoyield"}}

\* the statement's table does not list the task group: only "the block passes a checkpoint"
GroupRows ==
  {Row("tg_exit", q, 0, "yield", "any", NoArg, <<"csc">>) : q \in {"empty", "children_done"}}

---------------------------------------------------------------------------
\* itertools

Pull == <<"cic", "csc">>
SyncKinds  == IF Tier = "quick" THEN {"list", "gen"} ELSE {"list", "gen", "tuple", "iter"}
AsyncKinds == IF Tier = "quick" THEN {"anoyield"} ELSE {"anoyield", "agen"}
Kinds == SyncKinds \cup AsyncKinds
IsSync(k) == k \in {"list", "gen", "tuple", "iter", "none"}

Ss == IF Tier = "quick" THEN {<<>>, <<1>>, <<1, 0, 2>>}
      ELSE {<<>>, <<1>>, <<0>>, <<1, 0, 2>>, <<2, 2>>, <<0, 0, 0>>, <<1, 2, 3, 4>>}
SSs == {<<>>} \cup {<<s>> : s \in Ss} \cup {<<s, <<>>>> : s \in Ss} \cup {<<<<>>, s>> : s \in Ss}
       \cup (IF Tier = "quick" THEN {} ELSE {<<s, t>> : s, t \in {<<1>>, <<1, 0, 2>>}})

Preds == {"true", "false", "pos"}
Pred(p, x) == CASE p = "true" -> TRUE [] p = "false" -> FALSE [] p = "pos" -> x > 0
B(b) == IF b THEN 1 ELSE 0

ItSegs(kind, sp, ip, own, ys) ==
  Rep(Pull, (IF IsSync(kind) THEN sp ELSE 0) + ip + own) \o Rep(<<"Y">>, ys)

\* fin: a full traversal exists (the statement covers it); otherwise a prefix of k elements is consumed
It(fn, a, kind, sp, ip, own, ys, fin) ==
  Row("iter", fn, 0, IF fin THEN "yield" ELSE "none", "any", a, ItSegs(kind, sp, ip, own, ys))

\* islice arguments: -1 stands for None
IStart(args) == IF Len(args) = 1 THEN 0 ELSE IF args[1] = -1 THEN 0 ELSE args[1]
IStop(args)  == IF Len(args) = 1 THEN args[1] ELSE args[2]
IStep(args)  == IF Len(args) = 3 THEN (IF args[3] = -1 THEN 1 ELSE args[3]) ELSE 1
ITrivial(args) == IStop(args) = 0 \/ IStart(args) = IStop(args)
IPulls(n, args) == IF IStop(args) = -1 \/ n < IStop(args) THEN n + 1 ELSE IStop(args)
IEmpty(n, args) ==
  LET hi == IF IStop(args) = -1 THEN n ELSE Min(n, IStop(args))
  IN ~ \E i \in 0..(hi - 1) : i >= IStart(args) /\ (i - IStart(args)) % IStep(args) = 0
IsliceArgs == {<<0>>, <<2>>, <<-1>>, <<5>>, <<1, 1>>, <<1, 3>>, <<3, -1>>, <<0, 5, 2>>, <<-1, -1, -1>>}

FirstFalse(p, s) == IF \E i \in DOMAIN s : ~Pred(p, s[i])
                    THEN CHOOSE i \in DOMAIN s : ~Pred(p, s[i]) /\ \A j \in 1..(i - 1) : Pred(p, s[j])
                    ELSE 0

RowsOfFn(fn) ==
  CASE fn = "accumulate" ->
         \* accumulate(s, initial=init)   (init = -1: no initial)
         {It("accumulate", [s |-> s, init |-> i, kind |-> k, emp |-> B(i = -1 /\ s = <<>>)], k,
            Len(s) + 1, 0, B(i # -1), B(i = -1 /\ s = <<>>), TRUE) : s \in Ss, i \in {-1, 5, 0}, k \in Kinds}
    [] fn = "batched" ->
         \* the trailing checkpoint runs whenever the LAST batch is empty (length divisible by n)
         {It("batched", [s |-> s, n |-> n, kind |-> k, emp |-> B(s = <<>>)], k,
            Len(s) + 1, 0, 0, B(Len(s) % n = 0), TRUE) : s \in Ss, n \in {1, 2}, k \in Kinds}
    [] fn = "chain" ->
         \* chain(*ss): the outer tuple is synchronous; the inner iterables are of the given kind
         {It("chain", [ss |-> ss, kind |-> k, emp |-> B(AllEmpty(ss))], k,
            SumLen1(ss), Len(ss) + 1, 0, B(AllEmpty(ss)), TRUE) : ss \in SSs, k \in Kinds}
    [] fn = "chain_from_iterable" ->
         \* chain.from_iterable(ss): the outer iterable is of the given kind, the inner ones are lists
         {It("chain_from_iterable", [ss |-> ss, kind |-> k, emp |-> B(AllEmpty(ss))], k,
            Len(ss) + 1, SumLen1(ss), 0, B(AllEmpty(ss)), TRUE) : ss \in SSs, k \in Kinds}
    [] fn = "combinations" ->
         {It("combinations", [s |-> s, r |-> r, kind |-> k, emp |-> B(Choose(Len(s), r) = 0)], k,
            Len(s) + 1, Choose(Len(s), r) + 1, 0, 0, TRUE) : s \in Ss, r \in 0..2, k \in Kinds}
    [] fn = "combinations_with_replacement" ->
         {It("combinations_with_replacement", [s |-> s, r |-> r, kind |-> k, emp |-> B(MultiChoose(Len(s), r) = 0)], k,
            Len(s) + 1, MultiChoose(Len(s), r) + 1, 0, 0, TRUE) : s \in Ss, r \in 0..2, k \in Kinds}
    [] fn = "compress" ->
         {LET nd == Len(s)
            ns == Len(sel)
            none == ~ \E i \in 1..Min(nd, ns) : sel[i] # 0
            IN It("compress", [s |-> s, sel |-> sel, kind |-> k, emp |-> B(none)], k,
            IF nd <= ns THEN 2 * nd + 1 ELSE 2 * ns + 2, 0, 0, B(none), TRUE) :
            s \in Ss, sel \in {<<>>, <<1>>, <<0>>, <<0, 0, 0>>, <<1, 0, 1>>}, k \in Kinds}
    [] fn = "count" ->
         {It("count", [start |-> st, step |-> d, k |-> n, kind |-> "none", emp |-> 0], "none",
            0, 0, n, 0, FALSE) : st \in {0, 3}, d \in {1, 0}, n \in {1, 3}}
    [] fn = "cycle" ->
         {IF s = <<>>
            THEN It("cycle", [s |-> s, k |-> 0, kind |-> k, emp |-> 1], k, 1, 0, 0, 1, TRUE)
            ELSE It("cycle", [s |-> s, k |-> n, kind |-> k, emp |-> 0], k,
            Min(n, Len(s)) + B(n > Len(s)), 0, 0, Max(n - Len(s), 0), FALSE) :
            s \in Ss, n \in {1, 7}, k \in Kinds}
    [] fn = "dropwhile" ->
         {LET all == \A i \in DOMAIN s : Pred(p, s[i])
            IN It("dropwhile", [p |-> p, s |-> s, kind |-> k, emp |-> B(all)], k,
            Len(s) + 1, 0, 0, B(all), TRUE) : p \in Preds, s \in Ss, k \in Kinds}
    [] fn = "filterfalse" ->
         {LET all == \A i \in DOMAIN s : Pred(p, s[i])
            IN It("filterfalse", [p |-> p, s |-> s, kind |-> k, emp |-> B(all)], k,
            Len(s) + 1, 0, 0, B(all), TRUE) : p \in Preds, s \in Ss, k \in Kinds}
    [] fn = "groupby" ->
         {It("groupby", [s |-> s, key |-> ky, kind |-> k, emp |-> B(s = <<>>)], k,
            Len(s) + 1, 0, 0, B(s = <<>>), TRUE) : s \in Ss, ky \in {"none", "mod2"}, k \in Kinds}
    [] fn = "islice" ->
         {IF ITrivial(args)
            THEN It("islice", [s |-> s, args |-> args, kind |-> k, emp |-> 1], k, 0, 0, 0, 1, TRUE)
            ELSE It("islice", [s |-> s, args |-> args, kind |-> k, emp |-> B(IEmpty(Len(s), args))], k,
            IPulls(Len(s), args), 0, 0, B(IEmpty(Len(s), args)), TRUE) :
            s \in Ss, args \in IsliceArgs, k \in Kinds}
    [] fn = "pairwise" ->
         {It("pairwise", [s |-> s, kind |-> k, emp |-> B(Len(s) < 2)], k,
            Len(s) + 1, 0, 0, B(Len(s) < 2), TRUE) : s \in Ss, k \in Kinds}
    [] fn = "permutations" ->
         \* r = -1: r omitted
         {LET rr == IF r = -1 THEN Len(s) ELSE r
            IN It("permutations", [s |-> s, r |-> r, kind |-> k, emp |-> B(Perm(Len(s), rr) = 0)], k,
            Len(s) + 1, Perm(Len(s), rr) + 1, 0, 0, TRUE) : s \in Ss, r \in -1..2, k \in Kinds}
    [] fn = "product" ->
         {LET cnt == Pow(ProdLen(ss), rep)
            IN It("product", [ss |-> ss, rep |-> rep, kind |-> k, emp |-> B(cnt = 0)], k,
            SumLen1(ss), cnt + 1, 0, 0, TRUE) : ss \in SSs, rep \in 0..2, k \in Kinds}
    [] fn = "repeat" ->
         \* repeat(x, times)  (tnone = 1: times omitted, infinite: a prefix of k elements)
         ({It("repeat", [x |-> 7, times |-> 0, tnone |-> 1, k |-> 2, kind |-> "none", emp |-> 0], "none",
            0, 0, 0, 2, FALSE)}) \cup
         ({It("repeat", [x |-> 7, times |-> t, tnone |-> 0, k |-> 0, kind |-> "none", emp |-> B(t <= 0)], "none",
            0, 0, Max(t, 0), B(t <= 0), TRUE) : t \in {-2, 0, 1, 3}})
    [] fn = "starmap" ->
         \* starmap(f, ss): outer iterable of the given kind, argument iterables are lists
         {It("starmap", [ss |-> ss, kind |-> k, emp |-> B(ss = <<>>)], k,
            Len(ss) + 1, SumLen1(ss), 0, B(ss = <<>>), TRUE) :
            ss \in {<<>>, <<<<>>>>, <<<<1>>>>, <<<<1, 2>>, <<>>, <<3>>>>}, k \in Kinds}
    [] fn = "tee" ->
         \* tee(s, n): consumer `which` is traversed fully; after = 1: another consumer was traversed
         \* before, so every link is filled (no lock, no pull: cic ... csc per element)
         {IF af = 0
            THEN It("tee", [s |-> s, n |-> n, which |-> w, after |-> 0, kind |-> k, emp |-> B(s = <<>>)], k,
            Len(s) + 1, 0, Len(s) + 1, B(s = <<>>), TRUE)
            ELSE It("tee", [s |-> s, n |-> n, which |-> w, after |-> 1, kind |-> k, emp |-> B(s = <<>>)], "none",
            0, 0, Len(s), B(s = <<>>), TRUE) :
            s \in Ss, n \in {1, 2, 3}, w \in {1, 2}, af \in {0, 1}, k \in Kinds}
    [] fn = "takewhile" ->
         {LET f == FirstFalse(p, s)
            e == s = <<>> \/ f = 1
            IN It("takewhile", [p |-> p, s |-> s, kind |-> k, emp |-> B(e)], k,
            IF f = 0 THEN Len(s) + 1 ELSE f, 0, 0, B(e), TRUE) : p \in Preds, s \in Ss, k \in Kinds}
    [] fn = "zip_longest" ->
         {IF ss = <<>>
            THEN It("zip_longest", [ss |-> ss, kind |-> k, emp |-> 1], k, 0, 0, 0, 1, TRUE)
            ELSE It("zip_longest", [ss |-> ss, kind |-> k, emp |-> B(AllEmpty(ss))], k,
            SumLen1(ss), 0, 0, B(AllEmpty(ss)), TRUE) : ss \in SSs, k \in Kinds}

AllFns == {"accumulate", "batched", "chain", "chain_from_iterable", "combinations",
           "combinations_with_replacement", "compress", "count", "cycle", "dropwhile", "filterfalse",
           "groupby", "islice", "pairwise", "permutations", "product", "repeat", "starmap", "tee",
           "takewhile", "zip_longest"}
ASSUME Fns \subseteq AllFns

AllIterRows == UNION {RowsOfFn(fn) : fn \in Fns}

\* asynchronous sources are only covered by the statement when the traversal yields nothing;
\* tee: consumer `which` must exist, and "after" needs a second consumer
IterRows ==
  {r \in AllIterRows :
     /\ IsSync(r.a.kind) \/ r.a.emp = 1
     /\ r.q = "tee" => (r.a.which <= r.a.n /\ (r.a.after = 1 => r.a.n >= 2))}

AllOpRows == SleepRows \cup EventRows \cup LockRows \cup SemRows \cup LimRows \cup CondRows \cup CondWaitRows
          \cup SendRows \cup RecvRows \cup ThreadRows \cup HandleRows \cup FutureRows \cup ReduceRows
          \cup GroupRows
OpRows == {r \in AllOpRows : r.op \in Ops}

\* deliberately wrong tables (Table # "pinned"): the invariants below must reject them
Broken(r) ==
  CASE Table = "send_effect_first" /\ r.op = "send" /\ r.q = "room"   -> [r EXCEPT !.segs = <<"E", "Y">>]
    [] Table = "event_set_returns"  /\ r.op = "event_wait"             -> [r EXCEPT !.segs = <<>>]
    [] Table = "lock_take_first"    /\ r.op = "lock_acquire"           -> [r EXCEPT !.segs = <<"E", "cic", "csc">>]
    [] Table = "limiter_fast"       /\ r.op = "lim_acquire"            -> [r EXCEPT !.segs = <<"cic", "E">>]
    [] Table = "tail_lost"          /\ r.op = "iter" /\ r.q = "filterfalse" ->
                                        [r EXCEPT !.segs = SelectSeq(@, LAMBDA x : x # "Y")]
    [] OTHER -> r

---------------------------------------------------------------------------
\* scope configurations

S0 == [c |-> 0, s |-> 0]     \* plain scope
SC == [c |-> 1, s |-> 0]     \* cancelled
SS == [c |-> 0, s |-> 1]     \* shielded
SB == [c |-> 1, s |-> 1]     \* cancelled and shielded
AllSc == {S0, SC, SS, SB}
Stacks(n) == UNION {[1..k -> AllSc] : k \in 0..n}
AnyC(st) == \E i \in DOMAIN st : st[i].c = 1

Hosts == {"root", "task", "child", "gchild", "hchild"}
\* how the cancelled scopes of the stack got cancelled before the call:
\*  call: scope.cancel() by the caller right before the call;  pre: cancelled before it was entered;
\*  deadline: created with a deadline in the past;  caught: cancelled, an earlier checkpoint raised and
\*  the caller swallowed it;  peer: cancelled by another task while the caller waited shielded
Hows == {"call", "pre", "deadline", "caught", "peer"}

Cfg(h, w, st) == [host |-> h, how |-> w, stack |-> st]

QuickCfgs ==
  {Cfg("task", "call", st) : st \in Stacks(2)}
  \cup {Cfg(h, "call", st) : h \in Hosts, st \in {<<>>, <<S0>>, <<SS>>, <<SC>>}}
  \cup {Cfg("task", w, st) : w \in Hows, st \in {<<SC>>, <<SC, S0>>, <<SC, SS>>, <<SB>>, <<SS, SC>>}}

ThoroughCfgs ==
  {Cfg(h, w, st) : h \in Hosts, w \in Hows, st \in Stacks(2)}
  \cup {Cfg("task", w, st) : w \in {"call", "caught"}, st \in Stacks(3)}

\* cancellation is not what the statement says about traversals: few configurations
IterCfgs ==
  {Cfg("root", "call", <<>>), Cfg("task", "call", <<S0>>), Cfg("child", "call", <<>>),
   Cfg("task", "call", <<SC, SS>>), Cfg("task", "call", <<SC>>), Cfg("gchild", "call", <<>>)}
  \cup (IF Tier = "quick" THEN {}
        ELSE {Cfg(h, "call", st) : h \in {"root", "task", "child"}, st \in {<<>>, <<S0>>, <<SC, SS>>}}
             \cup {Cfg("task", w, <<SC, S0>>) : w \in Hows})

OkCfg(c) == AnyC(c.stack) \/ c.how = "call"       \* `how` only matters when something is cancelled
OpCfgs == {c \in (IF Tier = "quick" THEN QuickCfgs ELSE ThoroughCfgs) : OkCfg(c)}

MkCell(r, c) == [op |-> r.op, q |-> r.q, fast |-> r.fast, enforce |-> r.enforce, a |-> r.a,
                 segs |-> r.segs, host |-> c.host, how |-> c.how, stack |-> c.stack]

CellsOf(rows, cfgs) ==
  UNION {{MkCell(Broken(r), c) :
            c \in {x \in cfgs : r.dom = "canc" => Eff(FullStack(x.host, x.stack))}} : r \in rows}

Cells == CellsOf(OpRows, OpCfgs) \cup CellsOf(IterRows, {c \in IterCfgs : OkCfg(c)})

---------------------------------------------------------------------------
\* walking a cell through its segments

VARIABLES cell, pc, yields, effs, outcome
vars == <<cell, pc, yields, effs, outcome>>

Canc == CellCancelled(cell)

Exp(o, y, e) ==
  [outcome |-> o, yielded |-> B(y > 0),
   ny |-> IF \E i \in DOMAIN cell.segs : cell.segs[i] = "F" THEN -1 ELSE y,
   effect |-> IF e = {} THEN "none" ELSE "done"]

Emit(o, y, e) == PrintT(<<"@@X", ToJson([c |-> cell, exp |-> Exp(o, y, e)])>>)

Init == /\ cell \in Cells
        /\ pc = 1 /\ yields = 0 /\ effs = {} /\ outcome = "run"

Advance(dy, e) == /\ pc' = pc + 1 /\ yields' = yields + dy /\ effs' = e
                  /\ UNCHANGED <<cell, outcome>>

Finish(o, dy) == /\ outcome' = o /\ yields' = yields + dy
                 /\ UNCHANGED <<cell, pc, effs>>
                 /\ Emit(o, yields + dy, effs)

\* the cancellation exception is delivered by one trip through the loop
Raise == Finish("cancelled", 1)

Next ==
  /\ outcome = "run"
  /\ IF pc > Len(cell.segs) THEN Finish("return", 0)
     ELSE LET s == cell.segs[pc] IN
       CASE s = "cic" -> IF Canc THEN Raise ELSE Advance(0, effs)
         [] s = "Y"   -> IF Canc THEN Raise ELSE Advance(1, effs)
         [] s = "csc" -> Advance(1, effs)
         [] s = "F"   -> Advance(1, effs)
         [] s = "E"   -> Advance(0, effs \cup {"main"})
         [] s = "T+"  -> Advance(0, effs \cup {"token"})
         [] s = "T-"  -> Advance(0, effs \ {"token"})
         [] s = "X"   -> Finish("error", 0)
         [] s = "W"   -> Finish("blocked", 0)

Spec == Init /\ [][Next]_vars

---------------------------------------------------------------------------
\* the property, as invariants of the table

Done == outcome # "run"

InvCheckpointed ==
  (outcome = "return" /\ cell.enforce # "none" /\ ~Exempt(cell)) => yields >= 1

\* nothing the statement calls an effect ever happens in an effectively cancelled caller, at any
\* point of the call, and the call ends with the cancellation exception
InvPreCancelled ==
  (Canc /\ cell.enforce = "both") => (effs = {} /\ (Done => outcome = "cancelled"))

InvOnlyExemption ==
  /\ cell.fast = 1 => cell.op \in FastOps
  /\ (outcome = "return" /\ yields = 0 /\ cell.enforce # "none") => (Exempt(cell) /\ ~Canc)

\* a shielded scope inside a cancelled one behaves as clean; every cell completes without waiting
InvShieldedIsClean == (Done /\ ~Canc) => outcome \in {"return", "error"}
InvCompletes == outcome # "blocked"

\* what the model expects passes the observer that judges the real code
InvObserver ==
  Done => CkApply(CkP0([cell |-> cell]),
                  [cfg |-> "model", outcome |-> outcome, yielded |-> B(yields > 0),
                   before |-> {}, after |-> effs]).bad = {}
=============================================================================
