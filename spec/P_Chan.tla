------------------------------- MODULE P_Chan -------------------------------
(***************************************************************************)
(* Property-level observer for memory object streams (C12 delivery, C13    *)
(* closing).  Items are integers (10 * sending task + sequence number;     *)
(* task 0 = a synchronous callback outside any task).                      *)
(*                                                                         *)
(* Events (obs = public statistics(): buf, os, or, ws, wr):                *)
(*  [ev="start", t, op, h, item]            op in send|recv                *)
(*  [ev="end",   t, op, h, res, item, obs]  res: ok|cancelled|closed|      *)
(*                                          broken|eos                     *)
(*  [ev="nowait",t, op, h, res, item, obs]  res: ok|wouldblock|closed|     *)
(*                                          broken|eos                     *)
(*  [ev="close", side, h, obs]  [ev="clone", side, h, nh, res, obs]        *)
(*  [ev="creq", t]  [ev="quiescent", obs]                                  *)
(*                                                                         *)
(* What is deliberately NOT demanded (rule P-permissive): an item whose    *)
(* send was interrupted may or may not be delivered (at most once);        *)
(* ordering clauses apply only to parties that were certainly blocked      *)
(* (in progress across a quiescent point) and never to a party that may    *)
(* have an item in transit (handed over, wake-up pending).                 *)
(***************************************************************************)
EXTENDS Naturals, Sequences, FiniteSets

ChanP0(maxbuf, nsend, nrecv) ==
  [maxbuf |-> maxbuf,
   hs |-> [side \in {"S", "R"} |->
             [h \in 1..4 |-> IF h <= (IF side = "S" THEN nsend ELSE nrecv) THEN "open" ELSE "none"]],
   acc |-> {},          \* items whose send()/send_nowait() completed successfully
   maybe |-> {},        \* items of sends that were interrupted: may have been taken, at most once
   dlv |-> <<>>,        \* delivered items in order of the completion of the receiving call
   sending |-> <<>>,    \* in-progress send() calls: [t, item, n (event index of the call), settled]
   recving |-> <<>>,    \* in-progress receive() calls: [t, n, settled, closedAtStart]
   n |-> 0,             \* event counter
   creq |-> {},
   native |-> {},       \* tasks cancelled natively (Task.cancel(), not through a cancel scope)
   natlost |-> 0]       \* receive() calls of natively cancelled tasks that ended in cancellation

KNames(r) == {x \in DOMAIN r : ~r[x]}
KSet(s) == {s[i] : i \in DOMAIN s}
KOpen(p, side) == Cardinality({h \in 1..4 : p.hs[side][h] = "open"})
KSender(item) == item \div 10
KDlv(p) == {p.dlv[i].item : i \in DOMAIN p.dlv}
KUndelivered(p) == p.acc \ KDlv(p)
KRemoveT(s, t) == SelectSeq(s, LAMBDA x : x.t # t)
KFind(s, t) == CHOOSE x \in KSet(s) : x.t = t
KHas(s, t) == \E x \in KSet(s) : x.t = t

\* clauses about the reported statistics, evaluated on every observation
KObs(p, e) ==
  [Bounded |-> e.buf <= p.maxbuf,
   OpenSendCountTrue |-> e.os = KOpen(p, "S"),
   OpenReceiveCountTrue |-> e.or = KOpen(p, "R"),
   WaitingCountsTrue |-> e.ws <= Len(p.sending) /\ e.wr <= Len(p.recving)]

\* a receive call (blocking or not) returned item x to task t; startn = event index of the call
KDeliver(p, e, t, startn) ==
  LET x == e.item
      pendingItems == {s.item : s \in KSet(p.sending)}
      \* a later item of the same sender was delivered before this call even started: x cannot have
      \* been in transit then, so the two items were reordered
      sameSenderLater == {i \in DOMAIN p.dlv : KSender(p.dlv[i].item) = KSender(x) /\ p.dlv[i].item > x
                                                /\ p.dlv[i].n < startn}
      \* receivers certainly blocked before this call started, still waiting, not being cancelled
      others == {r \in KSet(p.recving) : r.t # t}
      overtakenR == {r \in others : r.settled /\ r.n < startn /\ r.t \notin p.creq}
      \* senders certainly blocked before the sender of x called, whose item is still undelivered
      sx == IF \E s \in KSet(p.sending) : s.item = x THEN (CHOOSE s \in KSet(p.sending) : s.item = x).n
            ELSE p.n + 1
      overtakenS == {s \in KSet(p.sending) : s.settled /\ s.n < sx /\ s.item # x
                                              /\ s.item \notin KDlv(p) /\ s.t \notin p.creq}
  IN [NoInvention |-> x \in p.acc \cup p.maybe \cup pendingItems,
      NoDuplicate |-> x \notin KDlv(p),
      PerSenderOrder |-> sameSenderLater = {},
      \* FIFO service only when nobody can have an item in transit: every other receiver in
      \* progress is counted as waiting
      ReceiversServedInOrder |-> (e.wr = Cardinality(others)) => overtakenR = {},
      SendersServedInOrder |-> (e.ws = Cardinality({s \in KSet(p.sending) : s.item # x}))
                                  => overtakenS = {}]

ChanApply0(p0, e) ==
  LET p == [p0 EXCEPT !.n = @ + 1] IN
  CASE e.ev = "start" /\ e.op = "send" ->
         [p |-> [p EXCEPT !.sending = Append(@, [t |-> e.t, item |-> e.item, n |-> p.n, settled |-> FALSE,
                                                   h |-> e.h, closed0 |-> p.hs["S"][e.h] # "open"])],
          bad |-> {}]
    [] e.ev = "start" /\ e.op = "recv" ->
         [p |-> [p EXCEPT !.recving = Append(@, [t |-> e.t, item |-> 0, n |-> p.n, settled |-> FALSE,
                                                   h |-> e.h, closed0 |-> p.hs["R"][e.h] # "open"])],
          bad |-> {}]
    [] e.ev = "end" /\ e.op = "send" ->
         LET s == KFind(p.sending, e.t)
             p1 == [p EXCEPT !.sending = KRemoveT(@, e.t)]
             nowClosed == p.hs["S"][s.h] # "open" IN
         CASE e.res = "ok" ->
                [p |-> [p1 EXCEPT !.acc = @ \cup {s.item}],
                 bad |-> KNames([ClosedHandleRefused |-> ~s.closed0,
                                 NotBrokenWhenAccepted |-> TRUE]) \cup KNames(KObs(p1, e))]
           [] e.res = "cancelled" ->
                [p |-> [p1 EXCEPT !.maybe = @ \cup {s.item}],
                 bad |-> KNames([CancelWasRequested |-> e.t \in p.creq]) \cup KNames(KObs(p1, e))]
           [] e.res = "closed" ->
                [p |-> p1, bad |-> KNames([ClosedOnlyOnClosedHandle |-> nowClosed]) \cup KNames(KObs(p1, e))]
           [] e.res = "broken" ->
                \* the item is not accepted; it must not have been delivered either
                [p |-> p1,
                 bad |-> KNames([BrokenOnlyWhenAllReceiversClosed |-> KOpen(p, "R") = 0,
                                 BrokenItemNotDelivered |-> s.item \notin KDlv(p)])
                         \cup KNames(KObs(p1, e))]
           [] OTHER -> [p |-> p1, bad |-> {"UnexpectedSendOutcome"}]
    [] e.ev = "end" /\ e.op = "recv" ->
         LET r == KFind(p.recving, e.t)
             p1 == [p EXCEPT !.recving = KRemoveT(@, e.t)]
             nowClosed == p.hs["R"][r.h] # "open" IN
         CASE e.res = "ok" ->
                [p |-> [p1 EXCEPT !.dlv = Append(@, [item |-> e.item, n |-> p.n])],
                 bad |-> KNames(KDeliver(p, e, e.t, r.n)) \cup KNames([ClosedHandleRefused |-> ~r.closed0])
                         \cup KNames(KObs(p1, e))]
           [] e.res = "cancelled" ->
                [p |-> [p1 EXCEPT !.natlost = IF e.t \in p.native THEN @ + 1 ELSE @],
                 bad |-> KNames([CancelWasRequested |-> e.t \in p.creq]) \cup KNames(KObs(p1, e))]
           [] e.res = "closed" ->
                [p |-> p1, bad |-> KNames([ClosedOnlyOnClosedHandle |-> nowClosed]) \cup KNames(KObs(p1, e))]
           [] e.res = "eos" ->
                [p |-> p1,
                 bad |-> KNames([EndOfStreamOnlyWhenAllSendersClosed |-> KOpen(p, "S") = 0,
                                 EndOfStreamOnlyWhenDrained |-> e.buf = 0 /\ e.ws = 0])
                         \cup KNames(KObs(p1, e))]
           [] OTHER -> [p |-> p1, bad |-> {"UnexpectedReceiveOutcome"}]
    [] e.ev = "nowait" /\ e.op = "send" ->
         LET isOpen == p.hs["S"][e.h] = "open" IN
         CASE e.res = "ok" ->
                LET p1 == [p EXCEPT !.acc = @ \cup {e.item}] IN
                [p |-> p1, bad |-> KNames([ClosedHandleRefused |-> isOpen,
                                           BrokenWhenAllReceiversClosed |-> KOpen(p, "R") > 0])
                                   \cup KNames(KObs(p1, e))]
           [] e.res = "wouldblock" ->
                [p |-> p, bad |-> KNames([ClosedHandleRefused |-> isOpen]) \cup KNames(KObs(p, e))]
           [] e.res = "closed" ->
                [p |-> p, bad |-> KNames([ClosedOnlyOnClosedHandle |-> ~isOpen]) \cup KNames(KObs(p, e))]
           [] e.res = "broken" ->
                [p |-> p, bad |-> KNames([BrokenOnlyWhenAllReceiversClosed |-> KOpen(p, "R") = 0])
                                  \cup KNames(KObs(p, e))]
           [] OTHER -> [p |-> p, bad |-> {"UnexpectedSendOutcome"}]
    [] e.ev = "nowait" /\ e.op = "recv" ->
         LET isOpen == p.hs["R"][e.h] = "open" IN
         CASE e.res = "ok" ->
                LET p1 == [p EXCEPT !.dlv = Append(@, [item |-> e.item, n |-> p.n])] IN
                [p |-> p1, bad |-> KNames(KDeliver(p, e, e.t, p.n)) \cup KNames([ClosedHandleRefused |-> isOpen])
                                   \cup KNames(KObs(p1, e))]
           [] e.res = "wouldblock" ->
                \* refused although an accepted, undelivered item cannot be in transit to anybody
                [p |-> p,
                 bad |-> KNames([ClosedHandleRefused |-> isOpen,
                                 WouldBlockOnlyWhenNothingAvailable |->
                                     \* (items possibly dropped by known finding F6 are not "available")
                                     (Cardinality(KUndelivered(p)) > p.natlost /\ p.sending = <<>>)
                                        => p.recving # <<>>,
                                 EndOfStreamWhenAllSendersClosed |-> KOpen(p, "S") > 0])
                         \cup KNames(KObs(p, e))]
           [] e.res = "closed" ->
                [p |-> p, bad |-> KNames([ClosedOnlyOnClosedHandle |-> ~isOpen]) \cup KNames(KObs(p, e))]
           [] e.res = "eos" ->
                [p |-> p,
                 bad |-> KNames([EndOfStreamOnlyWhenAllSendersClosed |-> KOpen(p, "S") = 0,
                                 EndOfStreamOnlyWhenDrained |-> e.buf = 0 /\ e.ws = 0])
                         \cup KNames(KObs(p, e))]
           [] OTHER -> [p |-> p, bad |-> {"UnexpectedReceiveOutcome"}]
    [] e.ev = "close" ->
         LET p1 == [p EXCEPT !.hs[e.side][e.h] = IF @ = "open" THEN "closed" ELSE @] IN
         [p |-> p1, bad |-> KNames(KObs(p1, e))]
    [] e.ev = "clone" ->
         IF e.res = "ok"
         THEN LET p1 == [p EXCEPT !.hs[e.side][e.nh] = "open"] IN
              [p |-> p1, bad |-> KNames([ClosedHandleRefused |-> p.hs[e.side][e.h] = "open"])
                                 \cup KNames(KObs(p1, e))]
         ELSE [p |-> p, bad |-> KNames([ClosedOnlyOnClosedHandle |-> p.hs[e.side][e.h] # "open"])]
    [] e.ev = "creq" ->
         [p |-> [p EXCEPT !.creq = @ \cup {e.t}, !.native = IF e.kind = "native" THEN @ \cup {e.t} ELSE @],
          bad |-> {}]
    [] e.ev = "cdone" -> [p |-> [p EXCEPT !.creq = @ \ {e.t}], bad |-> {}]   \* t's scope absorbed the request; t carries on
    [] e.ev = "quiescent" ->
         \* the loop is idle: everybody still in progress is blocked, nothing is in transit
         LET lost == KUndelivered(p)
             missing == IF Cardinality(lost) > e.buf THEN Cardinality(lost) - e.buf ELSE 0
             \* Known finding F6: an item handed to a blocked receiver is dropped when that receiver is
             \* cancelled NATIVELY before its wake-up runs.  At most one item per such receive call.
             cl == [NothingLost |-> missing <= p.natlost,
                    ItemLostOnNativeCancelOfReceiver |-> missing = 0 \/ missing > p.natlost,
                    NothingInvented |-> e.buf <= Cardinality(lost) + Cardinality(p.maybe \ KDlv(p)),
                    ReceiversWokenWhenSendersClosed |-> KOpen(p, "S") = 0 => p.recving = <<>>,
                    SendersWokenWhenReceiversClosed |-> KOpen(p, "R") = 0 => p.sending = <<>>,
                    NoReceiverAsleepWithItemAvailable |->
                         (p.recving # <<>> /\ \A r \in KSet(p.recving) : ~r.closed0) => e.buf = 0,
                    NoSenderAsleepWithRoom |->
                         (p.sending # <<>> /\ \A s \in KSet(p.sending) : ~s.closed0) => e.buf >= p.maxbuf]
             p1 == [p EXCEPT !.sending = [i \in DOMAIN @ |-> [@[i] EXCEPT !.settled = TRUE]],
                             !.recving = [i \in DOMAIN @ |-> [@[i] EXCEPT !.settled = TRUE]]]
         IN [p |-> p1, bad |-> KNames(cl) \cup KNames(KObs(p, e))]
    [] OTHER -> [p |-> p, bad |-> {"UnknownEvent"}]

ChanApply(p, e) == ChanApply0(p, e)
=============================================================================
