-------------------------------- MODULE AioTee --------------------------------
(***************************************************************************)
(* Implementation-shaped model of anyio.itertools.tee                      *)
(* (src/anyio/itertools.py: _TeeLink, _TeeState.fill, _TeeAsyncIterator)   *)
(* with NC consumers, each running   async for v in its_iterator: ...      *)
(* as a task of its own.  A step of the model is one task step: consumer c *)
(* runs from one suspension point to the next.  ANY runnable consumer may  *)
(* take the next step (all interleavings; asyncio's FIFO order is one of   *)
(* them).                                                                  *)
(*                                                                         *)
(* Modelled state: the shared linked list (`cells`: the filled links, the  *)
(* tail link is unfilled), each iterator's link (`pos`), the lock of       *)
(* _TeeState with its FIFO hand-off (`owner`, `waitq`; anyio.Lock on       *)
(* asyncio), the source cursor.  Suspension points of one __anext__:       *)
(*   link filled (fill() returns False):                                   *)
(*       value: advance, cancel_shielded_checkpoint  -> "retval"           *)
(*       end, nothing yielded yet: checkpoint        -> "retend"           *)
(*   link not filled: Lock.acquire                                         *)
(*       free:  take it, checkpoint while owning     -> "acq"              *)
(*       held:  queue                                -> "wait" / "woken"   *)
(*     then under the lock: re-check `filled`; if still unfilled call the  *)
(*     source (D suspensions: 1 for a synchronous iterable wrapped by      *)
(*     _IterableAsyncIterator)                       -> "pull"             *)
(*     fill the link, append a new tail, release (hand-off), return the    *)
(*     value WITHOUT a further suspension (had_yieldpoint).                *)
(*                                                                         *)
(* The property-level observer P_Tee is ghost state: every step feeds the  *)
(* events it makes visible through TeeApply; PropertyHolds is pbad = {}.   *)
(***************************************************************************)
EXTENDS P_Tee, TLC, Json

CONSTANTS NC,      \* number of consumers (= n of tee)
          L,       \* length of the source
          D        \* suspensions of one source __anext__

Cons == 1..NC
Src  == [i \in 1..L |-> 10 + i]
End  == 0

St0 == [cells   |-> <<>>,                        \* values of the filled links (End closes the list)
        pos     |-> [c \in Cons |-> 1],          \* link of consumer c: index into cells, Len+1 = tail
        pc      |-> [c \in Cons |-> "start"],
        hold    |-> [c \in Cons |-> 0],          \* value to be returned after the checkpoint
        yielded |-> [c \in Cons |-> FALSE],      \* _element_yielded
        cnt     |-> [c \in Cons |-> 0],          \* remaining suspensions inside the source
        owner   |-> 0,
        waitq   |-> <<>>,
        srcPos  |-> 0,                           \* answers handed out by the source
        fin     |-> FALSE,
        evs     |-> <<>>]                        \* events made visible by the current step

Emit(st, e) == [st EXCEPT !.evs = Append(@, e)]

Filled(st, c) == st.pos[c] <= Len(st.cells)

Stop(st, c) == Emit([st EXCEPT !.pc[c] = "done"], [ev |-> "stop", c |-> c])

\* consumer c enters __anext__ and runs to its first suspension
Call(st, c) ==
  IF Filled(st, c)
  THEN LET v == st.cells[st.pos[c]] IN
       IF v = End
       THEN IF st.yielded[c] THEN Stop(st, c) ELSE [st EXCEPT !.pc[c] = "retend"]
       ELSE [st EXCEPT !.pos[c] = @ + 1, !.hold[c] = v, !.yielded[c] = TRUE, !.pc[c] = "retval"]
  ELSE IF st.owner = 0 /\ st.waitq = <<>>
       THEN [st EXCEPT !.owner = c, !.pc[c] = "acq"]
       ELSE [st EXCEPT !.waitq = Append(@, c), !.pc[c] = "wait"]

\* Lock.release: ownership passes to the first waiter, whose wake-up is scheduled
Release(st, c) ==
  IF st.waitq = <<>> THEN [st EXCEPT !.owner = 0]
  ELSE [st EXCEPT !.owner = Head(st.waitq), !.waitq = Tail(@), !.pc[Head(st.waitq)] = "woken"]

\* fill() returned True: look at the (now filled) link; a value is returned at once and the
\* consumer's loop calls __anext__ again within the same task step
Cont(st, c) ==
  LET v == st.cells[st.pos[c]] IN
  IF v = End
  THEN IF st.yielded[c] THEN Stop(st, c) ELSE [st EXCEPT !.pc[c] = "retend"]
  ELSE Call(Emit([st EXCEPT !.pos[c] = @ + 1, !.yielded[c] = TRUE],
                 [ev |-> "ret", c |-> c, v |-> v]), c)

\* the source answers: fill the tail link, release the lock, continue
Fill(st, c) ==
  LET v  == IF st.srcPos < L THEN Src[st.srcPos + 1] ELSE End
      s1 == Emit([st EXCEPT !.cells = Append(@, v), !.srcPos = @ + 1],
                 [ev |-> "pulled", k |-> st.srcPos + 1, v |-> v])
  IN Cont(Release(s1, c), c)

Pull(st, c) ==
  LET s1 == Emit(st, [ev |-> "pull"]) IN
  IF D = 0 THEN Fill(s1, c) ELSE [s1 EXCEPT !.pc[c] = "pull", !.cnt[c] = D]

\* c owns the lock: the re-check of `filled`
Locked(st, c) == IF Filled(st, c) THEN Cont(Release(st, c), c) ELSE Pull(st, c)

StepOf(st, c) ==
  LET s0 == [st EXCEPT !.evs = <<>>]
      pc == st.pc[c] IN
  CASE pc = "start"  -> Call(s0, c)
    [] pc = "retval" -> Call(Emit(s0, [ev |-> "ret", c |-> c, v |-> st.hold[c]]), c)
    [] pc = "retend" -> Stop(s0, c)
    [] pc \in {"acq", "woken"} -> Locked(s0, c)
    [] pc = "pull"   -> IF st.cnt[c] > 1 THEN [s0 EXCEPT !.cnt[c] = @ - 1] ELSE Fill(s0, c)

Runnable(st, c) == st.pc[c] \notin {"wait", "done"}

\* observer fold
RECURSIVE ApplyAll(_, _, _, _)
ApplyAll(p, bad, evs, i) ==
  IF i > Len(evs) THEN [p |-> p, bad |-> bad]
  ELSE LET r == TeeApply(p, evs[i]) IN ApplyAll(r.p, bad \cup r.bad, evs, i + 1)

VARIABLES st, p, pbad, hist

vars == <<st, p, pbad, hist>>

Init == /\ st = St0
        /\ p = TeeApply(TeeP0(Src, NC), [ev |-> "iter"]).p     \* tee() iterates the source once
        /\ pbad = {}
        /\ hist = <<>>

Step(c) == /\ Runnable(st, c)
           /\ LET s1 == StepOf(st, c)
                  r  == ApplyAll(p, pbad, s1.evs, 1)
              IN st' = s1 /\ p' = r.p /\ pbad' = r.bad
           /\ hist' = Append(hist, c)

AllDone == \A c \in Cons : st.pc[c] = "done"

Finish == /\ AllDone /\ ~st.fin
          /\ st' = [st EXCEPT !.fin = TRUE, !.evs = <<[ev |-> "end"]>>]
          /\ LET r == TeeApply(p, [ev |-> "end"]) IN p' = r.p /\ pbad' = pbad \cup r.bad
          /\ UNCHANGED hist

Next == (\E c \in Cons : Step(c)) \/ Finish

Spec == Init /\ [][Next]_vars

(***************************************************************************)
(* Invariants                                                              *)
(***************************************************************************)
PropertyHolds == pbad = {}

IsPrefix(a, b) == Len(a) <= Len(b) /\ \A i \in 1..Len(a) : a[i] = b[i]

\* the two clauses of the statement, on the model's own state
EachSeesAll == \A c \in Cons : /\ IsPrefix(p.got[c], Src)
                               /\ (st.pc[c] = "done" => p.got[c] = Src)

SourceConsumedOnce == /\ st.srcPos <= L + 1
                      /\ Len(st.cells) = st.srcPos
                      /\ \A i \in 1..Len(st.cells) : st.cells[i] = IF i <= L THEN Src[i] ELSE End
                      /\ Cardinality({c \in Cons : st.pc[c] = "pull"}) <= 1

LockConsistent == /\ st.owner = 0 => st.waitq = <<>>
                  /\ st.owner # 0 => st.pc[st.owner] \in {"acq", "woken", "pull"}
                  /\ \A c \in Cons : (st.pc[c] = "wait") <=> (\E i \in 1..Len(st.waitq) : st.waitq[i] = c)
                  /\ \A c \in Cons : st.pc[c] \in {"acq", "woken", "pull"} => st.owner = c
                  \* (a waiter may wait for a link that has been filled meanwhile: the re-check
                  \*  under the lock is what keeps it from asking the source again)

\* no consumer is left waiting for the lock for ever
NoStuck == (\A c \in Cons : ~Runnable(st, c)) => AllDone

View == <<[st EXCEPT !.evs = <<>>], p, pbad>>

\* scenario emission: the schedule (sequence of consumers) on every edge / at the end
EmitAC == IF st'.fin /\ ~st.fin
          THEN PrintT(<<"@@F", ToJson([h |-> hist', pulls |-> st'.srcPos])>>)
          ELSE PrintT(<<"@@H", ToJson([h |-> hist'])>>)
EmitFinalAC == (st'.fin /\ ~st.fin) => PrintT(<<"@@F", ToJson([h |-> hist', pulls |-> st'.srcPos])>>)
=============================================================================
