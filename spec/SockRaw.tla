------------------------------- MODULE SockRaw -------------------------------
(***************************************************************************)
(* C18, second machine: the raw-socket loops of UNIXSocketStream            *)
(* (_backends/_asyncio.py:1413-1503): receive / send / send_eof / aclose    *)
(* on a non-blocking socket, _wait_until_readable / _wait_until_writable    *)
(* futures, the two ResourceGuards (entered AFTER the initial checkpoint),  *)
(* _closing.  There is no user-space queue: the kernel socket buffers are   *)
(* the only buffers.  Kernel and peer are environment actions: PeerWrite,   *)
(* PeerEof, Drain (the peer reads), Reset, Cancel.  Readiness is level      *)
(* triggered: whenever the socket becomes readable / writable the pending   *)
(* future is resolved.                                                      *)
(* Every observable event goes through the observer P_Sock (side "A" =      *)
(* this stream, protoA = 0: a refusal is due only against a call that is    *)
(* known to be past its checkpoint, see the settle event).                  *)
(***************************************************************************)
EXTENDS P_Sock, TLC

CONSTANTS NT, Ops1, Ops2, Ops3, MaxOps, Total, MaxBytesSet, SendSizes, KCap, KIn, EnvKinds, MaxEnv,
          DeferClose     \* TRUE: uvloop - socket.close() is deferred while the socket is registered with
                         \* add_reader / add_writer (known finding F16); FALSE: stock asyncio

VARIABLES sk,    \* socket + stream: kin, fed, rdoff, peof, kroom, drained, closing, shutwr, reset, rg, sg,
                 \*                  rfut, sfut (task whose future is registered, 0 = none), nops, nenv
          task,  \* per task: pc, op, arg (max_bytes / bytes still to send)
          hv     \* observer state and violated clauses

vars == <<sk, task, hv>>
Tasks == 1..NT
OpsOf(t) == CASE t = 1 -> Ops1 [] t = 2 -> Ops2 [] OTHER -> Ops3
Min(a, b) == IF a < b THEN a ELSE b
Idle == [pc |-> "idle", op |-> "none", arg |-> 0]
Par == [boundA |-> KCap, boundB |-> KIn, pausedA |-> 1, pausedB |-> 1, protoA |-> 0, protoB |-> 0,
        deferA |-> IF DeferClose THEN 1 ELSE 0, deferB |-> 0]

Init ==
  /\ sk = [kin |-> 0, fed |-> 0, rdoff |-> 0, peof |-> FALSE, kroom |-> KCap, drained |-> 0,
           closing |-> FALSE, zombie |-> FALSE, shutwr |-> FALSE, reset |-> FALSE, rg |-> 0, sg |-> 0, rfut |-> 0, sfut |-> 0,
           nops |-> 0, nenv |-> 0]
  /\ task = [t \in Tasks |-> Idle]
  /\ hv = [p |-> SockP0(Par), bad |-> {}]

Observe(es) == LET r == SockApplySeq(hv.p, es) IN hv' = [p |-> r.p, bad |-> hv.bad \cup r.bad]
REnd(t, res, off, len) == [ev |-> "rend", s |-> "A", t |-> t, res |-> res, off |-> off, len |-> len, match |-> 1]
SEnd(t, res) == [ev |-> "send", s |-> "A", t |-> t, res |-> res]
CanCall(t) == task[t].pc = "idle" /\ sk.nops < MaxOps
\* the file descriptor is really closed (recv / send raise OSError, mapped to ClosedResourceError)
Shut(s) == s.closing /\ ~s.zombie

\* resolve the registered futures that the new socket state makes ready
Ready(s, tk) ==
  LET rd == s.rfut # 0 /\ (s.kin > 0 \/ s.peof \/ s.reset \/ Shut(s))
      wr == s.sfut # 0 /\ (s.kroom > 0 \/ s.reset \/ Shut(s)) IN
  [s |-> [s EXCEPT !.rfut = IF rd THEN 0 ELSE @, !.sfut = IF wr THEN 0 ELSE @],
   tk |-> [t \in Tasks |-> IF rd /\ t = s.rfut THEN [tk[t] EXCEPT !.pc = "r_run"]
                           ELSE IF wr /\ t = s.sfut THEN [tk[t] EXCEPT !.pc = "s_run"]
                           ELSE tk[t]]]
Settle2(s, tk) == LET r == Ready(s, tk) IN sk' = r.s /\ task' = r.tk

(***************************************************************************)
(* receive(max_bytes): checkpoint; then, inside the guard, recv() until it  *)
(* does not raise BlockingIOError.                                          *)
(***************************************************************************)
RCall(t, mb) ==
  /\ CanCall(t) /\ "recv" \in OpsOf(t)
  /\ sk' = [sk EXCEPT !.nops = @ + 1]
  /\ task' = [task EXCEPT ![t] = [pc |-> "r_chk0", op |-> "recv", arg |-> mb]]
  /\ Observe(<<[ev |-> "rstart", s |-> "A", t |-> t, mb |-> mb]>>)

RStep(t) ==
  /\ task[t].pc \in {"r_chk0", "r_run"}
  /\ IF task[t].pc = "r_chk0" /\ sk.rg # 0
     THEN /\ task' = [task EXCEPT ![t] = Idle] /\ UNCHANGED sk
          /\ Observe(<<REnd(t, "busy", 0, 0)>>)
     ELSE LET fin(r, off, len, s1) == /\ sk' = [s1 EXCEPT !.rg = 0]
                                      /\ task' = [task EXCEPT ![t] = Idle]
                                      /\ Observe(<<REnd(t, r, off, len)>>)
              n == Min(task[t].arg, sk.kin) IN
          IF Shut(sk) THEN fin("closed", 0, 0, sk)
          ELSE IF sk.reset THEN fin("broken", 0, 0, sk)
          ELSE IF sk.kin > 0 THEN fin("ok", sk.rdoff, n, [sk EXCEPT !.kin = @ - n, !.rdoff = @ + n])
          ELSE IF sk.peof THEN fin("eos", 0, 0, sk)
          ELSE /\ sk' = [sk EXCEPT !.rg = t, !.rfut = t]            \* BlockingIOError: wait until readable
               /\ task' = [task EXCEPT ![t].pc = "r_wait"]
               /\ UNCHANGED hv

(***************************************************************************)
(* send(item): checkpoint; then, inside the guard, send() the rest of the   *)
(* view until nothing is left, waiting for writability on BlockingIOError.  *)
(***************************************************************************)
SCall(t, n) ==
  /\ CanCall(t) /\ "send" \in OpsOf(t) /\ ~sk.shutwr
  /\ sk' = [sk EXCEPT !.nops = @ + 1]
  /\ task' = [task EXCEPT ![t] = [pc |-> "s_chk0", op |-> "send", arg |-> n]]
  /\ Observe(<<[ev |-> "sstart", s |-> "A", t |-> t, n |-> n]>>)

SStep(t) ==
  /\ task[t].pc \in {"s_chk0", "s_run"}
  /\ IF task[t].pc = "s_chk0" /\ sk.sg # 0
     THEN /\ task' = [task EXCEPT ![t] = Idle] /\ UNCHANGED sk
          /\ Observe(<<SEnd(t, "busy")>>)
     ELSE LET fin(r, s1) == /\ sk' = [s1 EXCEPT !.sg = 0]
                            /\ task' = [task EXCEPT ![t] = Idle]
                            /\ Observe(<<SEnd(t, r)>>)
              m == Min(task[t].arg, sk.kroom) IN
          IF Shut(sk) THEN fin("closed", sk)
          ELSE IF sk.reset \/ sk.shutwr THEN fin("broken", sk)
          ELSE IF m = task[t].arg THEN fin("ok", [sk EXCEPT !.kroom = @ - m])
          ELSE /\ sk' = [sk EXCEPT !.kroom = 0, !.sg = t, !.sfut = t]     \* partial send, then EAGAIN
               /\ task' = [task EXCEPT ![t].pc = "s_wait", ![t].arg = @ - m]
               /\ UNCHANGED hv

\* aclose(): no await; closes the socket and resolves pending futures.
\* With DeferClose the descriptor stays open as long as a reader or a writer is registered: with one of
\* them its done-callback unregisters it before the task runs again (closed for real, the task sees
\* OSError); with BOTH registered each woken task finds the descriptor still open (kept by the other's
\* registration), gets BlockingIOError and registers again: the socket is never closed (zombie) and both
\* calls keep waiting - this is F16.
CCall(t) ==
  /\ CanCall(t) /\ "close" \in OpsOf(t)
  /\ Observe(<<[ev |-> "close", s |-> "A"]>>)
  /\ Settle2([sk EXCEPT !.closing = TRUE, !.nops = @ + 1,
                        !.zombie = @ \/ (DeferClose /\ ~sk.closing /\ sk.rfut # 0 /\ sk.sfut # 0)], task)

\* send_eof(): inside the send guard
EofCall(t) ==
  /\ CanCall(t) /\ "eof" \in OpsOf(t) /\ ~sk.closing /\ sk.sg = 0
  /\ sk' = [sk EXCEPT !.shutwr = TRUE, !.nops = @ + 1]
  /\ Observe(<<[ev |-> "eof", s |-> "A"]>>)
  /\ UNCHANGED task

XStep(t) ==
  /\ task[t].pc = "cancel"
  /\ task' = [task EXCEPT ![t] = Idle]
  /\ sk' = [sk EXCEPT !.rg = IF @ = t /\ task[t].op = "recv" THEN 0 ELSE @,
                      !.sg = IF @ = t /\ task[t].op = "send" THEN 0 ELSE @,
                      !.rfut = IF @ = t /\ task[t].op = "recv" THEN 0 ELSE @,
                      !.sfut = IF @ = t /\ task[t].op = "send" THEN 0 ELSE @]
  /\ Observe(<<IF task[t].op = "recv" THEN REnd(t, "cancelled", 0, 0) ELSE SEnd(t, "cancelled")>>)

Step(t) == RStep(t) \/ SStep(t) \/ XStep(t)

(***************************************************************************)
(* Environment.                                                             *)
(***************************************************************************)
PeerWrite(k) ==
  /\ "data" \in EnvKinds /\ ~sk.peof /\ ~sk.reset
  /\ sk.fed + k <= Total /\ sk.kin + k <= KIn
  /\ Settle2([sk EXCEPT !.kin = @ + k, !.fed = @ + k], task)
  /\ Observe(<<[ev |-> "sstart", s |-> "B", t |-> 0, n |-> k], [ev |-> "send", s |-> "B", t |-> 0, res |-> "ok"]>>)

PeerEof ==
  /\ "peof" \in EnvKinds /\ ~sk.peof /\ ~sk.reset
  /\ Settle2([sk EXCEPT !.peof = TRUE], task)
  /\ Observe(<<[ev |-> "eof", s |-> "B"]>>)

Drain(k) ==
  /\ "drain" \in EnvKinds /\ k <= KCap - sk.kroom
  /\ Settle2([sk EXCEPT !.kroom = @ + k, !.drained = @ + k], task)
  /\ Observe(<<[ev |-> "rstart", s |-> "B", t |-> 0, mb |-> k],
               [ev |-> "rend", s |-> "B", t |-> 0, res |-> "ok", off |-> sk.drained, len |-> k, match |-> 1]>>)

Reset ==
  /\ "reset" \in EnvKinds /\ sk.nenv < MaxEnv /\ ~sk.reset /\ ~sk.closing
  /\ Settle2([sk EXCEPT !.reset = TRUE, !.nenv = @ + 1], task)
  /\ Observe(<<[ev |-> "reset"]>>)

Cancel(t) ==
  /\ "cancel" \in EnvKinds /\ sk.nenv < MaxEnv
  /\ task[t].pc \in {"r_chk0", "r_wait", "r_run", "s_chk0", "s_wait", "s_run"}
  /\ task' = [task EXCEPT ![t].pc = "cancel"]
  /\ sk' = [sk EXCEPT !.nenv = @ + 1]
  /\ Observe(<<[ev |-> "creq", s |-> "A", t |-> t]>>)

\* the harness has given every call a few loop cycles: nobody is at an initial checkpoint any more
SettleMark ==
  /\ \A t \in Tasks : task[t].pc \notin {"r_chk0", "s_chk0", "cancel"}
  /\ \E o \in hv.p.ops : ~o.settled
  /\ Observe(<<[ev |-> "settle"]>>)
  /\ UNCHANGED <<sk, task>>

Next ==
  \/ \E t \in Tasks :
        \/ \E mb \in MaxBytesSet : RCall(t, mb)
        \/ \E n \in SendSizes : SCall(t, n)
        \/ CCall(t) \/ EofCall(t) \/ Step(t) \/ Cancel(t)
  \/ (\E k \in 1..KIn : PeerWrite(k)) \/ PeerEof \/ (\E k \in 1..KCap : Drain(k)) \/ Reset \/ SettleMark

Spec == Init /\ [][Next]_vars
FairSpec == /\ Spec
            /\ \A t \in Tasks : WF_vars(Step(t))
            /\ WF_vars((\E k \in 1..KIn : PeerWrite(k)) \/ PeerEof)
            /\ WF_vars(\E k \in 1..KCap : Drain(k))

PropertyHolds == hv.bad \subseteq (IF DeferClose THEN {"ClosedUnixStreamStaysOpenOnUvloop"} ELSE {})
PropertyHoldsStrict == hv.bad = {}       \* violated with DeferClose = TRUE: the model reproduces F16
InRecv == {t \in Tasks : task[t].op = "recv" /\ task[t].pc \in {"r_wait", "r_run"}}
InSend == {t \in Tasks : task[t].op = "send" /\ task[t].pc \in {"s_wait", "s_run"}}
GuardsExact ==
  /\ (sk.rg # 0 => sk.rg \in InRecv \/ task[sk.rg].pc = "cancel") /\ InRecv \subseteq {sk.rg}
  /\ (sk.sg # 0 => sk.sg \in InSend \/ task[sk.sg].pc = "cancel") /\ InSend \subseteq {sk.sg}
\* no lost wake-up: a task waits for readiness only while the socket is not ready
WaitersCanBeWoken ==
  \A t \in Tasks :
    /\ task[t].pc = "r_wait" => sk.rfut = t /\ sk.kin = 0 /\ ~sk.peof /\ ~sk.reset /\ ~Shut(sk)
    /\ task[t].pc = "s_wait" => sk.sfut = t /\ sk.kroom = 0 /\ ~sk.reset /\ ~Shut(sk)
\* the kernel buffers are the only buffers
KernelBounded == sk.kin <= KIn /\ sk.kroom >= 0 /\ hv.p.received["B"] + sk.kin = sk.fed
Live ==
  /\ \A t \in Tasks : (task[t].pc = "r_wait") ~> (task[t].pc # "r_wait")
  /\ \A t \in Tasks : (task[t].pc = "s_wait") ~> (task[t].pc # "s_wait")
=============================================================================
