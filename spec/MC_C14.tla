------------------------------- MODULE MC_C14 -------------------------------
(***************************************************************************)
(* Composition root for property C14 (to_thread.run_sync).                 *)
(* AioThreads is the implementation-shaped model; the property-level       *)
(* observer P_ThreadPool is ghost state fed with the events of every step, *)
(* so `PropertyHolds` says: in every reachable state of every interleaving *)
(* no clause of the property has been violated.                            *)
(*                                                                         *)
(* The configuration of the NC calls (abandon_on_cancel, kind of thread    *)
(* function, cancelled before the call) is chosen in the initial state     *)
(* from AbSet x Kinds x PreSet.  The environment opens gates in any order  *)
(* and cancels callers' scopes (at most MaxCancel of them).                *)
(*   QEnv = FALSE: the environment acts at any point (between any two      *)
(*                 steps of the loop or of a thread): the verification run *)
(*   QEnv = TRUE : the environment acts only when nothing else can move    *)
(*                 ("quiescent-step"): these behaviours are the scenarios  *)
(*                 replayed against the real library; hist is the          *)
(*                 scenario, Final the model's prediction                  *)
(***************************************************************************)
EXTENDS AioThreads, P_ThreadPool, Json, TLC

CONSTANTS AbSet, Kinds, PreSet, MaxCancel, QEnv,
          ShSet      \* values of cfg[c].osh: the scope O_c the environment cancels is itself shielded

VARIABLES S, E, hist, pst, pbad
vars == <<S, E, hist, pst, pbad>>
View == <<S, E, pst, pbad>>

Cfgs == [Calls -> [ab : AbSet, kind : Kinds, pre : PreSet, osh : ShSet]]

Init ==
  /\ \E cfg \in Cfgs :
        /\ Cardinality({c \in Calls : cfg[c].pre}) <= MaxCancel
        /\ S = Init0(cfg)
  /\ E = [ncancel |-> Cardinality({c \in Calls : S.cfg[c].pre}), qlogged |-> FALSE]
  /\ hist = <<>>
  /\ pst = ThreadP0(Total, NC)
  /\ pbad = {}

RECURSIVE FeedSeq(_, _, _)
FeedSeq(p, b, evs) ==
  IF evs = <<>> THEN [p |-> p, bad |-> b]
  ELSE LET r == ThreadApply(p, Head(evs)) IN FeedSeq(r.p, b \cup r.bad, Tail(evs))

\* take a step of the model: t is the successor computed from S with an empty event buffer
Take(t) ==
  LET r == FeedSeq(pst, pbad, t.ev) IN
  /\ S' = [t EXCEPT !.ev = <<>>]
  /\ pst' = r.p
  /\ pbad' = r.bad

Loop == /\ S.ready # <<>>
        /\ Take(RunHandle(S))
        /\ UNCHANGED <<E, hist>>

Thread ==
  /\ \/ \E w \in Workers : PickupEnabled(S, w) /\ Take(Pickup(S, w))
     \/ \E w \in Workers : FinishEnabled(S, w) /\ Take(Finish(S, w))
     \/ \E c \in Calls : ActEnabled(S, c) /\ Take(Act(S, c))
     \/ \E c \in Calls : CbDoneEnabled(S, c) /\ Take(CbDone(S, c))
  /\ UNCHANGED <<E, hist>>

EnvPoint == ~QEnv \/ (Quiescent(S) /\ E.qlogged)

\* Opening a gate commutes with every other step until f_c waits at it, so the verification run
\* opens a gate only when f_c is parked there (or when nothing else can move: a call whose
\* function never started).  The scenario run also opens gates early: f_c then runs straight through.
EnvGate(c) ==
  /\ EnvPoint /\ ~S.gate[c]
  /\ QEnv \/ S.fpc[c] = "gate" \/ Quiescent(S)
  /\ Take(OpenGate(S, c))
  /\ E' = [E EXCEPT !.qlogged = FALSE]
  /\ hist' = IF QEnv THEN Append(hist, [a |-> "gate", c |-> c]) ELSE hist

EnvCancel(c) ==
  /\ EnvPoint /\ E.ncancel < MaxCancel /\ CancelEnabled(S, c)
  /\ Take(Cancel(S, c))
  /\ E' = [E EXCEPT !.ncancel = @ + 1, !.qlogged = FALSE]
  /\ hist' = IF QEnv THEN Append(hist, [a |-> "cancel", c |-> c]) ELSE hist

Quiesce ==
  /\ Quiescent(S) /\ ~E.qlogged
  /\ Take(Emit(S, [ev |-> "quiescent", borrowed |-> Cardinality(S.bor),
                   final |-> IF AllOver(S) THEN 1 ELSE 0]))
  /\ E' = [E EXCEPT !.qlogged = TRUE]
  /\ UNCHANGED hist

Next == Loop \/ Thread \/ Quiesce \/ \E c \in Calls : EnvGate(c) \/ EnvCancel(c)

Spec == Init /\ [][Next]_vars

PropertyHolds == pbad = {}
ImplInvariants == LimiterOK(S) /\ PoolOK(S) /\ RunnerHoldsToken(S) /\ FinalOK(S)

(***************************************************************************)
(* Vacuity probes: each names a situation the model is meant to contain.   *)
(* Checked as INVARIANT ~Probe, which TLC must report as violated.         *)
(* (Not reachable, and not expected to be: pc = "cic", the sleep(0) inside *)
(* checkpoint_if_cancelled - the entry checkpoint of run_sync has always   *)
(* raised before.)                                                         *)
(***************************************************************************)
Probe ==
  [WorkerSkipsCancelledItem |-> AllOver(S) /\ \E w \in 1..S.nw : \A i \in DOMAIN S.idle : S.idle[i] # w,
   TokenHandedToCancelledWaiter |->
      \E c \in Calls : S.pc[c] = "lwait" /\ S.fut[c] = "cancelled" /\ S.handed[c],
   CancelAfterReportKeepsResult |->
      \E c \in Calls : Ab(S, c) /\ S.pc[c] = "fwait" /\ S.fut[c] = "result" /\ S.oc[c],
   DeferredCancellation |->
      \E c \in Calls : ~Ab(S, c) /\ pst.rout[c] \in {"v", "e"} /\ c \in pst.creq /\ S.pc[c] = "done",
   CallbackCoroutineCancelled |-> \E c \in Calls : S.cb[c].res = "cancelled",
   CheckCancelledSaw |-> \E c \in Calls : S.fres[c].val = 61,
   AbandonedWhileRunning |->
      \E c \in Calls : Ab(S, c) /\ pst.rout[c] = "cancelled" /\ pst.fs[c] = "run",
   TwoIdleWorkers |-> Len(S.idle) >= 2,
   WorkerReused |-> AllOver(S) /\ S.nw < NC /\ \A c \in Calls : pst.fs[c] = "end",
   QueuedForToken |-> Len(S.lq) >= 1,
   CancelledInQueue |-> \E c \in Calls : S.pc[c] = "lwait" /\ S.fut[c] = "cancelled"]
ProbeNames == DOMAIN Probe
NoProbe_WorkerSkipsCancelledItem == ~Probe.WorkerSkipsCancelledItem
NoProbe_TokenHandedToCancelledWaiter == ~Probe.TokenHandedToCancelledWaiter
NoProbe_CancelAfterReportKeepsResult == ~Probe.CancelAfterReportKeepsResult
NoProbe_DeferredCancellation == ~Probe.DeferredCancellation
NoProbe_CallbackCoroutineCancelled == ~Probe.CallbackCoroutineCancelled
NoProbe_CheckCancelledSaw == ~Probe.CheckCancelledSaw
NoProbe_AbandonedWhileRunning == ~Probe.AbandonedWhileRunning
NoProbe_TwoIdleWorkers == ~Probe.TwoIdleWorkers
NoProbe_WorkerReused == ~Probe.WorkerReused
NoProbe_QueuedForToken == ~Probe.QueuedForToken
NoProbe_CancelledInQueue == ~Probe.CancelledInQueue

\* what the model predicts for a complete scenario (compared with the real run: drift, not verdict)
Final == [c \in Calls |->
            [out |-> pst.rout[c], fs |-> pst.fs[c], fout |-> pst.fout[c], fval |-> pst.fval[c]]]
EmitFinalAC ==
  (E'.qlogged /\ ~E.qlogged /\ AllOver(S)) =>
     PrintT(<<"@@F", ToJson([h |-> hist, cfg |-> S.cfg, total |-> Total, fin |-> Final])>>)
=============================================================================
