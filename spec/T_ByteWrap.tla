------------------------------- MODULE T_ByteWrap -------------------------------
(***************************************************************************)
(* Trace specification for the byte part of C16 (written by hand in the    *)
(* shape of the generated T_* modules, with one addition: model drift).    *)
(*                                                                         *)
(* A trace is what the harness recorded from a real                        *)
(* BufferedByteReceiveStream: params [kind, buf, cs, closed] (kind of the  *)
(* wrapped stream, initial buffer, the chunks the wrapped stream will      *)
(* deliver) and one event per call [op, n, d, k, v, buf, pulled].          *)
(*                                                                         *)
(* Every event is judged twice with the same TLA+ operators TLC model      *)
(* checks in MC_C16B:                                                      *)
(*  - by the observer P_ByteWrap!ByteApply: a violated clause is a verdict *)
(*    against the code, the walk stops there (bad);                        *)
(*  - by the machine BufStream!Step started from the state the real object *)
(*    was observed in: a different outcome, buffer or amount taken from    *)
(*    the wrapped stream is counted as drift (the statement of C16 does    *)
(*    not forbid it, e.g. reading ahead), the walk goes on.                *)
(* One @@V line per trace.                                                 *)
(***************************************************************************)
EXTENDS BufStream, P_ByteWrap, Json, IOUtils, TLC

Batch == JsonDeserialize(IOEnv.TRACE_FILE).traces

VARIABLES tid, l, p, np, bad, drift     \* np: bytes the wrapped stream has handed over so far

Evs == Batch[tid].events
Par == Batch[tid].params

\* the chunk list after the wrapped stream handed over its first n bytes
RECURSIVE DropBytes(_, _)
DropBytes(cs, n) ==
  IF n = 0 \/ cs = <<>> THEN cs
  ELSE IF n >= Len(Head(cs)) THEN DropBytes(Tail(cs), n - Len(Head(cs)))
  ELSE <<Drop(Head(cs), n)>> \o Tail(cs)

TInit == /\ tid \in 1..Len(Batch)
         /\ l = 1
         /\ p = [ByteP0(Par.buf, Flatten(Par.cs)) EXCEPT !.closed = Par.closed]
         /\ np = 0
         /\ bad = {}
         /\ drift = 0

TStep == /\ l >= 1 /\ l <= Len(Evs) /\ bad = {}
         /\ \E e \in {Evs[l]} :
              \E m \in {St(Par.kind, p.buf, IF p.closed THEN <<>> ELSE DropBytes(Par.cs, np), p.closed)} :
                \E c \in {[op |-> e.op, n |-> e.n, d |-> e.d]} :
                  \E r \in {Step(m, c)} :
                    \E a \in {ByteApply(p, e)} :
                      /\ p' = a.p
                      /\ bad' = a.bad
                      /\ np' = np + e.pulled
                      /\ drift' = IF /\ r.k = e.k /\ r.v = e.v /\ r.st.buf = e.buf
                                     /\ Pulled(m, c, r) = e.pulled
                                  THEN drift ELSE drift + 1
                      /\ l' = IF a.bad = {} THEN l + 1 ELSE l
         /\ UNCHANGED tid

TDone == /\ l >= 1 /\ (l > Len(Evs) \/ bad # {})
         /\ PrintT(<<"@@V", ToJson([tid |-> tid, n |-> l - 1, bad |-> bad, at |-> l,
                                     drift |-> drift])>>)
         /\ l' = 0
         /\ UNCHANGED <<tid, p, np, bad, drift>>

TSpec == TInit /\ [][TStep \/ TDone]_<<tid, l, p, np, bad, drift>>
=============================================================================
