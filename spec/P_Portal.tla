----------------------------- MODULE P_Portal -----------------------------
(***************************************************************************)
(* Property-level specification of anyio.from_thread.BlockingPortal        *)
(* (property C15): every cross-thread call is run once, answered and       *)
(* joined.                                                                 *)
(*                                                                         *)
(* A deterministic observer: PortalApply(p, e) takes the abstract state    *)
(* and one observable event and returns the next state and the set of      *)
(* clauses the event violates.  The same operator is                       *)
(*   - ghost state of the implementation-shaped model AioPortal (MC_C15:   *)
(*     TLC checks pbad = {} in every reachable state),                     *)
(*   - the judge of traces recorded from the real library (T_Portal).      *)
(*                                                                         *)
(* Calls have unique ids c in 1..MaxId.  The callable of call c is fixed   *)
(* by its kind:                                                            *)
(*   "sync"    sync function returning Val(c)                              *)
(*   "ret"     coroutine returning Val(c) without a checkpoint             *)
(*   "fail"    coroutine raising Boom(Tag(c))                              *)
(*   "block"   coroutine awaiting gate c, then returning Val(c)            *)
(*   "st"      start_task: task_status.started(SVal(c)); await gate c;     *)
(*             return Val(c)                                               *)
(*   "stw"     start_task: await gate c FIRST; then                        *)
(*             task_status.started(SVal(c)); return Val(c).  The caller of *)
(*             start_task() is blocked until the gate is opened or the     *)
(*             task is cancelled (it has no future to cancel yet).         *)
(*   "stfail"  start_task: raise Boom(Tag(c)) before started()             *)
(*   "stop0" / "stop1"  coroutine portal.stop(cancel_remaining=0/1),       *)
(*             returns None (reported as value 0)                          *)
(*   "stop01"  coroutine: portal.stop(); portal.stop(cancel_remaining=1)   *)
(*             (graceful stop, then forced stop; a foreign thread cannot   *)
(*             do this with two calls: the second one is refused)          *)
(*                                                                         *)
(* Events (records; what a caller thread / the callable itself can see):   *)
(*  [ev="issue", c, t, kind]   thread t is about to call start_task_soon / *)
(*                             call / start_task                           *)
(*  [ev="refused", c]          that call raised RuntimeError               *)
(*  [ev="returned", c]         start_task_soon returned the future         *)
(*  [ev="started", c, v]       start_task returned (future, v)             *)
(*  [ev="startfail", c, res, v] start_task raised: res "exc" (v = tag of   *)
(*                             the Boom) | "cancelled" | "other"           *)
(*  [ev="exec", c]             the callable's body started (loop thread)   *)
(*  [ev="bend", c, how]        the body ended: "ret" | "raise" |           *)
(*                             "cancelled" (it saw the cancellation)       *)
(*  [ev="done", c, res, v]     the caller saw the future done: res "val"   *)
(*                             (v) | "exc" (v = tag) | "cancelled"         *)
(*  [ev="final", c, res, v]    the same future read again at the very end  *)
(*  [ev="cancelcall", c]       a caller is about to call Future.cancel()   *)
(*  [ev="cancel", c, ok]       Future.cancel() returned ok (1 / 0)         *)
(*  [ev="release", g]          the environment opened gate g               *)
(*  [ev="exit", exc]           the owner starts leaving                    *)
(*                             start_blocking_portal() (exc = 1: with an   *)
(*                             exception, i.e. cancel_remaining)           *)
(*  [ev="exited", alive]       it has left; alive = portal thread alive    *)
(*  [ev="quiescent"]           nothing can happen any more without the     *)
(*                             environment (all futures that are done have *)
(*                             been reported by "done" events before)      *)
(*                                                                         *)
(* Rule P-permissive: a clause forbids only what the statement forbids.    *)
(* In particular a call issued concurrently with stop() may be refused or  *)
(* run; once cancel_remaining has been requested any call may end          *)
(* cancelled; a call whose cancel() was accepted may or may not have run.  *)
(***************************************************************************)
EXTENDS Naturals, Sequences, FiniteSets

MaxId == 4
PC == 1..MaxId

Val(c) == 100 + c
SVal(c) == 200 + c
Tag(c) == 300 + c

SoonKinds == {"sync", "ret", "fail", "block", "stop0", "stop1", "stop01"}
StartKinds == {"st", "stw", "stfail"}
StartedKinds == {"st", "stw"}               \* kinds that call task_status.started(SVal(c))
StopKinds == {"stop0", "stop1", "stop01"}
CancelStopKinds == {"stop1", "stop01"}      \* ... that (finally) stop with cancel_remaining
ValueKinds == {"sync", "ret", "block", "st", "stw"}

PortalP0 ==
  [kind   |-> [c \in PC |-> "none"],
   ph     |-> [c \in PC |-> "none"],   \* none | issued | refused | returned (future in hand) | sfail
   must   |-> {},                      \* calls issued after a stop had completed: must be refused
   nexec  |-> [c \in PC |-> 0],
   ended  |-> [c \in PC |-> ""],       \* how the body ended
   out    |-> [c \in PC |-> ""],       \* what the caller saw
   outv   |-> [c \in PC |-> 0],
   ccall  |-> {},                      \* Future.cancel() called
   cacc   |-> {},                      \* ... and accepted
   stopIssued |-> FALSE,               \* a stop call was issued / the owner began to leave
   stopDone   |-> FALSE,               \* a stop call was seen completed / the owner has left
   crq    |-> FALSE,                   \* cancel_remaining was requested
   rel    |-> {},
   exiting |-> FALSE,
   exited  |-> FALSE]

Names(r) == {n \in DOMAIN r : ~r[n]}      \* the clauses (record of booleans) that are false

Running(p, c) == p.nexec[c] >= 1 /\ p.ended[c] = ""

\* a portal.stop(cancel_remaining=True) has run to its end (the body of such a call returned)
CancelRemainingRan(p) == \E c \in PC : p.kind[c] \in CancelStopKinds /\ p.ended[c] = "ret"

\* The one case in which a caller may still be inside start_task() at a quiescent point: the callable
\* waits (gate c not opened by the environment) before it calls started(), its body is still running,
\* no stop(cancel_remaining=True) has run and the portal has not been left.  (Such a caller has no
\* future, so nobody can have cancelled the call.)
StillStarting(p, c) ==
  /\ p.kind[c] = "stw" /\ Running(p, c)
  /\ c \notin p.rel
  /\ ~CancelRemainingRan(p)
  /\ ~p.exited
Known(e) == e.c \in PC

PortalApply(p, e) ==
  CASE e.ev = "issue" ->
         IF ~Known(e) THEN [p |-> p, bad |-> {"UnknownEvent"}] ELSE
         LET cl == [FreshCallId |-> p.kind[e.c] = "none"]
         IN [p |-> [p EXCEPT !.kind[e.c] = e.kind, !.ph[e.c] = "issued",
                             !.must = IF p.stopDone THEN @ \cup {e.c} ELSE @,
                             !.stopIssued = @ \/ e.kind \in StopKinds,
                             !.crq = @ \/ e.kind \in CancelStopKinds],
             bad |-> Names(cl)]
    [] e.ev = "refused" ->
         LET cl == [RefusedOnlyAfterStop |-> p.stopIssued,
                    CallAnsweredOnce     |-> p.ph[e.c] = "issued"]
         IN [p |-> [p EXCEPT !.ph[e.c] = "refused"], bad |-> Names(cl)]
    [] e.ev = "returned" ->
         LET cl == [RefusedAfterStop |-> e.c \notin p.must,
                    CallAnsweredOnce |-> p.ph[e.c] = "issued" /\ p.kind[e.c] \in SoonKinds]
         IN [p |-> [p EXCEPT !.ph[e.c] = "returned"], bad |-> Names(cl)]
    [] e.ev = "started" ->
         LET cl == [RefusedAfterStop     |-> e.c \notin p.must,
                    CallAnsweredOnce     |-> p.ph[e.c] = "issued",
                    AnsweredStartedValue |-> p.kind[e.c] \in StartedKinds /\ e.v = SVal(e.c),
                    StartedByTheTask     |-> p.nexec[e.c] = 1]
         IN [p |-> [p EXCEPT !.ph[e.c] = "returned"], bad |-> Names(cl)]
    [] e.ev = "startfail" ->
         LET cl == [RefusedAfterStop     |-> e.c \notin p.must,
                    CallAnsweredOnce     |-> p.ph[e.c] = "issued" /\ p.kind[e.c] \in StartKinds,
                    AnsweredStartFailure |->
                        e.res = "exc" => (p.kind[e.c] = "stfail" /\ e.v = Tag(e.c)
                                          /\ p.nexec[e.c] = 1 /\ p.ended[e.c] = "raise"),
                    CancelledOnlyIfRequested |-> e.res = "cancelled" => p.crq,
                    UnexpectedOutcome    |-> e.res \in {"exc", "cancelled"}]
         IN [p |-> [p EXCEPT !.ph[e.c] = "sfail"], bad |-> Names(cl)]
    [] e.ev = "exec" ->
         LET cl == [ExactlyOnce          |-> p.nexec[e.c] = 0,
                    ExecOnlyIssued       |-> p.ph[e.c] \in {"issued", "returned"},
                    RefusedAfterStop     |-> e.c \notin p.must,
                    JoinOnExit           |-> ~p.exited]
         IN [p |-> [p EXCEPT !.nexec[e.c] = @ + 1], bad |-> Names(cl)]
    [] e.ev = "bend" ->
         LET cl == [BodyEndsOnce         |-> p.nexec[e.c] >= 1 /\ p.ended[e.c] = "",
                    CancelHitsThatTask   |-> e.how = "cancelled" => (e.c \in p.ccall \/ p.crq),
                    JoinOnExit           |-> ~p.exited]
         IN [p |-> [p EXCEPT !.ended[e.c] = e.how], bad |-> Names(cl)]
    [] e.ev = "done" ->
         LET k == p.kind[e.c]
             cl == [AnsweredOnce   |-> p.ph[e.c] = "returned" /\ p.out[e.c] = "",
                    ExactlyOnce    |-> e.res \in {"val", "exc"} => p.nexec[e.c] = 1,
                    AnsweredValue  |->
                        e.res = "val" => /\ p.ended[e.c] = "ret"
                                         /\ \/ k \in ValueKinds /\ e.v = Val(e.c)
                                            \/ k \in StopKinds /\ e.v = 0,
                    AnsweredException |->
                        e.res = "exc" => k = "fail" /\ e.v = Tag(e.c) /\ p.ended[e.c] = "raise",
                    CancelHitsThatTask |->            \* nobody else's future gets cancelled
                        e.res = "cancelled" => (e.c \in p.ccall \/ p.crq),
                    CancelledStaysCancelled |-> e.c \in p.cacc => e.res = "cancelled",
                    UnexpectedOutcome |-> e.res \in {"val", "exc", "cancelled"}]
         IN [p |-> [p EXCEPT !.out[e.c] = e.res, !.outv[e.c] = e.v,
                             !.stopDone = @ \/ (k \in StopKinds /\ e.res = "val")],
             bad |-> Names(cl)]
    [] e.ev = "final" ->
         LET cl == [StableAnswer |-> p.out[e.c] = e.res /\ p.outv[e.c] = e.v]
         IN [p |-> p, bad |-> Names(cl)]
    [] e.ev = "cancelcall" ->
         LET cl == [CancelNeedsFuture |-> p.ph[e.c] = "returned"]
         IN [p |-> [p EXCEPT !.ccall = @ \cup {e.c}], bad |-> Names(cl)]
    [] e.ev = "cancel" ->
         LET cl == [CancelNeedsFuture    |-> e.c \in p.ccall,
                    CancelAfterDoneFails |-> e.ok = 1 => p.out[e.c] \in {"", "cancelled"}]
         IN [p |-> [p EXCEPT !.cacc = IF e.ok = 1 THEN @ \cup {e.c} ELSE @], bad |-> Names(cl)]
    [] e.ev = "release" -> [p |-> [p EXCEPT !.rel = @ \cup {e.g}], bad |-> {}]
    [] e.ev = "exit" ->
         [p |-> [p EXCEPT !.exiting = TRUE, !.stopIssued = TRUE, !.crq = @ \/ e.exc = 1],
          bad |-> {}]
    [] e.ev = "exited" ->
         LET cl == [JoinOnExit         |-> \A c \in PC : ~Running(p, c),
                    PortalThreadJoined |-> e.alive = 0,
                    ExitedAfterExit    |-> p.exiting]
         IN [p |-> [p EXCEPT !.exited = TRUE, !.stopDone = TRUE], bad |-> Names(cl)]
    [] e.ev = "quiescent" ->
         LET cl == [\* every call has been answered: refused, or its future / start value handed out
                    \* (except a start_task() whose callable legitimately has not called started() yet)
                    NothingOrphaned |->
                        /\ \A c \in PC : p.ph[c] = "issued" => StillStarting(p, c)
                        /\ \A c \in PC : (p.ph[c] = "returned" /\ p.out[c] = "") => Running(p, c)
                        /\ p.exited => \A c \in PC : p.ph[c] = "returned" => p.out[c] # "",
                    \* an accepted cancel() has ended precisely that task
                    CancelledTaskEnded |-> \A c \in p.cacc : ~Running(p, c),
                    CancelRefusedOnlyWhenDone |->
                        \A c \in p.ccall \ p.cacc : p.out[c] \in {"val", "exc"},
                    RefusedAfterStop |-> \A c \in p.must : p.ph[c] = "refused",
                    \* once stop(cancel_remaining=True) has run every remaining task has been cancelled
                    \* (the callables of this alphabet do not shield themselves)
                    CancelRemainingCancels |->
                        CancelRemainingRan(p) => \A c \in PC : ~Running(p, c),
                    \* an accepted call that nobody cancelled has run by now
                    ExactlyOnce |->
                        \A c \in PC : (p.ph[c] = "returned" /\ c \notin p.ccall /\ ~p.crq)
                                          => p.nexec[c] = 1]
         IN [p |-> p, bad |-> Names(cl)]
    [] OTHER -> [p |-> p, bad |-> {"UnknownEvent"}]

\* several events in a row (used by the model, whose atomic actions can emit more than one)
RECURSIVE PortalApplyAll(_, _)
PortalApplyAll(r, es) ==
  IF es = <<>> THEN r
  ELSE LET x == PortalApply(r.p, Head(es))
       IN PortalApplyAll([p |-> x.p, bad |-> r.bad \cup x.bad], Tail(es))
=============================================================================
