------------------------------ MODULE P_Event ------------------------------
(***************************************************************************)
(* Property-level observer for anyio.Event (property C11, first sentence). *)
(* Events: [ev="start",t] [ev="end",t,res,isset] [ev="set",isset]          *)
(*         [ev="creq",t] [ev="quiescent",isset,waiting]                    *)
(***************************************************************************)
EXTENDS Naturals, Sequences, FiniteSets

EventP0 == [set |-> FALSE, inprog |-> {}, creq |-> {}]
ENames(r) == {n \in DOMAIN r : ~r[n]}

EvObs(p, e) == [StaysSet |-> p.set => e.isset, NotSetBeforeSet |-> e.isset => p.set]

EventApply(p, e) ==
  CASE e.ev = "start" -> [p |-> [p EXCEPT !.inprog = @ \cup {e.t}], bad |-> {}]
    [] e.ev = "end" /\ e.res = "ok" ->
         LET cl == [NoEarlyWake |-> p.set] IN
         [p |-> [p EXCEPT !.inprog = @ \ {e.t}], bad |-> ENames(cl) \cup ENames(EvObs(p, e))]
    [] e.ev = "end" /\ e.res = "cancelled" ->
         LET cl == [CancelWasRequested |-> e.t \in p.creq] IN
         [p |-> [p EXCEPT !.inprog = @ \ {e.t}], bad |-> ENames(cl) \cup ENames(EvObs(p, e))]
    [] e.ev = "end" -> [p |-> [p EXCEPT !.inprog = @ \ {e.t}], bad |-> {"WaitNeverFails"}]
    [] e.ev = "set" ->
         LET p1 == [p EXCEPT !.set = TRUE] IN [p |-> p1, bad |-> ENames(EvObs(p1, e))]
    [] e.ev = "creq" -> [p |-> [p EXCEPT !.creq = @ \cup {e.t}], bad |-> {}]
    [] e.ev = "cdone" -> [p |-> [p EXCEPT !.creq = @ \ {e.t}], bad |-> {}]   \* t's scope absorbed the request; t carries on
    [] e.ev = "quiescent" ->
         LET cl == [AllReleasedAfterSet |-> p.set => p.inprog = {},
                    WaitingCountTrue |-> e.waiting <= Cardinality(p.inprog)] IN
         [p |-> p, bad |-> ENames(cl) \cup ENames(EvObs(p, e))]
    [] OTHER -> [p |-> p, bad |-> {"UnknownEvent"}]
=============================================================================
