------------------------------ MODULE MC_C11C ------------------------------
(***************************************************************************)
(* Composition root for property C11, Condition part: NT most-general      *)
(* clients share one anyio.Condition; ops: acq / nowait / rel / wait /     *)
(* notify1 / notify2 / notifyall / yield; the environment cancels scopes   *)
(* and tasks between handles.  A client releases the lock when it leaves   *)
(* while holding it.                                                       *)
(***************************************************************************)
EXTENDS AioCond, P_Cond, Json

CONSTANTS Ops, MaxOps, MaxEnv, EnvKinds,
          Retry      \* TRUE: a client whose scope absorbed its cancellation opens a fresh one and carries on

VARIABLES L, E, hist, pst, pbad
vars == <<K, L, E, hist, pst, pbad>>
View == <<K, L, E, pst, pbad>>
Client0 == <<Frame("client", "init", 0, "")>>

Init ==
  /\ K = KInit([t \in Task |-> Client0], [t \in Task |-> NOSCOPE])
  /\ L = CondInit
  /\ E = [n |-> 0, pre |-> [t \in Task |-> FALSE], scoped |-> {}, natived |-> {}, qat |-> 0]
  /\ hist = <<>>
  /\ pst = {CondP0}
  /\ pbad = {}
Feed(e) == /\ pst' = CondApplySet(pst, e).ps
           /\ pbad' = pbad \cup CondApplySet(pst, e).bad
Feed2(e1, e2) == LET r1 == CondApplySet(pst, e1)
                     r2 == CondApplySet(r1.ps, e2)
                 IN /\ pst' = r2.ps
                    /\ pbad' = pbad \cup r1.bad \cup r2.bad
Ob(cd) == [owner |-> cd.lk.owner, w |-> Len(cd.waiters)]
Ev(ev, t, op, res, cd) == [ev |-> ev, t |-> t, op |-> op, res |-> res, n |-> 0,
                           owner |-> cd.lk.owner, w |-> Len(cd.waiters)]

Boot == [K EXCEPT !.ready = [i \in 1..NT |-> HStep(i)]]
H(t, c) == [w |-> "t", t |-> t, c |-> c, at |-> K.nh, cyc |-> K.cycle]
HE(t, c) == [w |-> "e", t |-> t, c |-> c, at |-> K.nh, cyc |-> K.cycle]
ResOf(r) == IF ~IsExc(r) THEN "ok" ELSE IF IsCancel(r) THEN "cancelled" ELSE "error"

ClientInit(t) ==
  /\ At(K, t, "client", "init")
  /\ K' = SetPc(ScopeEnter(K, t, FALSE, INF, E.pre[t], "task"), t, "choose")
  /\ UNCHANGED <<L, E, hist, pst, pbad>>

ClientChoose(t) ==
  /\ At(K, t, "client", "choose")
  /\ LET n == Top(K, t).a
         upd(q, op) == SetTop(q, t, [Top(q, t) EXCEPT !.a = n + 1, !.b = op])
         notify(k, nm) ==
            LET r == CondNotify(K, L, t, k) IN
            /\ L' = r.cd
            /\ K' = upd(r.q, "")
            /\ Feed([Ev("notify", t, "notify", IF r.err THEN "error" ELSE "ok", r.cd) EXCEPT !.n = k])
            /\ hist' = Append(hist, H(t, nm))
            /\ UNCHANGED E
     IN
     \/ /\ n < MaxOps /\ "acq" \in Ops
        /\ K' = Call(upd(K, "acq"), t, "ret", Frame("cond_acq", "start", 0, 0))
        /\ Feed(Ev("start", t, "acq", "", L))
        /\ hist' = Append(hist, H(t, "acq"))
        /\ UNCHANGED <<L, E>>
     \/ /\ n < MaxOps /\ "wait" \in Ops
        /\ K' = Call(upd(K, "wait"), t, "ret", Frame("cond_wait", "start", 0, NoExc))
        /\ Feed(Ev("start", t, "wait", "", L))
        /\ hist' = Append(hist, H(t, "wait"))
        /\ UNCHANGED <<L, E>>
     \/ /\ n < MaxOps /\ "nowait" \in Ops
        /\ LET r == CondAcqNowait(L, t) IN
           /\ L' = r.cd
           /\ Feed(Ev("nowait", t, "nowait", r.res, r.cd))
        /\ K' = upd(K, "")
        /\ hist' = Append(hist, H(t, "nowait"))
        /\ UNCHANGED E
     \/ /\ n < MaxOps /\ "rel" \in Ops
        /\ LET r == CondRelease(K, L, t) IN
           /\ L' = r.cd
           /\ K' = upd(r.q, "")
           /\ Feed(Ev("rel", t, "rel", IF r.err THEN "error" ELSE "ok", r.cd))
        /\ hist' = Append(hist, H(t, "rel"))
        /\ UNCHANGED E
     \/ (n < MaxOps /\ "notify1" \in Ops /\ notify(1, "notify1"))
     \/ (n < MaxOps /\ "notify2" \in Ops /\ notify(2, "notify2"))
     \/ (n < MaxOps /\ "notifyall" \in Ops /\ notify(0 - 1, "notifyall"))
     \/ /\ n < MaxOps /\ "yield" \in Ops
        /\ K' = Call(upd(K, "yield"), t, "ret", Frame("yield", "start", 0, 0))
        /\ hist' = Append(hist, H(t, "yield"))
        /\ UNCHANGED <<L, E, pst, pbad>>
     \/ /\ K' = SetPc([K EXCEPT !.T[t].reg = Val], t, "fin")
        /\ hist' = Append(hist, H(t, "end"))
        /\ UNCHANGED <<L, E, pst, pbad>>

ClientRet(t) ==
  /\ At(K, t, "client", "ret")
  /\ LET r == Reg(K, t)
         op == Top(K, t).b
     IN /\ IF op \in {"acq", "wait"} THEN Feed(Ev("end", t, op, ResOf(r), L))
                                      ELSE UNCHANGED <<pst, pbad>>
        /\ K' = SetPc(K, t, IF IsCancel(r) THEN "fin" ELSE "choose")
  /\ UNCHANGED <<L, E, hist>>

\* "finally: release if holding", then leave the scope
ClientFin(t) ==
  /\ At(K, t, "client", "fin")
  /\ LET holding == \E p \in pst : p.holder = t
         r == IF holding THEN CondRelease(K, L, t) ELSE [q |-> K, cd |-> L, err |-> FALSE]
         x == ScopeExit(r.q, t, Reg(K, t))
         again == Retry /\ x.caught
         rel == Ev("rel", t, "rel", IF r.err THEN "error" ELSE "ok", r.cd)
         cdone == [ev |-> "cdone", t |-> t]
     IN /\ L' = r.cd
        /\ K' = IF again THEN SetPc(ScopeEnter(x.q, t, FALSE, INF, FALSE, "task"), t, "choose")
                  ELSE IF IsExc(x.reg) THEN Raise(x.q, t, x.reg) ELSE Ret(x.q, t)
        /\ E' = IF again THEN [E EXCEPT !.scoped = @ \ {t}] ELSE E
        /\ IF holding /\ again THEN Feed2(rel, cdone)
           ELSE IF holding THEN Feed(rel)
           ELSE IF again THEN Feed(cdone)
           ELSE UNCHANGED <<pst, pbad>>
  /\ UNCHANGED hist

LibStep(t) ==
  \/ /\ HelperEnabled(K, t)
     /\ K' = HelperStep(K, t)
     /\ UNCHANGED <<L, E, hist, pst, pbad>>
  \/ /\ LockAcqEnabled(K, t)
     /\ LET r == LockAcqStep(K, L.lk, t) IN K' = r.q /\ L' = [L EXCEPT !.lk = r.lk]
     /\ UNCHANGED <<E, hist, pst, pbad>>
  \/ /\ CondAcqEnabled(K, t)
     /\ LET r == CondAcqStep(K, L, t) IN K' = r.q /\ L' = r.cd
     /\ UNCHANGED <<E, hist, pst, pbad>>
  \/ /\ CondWaitEnabled(K, t)
     /\ LET r == CondWaitStep(K, L, t) IN K' = r.q /\ L' = r.cd
     /\ UNCHANGED <<E, hist, pst, pbad>>
  \/ /\ FinishEnabled(K, t)
     /\ K' = FinishTask(K, t)
     /\ UNCHANGED <<L, E, hist, pst, pbad>>


Cycle == /\ CycleStartEnabled(K) /\ K' = CycleStart(K) /\ UNCHANGED <<L, E, hist, pst, pbad>>
RunHandle == /\ PopEnabled(K)
             /\ K' = RunKernelHandle(Popped(K), NextHandle(K))
             /\ UNCHANGED <<L, E, hist, pst, pbad>>

EnvPoint == K.run = NONE /\ (K.left > 0 \/ (Quiescent(K) /\ E.qat = K.nh + 1))

EnvCancel(t) ==
  /\ EnvPoint /\ "cancel" \in EnvKinds /\ E.n < MaxEnv /\ t \notin E.scoped /\ K.T[t].st # "done"
  /\ IF Depth(K, t) = 0
     THEN /\ K.T[t].st = "unborn"
          /\ E' = [E EXCEPT !.n = @ + 1, !.scoped = @ \cup {t}, !.pre[t] = TRUE]
          /\ K' = K
     ELSE /\ K' = ScopeCancel(K, <<t, 1>>)
          /\ E' = [E EXCEPT !.n = @ + 1, !.scoped = @ \cup {t}]
  /\ Feed([ev |-> "creq", t |-> t, kind |-> "scope"])
  /\ hist' = Append(hist, HE(t, "cancel"))
  /\ UNCHANGED L

EnvNative(t) ==
  /\ EnvPoint /\ "native" \in EnvKinds /\ E.n < MaxEnv /\ t \notin E.natived /\ K.T[t].st # "done"
  /\ K' = TaskCancel(K, t, FALSE)
  /\ E' = [E EXCEPT !.n = @ + 1, !.natived = @ \cup {t}]
  /\ Feed([ev |-> "creq", t |-> t, kind |-> "native"])
  /\ hist' = Append(hist, HE(t, "native"))
  /\ UNCHANGED L

Quiesce ==
  /\ Quiescent(K) /\ E.qat # K.nh + 1
  /\ E' = [E EXCEPT !.qat = K.nh + 1]
  /\ Feed([ev |-> "quiescent", owner |-> L.lk.owner, w |-> Len(L.waiters)])
  /\ UNCHANGED <<K, L, hist>>

Start == K.cycle = 0 /\ K.ready = <<>> /\ K.nh = 0 /\ \A t \in Task : K.T[t].st = "unborn"

Next ==
  \/ /\ Start /\ E.qat = 0 /\ K' = Boot /\ UNCHANGED <<L, E, hist, pst, pbad>>
  \/ (~Start /\ Cycle)
  \/ RunHandle
  \/ \E t \in Task : ClientInit(t) \/ ClientChoose(t) \/ ClientRet(t) \/ ClientFin(t) \/ LibStep(t)
  \/ \E t \in Task : EnvCancel(t) \/ EnvNative(t)
  \/ (~Start /\ Quiesce)

Spec == Init /\ [][Next]_vars

\* Known finding F8 (DESIGN.md section 7, known_findings.json): the model reproduces the code.
KnownFindingClauses == {"WaitInterruptedInReacquire"}
PropertyHolds == pbad \subseteq KnownFindingClauses
TypeOK == L.owner \in 0..NT /\ L.lk.owner \in 0..NT
\* the recorded condition owner is the lock owner or nobody (between handles)
OwnerConsistent == K.run = NONE => (L.owner # 0 => L.owner = L.lk.owner)
\* a queued one-shot event is never already set
QueuedEventsUnset == \A i \in DOMAIN L.waiters : ~L.cset[L.waiters[i]]
NoLiveWaiterOnFreeLock ==
  (K.run = NONE /\ L.lk.owner = 0) =>
     \A i \in DOMAIN L.lk.waiters : K.T[L.lk.waiters[i]].fut # "pending"
Residue == \A t \in Task : (K.T[t].st = "done" /\ t \notin E.natived) => K.T[t].nc = 0

Final == [owner |-> L.lk.owner, w |-> Len(L.waiters), nh |-> K.nh,
          out |-> [t \in Task |-> IF K.T[t].st # "done" THEN "blocked" ELSE ResOf(K.T[t].out)],
          nc |-> [t \in Task |-> K.T[t].nc]]
EmitFinalAC == (E'.qat # E.qat) => PrintT(<<"@@F", ToJson([h |-> hist', fin |-> Final])>>)
EmitAC == /\ (hist' # hist) => PrintT(<<"@@H", ToJson(hist')>>)
          /\ EmitFinalAC
=============================================================================
