\* Manual run of the C08 table (quick matrix, everything in one process):
\*     tlc -workers 1 -config MC_C08.cfg CheckpointSpec.tla
\* harness/c08.py writes its own configurations under out/C08 (the matrix split over several runs,
\* Tier = "thorough", and the deliberately wrong tables Table # "pinned" that must be rejected).
CONSTANTS
  Tier = "quick"
  Table = "pinned"
  Ops = {"sleep", "sleep_until", "checkpoint", "event_wait", "lock_acquire", "sem_acquire", "lim_acquire",
         "cond_acquire", "cond_wait", "send", "receive", "run_sync", "handle_wait", "handle_await",
         "future_wait", "future_await", "reduce", "tg_exit"}
  Fns = {"accumulate", "batched", "chain", "chain_from_iterable", "combinations",
         "combinations_with_replacement", "compress", "count", "cycle", "dropwhile", "filterfalse",
         "groupby", "islice", "pairwise", "permutations", "product", "repeat", "starmap", "tee",
         "takewhile", "zip_longest"}
SPECIFICATION Spec
INVARIANT InvCheckpointed
INVARIANT InvPreCancelled
INVARIANT InvOnlyExemption
INVARIANT InvShieldedIsClean
INVARIANT InvCompletes
INVARIANT InvObserver
CHECK_DEADLOCK FALSE
