\* manual run of the C08 table:  tlc -workers 1 -config MC_C08.cfg CheckpointSpec.tla
\* (harness/c08.py writes its own configurations under out/C08)
CONSTANTS
  Tier = "quick"
  Table = "pinned"
SPECIFICATION Spec
INVARIANT InvCheckpointed
INVARIANT InvPreCancelled
INVARIANT InvOnlyExemption
INVARIANT InvShieldedIsClean
INVARIANT InvCompletes
INVARIANT InvObserver
CHECK_DEADLOCK FALSE
