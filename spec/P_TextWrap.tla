------------------------------- MODULE P_TextWrap -------------------------------
(***************************************************************************)
(* Property-level observer for anyio.streams.text (property C16, text      *)
(* part).  The text under test is the sequence of character ids 1..n; the  *)
(* harness translates every string the real stream returns into ids: a     *)
(* character that continues the text where the previous one left off gets  *)
(* its id, anything else (a stray U+FEFF, U+FFFD, a repeated or skipped    *)
(* character) the foreign id 0.                                            *)
(*                                                                         *)
(* Events: [k |-> "ok", out |-> ids]   receive() returned a string         *)
(*         [k |-> "eos", out |-> <<>>] receive() raised EndOfStream        *)
(*         [k |-> "error", ...]        anything else                       *)
(* Clauses                                                                 *)
(*  ConcatEqualsDecode (mode "recv": encoded text cut at arbitrary bytes)  *)
(*  RoundTripIdentity  (mode "rt": strings sent through TextSendStream)    *)
(*    both say: the strings received so far, concatenated, are a prefix of *)
(*    the text, and at end of stream they are the whole text.              *)
(*  ExpectedOutcome    receive() returns or raises EndOfStream             *)
(***************************************************************************)
EXTENDS Naturals, Sequences, FiniteSets

TextP0(n, mode) == [n |-> n, got |-> 0, mode |-> mode]

TextApply(p, e) ==
  LET name == IF p.mode = "rt" THEN "RoundTripIdentity" ELSE "ConcatEqualsDecode"
      continues == /\ p.got + Len(e.out) <= p.n
                   /\ e.out = [j \in 1..Len(e.out) |-> p.got + j]
  IN CASE e.k = "ok" -> [p |-> [p EXCEPT !.got = @ + Len(e.out)],
                         bad |-> IF continues THEN {} ELSE {name}]
       [] e.k = "eos" -> [p |-> p, bad |-> IF p.got = p.n THEN {} ELSE {name}]
       [] OTHER -> [p |-> p, bad |-> {"ExpectedOutcome"}]
=============================================================================
