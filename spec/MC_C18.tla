------------------------------- MODULE MC_C18 -------------------------------
(***************************************************************************)
(* Model-checking and emission wrapper of SockProto (C18).                  *)
(* EmitAC prints, for every transition TLC explores, the history leading to *)
(* it and the projection of the state reached: each line is one schedule    *)
(* (calls, task steps, environment actions) that the harness replays on     *)
(* the real StreamProtocol / SocketStream with a scripted transport.        *)
(***************************************************************************)
EXTENDS SockProto, Json

Proj == [rq |-> [i \in DOMAIN pr.rq |-> <<pr.rq[i].s, pr.rq[i].n>>],
         rev |-> pr.rev, wset |-> pr.wset, eof |-> pr.eof, exc |-> pr.exc, closed |-> pr.closed,
         rg |-> pr.rg, sg |-> pr.sg,
         reading |-> tr.reading, closing |-> tr.closing, buf |-> tr.buf, wpaused |-> tr.wpaused,
         kroom |-> env.kroom, fed |-> env.fed,
         pc |-> [t \in Tasks |-> task[t].pc],
         res |-> [t \in Tasks |-> hv.res[t]],
         bad |-> hv.bad]

EmitAC == (Emit /\ hist' # hist) => PrintT(<<"@@E", ToJson([h |-> hist', x |-> Proj'])>>)
\* simulation: the whole history every fourth step of a behaviour; the harness keeps the longest
EmitSim == (Emit /\ hist' # hist /\ Len(hist') % 4 = 0) => PrintT(<<"@@S", ToJson(hist')>>)
=============================================================================
