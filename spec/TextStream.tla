------------------------------- MODULE TextStream -------------------------------
(***************************************************************************)
(* anyio.streams.text as a machine over ABSTRACT characters (property C16, *)
(* text part).                                                             *)
(*                                                                         *)
(* The text is the sequence of its character ids 1..N; ws[i] is the width  *)
(* of character i in the encoding (its number of bytes).  An abstract byte *)
(* is <<i, k>>: the k-th byte of character i; <<0, k>> is the k-th byte of *)
(* the byte order mark, which encodings with bw > 0 put in front of the    *)
(* whole stream once (utf-16: 2, utf-32: 4, utf-8-sig: 3).                 *)
(*                                                                         *)
(*   encoder (TextSendStream): incremental - the BOM goes out with the     *)
(*     first send only; one send = one chunk on the transport;             *)
(*   decoder (TextReceiveStream): incremental - a character comes out when *)
(*     its last byte has arrived, whatever the chunk boundaries; a leading *)
(*     BOM is swallowed; receive() reads chunks until at least one         *)
(*     character came out.                                                 *)
(*                                                                         *)
(* The harness instantiates every abstract character with real code points *)
(* of that width in a real encoding; byte positions of the abstract and    *)
(* the real encoding coincide, so cut points carry over unchanged.         *)
(***************************************************************************)
EXTENDS Naturals, Sequences, FiniteSets

CharBytes(i, w) == [k \in 1..w |-> <<i, k>>]
Bom(bw) == [k \in 1..bw |-> <<0, k>>]

\* bytes of the characters ids (a sequence of character ids) without BOM
RECURSIVE EncodeChars(_, _)
EncodeChars(ws, ids) ==
  IF ids = <<>> THEN <<>> ELSE CharBytes(Head(ids), ws[Head(ids)]) \o EncodeChars(ws, Tail(ids))

Ids(n) == [i \in 1..n |-> i]

\* one-shot encoding of the whole text (what str.encode does)
EncodeAll(ws, bw) == Bom(bw) \o EncodeChars(ws, Ids(Len(ws)))

-----------------------------------------------------------------------------
(* incremental encoder: state = "has anything been encoded yet" *)
Enc0 == FALSE
EncSend(started, ws, bw, ids) ==
  [bytes |-> (IF started THEN <<>> ELSE Bom(bw)) \o EncodeChars(ws, ids), started |-> TRUE]

\* the chunks produced by sending the strings strs (a sequence of sequences of ids) one by one
RECURSIVE SendAll(_, _, _, _)
SendAll(started, ws, bw, strs) ==
  IF strs = <<>> THEN <<>>
  ELSE LET r == EncSend(started, ws, bw, Head(strs))
       IN <<r.bytes>> \o SendAll(r.started, ws, bw, Tail(strs))

-----------------------------------------------------------------------------
(* incremental decoder: state = [seen |-> bytes consumed so far, pend |-> bytes of the unit in
   progress].  A unit is the BOM (only at the very start of the stream) or one character.  Input
   that is no well-formed unit sequence decodes to the foreign character 0 (never produced here). *)
Dec0 == [seen |-> 0, pend |-> <<>>]

DecByte(d, b, ws, bw) ==
  LET pend == Append(d.pend, b)
      i == pend[1][1]
      atStart == d.seen = Len(d.pend)          \* the pending unit is the first of the stream
      wellFormed == /\ \A k \in 1..Len(pend) : pend[k] = <<i, k>>
                    /\ IF i = 0 THEN atStart /\ Len(pend) <= bw
                       ELSE i \in 1..Len(ws) /\ Len(pend) <= ws[i]
      complete == Len(pend) = (IF i = 0 THEN bw ELSE ws[i])
  IN IF ~wellFormed THEN [d |-> [seen |-> d.seen + 1, pend |-> <<>>], out |-> <<0>>]
     ELSE IF complete THEN [d |-> [seen |-> d.seen + 1, pend |-> <<>>],
                            out |-> IF i = 0 THEN <<>> ELSE <<i>>]
     ELSE [d |-> [seen |-> d.seen + 1, pend |-> pend], out |-> <<>>]

RECURSIVE DecChunk(_, _, _, _)
DecChunk(d, chunk, ws, bw) ==
  IF chunk = <<>> THEN [d |-> d, out |-> <<>>]
  ELSE LET r == DecByte(d, Head(chunk), ws, bw)
           s == DecChunk(r.d, Tail(chunk), ws, bw)
       IN [d |-> s.d, out |-> r.out \o s.out]

(* TextReceiveStream.receive(): read chunks until the decoder produced something; the result of
   repeated calls until EndOfStream is the sequence of the strings returned *)
RECURSIVE ReceiveAll(_, _, _, _)
ReceiveAll(d, chunks, ws, bw) ==
  IF chunks = <<>> THEN <<>>
  ELSE LET r == DecChunk(d, Head(chunks), ws, bw)
       IN IF r.out = <<>> THEN ReceiveAll(r.d, Tail(chunks), ws, bw)
          ELSE <<r.out>> \o ReceiveAll(r.d, Tail(chunks), ws, bw)

RECURSIVE Concat(_)
Concat(ss) == IF ss = <<>> THEN <<>> ELSE Head(ss) \o Concat(Tail(ss))

\* bytes cut into chunks of the given lengths (which sum up to Len(bytes))
RECURSIVE CutByLens(_, _)
CutByLens(bytes, lens) ==
  IF lens = <<>> THEN <<>>
  ELSE <<SubSeq(bytes, 1, Head(lens))>>
       \o CutByLens(SubSeq(bytes, Head(lens) + 1, Len(bytes)), Tail(lens))

\* the text cut into strings of the given lengths
RECURSIVE StrsByLens(_, _)
StrsByLens(from, lens) ==
  IF lens = <<>> THEN <<>>
  ELSE <<[j \in 1..Head(lens) |-> from + j - 1]>> \o StrsByLens(from + Head(lens), Tail(lens))

(* the two experiments *)
\* the encoded text arrives in chunks of the lengths lens
OutputsOfReceive(ws, bw, lens) == ReceiveAll(Dec0, CutByLens(EncodeAll(ws, bw), lens), ws, bw)
\* the text is sent as strings of the lengths lens through encoder, transport and decoder
OutputsOfRoundTrip(ws, bw, lens) ==
  ReceiveAll(Dec0, SendAll(Enc0, ws, bw, StrsByLens(1, lens)), ws, bw)
=============================================================================
