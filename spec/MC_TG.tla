------------------------------ MODULE MC_TG ------------------------------
(***************************************************************************)
(* Composition root for the task-group properties C01, C02, C07.           *)
(*                                                                         *)
(* Task 1 is the root (a natively created task inside its own CancelScope, *)
(* which the environment may cancel).  Tasks 2..NT are spawned on demand   *)
(* as task-group children.  Every task is a most general client:           *)
(*   tgopen          `async with create_task_group()` (one active group    *)
(*                   per task; nested groups live in children)             *)
(*   close           normal end of the innermost block (scope or group)    *)
(*   spawn(u)        groups[u].start_soon(next child)                      *)
(*   start(u)        await groups[u].start(next child)                     *)
(*   started         task_status.started(100 + self)  (start()ed children) *)
(*   open(shield, pre, cleanup) / cancel(u, d) / shield(d)   scope ops     *)
(*   hcancel(c)      handle.cancel() of child c                            *)
(*   yield / wait / set / raise / end                                      *)
(* An exception unwinds blocks like Python does (a group block runs        *)
(* __aexit__ with it).  A child that ends returns 200 + self.              *)
(* Ghost: the observer P_TG (which contains the scope semantics P_Scope).  *)
(***************************************************************************)
EXTENDS AioTG, P_TG, Json

CONSTANTS Ops, MaxOps, MaxEnv, EnvKinds, MaxDepth, Shields, Cleanups, Pres,
          LeafFrom,  \* tasks numbered >= LeafFrom perform at most one operation (bounds deep task trees)
          Orders     \* subset of BOOLEAN: iteration orders of the scopes' task / child-scope sets to explore

VARIABLES L,         \* [tg |-> task-group state, ev |-> the shared Event]
          E, hist, pst, pbad
vars == <<K, L, E, hist, pst, pbad>>
View == <<K, L, E, pst, pbad>>

NoExc == Val
ClientFrame(pc, ns) ==
  Frame("client", pc, 0, [ns |-> ns, exc |-> NoExc, errs |-> 0, ending |-> FALSE, ret |-> 0])
Tag(n, kind, cl) == [n |-> n, kind |-> kind, cl |-> cl, dl |-> INF]
Root == 1

Init ==
  /\ \E rev \in Orders :
       K = KInitR([t \in Task |-> IF t = Root THEN <<ClientFrame("init", 0)>>
                                  ELSE <<Frame("tgchild", "init", 0, 0)>>],
                  [t \in Task |-> NOSCOPE], rev)
  /\ L = [tg |-> TGInit, ev |-> [flag |-> FALSE, waiters |-> <<>>]]
  /\ E = [n |-> 0, pre |-> FALSE, scoped |-> {}, natived |-> {}, qat |-> 0]
  /\ hist = <<>>
  /\ pst = TGP0(Task)
  /\ pbad = {}

Stamp(e) == e @@ [now |-> K.now, cyc |-> K.cycle]
Feed(e) == LET r == TGApply(pst, Stamp(e)) IN pst' = r.p /\ pbad' = pbad \cup r.bad
Feed2(e1, e2) == LET r1 == TGApply(pst, Stamp(e1))
                     r2 == TGApply(r1.p, Stamp(e2))
                 IN pst' = r2.p /\ pbad' = pbad \cup r1.bad \cup r2.bad
Feed3(e1, e2, e3) == LET r1 == TGApply(pst, Stamp(e1))
                         r2 == TGApply(r1.p, Stamp(e2))
                         r3 == TGApply(r2.p, Stamp(e3))
                     IN pst' = r3.p /\ pbad' = pbad \cup r1.bad \cup r2.bad \cup r3.bad

Boot == [K EXCEPT !.ready = <<HStep(Root)>>]
H(t, c, a, b, d) == [w |-> "t", t |-> t, c |-> c, a |-> a, b |-> b, d |-> d, at |-> K.nh]
HE(t, c) == [w |-> "e", t |-> t, c |-> c, a |-> 0, b |-> 0, d |-> 0, at |-> K.nh, cyc |-> K.cycle]

ExcName(r) == IF ~IsExc(r) THEN "none" ELSE IF IsAnyioCancel(r) THEN "cancel"
              ELSE IF IsCancel(r) THEN "native" ELSE "err"
ResName(r) == IF ~IsExc(r) THEN "ok" ELSE IF IsAnyioCancel(r) THEN "cancelled"
              ELSE IF IsCancel(r) THEN "native" ELSE "err"
RaisedName(r) == IF ~IsExc(r) THEN "none" ELSE IF IsAnyioCancel(r) THEN "cancel"
                 ELSE IF IsCancel(r) THEN "native" ELSE IF r.c = "group" THEN "group" ELSE "err"
CC(q, t) == [i \in 1..Depth(q, t) |-> IF q.S[t][i].called THEN 1 ELSE 0]
B2I(b) == IF b THEN 1 ELSE 0
RECURSIVE SeqOf(_)
SeqOf(S) == IF S = {} THEN <<>> ELSE LET x == CHOOSE y \in S : TRUE IN <<x>> \o SeqOf(S \ {x})
Gid(h) == 10 * h + L.tg.G[h].n
Unspawned == {c \in Task : c # Root /\ L.tg.Hd[c].grp = 0}
NextChild == MinOf(Unspawned)
ActiveHosts == {u \in Task : L.tg.G[u].active}
HandleRec(c) ==
  [c |-> c, status |-> HandleStatus(K, L.tg, c),
   val |-> IF IsExc(L.tg.Hd[c].how) THEN 0 ELSE L.tg.Hd[c].how.e,
   exc |-> SeqOf(LeavesOf(L.tg.Hd[c].how))]
\* the library-cancelled scopes whose cancel flag the public API shows: the scopes of the active task
\* groups (tg.cancel_scope.cancel_called) and the handle scopes of the running children
\* (TaskHandle.status = CANCELLING)
LiveChildren == {c \in Task : c # Root /\ Depth(K, c) >= 1 /\ K.S[c][1].tag.kind = "handle"}
GC == LET hs == SortedSeq(ActiveHosts)
          cs == SortedSeq(LiveChildren) IN
      [i \in DOMAIN hs |-> [t |-> hs[i], n |-> K.S[hs[i]][L.tg.G[hs[i]].sd].tag.n,
                            c |-> B2I(K.S[hs[i]][L.tg.G[hs[i]].sd].called)]]
      \o [i \in DOMAIN cs |-> [t |-> cs[i], n |-> K.S[cs[i]][1].tag.n, c |-> B2I(K.S[cs[i]][1].called)]]
MembersOf(h) == {c \in Task : L.tg.Hd[c].grp = h /\ L.tg.Hd[c].gn = L.tg.G[h].n}

(****************************** task start **********************************)
ClientInit(t) ==      \* the root task enters its own scope
  /\ At(K, t, "client", "init")
  /\ LET q1 == ScopeEnter(K, t, FALSE, INF, E.pre, Tag(1, "task", 0)) IN
     K' = SetTop(q1, t, [Top(q1, t) EXCEPT !.pc = "choose", !.b.ns = 1])
  /\ Feed([ev |-> "enter", t |-> t, n |-> 1, shield |-> 0, dl |-> INF, called |-> B2I(E.pre),
           kind |-> "task", nc |-> K.T[t].nc])
  /\ UNCHANGED <<L, E, hist>>

ChildInit(t) ==       \* TaskHandle._run_coro: with self._cancel_scope: await coro
  /\ At(K, t, "tgchild", "init")
  /\ LET h == L.tg.Hd[t].grp
         q1 == ScopeEnter(K, t, FALSE, INF, L.tg.Hd[t].pre, Tag(1, "handle", 0))
     IN /\ K' = Call(q1, t, "done", ClientFrame("choose", 1))
        /\ Feed2([ev |-> "root", t |-> t, rt |-> h, rn |-> K.S[h][L.tg.G[h].sd].tag.n],
                 [ev |-> "enter", t |-> t, n |-> 1, shield |-> 0, dl |-> INF,
                  called |-> B2I(L.tg.Hd[t].pre), kind |-> "handle", nc |-> K.T[t].nc])
  /\ UNCHANGED <<L, E, hist>>

ChildEnd(t) ==        \* back in _run_coro: outcome recorded, finished event set, handle scope left
  /\ ChildDoneEnabled(K, t)    \* (not observable from outside: no event)
  /\ LET r == ChildDone(K, L.tg, t) IN
     /\ K' = r.q
     /\ L' = [L EXCEPT !.tg = r.tg]
  /\ UNCHANGED <<E, hist, pst, pbad>>

(****************************** the shared event ****************************)
WaitEnabled(q, t) == q.run = t /\ q.T[t].stack # <<>> /\ Top(q, t).f = "ev_wait"
WaitStep(q, ev, t) ==
  LET pc == Top(q, t).pc IN
  CASE pc = "start" ->
         IF ev.flag THEN [q |-> Call(q, t, "ckpt", Frame("yield", "start", 0, 0)), ev |-> ev]
         ELSE [q |-> SuspendFut(q, t, "wait"), ev |-> [ev EXCEPT !.waiters = Append(@, t)]]
    [] pc = "ckpt" ->
         [q |-> IF IsExc(Reg(q, t)) THEN Raise(q, t, Reg(q, t)) ELSE Ret(q, t), ev |-> ev]
    [] pc = "wait" ->
         [q |-> IF IsExc(Reg(q, t)) THEN Raise(q, t, Reg(q, t)) ELSE Ret(q, t),
          ev |-> [ev EXCEPT !.waiters = SelectSeq(@, LAMBDA w : w # t)]]

(****************************** client *************************************)
ClientChoose(t) ==
  /\ At(K, t, "client", "choose")
  /\ LET n == IF t >= LeafFrom /\ Top(K, t).a >= 1 THEN MaxOps ELSE Top(K, t).a
         st == Top(K, t).b
         bump(q) == SetTop(q, t, [Top(q, t) EXCEPT !.a = @ + 1])
         bumpS(q) == SetTop(q, t, [Top(q, t) EXCEPT !.a = @ + 1, !.b.ns = @ + 1])
         d0 == Depth(K, t)
         asyncop(name, fr) ==
            /\ K' = Call(bump(K), t, "ret", fr)
            /\ Feed([ev |-> "opstart", t |-> t, op |-> name])
            /\ hist' = Append(hist, H(t, name, 0, 0, 0))
            /\ UNCHANGED <<L, E>>
     IN
     \/ /\ n < MaxOps /\ "tgopen" \in Ops /\ d0 < MaxDepth /\ ~L.tg.G[t].active
        /\ LET r == TGEnter(bumpS(K), L.tg, t, st.ns + 1) IN
           /\ K' = r.q
           /\ L' = [L EXCEPT !.tg = r.tg]
           /\ Feed([ev |-> "tgenter", t |-> t, g |-> 10 * t + r.tg.G[t].n, n |-> st.ns + 1,
                    nc |-> K.T[t].nc])
        /\ hist' = Append(hist, H(t, "tgopen", 0, 0, 0))
        /\ UNCHANGED E
     \/ /\ n < MaxOps /\ "open" \in Ops /\ d0 < MaxDepth
        /\ \E sh \in Shields, pre \in Pres, cl \in Cleanups :
             LET q1 == ScopeEnter(bumpS(K), t, sh = 1, INF, pre = 1, Tag(st.ns + 1, "plain", cl)) IN
             /\ K' = q1
             /\ Feed([ev |-> "enter", t |-> t, n |-> st.ns + 1, shield |-> sh, dl |-> INF, called |-> pre,
                      kind |-> "plain", nc |-> K.T[t].nc])
             /\ hist' = Append(hist, H(t, "open", sh, INF, pre + 2 * cl))
        /\ UNCHANGED <<L, E>>
     \/ /\ n < MaxOps /\ "close" \in Ops /\ d0 > 1
        /\ K' = SetPc(bump([K EXCEPT !.T[t].reg = Val]), t, "unwind")
        /\ hist' = Append(hist, H(t, "close", 0, 0, 0))
        /\ UNCHANGED <<L, E, pst, pbad>>
     \/ /\ n < MaxOps /\ "spawn" \in Ops /\ Unspawned # {}
        /\ \E u \in ActiveHosts :
             LET c == NextChild
                 r == TGSpawn(bump(K), L.tg, u, c, FALSE, 0) IN
             /\ K' = r.q
             /\ L' = [L EXCEPT !.tg = r.tg]
             /\ Feed([ev |-> "spawn", g |-> Gid(u), c |-> c, via |-> "soon", by |-> t])
             /\ hist' = Append(hist, H(t, "spawn", u, c, 0))
        /\ UNCHANGED E
     \/ /\ n < MaxOps /\ "start" \in Ops /\ Unspawned # {}
        /\ \E u \in ActiveHosts :
             LET c == NextChild IN
             /\ K' = Call(bump(K), t, "sret", Frame("tg_start", "start", c, [h |-> u, exc |-> NoExc]))
             /\ Feed([ev |-> "spawn", g |-> Gid(u), c |-> c, via |-> "start", by |-> t])
             /\ hist' = Append(hist, H(t, "start", u, c, 0))
        /\ UNCHANGED <<L, E>>
     \/ /\ n < MaxOps /\ "started" \in Ops /\ L.tg.Hd[t].sf # "none" /\ L.tg.Hd[t].nstarted < 2
        /\ LET r == TGStarted(bump(K), L.tg, t, 100 + t) IN
           /\ L' = [L EXCEPT !.tg = r.tg]
           /\ K' = IF r.res = "ok" THEN r.q
                   ELSE SetPc([r.q EXCEPT !.T[t].reg = Err("RuntimeError")], t, "unwind")
           /\ Feed([ev |-> "started", c |-> t, v |-> 100 + t, res |-> IF r.res = "ok" THEN "ok" ELSE "err",
                    cpc |-> LET u == L.tg.Hd[t].sfcaller IN
                            B2I(u # 0 /\ K.T[u].st # "done" /\
                                (K.T[u].must \/ K.T[u].fut = "cancelled" \/ EffCancelled(K, Cur(K, u))))])
        /\ hist' = Append(hist, H(t, "started", 0, 0, 0))
        /\ UNCHANGED E
     \/ /\ n < MaxOps /\ "hcancel" \in Ops
        /\ \E c \in Task : /\ c # Root /\ L.tg.Hd[c].grp # 0 /\ ~L.tg.Hd[c].finished
                           /\ HandleStatus(K, L.tg, c) = "pending"
                           /\ LET r == HandleCancel(bump(K), L.tg, c) IN
                              /\ K' = r.q
                              /\ L' = [L EXCEPT !.tg = r.tg]
                              /\ IF Depth(K, c) >= 1 /\ K.T[c].st # "unborn"
                                 THEN Feed([ev |-> "cancel", t |-> c, n |-> 1])
                                 ELSE UNCHANGED <<pst, pbad>>
                           /\ hist' = Append(hist, H(t, "hcancel", c, 0, 0))
        /\ UNCHANGED E
     \/ (n < MaxOps /\ "yield" \in Ops /\ asyncop("yield", Frame("yield", "start", 0, 0)))
     \/ (n < MaxOps /\ "wait" \in Ops /\ asyncop("wait", Frame("ev_wait", "start", 0, 0)))
     \/ /\ n < MaxOps /\ "set" \in Ops /\ ~L.ev.flag
        /\ L' = [L EXCEPT !.ev.flag = TRUE]
        /\ K' = bump(WakeAll(K, L.ev.waiters))
        /\ hist' = Append(hist, H(t, "set", 0, 0, 0))
        /\ UNCHANGED <<E, pst, pbad>>
     \/ /\ n < MaxOps /\ "cancel" \in Ops
        /\ \E u \in Task, d \in 1..MaxDepth :
             /\ d <= Depth(K, u) /\ K.S[u][d].tag.kind \in {"task", "plain", "group"} /\ ~K.S[u][d].called
             /\ K.T[u].st # "done"
             /\ K' = bump(ScopeCancel(K, <<u, d>>))
             /\ Feed([ev |-> "cancel", t |-> u, n |-> K.S[u][d].tag.n])
             /\ hist' = Append(hist, H(t, "cancel", u, d, 0))
        /\ UNCHANGED <<L, E>>
     \/ /\ n < MaxOps /\ "shield" \in Ops
        /\ \E d \in 2..MaxDepth :
             /\ d <= d0 /\ K.S[t][d].tag.kind = "plain"
             /\ LET v == ~K.S[t][d].shield IN
                /\ K' = bump(ScopeSetShield(K, <<t, d>>, v))
                /\ Feed([ev |-> "setshield", t |-> t, n |-> K.S[t][d].tag.n, v |-> B2I(v)])
                /\ hist' = Append(hist, H(t, "shield", d, B2I(v), 0))
        /\ UNCHANGED <<L, E>>
     \/ /\ n < MaxOps /\ "raise" \in Ops
        /\ K' = SetPc(SetTop([K EXCEPT !.T[t].reg = Err("E" \o ToString(10 * t + st.errs))], t,
                             [Top(K, t) EXCEPT !.a = @ + 1, !.b.errs = @ + 1]), t, "unwind")
        /\ hist' = Append(hist, H(t, "raise", 0, 0, 0))
        /\ UNCHANGED <<L, E, pst, pbad>>
     \/ /\ K' = SetTop([K EXCEPT !.T[t].reg = Val], t,
                       [Top(K, t) EXCEPT !.pc = "unwind", !.b.ending = TRUE,
                                         !.b.ret = IF t = Root THEN 0 ELSE 200 + t])
        /\ hist' = Append(hist, H(t, "end", 0, 0, 0))
        /\ UNCHANGED <<L, E, pst, pbad>>

\* back from yield / wait
ClientRet(t) ==
  /\ At(K, t, "client", "ret")
  /\ LET r == Reg(K, t) IN
     /\ Feed([ev |-> "opend", t |-> t, op |-> "", res |-> ResName(r), cc |-> CC(K, t), gc |-> GC])
     /\ K' = SetPc(K, t, IF IsExc(r) THEN "unwind" ELSE "choose")
  /\ UNCHANGED <<L, E, hist>>

\* back from start()
ClientStartRet(t) ==
  /\ At(K, t, "client", "sret")
  /\ LET r == Reg(K, t)
         c == CHOOSE x \in Task : L.tg.Hd[x].sfcaller = t /\ pst.startret[x] = "" /\ pst.starter[x] = t
         h == L.tg.Hd[c].grp
         res == IF ~IsExc(r) THEN "ok" ELSE IF IsAnyioCancel(r) THEN "cancelled"
                ELSE IF IsCancel(r) THEN "native" ELSE "err" IN
     /\ Feed([ev |-> "startret", t |-> t, c |-> c, res |-> res, val |-> IF IsExc(r) THEN 0 ELSE r.e,
              leaves |-> SeqOf(LeavesOf(r)), cdone |-> B2I(K.T[c].st = "done"),
              gcalled |-> B2I(L.tg.G[h].active /\ Sc(K, GroupScope(L.tg, h)).called)])
     /\ K' = SetPc(K, t, IF IsExc(r) THEN "unwind" ELSE "choose")
  /\ UNCHANGED <<L, E, hist>>

\* leave the innermost block with exception Reg (propagating) or normally (Reg = Val); when the
\* program has ended (b.ending) all blocks are left normally, one per step
ClientUnwind(t) ==
  /\ At(K, t, "client", "unwind")
  /\ LET x == Reg(K, t)
         d == Depth(K, t)
         tag == K.S[t][d].tag
         ending == Top(K, t).b.ending      \* once the script has ended the task only leaves its blocks
         next(out) == IF IsExc(out) THEN "unwind" ELSE IF ending THEN "unwind" ELSE "choose"
     IN
     IF d = 1
     THEN IF t = Root
          THEN LET r == ScopeExit(K, t, x) IN
               /\ K' = IF IsExc(r.reg) THEN Raise(r.q, t, r.reg) ELSE Ret(r.q, t)
               /\ Feed([ev |-> "exit", t |-> t, n |-> 1, ein |-> ExcName(x), eout |-> ExcName(r.reg),
                        caught |-> B2I(r.caught), called |-> B2I(K.S[t][d].called), nc |-> r.q.T[t].nc,
                        timeout |-> 0, gc |-> GC])
          ELSE \* the child's coroutine ends here (the handle scope belongs to the wrapper)
               LET rv == Top(K, t).b.ret IN
               /\ K' = IF IsExc(x) THEN Raise(K, t, x) ELSE RetV(K, t, rv)
               /\ Feed([ev |-> "taskend", c |-> t, how |-> ResName(x), leaves |-> SeqOf(LeavesOf(x)),
                        val |-> IF IsExc(x) THEN 0 ELSE rv])
     ELSE IF tag.kind = "group"
     THEN \* __aexit__(exc)
          /\ K' = Call(K, t, "gexited", Frame("tg_exit", "start", 0, x))
          /\ IF IsExc(x) THEN Feed([ev |-> "bodyexc", g |-> Gid(t), how |-> ExcName(x),
                                    leaves |-> SeqOf(LeavesOf(x))])
                         ELSE UNCHANGED <<pst, pbad>>
     ELSE IF tag.cl = 1 /\ IsCancel(x)
     THEN /\ K' = Call(SetTop([K EXCEPT !.S[t][d].tag.cl = 0], t, [Top(K, t) EXCEPT !.b.exc = x]),
                       t, "cleaned", Frame("csc", "start", 0, 0))
          /\ UNCHANGED <<pst, pbad>>
     ELSE LET r == ScopeExit(K, t, x) IN
          /\ K' = SetPc([r.q EXCEPT !.T[t].reg = r.reg], t, next(r.reg))
          /\ Feed([ev |-> "exit", t |-> t, n |-> tag.n, ein |-> ExcName(x), eout |-> ExcName(r.reg),
                   caught |-> B2I(r.caught), called |-> B2I(K.S[t][d].called), nc |-> r.q.T[t].nc,
                   timeout |-> 0, gc |-> GC])
  /\ UNCHANGED <<L, E, hist>>

\* the `async with` statement of the group has finished (normally or raising)
ClientGroupExited(t) ==
  /\ At(K, t, "client", "gexited")
  /\ LET r == Reg(K, t)
         g == 10 * t + L.tg.G[t].n IN
     /\ Feed([ev |-> "tgexit", t |-> t, g |-> g, raised |-> RaisedName(r), leaves |-> SeqOf(LeavesOf(r)),
              handles |-> SeqOf({HandleRec(c) : c \in MembersOf(t)}), gc |-> GC, cc |-> CC(K, t)])
     /\ K' = SetPc(K, t, IF IsExc(r) \/ Top(K, t).b.ending THEN "unwind" ELSE "choose")
  /\ UNCHANGED <<L, E, hist>>

ClientCleaned(t) ==
  /\ At(K, t, "client", "cleaned")
  /\ LET r == Reg(K, t)
         saved == Top(K, t).b.exc IN
     K' = SetPc([K EXCEPT !.T[t].reg = IF IsExc(r) THEN r ELSE saved], t, "unwind")
  /\ UNCHANGED <<L, E, hist, pst, pbad>>

LibStep(t) ==
  \/ /\ HelperEnabled(K, t)
     /\ K' = HelperStep(K, t)
     /\ UNCHANGED <<L, E, hist, pst, pbad>>
  \/ /\ WaitEnabled(K, t)
     /\ LET r == WaitStep(K, L.ev, t) IN K' = r.q /\ L' = [L EXCEPT !.ev = r.ev]
     /\ UNCHANGED <<E, hist, pst, pbad>>
  \/ /\ TGExitEnabled(K, t)
     /\ LET r == TGExitStep(K, L.tg, t) IN K' = r.q /\ L' = [L EXCEPT !.tg = r.tg]
     /\ UNCHANGED <<E, hist, pst, pbad>>
  \/ /\ TGStartEnabled(K, t)
     /\ LET r == TGStartStep(K, L.tg, t) IN K' = r.q /\ L' = [L EXCEPT !.tg = r.tg]
     /\ UNCHANGED <<E, hist, pst, pbad>>
  \/ /\ FinishEnabled(K, t)
     /\ K' = FinishTask(K, t)
     /\ UNCHANGED <<L, E, hist, pst, pbad>>

Cycle == /\ CycleStartEnabled(K) /\ K' = CycleStart(K) /\ UNCHANGED <<L, E, hist, pst, pbad>>
RunHandle ==
  /\ PopEnabled(K)
  /\ LET h == NextHandle(K) IN
     IF h.k = "tgdone"
     THEN LET r == TGTaskDone(Popped(K), L.tg, h.t) IN K' = r.q /\ L' = [L EXCEPT !.tg = r.tg]
     ELSE K' = RunKernelHandle(Popped(K), h) /\ UNCHANGED L
  /\ UNCHANGED <<E, hist, pst, pbad>>

EnvPoint == K.run = NONE /\ (K.left > 0 \/ (Quiescent(K) /\ E.qat = K.nh + 1))

EnvCancel ==
  /\ EnvPoint /\ "cancel" \in EnvKinds /\ E.n < MaxEnv /\ Root \notin E.scoped /\ K.T[Root].st # "done"
  /\ IF Depth(K, Root) = 0
     THEN /\ K.T[Root].st = "unborn"
          /\ E' = [E EXCEPT !.n = @ + 1, !.scoped = @ \cup {Root}, !.pre = TRUE]
          /\ K' = K
          /\ UNCHANGED <<pst, pbad>>
     ELSE /\ K' = ScopeCancel(K, <<Root, 1>>)
          /\ E' = [E EXCEPT !.n = @ + 1, !.scoped = @ \cup {Root}]
          /\ Feed([ev |-> "cancel", t |-> Root, n |-> 1])
  /\ hist' = Append(hist, HE(Root, "cancel"))
  /\ UNCHANGED L

EnvNative(t) ==
  /\ EnvPoint /\ "native" \in EnvKinds /\ E.n < MaxEnv /\ t \notin E.natived
  /\ K.T[t].st = "pending"                \* a task that has started and is not done
  /\ K' = TaskCancel(K, t, FALSE)
  /\ E' = [E EXCEPT !.n = @ + 1, !.natived = @ \cup {t}]
  /\ Feed([ev |-> "native", t |-> t])
  /\ hist' = Append(hist, HE(t, "native"))
  /\ UNCHANGED L

Spawned == {Root} \cup {c \in Task : L.tg.Hd[c].grp # 0}
AllDone == \A t \in Spawned : K.T[t].st = "done"
Blocked == {t \in Task : K.T[t].st = "pending" /\ pst.s.op[t].on}

Quiesce ==
  /\ Quiescent(K) /\ E.qat # K.nh + 1
  /\ E' = [E EXCEPT !.qat = K.nh + 1]
  /\ Feed([ev |-> "quiescent", blocked |-> SortedSeq(Blocked), timers |-> Len(K.timers),
           alldone |-> B2I(AllDone), tail |-> 0, late |-> 0])
  /\ UNCHANGED <<K, L, hist>>

Start == K.cycle = 0 /\ K.ready = <<>> /\ K.nh = 0 /\ K.T[Root].st = "unborn"

Next ==
  \/ /\ Start /\ E.qat = 0 /\ K' = Boot /\ UNCHANGED <<L, E, hist, pst, pbad>>
  \/ (~Start /\ Cycle)
  \/ RunHandle
  \/ \E t \in Task : ClientInit(t) \/ ChildInit(t) \/ ChildEnd(t) \/ ClientChoose(t) \/ ClientRet(t)
                     \/ ClientStartRet(t) \/ ClientUnwind(t) \/ ClientGroupExited(t)
                     \/ ClientCleaned(t) \/ LibStep(t)
  \/ EnvCancel
  \/ \E t \in Task : EnvNative(t)
  \/ (~Start /\ Quiesce)

Spec == Init /\ [][Next]_vars

(****************************** properties **********************************)
\* Known finding F17 (DESIGN.md section 7): the error of a start()ed child that failed before started()
\* is lost when the caller of start() is cancelled natively before it resumes.  The model reproduces the code.
KnownFindingClauses == {"StartErrorLostOnNativeCancelOfCaller"}
PropertyHolds == pbad \subseteq KnownFindingClauses
\* implementation-level twins
\* C01: a group that is no longer active has no live member
JoinInv == \A h \in Task : ~L.tg.G[h].active =>
              \A c \in Task : (L.tg.Hd[c].grp = h /\ L.tg.Hd[c].gn = L.tg.G[h].n /\ L.tg.G[h].n > 0)
                                 => K.T[c].st = "done"
\* the set of live children is exactly TaskGroup._tasks (between handles)
TasksSetExact ==
  K.run = NONE => \A h \in Task : L.tg.G[h].active =>
     L.tg.G[h].tasks = {c \in Task : L.tg.Hd[c].grp = h /\ L.tg.Hd[c].gn = L.tg.G[h].n /\ K.T[c].ingroup}
QuiescentNotStuck ==
  Quiescent(K) => \A t \in Task : (K.T[t].st = "pending" /\ K.T[t].fut = "pending")
                                    => (~EffCancelled(K, Cur(K, t)))
Residue == (K.T[Root].st = "done" /\ Root \notin E.natived) => K.T[Root].nc = 0

Final == [nh |-> K.nh,
          out |-> [t \in Task |-> IF t \notin Spawned THEN "unspawned"
                                  ELSE IF K.T[t].st # "done" THEN "blocked" ELSE ResName(K.T[t].out)],
          nc |-> [t \in Task |-> K.T[t].nc]]
EmitFinalAC == (E'.qat # E.qat) => PrintT(<<"@@F", ToJson([h |-> hist', fin |-> Final])>>)
EmitAC == /\ (hist' # hist) => PrintT(<<"@@H", ToJson(hist')>>)
          /\ EmitFinalAC
=============================================================================
