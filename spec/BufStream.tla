------------------------------- MODULE BufStream -------------------------------
(***************************************************************************)
(* The buffered byte receive stream of anyio (streams/buffered.py) as a    *)
(* stream machine (property C16, byte part).                               *)
(*                                                                         *)
(* State of the machine                                                    *)
(*   kind   : "byte" - the wrapped stream is a ByteReceiveStream that      *)
(*                     honours max_bytes (hands over at most that many     *)
(*                     bytes of its next chunk and keeps the rest),        *)
(*            "obj"  - the wrapped stream is an object stream of bytes     *)
(*                     (always hands over one whole chunk),                *)
(*   buf    : bytes taken from the wrapped stream (or fed with feed_data)  *)
(*            but not yet handed out,                                      *)
(*   cs     : the chunks the wrapped stream will still deliver, in order;  *)
(*            <<>> means it is at end of stream (it never blocks),         *)
(*   closed : aclose() was called.                                         *)
(*                                                                         *)
(* One operator per method; each returns the next state and the outcome    *)
(*   [st |-> state, k |-> "ok" | "eos" | "incomplete" | "notfound" |       *)
(*                        "closed", v |-> bytes handed out].               *)
(* The loops of receive_exactly / receive_until are recursive operators.   *)
(* The delimiter search always looks at the whole buffer: the search       *)
(* offset of the implementation is an optimisation that must not change    *)
(* any result.                                                             *)
(*                                                                         *)
(* The property itself is NOT stated here but in the observer P_ByteWrap;  *)
(* MC_C16B lets TLC prove that every transition of this machine satisfies  *)
(* the observer and emits the transitions for replay on the real class.    *)
(***************************************************************************)
EXTENDS ByteSeqs, FiniteSets

Unbounded == 65536        \* the default max_bytes of ByteReceiveStream.receive()

(* what the wrapped stream hands over when asked for at most n bytes (cs # <<>>) *)
WRecv(kind, cs, n) ==
  IF kind = "byte" /\ n < Len(Head(cs))
  THEN [data |-> Take(Head(cs), n), cs |-> <<Drop(Head(cs), n)>> \o Tail(cs)]
  ELSE [data |-> Head(cs), cs |-> Tail(cs)]

St(kind, buf, cs, closed) == [kind |-> kind, buf |-> buf, cs |-> cs, closed |-> closed]
R(st, k, v) == [st |-> st, k |-> k, v |-> v]

-----------------------------------------------------------------------------
(* receive(n): serve from the buffer first; otherwise one receive on the wrapped stream; the
   surplus of an oversized object-stream chunk is kept in the buffer *)
Receive(st, n) ==
  IF st.closed THEN R(st, "closed", <<>>)
  ELSE IF st.buf # <<>> THEN R([st EXCEPT !.buf = Drop(@, n)], "ok", Take(st.buf, n))
  ELSE IF st.cs = <<>> THEN R(st, "eos", <<>>)
  ELSE LET w == WRecv(st.kind, st.cs, n)
       IN R([st EXCEPT !.cs = w.cs, !.buf = Drop(w.data, n)], "ok", Take(w.data, n))

(* receive_exactly(n): pull until the buffer holds n bytes; at end of stream IncompleteRead, and
   everything pulled so far stays in the buffer *)
RECURSIVE ReceiveExactly(_, _)
ReceiveExactly(st, n) ==
  IF Len(st.buf) >= n THEN R([st EXCEPT !.buf = Drop(@, n)], "ok", Take(st.buf, n))
  ELSE IF st.closed THEN R(st, "closed", <<>>)
  ELSE IF st.cs = <<>> THEN R(st, "incomplete", <<>>)
  ELSE LET w == WRecv(st.kind, st.cs, n - Len(st.buf))
       IN ReceiveExactly([st EXCEPT !.cs = w.cs, !.buf = @ \o w.data], n)

(* receive_until(d, m): pull whole chunks until d occurs in the buffer; DelimiterNotFound once the
   buffer holds m bytes without d; IncompleteRead at end of stream; failures keep the buffer *)
RECURSIVE ReceiveUntil(_, _, _)
ReceiveUntil(st, d, m) ==
  LET i == FirstOcc(d, st.buf) IN
  IF i > 0 THEN R([st EXCEPT !.buf = Drop(@, i - 1 + Len(d))], "ok", Take(st.buf, i - 1))
  ELSE IF Len(st.buf) >= m THEN R(st, "notfound", <<>>)
  ELSE IF st.closed THEN R(st, "closed", <<>>)
  ELSE IF st.cs = <<>> THEN R(st, "incomplete", <<>>)
  ELSE LET w == WRecv(st.kind, st.cs, Unbounded)
       IN ReceiveUntil([st EXCEPT !.cs = w.cs, !.buf = @ \o w.data], d, m)

FeedData(st, x) == R([st EXCEPT !.buf = @ \o x], "ok", <<>>)

\* aclose() closes the wrapped stream as well: what it still held is out of reach
Close(st) == R([st EXCEPT !.closed = TRUE, !.cs = <<>>], "ok", <<>>)

(* a call is a record [op, n, d]: "rx" n | "rex" n | "ru" d n(=max_bytes) | "feed" d(=data) | "close" *)
Step(st, c) ==
  CASE c.op = "rx" -> Receive(st, c.n)
    [] c.op = "rex" -> ReceiveExactly(st, c.n)
    [] c.op = "ru" -> ReceiveUntil(st, c.d, c.n)
    [] c.op = "feed" -> FeedData(st, c.d)
    [] c.op = "close" -> Close(st)

\* bytes the wrapped stream handed over during a step (close discards, it hands over nothing)
Pulled(st, c, r) == IF c.op = "close" THEN 0 ELSE Len(Flatten(st.cs)) - Len(Flatten(r.st.cs))
=============================================================================
