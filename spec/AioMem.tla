------------------------------ MODULE AioMem ------------------------------
(***************************************************************************)
(* anyio.streams.memory (MemoryObjectSendStream / MemoryObjectReceiveStream *)
(* over one shared _MemoryObjectStreamState) on top of the kernel.          *)
(*                                                                          *)
(* State M:  buf (deque of items), maxbuf (INF = math.inf), osend / orecv   *)
(* (open clone counters), hs[side][h] in none/open/closed (per-handle       *)
(* _closed flag), wrecv (waiting_receivers: receiving tasks in order),      *)
(* wsend (waiting_senders: [t, item] in order), ritem[t] (the item slot of  *)
(* t's receiver object, 0 = none), evset[t] (the Event of t's current wait  *)
(* is set).  Items are positive integers.                                   *)
(***************************************************************************)
EXTENDS Aio

MemInit(maxbuf, nsend, nrecv) ==
  [buf |-> <<>>, maxbuf |-> maxbuf, osend |-> nsend, orecv |-> nrecv,
   hs |-> [side \in {"S", "R"} |->
             [h \in 1..4 |-> IF h <= (IF side = "S" THEN nsend ELSE nrecv) THEN "open" ELSE "none"]],
   wrecv |-> <<>>, wsend |-> <<>>,
   ritem |-> [t \in Task |-> 0], evset |-> [t \in Task |-> FALSE]]

\* AsyncIOTaskInfo.has_pending_cancellation (:2239-2254)
HasPendingCancel(q, t) ==
  q.T[t].must \/ q.T[t].fut = "cancelled" \/ EffCancelled(q, Cur(q, t))

\* Event.set() of the event task t waits on
MemSetEvent(q, m, t) == [q |-> FutSetResult(q, t), m |-> [m EXCEPT !.evset[t] = TRUE]]

\* send_nowait (:206-233): res in ok / wouldblock / closed / broken
RECURSIVE MemHandToReceiver(_, _, _)
MemHandToReceiver(q, m, item) ==
  IF m.wrecv = <<>>
  THEN IF Len(m.buf) < m.maxbuf
       THEN [q |-> q, m |-> [m EXCEPT !.buf = Append(@, item)], res |-> "ok"]
       ELSE [q |-> q, m |-> m, res |-> "wouldblock"]
  ELSE LET r == Head(m.wrecv)
           m1 == [m EXCEPT !.wrecv = Tail(@)] IN
       IF HasPendingCancel(q, r) THEN MemHandToReceiver(q, m1, item)    \* popped and dropped
       ELSE LET s == MemSetEvent(q, [m1 EXCEPT !.ritem[r] = item], r) IN
            [q |-> s.q, m |-> s.m, res |-> "ok"]

MemSendNowait(q, m, h, item) ==
  IF m.hs["S"][h] # "open" THEN [q |-> q, m |-> m, res |-> "closed"]
  ELSE IF m.orecv = 0 THEN [q |-> q, m |-> m, res |-> "broken"]
  ELSE MemHandToReceiver(q, m, item)

\* receive_nowait (:87-113): res in ok (item) / wouldblock / closed / eos
MemRecvNowait(q, m, h) ==
  IF m.hs["R"][h] # "open" THEN [q |-> q, m |-> m, res |-> "closed", item |-> 0]
  ELSE LET r1 == IF m.wsend # <<>>
                 THEN LET e == Head(m.wsend)
                          s == MemSetEvent(q, [m EXCEPT !.wsend = Tail(@), !.buf = Append(@, e.item)], e.t)
                      IN [q |-> s.q, m |-> s.m]
                 ELSE [q |-> q, m |-> m] IN
       IF r1.m.buf # <<>>
       THEN [q |-> r1.q, m |-> [r1.m EXCEPT !.buf = Tail(@)], res |-> "ok", item |-> Head(r1.m.buf)]
       ELSE IF r1.m.osend = 0 THEN [q |-> r1.q, m |-> r1.m, res |-> "eos", item |-> 0]
       ELSE [q |-> r1.q, m |-> r1.m, res |-> "wouldblock", item |-> 0]

RECURSIVE MemSetAll(_, _, _)
MemSetAll(q, m, ts) ==
  IF ts = <<>> THEN [q |-> q, m |-> m]
  ELSE LET s == MemSetEvent(q, m, Head(ts)) IN MemSetAll(s.q, s.m, Tail(ts))

\* close() of a handle (:150-164, :280-295)
MemClose(q, m, side, h) ==
  IF m.hs[side][h] # "open" THEN [q |-> q, m |-> m]
  ELSE IF side = "R"
  THEN LET m1 == [m EXCEPT !.hs["R"][h] = "closed", !.orecv = @ - 1] IN
       IF m1.orecv = 0 THEN MemSetAll(q, m1, [i \in DOMAIN m1.wsend |-> m1.wsend[i].t])
       ELSE [q |-> q, m |-> m1]
  ELSE LET m1 == [m EXCEPT !.hs["S"][h] = "closed", !.osend = @ - 1] IN
       IF m1.osend = 0 THEN MemSetAll(q, [m1 EXCEPT !.wrecv = <<>>], m1.wrecv)
       ELSE [q |-> q, m |-> m1]

\* clone() (:135-147, :265-278): res ok / closed
MemClone(m, side, h, nh) ==
  IF m.hs[side][h] # "open" THEN [m |-> m, res |-> "closed"]
  ELSE [m |-> IF side = "S" THEN [m EXCEPT !.hs["S"][nh] = "open", !.osend = @ + 1]
                             ELSE [m EXCEPT !.hs["R"][nh] = "open", !.orecv = @ + 1],
        res |-> "ok"]

ErrOf(res) == Err(res)     \* "closed" / "broken" / "eos" as exception identities

\* send() (:235-263); frame a = handle, b = item
MemSendEnabled(q, t) == q.run = t /\ q.T[t].stack # <<>> /\ Top(q, t).f = "mem_send"
MemSendStep(q, m, t) ==
  LET pc == Top(q, t).pc
      h == Top(q, t).a
      item == Top(q, t).b IN
  CASE pc = "start" -> [q |-> Call(q, t, "s1", Frame("yield", "start", 0, 0)), m |-> m]
    [] pc = "s1" ->
         IF IsExc(Reg(q, t)) THEN [q |-> Raise(q, t, Reg(q, t)), m |-> m]
         ELSE LET r == MemSendNowait(q, m, h, item) IN
              (CASE r.res = "ok" -> [q |-> Ret(r.q, t), m |-> r.m]
                 [] r.res = "wouldblock" ->
                      [q |-> SuspendFut(q, t, "s2"),
                       m |-> [m EXCEPT !.wsend = Append(@, [t |-> t, item |-> item]), !.evset[t] = FALSE]]
                 [] OTHER -> [q |-> Raise(q, t, ErrOf(r.res)), m |-> m])
    [] pc = "s2" ->
         LET mine == \E i \in DOMAIN m.wsend : m.wsend[i].t = t
             m1 == [m EXCEPT !.wsend = SelectSeq(@, LAMBDA e : e.t # t)] IN
         IF IsExc(Reg(q, t)) THEN [q |-> Raise(q, t, Reg(q, t)), m |-> m1]
         ELSE IF mine THEN [q |-> Raise(q, t, ErrOf("broken")), m |-> m1]
         ELSE [q |-> Ret(q, t), m |-> m]

\* receive() (:115-133); frame a = handle
MemRecvEnabled(q, t) == q.run = t /\ q.T[t].stack # <<>> /\ Top(q, t).f = "mem_recv"
MemRecvStep(q, m, t) ==
  LET pc == Top(q, t).pc
      h == Top(q, t).a IN
  CASE pc = "start" -> [q |-> Call(q, t, "r1", Frame("yield", "start", 0, 0)), m |-> m]
    [] pc = "r1" ->
         IF IsExc(Reg(q, t)) THEN [q |-> Raise(q, t, Reg(q, t)), m |-> m]
         ELSE LET r == MemRecvNowait(q, m, h) IN
              (CASE r.res = "ok" -> [q |-> RetV(r.q, t, r.item), m |-> r.m]
                 [] r.res = "wouldblock" ->
                      [q |-> SuspendFut(r.q, t, "r2"),
                       m |-> [r.m EXCEPT !.wrecv = Append(@, t), !.ritem[t] = 0, !.evset[t] = FALSE]]
                 [] OTHER -> [q |-> Raise(r.q, t, ErrOf(r.res)), m |-> r.m])
    [] pc = "r2" ->                 \* finally: waiting_receivers.pop(event, None)
         LET m1 == [m EXCEPT !.wrecv = SelectSeq(@, LAMBDA w : w # t)] IN
         IF IsExc(Reg(q, t)) THEN [q |-> Raise(q, t, Reg(q, t)), m |-> m1]   \* an item in the slot is dropped (F6)
         ELSE IF m.ritem[t] # 0 THEN [q |-> RetV(q, t, m.ritem[t]), m |-> m1]
         ELSE [q |-> Raise(q, t, ErrOf("eos")), m |-> m1]

=============================================================================
