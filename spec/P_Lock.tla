------------------------------ MODULE P_Lock ------------------------------
(***************************************************************************)
(* Property-level specification of anyio.Lock (property C09).              *)
(*                                                                         *)
(* It speaks only about what the statement speaks about: who holds the     *)
(* lock (between the return of acquire and the call of release), who is    *)
(* in the middle of an acquire and since when, and which of those have     *)
(* been overtaken.  It is a deterministic observer: LockApply(p, e) takes  *)
(* the abstract state and one observable event and returns the next state  *)
(* and the set of property clauses the event violates.  The same operator  *)
(* is used                                                                 *)
(*   - as ghost state of the implementation-shaped model (MC_C09: TLC      *)
(*     checks  pbad = {}  in every reachable state of every interleaving), *)
(*   - by the trace specification (T_Lock) that validates traces recorded  *)
(*     from the real library.                                              *)
(*                                                                         *)
(* Events (records; obs fields are the PUBLIC projection statistics()):    *)
(*  [ev="start", t, op="acq"]                     acquire() called         *)
(*  [ev="end",   t, op="acq", res, owner, waiting] acquire() returned/raised*)
(*  [ev="nowait",t, res, owner, waiting]          acquire_nowait()         *)
(*  [ev="rel",   t, res, owner, waiting]          release()                *)
(*  [ev="creq",  t]              a cancellation of t was requested         *)
(*  [ev="cdone", t]              t's scope absorbed it; t carries on       *)
(*  [ev="quiescent", owner, waiting]  loop idle: nothing can happen        *)
(* res: "ok" | "cancelled" | "error" | "wouldblock"; owner: task or 0.     *)
(*                                                                         *)
(* Rule P-permissive: only what the statement forbids is a clause.  A      *)
(* waiter that is passed over is legitimate iff its acquire ends in        *)
(* cancellation ("doomed"); the observer learns that only later, so being  *)
(* passed over is recorded and the clause fires when a doomed acquire      *)
(* nevertheless returns normally.                                          *)
(***************************************************************************)
EXTENDS Naturals, Sequences, FiniteSets

LockP0 == [holder |-> 0,       \* task between acquire-return and release, 0 = none
           inprog |-> <<>>,    \* tasks inside acquire(), in the order they called it
           doomed |-> {},      \* in-progress acquirers that have been overtaken
           creq   |-> {},      \* tasks for which a cancellation has been requested
           reacq  |-> {}]      \* in-progress acquirers that already held the lock when they called

SeqRemove(s, x) == SelectSeq(s, LAMBDA y : y # x)
SeqSet(s) == {s[i] : i \in DOMAIN s}
Before(s, x) == {s[i] : i \in {j \in DOMAIN s : \A k \in DOMAIN s : s[k] = x => j < k}}

Names(r) == {n \in DOMAIN r : ~r[n]}      \* the clauses (record of booleans) that are false

\* clauses about the reported owner, evaluated on every event that carries an observation
ObsClauses(p, e) ==
  [ReportedOwnerIsHolder |-> p.holder # 0 => e.owner = p.holder,
   OwnerAskedForIt       |-> e.owner # 0 => (e.owner = p.holder \/ e.owner \in SeqSet(p.inprog))]

LockApply(p, e) ==
  CASE e.ev = "start" ->
         [p |-> [p EXCEPT !.inprog = Append(@, e.t),
                          !.reacq = IF p.holder = e.t THEN @ \cup {e.t} ELSE @],
          bad |-> {}]
    [] e.ev = "end" /\ e.res = "ok" ->
         LET cl == [MutualExclusion    |-> p.holder = 0,
                    ReturnsToOwner     |-> e.owner = e.t,
                    FifoNoOvertaking   |-> e.t \notin p.doomed,
                    NoReacquire        |-> e.t \notin p.reacq]
         IN [p |-> [p EXCEPT !.holder = e.t,
                             !.doomed = (@ \cup Before(p.inprog, e.t)) \ {e.t},
                             !.inprog = SeqRemove(@, e.t),
                             !.reacq = @ \ {e.t}],
             bad |-> Names(cl)]
    [] e.ev = "end" /\ e.res = "cancelled" ->
         LET cl == [CancelWasRequested   |-> e.t \in p.creq,
                    CancelledWaiterNotOwner |-> e.owner = e.t => p.holder = e.t]
             p1 == [p EXCEPT !.inprog = SeqRemove(@, e.t), !.doomed = @ \ {e.t}, !.reacq = @ \ {e.t}]
         IN [p |-> p1, bad |-> Names(cl) \cup Names(ObsClauses(p1, e))]
    [] e.ev = "end" /\ e.res = "error" ->
         LET cl == [ErrorOnlyWhenReacquiring |-> e.t \in p.reacq]
             p1 == [p EXCEPT !.inprog = SeqRemove(@, e.t), !.doomed = @ \ {e.t}, !.reacq = @ \ {e.t}]
         IN [p |-> p1, bad |-> Names(cl) \cup Names(ObsClauses(p1, e))]
    [] e.ev = "nowait" /\ e.res = "ok" ->
         LET cl == [MutualExclusion  |-> p.holder = 0,
                    ReturnsToOwner   |-> e.owner = e.t]
         IN [p |-> [p EXCEPT !.holder = e.t, !.doomed = @ \cup SeqSet(p.inprog)],
             bad |-> Names(cl)]
    [] e.ev = "nowait" /\ e.res = "wouldblock" ->
         LET cl == [WouldBlockOnlyWhenBusy |-> (p.holder # 0 \/ p.inprog # <<>>) /\ p.holder # e.t]
         IN [p |-> p, bad |-> Names(cl) \cup Names(ObsClauses(p, e))]
    [] e.ev = "nowait" /\ e.res = "error" ->
         LET cl == [ErrorOnlyWhenReacquiring |-> p.holder = e.t]
         IN [p |-> p, bad |-> Names(cl) \cup Names(ObsClauses(p, e))]
    [] e.ev = "rel" /\ e.res = "ok" ->
         LET cl == [OnlyOwnerReleases |-> p.holder = e.t]
             p1 == [p EXCEPT !.holder = IF @ = e.t THEN 0 ELSE @]
         IN [p |-> p1, bad |-> Names(cl) \cup Names(ObsClauses(p1, e))]
    [] e.ev = "rel" /\ e.res = "error" ->
         LET cl == [OwnerCanRelease |-> p.holder # e.t]
         IN [p |-> p, bad |-> Names(cl) \cup Names(ObsClauses(p, e))]
    [] e.ev = "creq" -> [p |-> [p EXCEPT !.creq = @ \cup {e.t}], bad |-> {}]
    [] e.ev = "cdone" -> [p |-> [p EXCEPT !.creq = @ \ {e.t}], bad |-> {}]   \* t's scope absorbed the request
    [] e.ev = "quiescent" ->
         LET cl == [NoFreeLockWithWaiters |-> p.inprog # <<>> => p.holder # 0,
                    UnlockedWhenAllReleased |->
                        (p.holder = 0 /\ p.inprog = <<>>) => (e.owner = 0 /\ e.waiting = 0)]
         IN [p |-> p, bad |-> Names(cl) \cup Names(ObsClauses(p, e))]
    [] OTHER -> [p |-> p, bad |-> {"UnknownEvent"}]

(***************************************************************************)
(* Stand-alone sanity model of the observer: any sequence of events that   *)
(* the clauses accept keeps the structural invariants below.  (Checked by  *)
(* MC_P_Lock.)                                                              *)
(***************************************************************************)
=============================================================================
