------------------------------ MODULE P_Cache ------------------------------
(***************************************************************************)
(* Property-level observer for anyio.functools.lru_cache on a coroutine    *)
(* function (property C20: right value, single flight, bounded retention). *)
(*                                                                         *)
(* The wrapped function is the harness' own: every execution x = 1, 2, ... *)
(* logs its start, suspends on a gate, and then returns a FRESH object     *)
(* (identified by x), raises a fresh error (identified by x) or is         *)
(* cancelled.  Callers are slots c in 1..4 (a slot is reused for a later   *)
(* call once its call has returned).  Keys are 1..3.                       *)
(*                                                                         *)
(* Events                                                                  *)
(*  [ev="call",   c, k]       caller c calls the cached function with key k*)
(*  [ev="xstart", c, k, x]    execution x of the wrapped function starts   *)
(*                            (inside the call of caller c)                *)
(*  [ev="xend",   x, res]     res: ok | fail | cancelled                   *)
(*  [ev="ret",    c, res, v]  res: ok (v = execution whose object was      *)
(*                            returned) | err (v = execution whose error   *)
(*                            was raised) | cancelled | internal (an       *)
(*                            exception the wrapped function never raised) *)
(*  [ev="creq",   c]          cancellation of caller c requested           *)
(*  [ev="tick",   now]        the clock moved to now                       *)
(*  [ev="quiescent", alive]   loop idle; alive = the result objects that   *)
(*                            still exist after the harness dropped its    *)
(*                            references (sequence of execution ids)       *)
(*  [ev="fin"]                end of the trace: reports the known-finding  *)
(*                            clauses collected on the way                 *)
(*                                                                         *)
(* Rule P-permissive: only what the statement forbids is a violation.      *)
(* Unambiguous "use" order only: a call uses its key somewhere between its *)
(* start and its return, so "k was used before k2" is concluded only when  *)
(* the whole call on k returned before the call on k2 started.             *)
(*                                                                         *)
(* Known findings (F3).  The pinned code evicts with popitem(last=False)   *)
(* whatever entry is first, including the placeholder of an execution that *)
(* is still in flight or that failed.  Observable consequences: a waiter   *)
(* gets KeyError, a key is executed twice concurrently, more than maxsize  *)
(* results stay retained, the wrong entry is evicted later on.  The shape  *)
(* in which this can happen is recognised on the log alone (EvictsBlindly; *)
(* for the KeyError: an eviction made while the caller's call was in       *)
(* progress, MayEvict)                                                     *)
(* and makes the history `tainted`; in a tainted history the four clauses  *)
(* concerned are reported under the finding's signature (collected in      *)
(* p.known, flushed by "fin") instead of as violations.  Everything else   *)
(* (RightValue, NoStaleAfterTtl, NoCrossKeyBlocking, CancelWasRequested,   *)
(* and all clauses in untainted histories) stays a violation.              *)
(* Second finding: with a ttl, an expired entry is recomputed IN PLACE and *)
(* keeps its old position in the eviction order (ttaint).                  *)
(***************************************************************************)
EXTENDS Naturals, Sequences, FiniteSets

CNOMAX == 99          \* maxsize = None
CNOTTL == 99          \* ttl = None
CKeys == 1..3
CCallers == 1..4

CacheP0(maxsize, ttl) ==
  [ms |-> maxsize, ttl |-> ttl, now |-> 0, n |-> 0,
   calls |-> [c \in CCallers |-> [on |-> FALSE, k |-> 0, n |-> 0, now |-> 0, ev |-> FALSE, hit |-> FALSE]],
                                      \* ev: an entry may have been evicted while this call was in progress
   ex |-> <<>>,                       \* executions: [k, c, st, ns, ne, te]
   creq |-> {},
   lastcall |-> [k \in CKeys |-> 0],  \* index of the latest "call" on k
   okstart |-> [k \in CKeys |-> 0],   \* start index of the latest-started call on k that returned ok
   okval |-> [k \in CKeys |-> 0],     \* ... and the execution whose object it returned
   useend |-> [k \in CKeys |-> 0],    \* index of the latest ok return of a call on k
   failed |-> FALSE,                  \* some execution or call ended without a result
   taint |-> FALSE,                   \* F3 shape seen (see EvictsBlindly)
   ttaint |-> FALSE,                  \* a key was recomputed under a ttl (in-place expiry)
   known |-> {}]

CNames(r) == {x \in DOMAIN r : ~r[x]}
CRunning(p) == {x \in DOMAIN p.ex : p.ex[x].st = "running"}
COk(p) == {x \in DOMAIN p.ex : p.ex[x].st = "ok"}
CMax(S) == IF S = {} THEN 0 ELSE CHOOSE x \in S : \A y \in S : y <= x
CLatestOk(p, k) == CMax({x \in COk(p) : p.ex[x].k = k})
CBounded(p) == p.ms # CNOMAX

\* Known-finding signatures
SigKeyError  == "KeyErrorAfterInFlightEviction"
SigRetention == "RetentionAboveMaxsizeAfterConcurrentMisses"
SigTwice     == "ConcurrentExecutionsAfterInFlightEviction"
SigTtlOrder  == "ExpiredEntryKeepsLruPosition"

\* An execution for key k starts inside the call of c.  The pinned code has just decided whether
\* to evict; it evicts blindly (possibly a placeholder: its own, that of an execution in flight or
\* about to start, or a dead one) when the cache is full by its own count and a placeholder can be
\* at the front of the dict: somebody else is inside a call right now, another call began or
\* returned since this call's look-up (a hit moves its entry behind this call's placeholder), or
\* an earlier call or execution ended without a result (dead placeholder, count not given back).
\* "Full by its own count" cannot happen before maxsize executions have started; in a history
\* without failures it needs maxsize other keys.
MayEvict(p, k) ==
  LET otherKeys == {p.ex[x].k : x \in DOMAIN p.ex} \ {k}
  IN CBounded(p) /\ p.ms > 0 /\ (IF p.failed THEN Len(p.ex) >= p.ms ELSE Cardinality(otherKeys) >= p.ms)
EvictsBlindly(p, c, k) ==
  LET othersOn == \E c2 \in CCallers \ {c} : p.calls[c2].on
      since == \E k2 \in CKeys : p.lastcall[k2] > p.calls[c].n \/ p.useend[k2] > p.calls[c].n
  IN MayEvict(p, k) /\ (othersOn \/ since \/ p.failed)

\* At the start of a call on k the pinned code certainly finds k's result in the dict (and then
\* returns it without ever touching a lock): nothing irregular has happened so far, the latest
\* execution of k succeeded and is neither running nor expired, and fewer than maxsize other keys
\* were executed since the earliest moment k can have taken its place in the order.  Used only to
\* keep the KeyError finding narrow: such a call cannot be the waiter of F3a.
CertainHit(p, k) ==
  LET y == CLatestOk(p, k)
      newer == {p.ex[x].k : x \in {z \in DOMAIN p.ex : p.ex[z].ns > p.okstart[k]}} \ {k}
  IN /\ ~p.taint /\ ~p.ttaint /\ ~p.failed
     /\ y # 0 /\ p.okval[k] = y /\ \A x \in DOMAIN p.ex : p.ex[x].k = k => x <= y
     /\ (p.ttl = CNOTTL \/ p.now < p.ex[y].te + p.ttl)
     /\ p.ms > 0 /\ Cardinality(newer) < p.ms

\* split clause results into violations and known findings.  cl: record of clauses; kinds: record
\* clause name -> "" (never excused) | "key" | "twice" | "size" | "order"
CSigOf(p, kind) ==
  CASE kind = "key"   -> SigKeyError      \* the caller decides (per call, see "ret")
    [] kind = "twice" -> IF p.taint THEN SigTwice ELSE ""
    [] kind = "size"  -> IF p.taint THEN SigRetention ELSE ""
    [] kind = "order" -> IF p.taint THEN SigRetention ELSE IF p.ttaint THEN SigTtlOrder ELSE ""
    [] OTHER -> ""
CSplit(p, cl, kinds) ==
  LET failing == CNames(cl)
      excused == {x \in failing : CSigOf(p, kinds[x]) # ""}
  IN [bad |-> failing \ excused, known |-> {CSigOf(p, kinds[x]) : x \in excused}]

CacheApply0(p0, e) ==
  LET p == [p0 EXCEPT !.n = @ + 1] IN
  CASE e.ev = "call" ->
         IF e.c \notin CCallers \/ e.k \notin CKeys \/ p.calls[e.c].on
         THEN [p |-> p, bad |-> {"UnknownEvent"}]
         ELSE [p |-> [p EXCEPT !.calls[e.c] = [on |-> TRUE, k |-> e.k, n |-> p.n, now |-> p.now, ev |-> FALSE,
                                                      hit |-> CertainHit(p, e.k)],
                               !.lastcall[e.k] = p.n],
               bad |-> {}]
    [] e.ev = "xstart" ->
         IF e.c \notin CCallers \/ e.x # Len(p.ex) + 1 THEN [p |-> p, bad |-> {"UnknownEvent"}]
         ELSE
         LET cl == [ExecutesTheCallersKey |-> p.calls[e.c].on /\ p.calls[e.c].k = e.k,
                    \* nothing is ever evicted or expires: the first result is reused by everybody
                    ReusesTheFirstResult |-> (p.ms = CNOMAX /\ p.ttl = CNOTTL) =>
                                                \A y \in COk(p) : p.ex[y].k # e.k,
                    \* maxsize = 0 means "no caching" (as in functools): calls are passed through
                    SingleFlight |-> p.ms = 0 \/ \A x \in CRunning(p) : p.ex[x].k # e.k]
             tnt == p.taint \/ (p.calls[e.c].on /\ EvictsBlindly(p, e.c, e.k))
             ttn == p.ttaint \/ (p.ttl # CNOTTL /\ CLatestOk(p, e.k) # 0)
             \* a waiter that finds its key gone after an eviction made during its call gets KeyError
             mark == MayEvict(p, e.k)
             p1 == [p EXCEPT !.taint = tnt, !.ttaint = ttn,
                             !.calls = [c \in CCallers |-> IF c # e.c /\ @[c].on /\ mark
                                                           THEN [@[c] EXCEPT !.ev = TRUE] ELSE @[c]],
                             !.ex = Append(@, [k |-> e.k, c |-> e.c, st |-> "running", ns |-> p.n,
                                               ne |-> 0, te |-> 0])]
             s == CSplit(p1, cl, [ExecutesTheCallersKey |-> "", ReusesTheFirstResult |-> "", SingleFlight |-> "twice"])
         IN [p |-> [p1 EXCEPT !.known = @ \cup s.known], bad |-> s.bad]
    [] e.ev = "xend" ->
         IF e.x \notin DOMAIN p.ex \/ p.ex[e.x].st # "running" \/ e.res \notin {"ok", "fail", "cancelled"}
         THEN [p |-> p, bad |-> {"UnknownEvent"}]
         ELSE [p |-> [p EXCEPT !.ex[e.x].st = e.res, !.ex[e.x].ne = p.n, !.ex[e.x].te = p.now,
                               !.failed = @ \/ e.res # "ok"],
               bad |-> {}]
    [] e.ev = "ret" ->
         IF e.c \notin CCallers \/ ~p.calls[e.c].on THEN [p |-> p, bad |-> {"UnknownEvent"}]
         ELSE
         LET call == p.calls[e.c]
             k == call.k
             pdone == [p EXCEPT !.calls[e.c].on = FALSE, !.creq = @ \ {e.c}]   \* the slot may be reused
         IN
         CASE e.res = "ok" ->
                LET right == e.v \in COk(p) /\ p.ex[e.v].k = k
                    x == IF right THEN p.ex[e.v] ELSE [k |-> k, c |-> 0, st |-> "ok", ns |-> 0, ne |-> p.n, te |-> 0]
                    \* served from retention: the execution was over before this call began
                    hit == right /\ x.ne < call.n
                    \* the key's last certain use before this call
                    lu == IF p.useend[k] > x.ne THEN p.useend[k] ELSE x.ne
                    sure == p.useend[k] < call.n
                    newer == {k2 \in CKeys \ {k} :
                                \E y \in COk(p) : /\ p.ex[y].k = k2 /\ p.ex[y].ns > lu /\ p.ex[y].ne < call.n
                                                   \* (an expired result may have been purged instead)
                                                   /\ (p.ttl = CNOTTL \/ call.now < p.ex[y].te + p.ttl)}
                    cl == [RightValue |-> right,
                           NoStaleAfterTtl |-> (hit /\ p.ttl # CNOTTL) => call.now < x.te + p.ttl,
                           NoStaleAfterEvict |-> (hit /\ CBounded(p) /\ sure) => Cardinality(newer) < p.ms]
                    s == CSplit(p, cl, [RightValue |-> "", NoStaleAfterTtl |-> "",
                                        NoStaleAfterEvict |-> "order"])
                    p1 == [pdone EXCEPT !.useend[k] = p.n,
                                        !.okstart[k] = IF call.n > @ THEN call.n ELSE @,
                                        !.okval[k] = IF call.n > p.okstart[k] THEN e.v ELSE @,
                                        !.known = @ \cup s.known]
                IN [p |-> p1, bad |-> s.bad]
           [] e.res = "err" ->
                LET cl == [RightValue |-> /\ e.v \in DOMAIN p.ex
                                          /\ p.ex[e.v].k = k /\ p.ex[e.v].st = "fail"
                                          /\ p.ex[e.v].ne > call.n]
                IN [p |-> [pdone EXCEPT !.failed = TRUE], bad |-> CNames(cl)]
           [] e.res = "cancelled" ->
                [p |-> [pdone EXCEPT !.failed = TRUE], bad |-> CNames([CancelWasRequested |-> e.c \in p.creq])]
           [] e.res = "internal" ->
                IF call.ev /\ ~call.hit THEN [p |-> [pdone EXCEPT !.known = @ \cup {SigKeyError}, !.failed = TRUE], bad |-> {}]
                ELSE [p |-> pdone, bad |-> {"NoInternalError"}]
           [] OTHER -> [p |-> p, bad |-> {"UnknownEvent"}]
    [] e.ev = "creq" -> [p |-> [p EXCEPT !.creq = @ \cup {e.c}], bad |-> {}]
    [] e.ev = "tick" -> [p |-> [p EXCEPT !.now = e.now], bad |-> {}]
    [] e.ev = "quiescent" ->
         LET alive == {e.alive[i] : i \in DOMAIN e.alive}
             \* an evicted result d of key kd while the result a of a key ka used strictly earlier
             \* is still retained: d is what the latest call on kd returned, nothing touched kd since
             wrong == {kd \in CKeys :
                         /\ p.okval[kd] # 0 /\ p.okval[kd] \notin alive
                         /\ p.lastcall[kd] = p.okstart[kd]
                         /\ p.okval[kd] = CLatestOk(p, kd)
                         /\ (p.ttl = CNOTTL \/ p.now < p.ex[p.okval[kd]].te + p.ttl)   \* not simply expired
                         /\ \E ka \in CKeys \ {kd} :
                               /\ CLatestOk(p, ka) # 0 /\ CLatestOk(p, ka) \in alive
                               /\ p.useend[ka] < p.okstart[kd]
                               /\ p.ex[CLatestOk(p, ka)].ne < p.okstart[kd]
                               /\ \A c \in CCallers : ~(p.calls[c].on /\ p.calls[c].k = ka)}
             cl == [AliveAreResults |-> alive \subseteq COk(p),
                    AtMostMaxsize |-> CBounded(p) => Cardinality(alive) <= p.ms,
                    LRUEviction |-> wrong = {},
                    \* nobody is left waiting for something that is not being computed
                    NoCrossKeyBlocking |-> \A c \in CCallers : p.calls[c].on =>
                                              \E x \in CRunning(p) : p.ex[x].k = p.calls[c].k]
             s == CSplit(p, cl, [AliveAreResults |-> "", AtMostMaxsize |-> "size",
                                 LRUEviction |-> "order", NoCrossKeyBlocking |-> ""])
         IN [p |-> [p EXCEPT !.known = @ \cup s.known], bad |-> s.bad]
    [] e.ev = "fin" -> [p |-> [p EXCEPT !.known = {}], bad |-> p.known]
    [] OTHER -> [p |-> p, bad |-> {"UnknownEvent"}]

CacheApply(p, e) == CacheApply0(p, e)
=============================================================================
