------------------------------ MODULE AioTG ------------------------------
(***************************************************************************)
(* anyio._backends._asyncio.TaskGroup (:751-973, after fix F2),            *)
(* _AsyncioTaskStatus (:727-742) and anyio._core._tasks.TaskHandle         *)
(* (:252-461) on top of the kernel.                                        *)
(*                                                                         *)
(* A task hosts at most one ACTIVE group at a time (nested groups live in  *)
(* children).  G[h] is the group hosted by task h:                         *)
(*   active, sd (depth of the group's cancel scope on h's scope stack),    *)
(*   tasks (TaskGroup._tasks), excs (TaskGroup._exceptions: error ids),    *)
(*   waiting (_on_completed_fut is pending).                               *)
(* Hd[c] is the TaskHandle / start() state of child task c:                *)
(*   grp (host of its group, 0 = not spawned), finished (_finished_event), *)
(*   how (outcome the wrapper recorded), pre (handle scope cancelled       *)
(*   before the child entered it), sf (state of the start() future:        *)
(*   none/pending/result/exc/cancelled), sfcaller, sfval, waiters (tasks   *)
(*   waiting on _finished_event), nstarted (calls of started()).           *)
(*                                                                         *)
(* Exceptions: Err(id) for a single error, GroupExc(ids, anyio) for an     *)
(* exception group whose leaves are the error ids `ids` (plus AnyIO        *)
(* cancellations when `anyio`).                                            *)
(***************************************************************************)
EXTENDS Aio

GroupExc(ids, anyio) == [k |-> "exc", c |-> "group", a |-> anyio, e |-> ids]
LeavesOf(x) == IF ~IsExc(x) \/ IsCancel(x) THEN {} ELSE IF x.c = "group" THEN x.e ELSE {x.e}

G0 == [active |-> FALSE, sd |-> 0, tasks |-> {}, excs |-> {}, waiting |-> FALSE, n |-> 0]
Hd0 == [grp |-> 0, gn |-> 0, finished |-> FALSE, how |-> Val, pre |-> FALSE, sf |-> "none", sfcaller |-> 0,
        sfval |-> Val, waiters |-> <<>>, nstarted |-> 0]
TGInit == [G |-> [t \in Task |-> G0], Hd |-> [t \in Task |-> Hd0]]

GroupScope(tg, h) == <<h, tg.G[h].sd>>

\* the start() future of child c as the library sees it: the caller's awaited future may have been
\* cancelled by Task.cancel() while the caller has not resumed yet
SFState(q, tg, c) ==
  LET hd == tg.Hd[c] IN
  IF hd.sf = "pending" /\ hd.sfcaller # 0 /\ q.T[hd.sfcaller].fut = "cancelled"
     /\ q.T[hd.sfcaller].stack # <<>> /\ Top(q, hd.sfcaller).f = "tg_start"
     /\ Top(q, hd.sfcaller).pc = "w" /\ Top(q, hd.sfcaller).a = c
  THEN "cancelled" ELSE hd.sf

\* TaskGroup.__aenter__ (:759-766)
TGEnter(q, tg, h, n) ==
  LET q1 == ScopeEnter(q, h, FALSE, INF, FALSE, [n |-> n, kind |-> "group", cl |-> 0, dl |-> INF]) IN
  [q |-> q1,
   tg |-> [tg EXCEPT !.G[h] = [G0 EXCEPT !.active = TRUE, !.sd = Depth(q1, h), !.n = tg.G[h].n + 1]]]

\* TaskGroup._spawn (:830-911): child c becomes a member of the group hosted by h
TGSpawn(q, tg, h, c, withStart, caller) ==
  [q |-> CallSoon([q EXCEPT !.root[c] = GroupScope(tg, h), !.T[c].ingroup = TRUE], HStep(c)),
   tg |-> [tg EXCEPT !.G[h].tasks = @ \cup {c},
                     !.Hd[c] = [Hd0 EXCEPT !.grp = h, !.gn = tg.G[h].n,
                                           !.sf = IF withStart THEN "pending" ELSE "none",
                                           !.sfcaller = IF withStart THEN caller ELSE 0]]]

\* the done callback task_done(c) (:836-881), run as its own handle
TGTaskDone(q, tg, c) ==
  LET h == tg.Hd[c].grp
      q0 == [q EXCEPT !.T[c].ingroup = FALSE]
      tg0 == [tg EXCEPT !.G[h].tasks = @ \ {c}]
      \* "if self._on_completed_fut is not None and not self._tasks: set_result"
      wake == tg0.G[h].waiting /\ tg0.G[h].tasks = {}
      q1 == IF wake THEN FutSetResult(q0, h) ELSE q0
      out == q.T[c].out
      sf == SFState(q, tg, c)
      caller == tg.Hd[c].sfcaller
  IN IF IsExc(out)
     THEN IF sf = "cancelled" /\ IsCancel(out) THEN [q |-> q1, tg |-> tg0]
          ELSE IF sf # "pending"
          THEN LET tg1 == IF IsCancel(out) THEN tg0
                          ELSE [tg0 EXCEPT !.G[h].excs = @ \cup LeavesOf(out)]
                   gs == GroupScope(tg, h)
               IN [q |-> IF ~EffCancelled(q1, gs) THEN ScopeCancel(q1, gs) ELSE q1, tg |-> tg1]
          ELSE \* the child failed before started(): its exception goes to the caller of start()
               [q |-> FutSetResult(q1, caller),
                tg |-> [tg0 EXCEPT !.Hd[c].sf = "exc", !.Hd[c].sfval = out]]
     ELSE IF sf = "pending"
     THEN [q |-> FutSetResult(q1, caller),
           tg |-> [tg0 EXCEPT !.Hd[c].sf = "exc", !.Hd[c].sfval = Err("RuntimeError")]]
     ELSE [q |-> q1, tg |-> tg0]

\* task_status.started(v) called by child c (:732-742): "ok" or "error" (called twice)
TGStarted(q, tg, c, v) ==
  LET sf == SFState(q, tg, c) IN
  IF sf = "pending"
  THEN [q |-> FutSetResult(q, tg.Hd[c].sfcaller),
        tg |-> [tg EXCEPT !.Hd[c].sf = "result", !.Hd[c].sfval = ValV(v), !.Hd[c].nstarted = @ + 1],
        res |-> "ok"]
  ELSE IF sf = "cancelled"
  THEN [q |-> q, tg |-> [tg EXCEPT !.Hd[c].nstarted = @ + 1], res |-> "ok"]
  ELSE [q |-> q, tg |-> [tg EXCEPT !.Hd[c].nstarted = @ + 1], res |-> "error"]

\* TaskHandle.cancel() (:334-345)
HandleCancel(q, tg, c) ==
  IF tg.Hd[c].finished THEN [q |-> q, tg |-> tg]
  ELSE IF Depth(q, c) >= 1 /\ q.T[c].st # "unborn" THEN [q |-> ScopeCancel(q, <<c, 1>>), tg |-> tg]
  ELSE [q |-> q, tg |-> [tg EXCEPT !.Hd[c].pre = TRUE]]       \* the handle scope is not entered yet
HandleStatus(q, tg, c) ==
  LET hd == tg.Hd[c] IN
  IF ~hd.finished
  THEN IF hd.pre \/ (Depth(q, c) >= 1 /\ q.S[c][1].called) THEN "cancelling" ELSE "pending"
  ELSE IF IsCancel(hd.how) THEN "cancelled" ELSE IF IsExc(hd.how) THEN "failed" ELSE "finished"

RECURSIVE WakeAll(_, _)
WakeAll(q, ts) == IF ts = <<>> THEN q ELSE WakeAll(FutSetResult(q, Head(ts)), Tail(ts))

(***************************** frames **************************************)
\* TaskHandle._run_coro (:319-332): bottom frame of every group child.
\* "init": with self._cancel_scope; then the user coroutine (the client frame pushed by the root
\* module); "done": record the outcome, set the finished event, leave the handle scope.
ChildDoneEnabled(q, t) == At(q, t, "tgchild", "done")
ChildDone(q, tg, t) ==
  LET x == Reg(q, t)
      tg1 == [tg EXCEPT !.Hd[t].finished = TRUE, !.Hd[t].how = x, !.Hd[t].waiters = <<>>]
      q1 == WakeAll(q, tg.Hd[t].waiters)
      r == ScopeExit(q1, t, x)
  IN [q |-> IF IsExc(r.reg) THEN Raise(r.q, t, r.reg) ELSE Ret(r.q, t), tg |-> tg1, caught |-> r.caught]

\* TaskGroup.__aexit__ (:768-828).  Frame: a = 0, b = exc_val (Val = None)
TGExitEnabled(q, t) == q.run = t /\ q.T[t].stack # <<>> /\ Top(q, t).f = "tg_exit"
TGExitStep(q, tg, t) ==
  LET pc == Top(q, t).pc
      xv == Top(q, t).b
      gs == GroupScope(tg, t)
      setx(qq, x) == SetTop(qq, t, [Top(qq, t) EXCEPT !.b = x])
      \* "raise BaseExceptionGroup(...) / raise exc_val ... except BaseException: scope.__exit__"
      finish(qq, tgg, x) ==
         LET toRaise == IF tgg.G[t].excs # {} THEN GroupExc(tgg.G[t].excs, FALSE) ELSE x
             r == ScopeExit(qq, t, toRaise)
         IN [q |-> IF IsExc(r.reg) THEN Raise(r.q, t, r.reg) ELSE Ret(r.q, t),
             tg |-> [tgg EXCEPT !.G[t].active = FALSE, !.G[t].excs = {}, !.G[t].waiting = FALSE]]
  IN
  CASE pc = "start" ->
         LET q1 == IF IsExc(xv) THEN ScopeCancel(q, gs) ELSE q
             tg1 == IF IsExc(xv) /\ ~IsCancel(xv) THEN [tg EXCEPT !.G[t].excs = @ \cup LeavesOf(xv)] ELSE tg
         IN IF tg.G[t].tasks # {}
            THEN [q |-> SetPc(ScopeEnter(q1, t, FALSE, INF, FALSE,
                                         [n |-> 0, kind |-> "gwait", cl |-> 0, dl |-> INF]), t, "loop"),
                  tg |-> tg1]
            ELSE \* no children: one cancel-shielded checkpoint, then look again (fix F12)
                 [q |-> Call(q1, t, "nochild", Frame("csc", "start", 0, 0)), tg |-> tg1]
    [] pc = "loop" ->
         IF tg.G[t].tasks # {}
         THEN [q |-> SuspendFut(q, t, "woke"), tg |-> [tg EXCEPT !.G[t].waiting = TRUE]]
         ELSE LET r == ScopeExit(q, t, Val) IN      \* leave wait_scope normally
              finish(r.q, tg, xv)
    [] pc = "woke" ->
         LET r == Reg(q, t)
             tg1 == [tg EXCEPT !.G[t].waiting = FALSE] IN
         IF IsCancel(r)
         THEN LET q1 == ScopeSetShield(q, <<t, Depth(q, t)>>, TRUE)
                  q2 == ScopeCancel(q1, gs)
                  \* "if exc_val is None or (isinstance(exc_val, CancelledError) and not is_anyio(exc))"
                  nx == IF ~IsExc(xv) \/ (IsCancel(xv) /\ ~IsAnyioCancel(r)) THEN r ELSE xv
              IN [q |-> SetPc(setx(q2, nx), t, "loop"), tg |-> tg1]
         ELSE [q |-> SetPc(q, t, "loop"), tg |-> tg1]
    [] pc = "nochild" ->
         \* back from the cancel-shielded checkpoint.  A (native) CancelledError that got through is
         \* handled like in the wait loop: cancel the group, remember it as exc_val, go on
         LET r == Reg(q, t)
             q1 == IF IsCancel(r) THEN ScopeCancel(q, gs) ELSE q
             nx == IF IsCancel(r) /\ (~IsExc(xv) \/ (IsCancel(xv) /\ ~IsAnyioCancel(r))) THEN r ELSE xv
         IN IF IsExc(r) /\ ~IsCancel(r)
            THEN LET x == ScopeExit(q, t, r) IN
                 [q |-> IF IsExc(x.reg) THEN Raise(x.q, t, x.reg) ELSE Ret(x.q, t),
                  tg |-> [tg EXCEPT !.G[t].active = FALSE, !.G[t].excs = {}]]
            ELSE IF tg.G[t].tasks # {}
            THEN \* tasks were started in the group during the checkpoint: wait for them
                 [q |-> SetPc(ScopeEnter(setx(q1, nx), t, FALSE, INF, FALSE,
                                         [n |-> 0, kind |-> "gwait", cl |-> 0, dl |-> INF]), t, "loop"),
                  tg |-> tg]
            ELSE finish(q1, tg, nx)

\* TaskGroup.start() (:936-973).  Frame: a = child, b = [h |-> group host, exc |-> pending exception]
TGStartEnabled(q, t) == q.run = t /\ q.T[t].stack # <<>> /\ Top(q, t).f = "tg_start"
TGStartStep(q, tg, t) ==
  LET pc == Top(q, t).pc
      c == Top(q, t).a
      st == Top(q, t).b
  IN
  CASE pc = "start" ->
         LET r == TGSpawn(q, tg, st.h, c, TRUE, t) IN
         [q |-> SuspendFut(r.q, t, "w"), tg |-> r.tg]
    [] pc = "w" ->
         LET r == Reg(q, t)
             hd == tg.Hd[c]
             \* "await future" raises what was thrown into the task, else the future's exception
             x == IF IsExc(r) THEN r ELSE IF hd.sf = "exc" THEN hd.sfval ELSE Val
             tg1 == IF IsExc(r) /\ q.T[t].lastfut = "cancelled" /\ hd.sf = "pending"
                    THEN [tg EXCEPT !.Hd[c].sf = "cancelled"] ELSE tg
         IN IF ~IsExc(x) THEN [q |-> RetV(q, t, hd.sfval.e), tg |-> tg1]
            ELSE IF HandleStatus(q, tg1, c) = "pending"
            THEN \* handle.cancel(); with CancelScope(shield=True): await handle.wait()
                 LET hc == HandleCancel(q, tg1, c)
                     q1 == ScopeEnter(SetTop(hc.q, t, [Top(hc.q, t) EXCEPT !.b = [st EXCEPT !.exc = x]]),
                                      t, TRUE, INF, FALSE, [n |-> 0, kind |-> "startwait", cl |-> 0, dl |-> INF])
                 IN IF hc.tg.Hd[c].finished
                    THEN [q |-> Call(q1, t, "w2", Frame("yield", "start", 0, 0)), tg |-> hc.tg]
                    ELSE [q |-> SuspendFut(q1, t, "w2"),
                          tg |-> [hc.tg EXCEPT !.Hd[c].waiters = Append(@, t)]]
            ELSE [q |-> Raise(q, t, x), tg |-> tg1]
    [] pc = "w2" ->
         LET tg1 == [tg EXCEPT !.Hd[c].waiters = SelectSeq(@, LAMBDA w : w # t)]
             r == ScopeExit(q, t, Reg(q, t))
         IN IF IsExc(r.reg) THEN [q |-> Raise(r.q, t, r.reg), tg |-> tg1]
            ELSE [q |-> Raise(r.q, t, st.exc), tg |-> tg1]

=============================================================================
