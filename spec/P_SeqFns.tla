------------------------------ MODULE P_SeqFns ------------------------------
(***************************************************************************)
(* Property-level observer of C19 (functional part) for trace validation.  *)
(*                                                                         *)
(* One trace = one case  Par.c = [fn |-> ..., a |-> ...]  (same records as *)
(* MC_C19 enumerates, here produced by the seeded random generator with    *)
(* longer sequences and wider parameters) followed by the outcomes that    *)
(* were RECORDED from the real code:                                       *)
(*   [who |-> "stdlib",        res |-> outcome]   CPython itertools        *)
(*   [who |-> "anyio:<mode>",  res |-> outcome]   anyio, one per source    *)
(*                                                kind (list, generator,   *)
(*                                                async generator, async   *)
(*                                                iterable)                *)
(* An outcome is the canonical JSON text of <<out, err>>; the observer     *)
(* evaluates the SeqFns operator on the case (Eval) and compares texts,    *)
(* so a recorded value of an unexpected shape is a mismatch, not a TLC     *)
(* evaluation error.                                                       *)
(*                                                                         *)
(* Clauses:                                                                *)
(*   SpecAgreesWithStdlib  the specification is right about the standard   *)
(*                         library (a failure is a specification error,    *)
(*                         reported as a machinery failure);               *)
(*   AnyioAgreesWithSpec   anyio yields the same values / the same class   *)
(*                         of error.                                       *)
(***************************************************************************)
EXTENDS SeqFns, Json

Names(r) == {n \in DOMAIN r : ~r[n]}

SeqP0(par) == [exp |-> ToJson(Eval(par.c)), n |-> 0]

SeqApply(p, e) ==
  LET agree == e.res = p.exp
      cl == IF e.who = "stdlib" THEN [SpecAgreesWithStdlib |-> agree]
                                ELSE [AnyioAgreesWithSpec |-> agree]
  IN [p |-> [p EXCEPT !.n = @ + 1], bad |-> Names(cl)]
=============================================================================
