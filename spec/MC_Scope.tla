----------------------------- MODULE MC_Scope -----------------------------
(***************************************************************************)
(* Composition root for the cancel-scope properties C03, C04, C05, C06.    *)
(*                                                                         *)
(* NT natively created tasks; each runs inside its own CancelScope (n = 1, *)
(* which the environment may cancel, also before entry) and is a most      *)
(* general client of the scope API:                                        *)
(*   open(shield, deadline, pre-cancelled, cleanup)  `with CancelScope(..)`*)
(*   openf(shield, delay) `with fail_after(..)`, openm: move_on_after      *)
(*   close            normal exit of the innermost block                   *)
(*   yield / sleep(d) / wait (an Event nobody sets unless "set")           *)
(*   cancel(u, d)     cancel() on the d-th active scope of task u          *)
(*   shield(d, v) / dline(d, v)  assign shield / deadline of own scope d   *)
(*   raise            a non-cancellation exception                         *)
(*   probe            Task.cancelling(), current_effective_deadline()      *)
(* An exception unwinds the blocks like Python does; a block opened with   *)
(* cleanup = 1 runs one cancel-shielded checkpoint before its scope exits  *)
(* when a cancellation passes through it.                                  *)
(* Ghost: the reference semantics P_Scope fed with the observable events.  *)
(***************************************************************************)
EXTENDS Aio, P_Scope, Json

CONSTANTS Ops, MaxOps, MaxEnv, EnvKinds, MaxDepth,
          Shields, Deadlines, Delays, Cleanups, Pres,
          RecordHist, \* FALSE: hist stays empty (liveness checking, which must not use a VIEW)
          ViaSetter   \* subset of {0, 1}: 1 = the deadline is assigned through the setter BEFORE the scope
                      \* is entered (no timer may be armed then: the scope is not active)

VARIABLES L,         \* the shared Event: [flag, waiters]
          E, hist, pst, pbad
vars == <<K, L, E, hist, pst, pbad>>
View == <<K, L, E, pst, pbad>>

NoExc == Val
Client0 == <<Frame("client", "init", 0, [ns |-> 0, exc |-> NoExc, ended |-> FALSE])>>
Tag(n, kind, cl, dl) == [n |-> n, kind |-> kind, cl |-> cl, dl |-> dl]

Init ==
  /\ K = KInit([t \in Task |-> Client0], [t \in Task |-> NOSCOPE])
  /\ L = [flag |-> FALSE, waiters |-> <<>>]
  /\ E = [n |-> 0, pre |-> [t \in Task |-> FALSE], scoped |-> {}, natived |-> {}, qat |-> 0,
          lastdone |-> 0]
  /\ hist = <<>>
  /\ pst = ScopeP0(Task)
  /\ pbad = {}

Stamp(e) == e @@ [now |-> K.now, cyc |-> K.cycle]
Feed(e) == LET r == ScopeApply(pst, Stamp(e)) IN pst' = r.p /\ pbad' = pbad \cup r.bad
Feed2(e1, e2) == LET r1 == ScopeApply(pst, Stamp(e1))
                     r2 == ScopeApply(r1.p, Stamp(e2))
                 IN pst' = r2.p /\ pbad' = pbad \cup r1.bad \cup r2.bad

Rec(h, x) == IF RecordHist THEN Append(h, x) ELSE h
Boot == [K EXCEPT !.ready = [i \in 1..NT |-> HStep(i)]]
H(t, c, a, b, d) == [w |-> "t", t |-> t, c |-> c, a |-> a, b |-> b, d |-> d, at |-> K.nh]
HE(t, c) == [w |-> "e", t |-> t, c |-> c, a |-> 0, b |-> 0, d |-> 0, at |-> K.nh, cyc |-> K.cycle]

ExcName(r) == IF ~IsExc(r) THEN "none" ELSE IF IsAnyioCancel(r) THEN "cancel"
              ELSE IF IsCancel(r) THEN "native" ELSE "err"
ResName(r) == IF ~IsExc(r) THEN "ok" ELSE IF IsAnyioCancel(r) THEN "cancelled"
              ELSE IF IsCancel(r) THEN "native" ELSE "err"
CC(q, t) == [i \in 1..Depth(q, t) |-> IF q.S[t][i].called THEN 1 ELSE 0]
B2I(b) == IF b THEN 1 ELSE 0

(****************************** client *************************************)
ClientInit(t) ==
  /\ At(K, t, "client", "init")
  /\ LET q1 == ScopeEnter(K, t, FALSE, INF, E.pre[t], Tag(1, "task", 0, INF))
         fr == Top(q1, t) IN
     K' = SetTop(q1, t, [fr EXCEPT !.pc = "choose", !.b = [ns |-> 1, exc |-> NoExc, ended |-> FALSE]])
  /\ Feed([ev |-> "enter", t |-> t, n |-> 1, shield |-> 0, dl |-> INF, called |-> B2I(E.pre[t]),
           kind |-> "task", nc |-> K.T[t].nc])
  /\ UNCHANGED <<L, E, hist>>

\* wait on the shared event (asyncio.Event semantics, see AioCond.EvWaitStep)
WaitEnabled(q, t) == q.run = t /\ q.T[t].stack # <<>> /\ Top(q, t).f = "ev_wait"
WaitStep(q, ev, t) ==
  LET pc == Top(q, t).pc IN
  CASE pc = "start" ->
         IF ev.flag THEN [q |-> Call(q, t, "ckpt", Frame("yield", "start", 0, 0)), ev |-> ev]
         ELSE [q |-> SuspendFut(q, t, "wait"), ev |-> [ev EXCEPT !.waiters = Append(@, t)]]
    [] pc = "ckpt" ->
         [q |-> IF IsExc(Reg(q, t)) THEN Raise(q, t, Reg(q, t)) ELSE Ret(q, t), ev |-> ev]
    [] pc = "wait" ->
         [q |-> IF IsExc(Reg(q, t)) THEN Raise(q, t, Reg(q, t)) ELSE Ret(q, t),
          ev |-> [ev EXCEPT !.waiters = SelectSeq(@, LAMBDA w : w # t)]]
RECURSIVE SetAllW(_, _)
SetAllW(q, ts) == IF ts = <<>> THEN q ELSE SetAllW(FutSetResult(q, Head(ts)), Tail(ts))

ClientDepth(q, t) == Depth(q, t)      \* while the client is at "choose" no library scope is open

ClientChoose(t) ==
  /\ At(K, t, "client", "choose")
  /\ LET n == Top(K, t).a
         st == Top(K, t).b
         bump(q) == SetTop(q, t, [Top(q, t) EXCEPT !.a = n + 1])
         bumpS(q) == SetTop(q, t, [Top(q, t) EXCEPT !.a = n + 1, !.b = [st EXCEPT !.ns = @ + 1]])
         d0 == Depth(K, t)
         asyncop(name, fr, a, b) ==
            /\ K' = Call(bump(K), t, "ret", fr)
            /\ Feed([ev |-> "opstart", t |-> t, op |-> name])
            /\ hist' = Rec(hist, H(t, name, a, b, 0))
            /\ UNCHANGED <<L, E>>
         open(kind, sh, dl, pre, cl, hname, ha, hb, hd) ==
            LET q1 == ScopeEnter(bumpS(K), t, sh = 1, dl, pre = 1, Tag(st.ns + 1, kind, cl, dl)) IN
            /\ K' = q1
            /\ Feed([ev |-> "enter", t |-> t, n |-> st.ns + 1, shield |-> sh, dl |-> dl, called |-> pre,
                     kind |-> kind, nc |-> K.T[t].nc])
            /\ hist' = Rec(hist, H(t, hname, ha, hb, hd))
            /\ UNCHANGED <<L, E>>
     IN
     \/ /\ n < MaxOps /\ "open" \in Ops /\ d0 < MaxDepth
        /\ \E sh \in Shields, dl \in Deadlines, pre \in Pres, cl \in Cleanups, vs \in ViaSetter :
             open("plain", sh, dl, pre, cl, "open", sh, dl, pre + 2 * cl + 8 * vs)
     \/ /\ n < MaxOps /\ "openf" \in Ops /\ d0 < MaxDepth
        /\ \E sh \in Shields, dly \in Delays : open("fail", sh, K.now + dly, 0, 0, "openf", sh, dly, 0)
     \/ /\ n < MaxOps /\ "openm" \in Ops /\ d0 < MaxDepth
        /\ \E sh \in Shields, dly \in Delays : open("move", sh, K.now + dly, 0, 0, "openm", sh, dly, 0)
     \/ /\ n < MaxOps /\ "close" \in Ops /\ d0 > 1
        /\ K' = SetPc(bump([K EXCEPT !.T[t].reg = Val]), t, "unwind")
        /\ hist' = Rec(hist, H(t, "close", 0, 0, 0))
        /\ UNCHANGED <<L, E, pst, pbad>>
     \/ (n < MaxOps /\ "yield" \in Ops /\ asyncop("yield", Frame("yield", "start", 0, 0), 0, 0))
     \/ /\ n < MaxOps /\ "sleep" \in Ops
        /\ \E dly \in Delays : dly > 0 /\ asyncop("sleep", Frame("sleep", "start", dly, 0), dly, 0)
     \/ (n < MaxOps /\ "wait" \in Ops /\ asyncop("wait", Frame("ev_wait", "start", 0, 0), 0, 0))
     \/ /\ n < MaxOps /\ "set" \in Ops /\ ~L.flag
        /\ L' = [L EXCEPT !.flag = TRUE]
        /\ K' = bump(SetAllW(K, L.waiters))
        /\ hist' = Rec(hist, H(t, "set", 0, 0, 0))
        /\ UNCHANGED <<E, pst, pbad>>
     \/ /\ n < MaxOps /\ "cancel" \in Ops
        /\ \E u \in Task, d \in 1..MaxDepth :
             /\ d <= Depth(K, u) /\ K.S[u][d].tag.kind # "csc" /\ ~K.S[u][d].called
             /\ K' = bump(ScopeCancel(K, <<u, d>>))
             /\ Feed([ev |-> "cancel", t |-> u, n |-> K.S[u][d].tag.n])
             /\ hist' = Rec(hist, H(t, "cancel", u, d, 0))
        /\ UNCHANGED <<L, E>>
     \/ /\ n < MaxOps /\ "shield" \in Ops
        /\ \E d \in 2..MaxDepth :
             /\ d <= d0
             /\ LET v == ~K.S[t][d].shield IN
                /\ K' = bump(ScopeSetShield(K, <<t, d>>, v))
                /\ Feed([ev |-> "setshield", t |-> t, n |-> K.S[t][d].tag.n, v |-> B2I(v)])
                /\ hist' = Rec(hist, H(t, "shield", d, B2I(v), 0))
        /\ UNCHANGED <<L, E>>
     \/ /\ n < MaxOps /\ "dline" \in Ops
        /\ \E d \in 2..MaxDepth, dl \in Deadlines :
             /\ d <= d0 /\ dl # K.S[t][d].dl
             /\ K' = bump(ScopeSetDeadline(K, <<t, d>>, dl))
             /\ Feed([ev |-> "setdl", t |-> t, n |-> K.S[t][d].tag.n, dl |-> dl])
             /\ hist' = Rec(hist, H(t, "dline", d, dl, 0))
        /\ UNCHANGED <<L, E>>
     \/ /\ n < MaxOps /\ "raise" \in Ops
        /\ K' = SetPc(bump([K EXCEPT !.T[t].reg = Err("E")]), t, "unwind")
        /\ hist' = Rec(hist, H(t, "raise", 0, 0, 0))
        /\ UNCHANGED <<L, E, pst, pbad>>
     \/ /\ n < MaxOps /\ "raisegrp" \in Ops      \* an exception group whose only leaf is a NATIVE CancelledError
        /\ K' = SetPc(bump([K EXCEPT !.T[t].reg = [k |-> "exc", c |-> "group", a |-> FALSE, e |-> {"N"}]]),
                      t, "unwind")
        /\ hist' = Rec(hist, H(t, "raisegrp", 0, 0, 0))
        /\ UNCHANGED <<L, E, pst, pbad>>
     \/ /\ n < MaxOps /\ "probe" \in Ops
        /\ K' = bump(K)
        /\ Feed([ev |-> "probe", t |-> t, nc |-> K.T[t].nc, effdl |-> EffDeadlineFrom(K, Cur(K, t), INF),
                 cc |-> CC(K, t)])
        /\ hist' = Rec(hist, H(t, "probe", 0, 0, 0))
        /\ UNCHANGED <<L, E>>
     \/ /\ K' = SetTop([K EXCEPT !.T[t].reg = Val], t, [Top(K, t) EXCEPT !.pc = "unwind0", !.b.ended = TRUE])
        /\ hist' = Rec(hist, H(t, "end", 0, 0, 0))
        /\ UNCHANGED <<L, E, pst, pbad>>

\* back from yield / sleep / wait
ClientRet(t) ==
  /\ At(K, t, "client", "ret")
  /\ LET r == Reg(K, t) IN
     /\ Feed([ev |-> "opend", t |-> t, op |-> "", res |-> ResName(r), cc |-> CC(K, t), gc |-> <<>>])
     /\ K' = SetPc(K, t, IF IsExc(r) THEN "unwind" ELSE "choose")
  /\ UNCHANGED <<L, E, hist>>

\* leave the innermost block: with exception Reg (propagating) or normally (close).
\* "unwind0": the program ended: leave all blocks normally, one per step.
ClientUnwind(t) ==
  /\ (At(K, t, "client", "unwind") \/ At(K, t, "client", "unwind0"))
  /\ LET x == Reg(K, t)
         d == Depth(K, t)
         tag == K.S[t][d].tag
         ending == Top(K, t).pc = "unwind0"
     IN
     IF d = 1
     THEN \* the task's own scope
          LET r == ScopeExit(K, t, x) IN
          /\ K' = IF IsExc(r.reg) THEN Raise(r.q, t, r.reg) ELSE Ret(r.q, t)
          /\ Feed([ev |-> "exit", t |-> t, n |-> tag.n, ein |-> ExcName(x), eout |-> ExcName(r.reg),
                   caught |-> B2I(r.caught), called |-> B2I(K.S[t][d].called), nc |-> r.q.T[t].nc,
                   timeout |-> 0])
          /\ E' = [E EXCEPT !.lastdone = K.cycle]
     ELSE IF tag.cl = 1 /\ IsCancel(x)
     THEN \* except CancelledError: with CancelScope(shield=True): await sleep(0); raise
          /\ K' = Call(SetTop([K EXCEPT !.S[t][d].tag.cl = 0], t,
                              [Top(K, t) EXCEPT !.b.exc = x, !.pc = "cleaned"]),
                       t, "cleaned", Frame("csc", "start", 0, 0))
          /\ UNCHANGED <<pst, pbad, E>>
     ELSE IF tag.cl = 2 /\ IsCancel(x)
     THEN \* except CancelledError: try: await event.wait() (NOT shielded: must be interrupted again)
          \*                        except CancelledError: pass; raise
          /\ K' = Call(SetTop([K EXCEPT !.S[t][d].tag.cl = 0], t,
                              [Top(K, t) EXCEPT !.b.exc = x, !.pc = "rewaited"]),
                       t, "rewaited", Frame("ev_wait", "start", 0, 0))
          /\ Feed([ev |-> "opstart", t |-> t, op |-> "rewait"])
          /\ UNCHANGED E
     ELSE LET r == ScopeExit(K, t, x)
              tmo == tag.kind = "fail" /\ r.caught /\ r.q.now >= K.S[t][d].dl
              out == IF tmo THEN Err("TimeoutError") ELSE r.reg
          IN
          /\ K' = SetPc([r.q EXCEPT !.T[t].reg = out], t,
                        IF IsExc(out) THEN "unwind"
                        ELSE IF ending \/ Top(K, t).b.ended THEN "unwind0" ELSE "choose")
          /\ Feed([ev |-> "exit", t |-> t, n |-> tag.n, ein |-> ExcName(x), eout |-> ExcName(r.reg),
                   caught |-> B2I(r.caught), called |-> B2I(K.S[t][d].called), nc |-> r.q.T[t].nc,
                   timeout |-> B2I(tmo)])
          /\ UNCHANGED E
  /\ UNCHANGED <<L, hist>>

\* back from the shielded clean-up checkpoint: continue unwinding with the saved exception
\* (or with the exception the clean-up itself raised)
ClientCleaned(t) ==
  /\ At(K, t, "client", "cleaned")
  /\ LET r == Reg(K, t)
         saved == Top(K, t).b.exc IN
     K' = SetPc([K EXCEPT !.T[t].reg = IF IsExc(r) THEN r ELSE saved], t, "unwind")
  /\ UNCHANGED <<L, E, hist, pst, pbad>>

\* back from the unshielded wait inside the exception handler: whatever it did, the original
\* cancellation continues (a different exception, e.g. a native cancellation, replaces it)
ClientRewaited(t) ==
  /\ At(K, t, "client", "rewaited")
  /\ LET r == Reg(K, t)
         saved == Top(K, t).b.exc IN
     /\ K' = SetPc([K EXCEPT !.T[t].reg = IF IsExc(r) /\ ~IsAnyioCancel(r) THEN r ELSE saved], t, "unwind")
     /\ Feed([ev |-> "opend", t |-> t, op |-> "rewait", res |-> ResName(r), cc |-> CC(K, t), gc |-> <<>>])
  /\ UNCHANGED <<L, E, hist>>

LibStep(t) ==
  \/ /\ HelperEnabled(K, t)
     /\ K' = HelperStep(K, t)
     /\ UNCHANGED <<L, E, hist, pst, pbad>>
  \/ /\ WaitEnabled(K, t)
     /\ LET r == WaitStep(K, L, t) IN K' = r.q /\ L' = r.ev
     /\ UNCHANGED <<E, hist, pst, pbad>>
  \/ /\ FinishEnabled(K, t)
     /\ K' = FinishTask(K, t)
     /\ UNCHANGED <<L, E, hist, pst, pbad>>

Cycle == /\ CycleStartEnabled(K) /\ K' = CycleStart(K) /\ UNCHANGED <<L, E, hist, pst, pbad>>
RunHandle == /\ PopEnabled(K)
             /\ K' = RunKernelHandle(Popped(K), NextHandle(K))
             /\ UNCHANGED <<L, E, hist, pst, pbad>>

EnvPoint == K.run = NONE /\ (K.left > 0 \/ (Quiescent(K) /\ E.qat = K.nh + 1))

EnvCancel(t) ==
  /\ EnvPoint /\ "cancel" \in EnvKinds /\ E.n < MaxEnv /\ t \notin E.scoped /\ K.T[t].st # "done"
  /\ IF Depth(K, t) = 0
     THEN /\ K.T[t].st = "unborn"
          /\ E' = [E EXCEPT !.n = @ + 1, !.scoped = @ \cup {t}, !.pre[t] = TRUE]
          /\ K' = K
          /\ UNCHANGED <<pst, pbad>>
     ELSE /\ K' = ScopeCancel(K, <<t, 1>>)
          /\ E' = [E EXCEPT !.n = @ + 1, !.scoped = @ \cup {t}]
          /\ Feed([ev |-> "cancel", t |-> t, n |-> 1])
  /\ hist' = Rec(hist, HE(t, "cancel"))
  /\ UNCHANGED L

EnvNative(t) ==
  /\ EnvPoint /\ "native" \in EnvKinds /\ E.n < MaxEnv /\ t \notin E.natived /\ K.T[t].st # "done"
  /\ K' = TaskCancel(K, t, FALSE)
  /\ E' = [E EXCEPT !.n = @ + 1, !.natived = @ \cup {t}]
  /\ Feed([ev |-> "native", t |-> t])
  /\ hist' = Rec(hist, HE(t, "native"))
  /\ UNCHANGED L

AllDone == \A t \in Task : K.T[t].st = "done"
Blocked == {t \in Task : K.T[t].st = "pending" /\ pst.op[t].on}

Quiesce ==
  /\ Quiescent(K) /\ E.qat # K.nh + 1
  /\ E' = [E EXCEPT !.qat = K.nh + 1]
  /\ Feed([ev |-> "quiescent", blocked |-> SortedSeq(Blocked), timers |-> Len(K.timers), alldone |-> B2I(AllDone),
           tail |-> IF AllDone THEN K.cycle - E.lastdone ELSE 0, late |-> 0])
  /\ UNCHANGED <<K, L, hist>>

Start == K.cycle = 0 /\ K.ready = <<>> /\ K.nh = 0 /\ \A t \in Task : K.T[t].st = "unborn"

Next ==
  \/ /\ Start /\ E.qat = 0 /\ K' = Boot /\ UNCHANGED <<L, E, hist, pst, pbad>>
  \/ (~Start /\ Cycle)
  \/ RunHandle
  \/ \E t \in Task : ClientInit(t) \/ ClientChoose(t) \/ ClientRet(t) \/ ClientUnwind(t)
                     \/ ClientCleaned(t) \/ ClientRewaited(t) \/ LibStep(t)
  \/ \E t \in Task : EnvCancel(t) \/ EnvNative(t)
  \/ (~Start /\ Quiesce)

Spec == Init /\ [][Next]_vars

(****************************** properties **********************************)
PropertyHolds == pbad = {}
\* implementation-level: every scope that is cancelled and still has a live member task has a
\* delivery in flight or is being walked by an ancestor's delivery (between handles)
TypeOK == \A t \in Task : K.T[t].nc \in 0..20
\* the model-level twin of C03: when the loop is quiescent no task is suspended inside an
\* effectively cancelled scope
QuiescentNotStuck ==
  Quiescent(K) => \A t \in Task : (K.T[t].st = "pending" /\ K.T[t].fut = "pending")
                                    => ~EffCancelled(K, Cur(K, t))
\* a finished task leaves no timer of its scopes behind (C05 / C06)
NoTimerOfDeadTask ==
  \A i \in DOMAIN K.timers : K.timers[i].h.k = "timeout" => K.T[K.timers[i].h.s[1]].st # "done"
Residue == \A t \in Task : (K.T[t].st = "done" /\ t \notin E.natived) => K.T[t].nc = 0

(****************************** liveness (C03) ********************************)
\* Under weak fairness of the loop and of the tasks' own steps (the environment is not fair: it may
\* stop acting) a task suspended inside an effectively cancelled, unshielded scope does not stay so.
Stuck(t) == K.T[t].st = "pending" /\ K.T[t].fut = "pending" /\ EffCancelled(K, Cur(K, t))
System == \/ (~Start /\ Cycle) \/ RunHandle
          \/ \E t \in Task : ClientInit(t) \/ ClientChoose(t) \/ ClientRet(t) \/ ClientUnwind(t)
                               \/ ClientCleaned(t) \/ ClientRewaited(t) \/ LibStep(t)
FairSpec == Spec /\ WF_vars(System)
NothingStaysStuck == \A t \in Task : Stuck(t) ~> ~Stuck(t)

Final == [nh |-> K.nh, now |-> K.now,
          out |-> [t \in Task |-> IF K.T[t].st # "done" THEN "blocked" ELSE ResName(K.T[t].out)],
          nc |-> [t \in Task |-> K.T[t].nc]]
EmitFinalAC == (E'.qat # E.qat) => PrintT(<<"@@F", ToJson([h |-> hist', fin |-> Final])>>)
EmitAC == /\ (hist' # hist) => PrintT(<<"@@H", ToJson(hist')>>)
          /\ EmitFinalAC
=============================================================================
