------------------------------- MODULE P_Sock -------------------------------
(***************************************************************************)
(* Property-level observer for a connected pair of socket streams (C18).    *)
(* Sides "A" and "B"; the byte stream SENT by side s is "stream s"; it is   *)
(* received by Peer(s).  Payload bytes encode their own offset in the       *)
(* stream, so the harness logs every received chunk as (off, len, match).   *)
(*                                                                         *)
(* Events (t = task number, small int; all other values small ints or      *)
(* strings):                                                               *)
(*  [ev="sstart", s, t, n]            send(n bytes) called on side s        *)
(*  [ev="send",   s, t, res]          it ended: ok|busy|closed|broken|      *)
(*                                    cancelled|timeout|error               *)
(*  [ev="rstart", s, t, mb]           receive(max_bytes=mb) called on s     *)
(*  [ev="rend",   s, t, res, off, len, match]   res: ok|eos|busy|closed|    *)
(*                                    broken|cancelled|timeout|error        *)
(*  [ev="eof", s]    send_eof() about to be called on side s               *)
(*  [ev="close", s]  aclose() about to be called on side s                 *)
(*  [ev="creq", s, t]  cancellation of task t's current call requested      *)
(*  [ev="settle"]    every call in progress has been given several loop     *)
(*                   cycles: it is past its initial checkpoint              *)
(*  [ev="reset"]     (unit level only) the environment breaks the           *)
(*                   connection                                             *)
(*  [ev="end"]       end of the run (every call has been logged as ended)   *)
(*                                                                         *)
(* Parameters (record par): boundA / boundB = back-pressure bound for       *)
(* stream A / B (bytes accepted by send but not yet read: kernel buffers    *)
(* plus a constant); pausedA / pausedB = 1 when the stream object of that   *)
(* side starts with reading paused (connect_tcp) or has no user-space read  *)
(* queue at all (raw UNIX loops), 0 for accept() / from_socket();           *)
(* protoA / protoB = 1 for the asyncio protocol-based SocketStream (guard   *)
(* entered synchronously by the call), 0 for the raw-socket loops (guard    *)
(* entered after an initial checkpoint); deferA / deferB = 1 when closing   *)
(* the socket object is deferred by the event loop while it is registered  *)
(* with add_reader / add_writer (raw UNIX loops on uvloop): known finding   *)
(* F16, clause ClosedUnixStreamStaysOpenOnUvloop.                           *)
(*                                                                         *)
(* Rule P-permissive.  What is deliberately NOT demanded: anything about a  *)
(* connection that may have been reset by the kernel (a side closed while   *)
(* it had unread incoming data, or data was sent to a closed side): then    *)
(* broken results and loss of the tail are the kernel's behaviour; delivery *)
(* of the bytes of a send that did not return ok; which of ok / closed an   *)
(* operation in progress at the moment of the local close reports.          *)
(***************************************************************************)
EXTENDS Naturals, Sequences, FiniteSets

SSides == {"A", "B"}
SPeer(s) == IF s = "A" THEN "B" ELSE "A"
SNames(r) == {x \in DOMAIN r : ~r[x]}
SSet(q) == {q[i] : i \in DOMAIN q}

SockP0(par) ==
  [par |-> par,
   started  |-> [s \in SSides |-> 0],   \* bytes of the send calls started on s (busy ones given back)
   accepted |-> [s \in SSides |-> 0],   \* bytes of the send calls on s that returned ok
   received |-> [s \in SSides |-> 0],   \* bytes of stream s handed out by receive() on SPeer(s)
   eofsent  |-> [s \in SSides |-> FALSE],  \* send_eof() or aclose() called on s
   closed   |-> [s \in SSides |-> FALSE],  \* aclose() called on s
   eos      |-> [s \in SSides |-> FALSE],  \* the reader of stream s has seen EndOfStream
   cut      |-> [s \in SSides |-> FALSE],  \* a send on s ended abnormally: tail of stream s undefined
   undef    |-> [s \in SSides |-> FALSE],  \* ... and another send was started after it: offsets unknown
   rst      |-> FALSE,                     \* the kernel may have reset the connection
   \* leak[s]: side s may be reading from its transport while nobody receives (known finding F10):
   \* never paused since creation, or a receive was cancelled since the last one that certainly waited
   leak     |-> [s \in SSides |-> IF s = "A" THEN par.pausedA = 0 ELSE par.pausedB = 0],
   \* stuckclose[s]: known finding F16 applies to side s: its socket is not really closed by aclose()
   \* (raw UNIX loops on uvloop, a receive AND a send were in progress when aclose() was called)
   stuckclose |-> [s \in SSides |-> FALSE],
   ops      |-> {},      \* calls in progress: [s, op, t, arg, settled, closed0, must, hold, certain]
   creq     |-> {}]      \* <<s, t>> with a cancellation requested

SProto(p, s) == IF s = "A" THEN p.par.protoA = 1 ELSE p.par.protoB = 1
SBound(p, s) == IF s = "A" THEN p.par.boundA ELSE p.par.boundB
SDefer(p, s) == IF s = "A" THEN p.par.deferA = 1 ELSE p.par.deferB = 1
SOps(p, s, op) == {o \in p.ops : o.s = s /\ o.op = op}
SFind(p, s, op, t) == CHOOSE o \in p.ops : o.s = s /\ o.op = op /\ o.t = t
SHas(p, s, op, t) == \E o \in p.ops : o.s = s /\ o.op = op /\ o.t = t

\* calls of the same kind already in progress on this side when a new one starts, that certainly
\* hold the guard: always for the protocol stream, once settled for the raw loops
SHolders(p, s, op) == {o \in SOps(p, s, op) : SProto(p, s) \/ o.settled}

\* the connection may be reset by the kernel from now on
SRstAtClose(p, s) == p.started[SPeer(s)] > p.received[SPeer(s)]

SStart(p, e, op, arg) ==
  LET hold == SHolders(p, e.s, op)
      o == [s |-> e.s, op |-> op, t |-> e.t, arg |-> arg, settled |-> FALSE,
            closed0 |-> p.closed[e.s],
            \* protocol stream: somebody holds the guard right now, the call must be refused
            must |-> SProto(p, e.s) /\ hold # {},
            \* raw loops: holders that must still be in progress at the end for a refusal to be due
            hold |-> {h.t : h \in hold},
            \* a receive that starts when nothing at all is outstanding certainly waits
            certain |-> op = "recv" /\ p.started[SPeer(e.s)] = p.received[SPeer(e.s)]
                        /\ ~p.eofsent[SPeer(e.s)] /\ ~p.closed[e.s] /\ ~p.rst]
  IN [p |-> [p EXCEPT !.ops = @ \cup {o},
                      !.started[e.s] = IF op = "send" THEN @ + arg ELSE @,
                      !.undef[e.s] = @ \/ (op = "send" /\ p.cut[e.s]),
                      \* data sent towards a side that has closed: the kernel answers with a reset
                      !.rst = @ \/ (op = "send" /\ p.closed[SPeer(e.s)])],
      bad |-> SNames([OneCallPerTask |-> ~SHas(p, e.s, op, e.t)])]

\* was a refusal due?  (evaluated when the call ends)
SBusyDue(p, o) ==
  \/ o.must
  \/ o.hold # {}          \* (a holder that ends is taken out of the hold sets, see SDrop)
SBusyAllowed(p, o) == \E h \in p.ops : h.s = o.s /\ h.op = o.op /\ h.t # o.t

\* the call o has ended: forget it, also as a holder the other calls of its kind were measured against
SDrop(p, o) ==
  [p EXCEPT !.ops = {IF x.s = o.s /\ x.op = o.op THEN [x EXCEPT !.hold = @ \ {o.t}] ELSE x : x \in (@ \ {o})}]

SSendEnd(p, e) ==
  LET o == SFind(p, e.s, "send", e.t)
      p1 == SDrop(p, o)
      peerGone == p.closed[SPeer(e.s)] \/ p.rst
      sc == p.stuckclose[e.s]
      closedOk == o.closed0 => e.res \in {"closed", "busy", "cancelled", "timeout"}
      common == [BusyResource |-> SBusyDue(p, o) => e.res \in {"busy", "cancelled"},
                 ClosedSendRaises |-> sc \/ closedOk,
                 ClosedUnixStreamStaysOpenOnUvloop |-> ~sc \/ closedOk]
  IN
  CASE e.res = "ok" ->
         \* a send that was in progress when its own side was closed may report success although
         \* its tail was discarded by the close: nothing is demanded for its bytes
         LET p2 == IF p.closed[e.s] THEN [p1 EXCEPT !.cut[e.s] = TRUE]
                   ELSE [p1 EXCEPT !.accepted[e.s] = @ + o.arg]
             unread == p2.accepted[e.s] - p2.received[e.s]
             over == unread > SBound(p, e.s) /\ ~p.rst /\ ~p.closed[SPeer(e.s)]
         IN [p |-> p2,
             bad |-> SNames(common) \cup
                     SNames([BackPressure |-> ~(over /\ ~p.leak[SPeer(e.s)]),
                             UnboundedBufferingWhileNotReceiving |-> ~(over /\ p.leak[SPeer(e.s)])])]
    [] e.res = "busy" ->
         [p |-> [p1 EXCEPT !.started[e.s] = @ - o.arg],
          bad |-> SNames(common) \cup SNames([BusyOnlyWhenConcurrent |-> SBusyAllowed(p, o)])]
    [] e.res = "closed" ->
         [p |-> [p1 EXCEPT !.cut[e.s] = TRUE],
          bad |-> SNames(common) \cup SNames([ClosedOnlyWhenClosed |-> p.closed[e.s]])]
    [] e.res = "broken" ->
         \* (a send after the own send_eof() fails one way or the other: the statement is silent)
         [p |-> [p1 EXCEPT !.cut[e.s] = TRUE],
          bad |-> SNames(common) \cup SNames([BrokenOnlyWithCause |-> peerGone \/ p.eofsent[e.s]])]
    [] e.res = "error" ->
         [p |-> [p1 EXCEPT !.cut[e.s] = TRUE],
          bad |-> SNames(common) \cup SNames([UnexpectedSendOutcome |-> p.eofsent[e.s]])]
    [] e.res = "cancelled" ->
         [p |-> [p1 EXCEPT !.cut[e.s] = TRUE, !.creq = @ \ {<<e.s, e.t>>}],
          bad |-> SNames(common) \cup SNames([CancelWasRequested |-> <<e.s, e.t>> \in p.creq])]
    [] e.res = "timeout" ->
         \* the run drains every stream to its end before giving up: a send still blocked then is stuck
         [p |-> [p1 EXCEPT !.cut[e.s] = TRUE],
          bad |-> SNames(common) \cup
                  SNames([SendNeverBlocksWhenClosed |-> sc \/ ~p.closed[e.s],
                          NoDeadlock |-> p.closed[e.s] \/ p.stuckclose[SPeer(e.s)],
                          ClosedUnixStreamStaysOpenOnUvloop |-> ~sc /\ ~p.stuckclose[SPeer(e.s)]])]
    [] OTHER -> [p |-> p1, bad |-> {"UnexpectedSendOutcome"}]

SRecvEnd(p, e) ==
  LET o == SFind(p, e.s, "recv", e.t)
      w == SPeer(e.s)                      \* the writer of the stream being read
      p1 == SDrop(p, o)
      sc == p.stuckclose[e.s]
      closedOk == o.closed0 => e.res \in {"ok", "closed", "busy", "cancelled", "timeout"}
      common == [BusyResource |-> SBusyDue(p, o) => e.res \in {"busy", "cancelled"},
                 ClosedReceiveRules |-> sc \/ closedOk,
                 ClosedUnixStreamStaysOpenOnUvloop |-> ~sc \/ closedOk]
  IN
  CASE e.res = "ok" ->
         [p |-> [p1 EXCEPT !.received[w] = IF p.undef[w] \/ (e.off = p.received[w] /\ e.match = 1)
                                           THEN @ + e.len ELSE @,
                           \* a receive that certainly had to wait has paused the transport again
                           !.leak[e.s] = IF o.certain THEN FALSE ELSE @],
          bad |-> SNames(common) \cup
                  SNames([InOrderNoLossNoDup |-> p.undef[w] \/ e.off = p.received[w],
                          PayloadIntact |-> p.undef[w] \/ e.match = 1,
                          NoInvention |-> p.undef[w] \/ e.off + e.len <= p.started[w],
                          ChunkSize |-> e.len >= 1 /\ e.len <= o.arg,
                          NoDataAfterEndOfStream |-> ~p.eos[w]])]
    [] e.res = "eos" ->
         [p |-> [p1 EXCEPT !.eos[w] = TRUE],
          bad |-> SNames(common) \cup
                  SNames([EndOfStreamOnlyAfterEof |-> p.eofsent[w] \/ p.rst,
                          EndOfStreamOnlyWhenDrained |-> p.rst \/ p.received[w] >= p.accepted[w]])]
    [] e.res = "busy" ->
         [p |-> p1, bad |-> SNames(common) \cup SNames([BusyOnlyWhenConcurrent |-> SBusyAllowed(p, o)])]
    [] e.res = "closed" ->
         [p |-> p1, bad |-> SNames(common) \cup SNames([ClosedOnlyWhenClosed |-> p.closed[e.s]])]
    [] e.res = "broken" ->
         [p |-> p1, bad |-> SNames(common) \cup SNames([BrokenOnlyWithCause |-> p.rst])]
    [] e.res = "cancelled" ->
         [p |-> [p1 EXCEPT !.creq = @ \ {<<e.s, e.t>>},
                           !.leak[e.s] = IF SProto(p, e.s) THEN TRUE ELSE @],
          bad |-> SNames(common) \cup SNames([CancelWasRequested |-> <<e.s, e.t>> \in p.creq])]
    [] e.res = "timeout" ->
         \* every stream is finished by its writer (EOF or close) before the run gives up
         [p |-> p1,
          bad |-> SNames(common) \cup
                  SNames([ReceiveNeverBlocksWhenClosed |-> sc \/ ~p.closed[e.s],
                          NoDeadlock |-> p.closed[e.s] \/ p.stuckclose[SPeer(e.s)],
                          ClosedUnixStreamStaysOpenOnUvloop |-> ~sc /\ ~p.stuckclose[SPeer(e.s)]])]
    [] OTHER -> [p |-> p1, bad |-> {"UnexpectedReceiveOutcome"}]

SockApply0(p, e) ==
  CASE e.ev = "sstart" -> SStart(p, e, "send", e.n)
    [] e.ev = "rstart" -> SStart(p, e, "recv", e.mb)
    [] e.ev = "send" ->
         IF SHas(p, e.s, "send", e.t) THEN SSendEnd(p, e) ELSE [p |-> p, bad |-> {"UnknownEvent"}]
    [] e.ev = "rend" ->
         IF SHas(p, e.s, "recv", e.t) THEN SRecvEnd(p, e) ELSE [p |-> p, bad |-> {"UnknownEvent"}]
    [] e.ev = "eof" -> [p |-> [p EXCEPT !.eofsent[e.s] = TRUE], bad |-> {}]
    [] e.ev = "close" ->
         [p |-> [p EXCEPT !.closed[e.s] = TRUE, !.eofsent[e.s] = TRUE,
                          !.rst = @ \/ SRstAtClose(p, e.s),
                          !.stuckclose[e.s] = @ \/ (SDefer(p, e.s) /\ ~p.closed[e.s] /\ SOps(p, e.s, "recv") # {}
                                                                      /\ SOps(p, e.s, "send") # {})],
          bad |-> {}]
    [] e.ev = "creq" -> [p |-> [p EXCEPT !.creq = @ \cup {<<e.s, e.t>>}], bad |-> {}]
    [] e.ev = "settle" ->
         [p |-> [p EXCEPT !.ops = {[o EXCEPT !.settled = TRUE] : o \in @}], bad |-> {}]
    [] e.ev = "reset" -> [p |-> [p EXCEPT !.rst = TRUE], bad |-> {}]
    [] e.ev = "end" -> [p |-> p, bad |-> SNames([EveryCallEnded |-> p.ops = {}])]
    [] OTHER -> [p |-> p, bad |-> {"UnknownEvent"}]

SockApply(p, e) == SockApply0(p, e)

\* several events produced by one step of a model
SockApplySeq(p, es) ==
  LET F[i \in 0..Len(es)] ==
        IF i = 0 THEN [p |-> p, bad |-> {}]
        ELSE LET r == SockApply(F[i - 1].p, es[i]) IN [p |-> r.p, bad |-> F[i - 1].bad \cup r.bad]
  IN F[Len(es)]
=============================================================================
