---- MODULE MC_C18_TTrace_1790048517 ----
EXTENDS MC_C18, Sequences, TLCExt, Toolbox, Naturals, TLC

_expression ==
    LET MC_C18_TEExpression == INSTANCE MC_C18_TEExpression
    IN MC_C18_TEExpression!expression
----

_trace ==
    LET MC_C18_TETrace == INSTANCE MC_C18_TETrace
    IN MC_C18_TETrace!trace
----

_inv ==
    ~(
        TLCGet("level") = Len(_TETrace)
        /\
        pr = ([rq |-> <<>>, rev |-> FALSE, wset |-> FALSE, eof |-> FALSE, exc |-> FALSE, closed |-> FALSE, rg |-> 0, sg |-> 0, wgen |-> 1])
        /\
        hist = (<<>>)
        /\
        task = (<<[pc |-> "idle", op |-> "none", arg |-> 0, g |-> 0], [pc |-> "idle", op |-> "none", arg |-> 0, g |-> 0]>>)
        /\
        env = ([kroom |-> 0, fed |-> 0, drained |-> 0, burst |-> 0, nenv |-> 1, nops |-> 1])
        /\
        tr = ([reading |-> FALSE, closing |-> FALSE, buf |-> 1, wpaused |-> TRUE, pend |-> "none", lost |-> FALSE, eofseen |-> FALSE, weof |-> FALSE])
        /\
        hv = ([res |-> <<[r |-> "cancelled", off |-> 0, len |-> 0], [r |-> "none", off |-> 0, len |-> 0]>>, bad |-> {}, p |-> [closed |-> [A |-> FALSE, B |-> FALSE], received |-> [A |-> 0, B |-> 0], leak |-> [A |-> FALSE, B |-> FALSE], par |-> [boundA |-> 2, boundB |-> 4, pausedA |-> 1, pausedB |-> 1, protoA |-> 1, protoB |-> 1], started |-> [A |-> 3, B |-> 0], accepted |-> [A |-> 0, B |-> 0], eofsent |-> [A |-> FALSE, B |-> FALSE], eos |-> [A |-> FALSE, B |-> FALSE], cut |-> [A |-> TRUE, B |-> FALSE], rst |-> FALSE, ops |-> {}, creq |-> {}]])
    )
----

_init ==
    /\ pr = _TETrace[1].pr
    /\ hist = _TETrace[1].hist
    /\ env = _TETrace[1].env
    /\ tr = _TETrace[1].tr
    /\ hv = _TETrace[1].hv
    /\ task = _TETrace[1].task
----

_next ==
    /\ \E i,j \in DOMAIN _TETrace:
        /\ \/ /\ j = i + 1
              /\ i = TLCGet("level")
        /\ pr  = _TETrace[i].pr
        /\ pr' = _TETrace[j].pr
        /\ hist  = _TETrace[i].hist
        /\ hist' = _TETrace[j].hist
        /\ env  = _TETrace[i].env
        /\ env' = _TETrace[j].env
        /\ tr  = _TETrace[i].tr
        /\ tr' = _TETrace[j].tr
        /\ hv  = _TETrace[i].hv
        /\ hv' = _TETrace[j].hv
        /\ task  = _TETrace[i].task
        /\ task' = _TETrace[j].task

\* Uncomment the ASSUME below to write the states of the error trace
\* to the given file in Json format. Note that you can pass any tuple
\* to `JsonSerialize`. For example, a sub-sequence of _TETrace.
    \* ASSUME
    \*     LET J == INSTANCE Json
    \*         IN J!JsonSerialize("MC_C18_TTrace_1790048517.json", _TETrace)

=============================================================================

 Note that you can extract this module `MC_C18_TEExpression`
  to a dedicated file to reuse `expression` (the module in the 
  dedicated `MC_C18_TEExpression.tla` file takes precedence 
  over the module `MC_C18_TEExpression` below).

---- MODULE MC_C18_TEExpression ----
EXTENDS MC_C18, Sequences, TLCExt, Toolbox, Naturals, TLC

expression == 
    [
        \* To hide variables of the `MC_C18` spec from the error trace,
        \* remove the variables below.  The trace will be written in the order
        \* of the fields of this record.
        pr |-> pr
        ,hist |-> hist
        ,env |-> env
        ,tr |-> tr
        ,hv |-> hv
        ,task |-> task
        
        \* Put additional constant-, state-, and action-level expressions here:
        \* ,_stateNumber |-> _TEPosition
        \* ,_prUnchanged |-> pr = pr'
        
        \* Format the `pr` variable as Json value.
        \* ,_prJson |->
        \*     LET J == INSTANCE Json
        \*     IN J!ToJson(pr)
        
        \* Lastly, you may build expressions over arbitrary sets of states by
        \* leveraging the _TETrace operator.  For example, this is how to
        \* count the number of times a spec variable changed up to the current
        \* state in the trace.
        \* ,_prModCount |->
        \*     LET F[s \in DOMAIN _TETrace] ==
        \*         IF s = 1 THEN 0
        \*         ELSE IF _TETrace[s].pr # _TETrace[s-1].pr
        \*             THEN 1 + F[s-1] ELSE F[s-1]
        \*     IN F[_TEPosition - 1]
    ]

=============================================================================



Parsing and semantic processing can take forever if the trace below is long.
 In this case, it is advised to uncomment the module below to deserialize the
 trace from a generated binary file.

\*
\*---- MODULE MC_C18_TETrace ----
\*EXTENDS MC_C18, IOUtils, TLC
\*
\*trace == IODeserialize("MC_C18_TTrace_1790048517.bin", TRUE)
\*
\*=============================================================================
\*

---- MODULE MC_C18_TETrace ----
EXTENDS MC_C18, TLC

trace == 
    <<
    ([pr |-> [rq |-> <<>>, rev |-> FALSE, wset |-> TRUE, eof |-> FALSE, exc |-> FALSE, closed |-> FALSE, rg |-> 0, sg |-> 0, wgen |-> 0],hist |-> <<>>,task |-> <<[pc |-> "idle", op |-> "none", arg |-> 0, g |-> 0], [pc |-> "idle", op |-> "none", arg |-> 0, g |-> 0]>>,env |-> [kroom |-> 2, fed |-> 0, drained |-> 0, burst |-> 0, nenv |-> 0, nops |-> 0],tr |-> [reading |-> FALSE, closing |-> FALSE, buf |-> 0, wpaused |-> FALSE, pend |-> "none", lost |-> FALSE, eofseen |-> FALSE, weof |-> FALSE],hv |-> [res |-> <<[r |-> "none", off |-> 0, len |-> 0], [r |-> "none", off |-> 0, len |-> 0]>>, bad |-> {}, p |-> [closed |-> [A |-> FALSE, B |-> FALSE], received |-> [A |-> 0, B |-> 0], leak |-> [A |-> FALSE, B |-> FALSE], par |-> [boundA |-> 2, boundB |-> 4, pausedA |-> 1, pausedB |-> 1, protoA |-> 1, protoB |-> 1], started |-> [A |-> 0, B |-> 0], accepted |-> [A |-> 0, B |-> 0], eofsent |-> [A |-> FALSE, B |-> FALSE], eos |-> [A |-> FALSE, B |-> FALSE], cut |-> [A |-> FALSE, B |-> FALSE], rst |-> FALSE, ops |-> {}, creq |-> {}]]]),
    ([pr |-> [rq |-> <<>>, rev |-> FALSE, wset |-> TRUE, eof |-> FALSE, exc |-> FALSE, closed |-> FALSE, rg |-> 0, sg |-> 1, wgen |-> 0],hist |-> <<>>,task |-> <<[pc |-> "s_chk", op |-> "send", arg |-> 3, g |-> 0], [pc |-> "idle", op |-> "none", arg |-> 0, g |-> 0]>>,env |-> [kroom |-> 2, fed |-> 0, drained |-> 0, burst |-> 0, nenv |-> 0, nops |-> 1],tr |-> [reading |-> FALSE, closing |-> FALSE, buf |-> 0, wpaused |-> FALSE, pend |-> "none", lost |-> FALSE, eofseen |-> FALSE, weof |-> FALSE],hv |-> [res |-> <<[r |-> "none", off |-> 0, len |-> 0], [r |-> "none", off |-> 0, len |-> 0]>>, bad |-> {}, p |-> [closed |-> [A |-> FALSE, B |-> FALSE], received |-> [A |-> 0, B |-> 0], leak |-> [A |-> FALSE, B |-> FALSE], par |-> [boundA |-> 2, boundB |-> 4, pausedA |-> 1, pausedB |-> 1, protoA |-> 1, protoB |-> 1], started |-> [A |-> 3, B |-> 0], accepted |-> [A |-> 0, B |-> 0], eofsent |-> [A |-> FALSE, B |-> FALSE], eos |-> [A |-> FALSE, B |-> FALSE], cut |-> [A |-> FALSE, B |-> FALSE], rst |-> FALSE, ops |-> {[s |-> "A", t |-> 1, op |-> "send", arg |-> 3, settled |-> FALSE, hold |-> {}, closed0 |-> FALSE, must |-> FALSE, certain |-> FALSE]}, creq |-> {}]]]),
    ([pr |-> [rq |-> <<>>, rev |-> FALSE, wset |-> FALSE, eof |-> FALSE, exc |-> FALSE, closed |-> FALSE, rg |-> 0, sg |-> 1, wgen |-> 1],hist |-> <<>>,task |-> <<[pc |-> "s_wait", op |-> "send", arg |-> 3, g |-> 1], [pc |-> "idle", op |-> "none", arg |-> 0, g |-> 0]>>,env |-> [kroom |-> 0, fed |-> 0, drained |-> 0, burst |-> 0, nenv |-> 0, nops |-> 1],tr |-> [reading |-> FALSE, closing |-> FALSE, buf |-> 1, wpaused |-> TRUE, pend |-> "none", lost |-> FALSE, eofseen |-> FALSE, weof |-> FALSE],hv |-> [res |-> <<[r |-> "none", off |-> 0, len |-> 0], [r |-> "none", off |-> 0, len |-> 0]>>, bad |-> {}, p |-> [closed |-> [A |-> FALSE, B |-> FALSE], received |-> [A |-> 0, B |-> 0], leak |-> [A |-> FALSE, B |-> FALSE], par |-> [boundA |-> 2, boundB |-> 4, pausedA |-> 1, pausedB |-> 1, protoA |-> 1, protoB |-> 1], started |-> [A |-> 3, B |-> 0], accepted |-> [A |-> 0, B |-> 0], eofsent |-> [A |-> FALSE, B |-> FALSE], eos |-> [A |-> FALSE, B |-> FALSE], cut |-> [A |-> FALSE, B |-> FALSE], rst |-> FALSE, ops |-> {[s |-> "A", t |-> 1, op |-> "send", arg |-> 3, settled |-> FALSE, hold |-> {}, closed0 |-> FALSE, must |-> FALSE, certain |-> FALSE]}, creq |-> {}]]]),
    ([pr |-> [rq |-> <<>>, rev |-> FALSE, wset |-> FALSE, eof |-> FALSE, exc |-> FALSE, closed |-> FALSE, rg |-> 0, sg |-> 1, wgen |-> 1],hist |-> <<>>,task |-> <<[pc |-> "cancel", op |-> "send", arg |-> 3, g |-> 1], [pc |-> "idle", op |-> "none", arg |-> 0, g |-> 0]>>,env |-> [kroom |-> 0, fed |-> 0, drained |-> 0, burst |-> 0, nenv |-> 1, nops |-> 1],tr |-> [reading |-> FALSE, closing |-> FALSE, buf |-> 1, wpaused |-> TRUE, pend |-> "none", lost |-> FALSE, eofseen |-> FALSE, weof |-> FALSE],hv |-> [res |-> <<[r |-> "none", off |-> 0, len |-> 0], [r |-> "none", off |-> 0, len |-> 0]>>, bad |-> {}, p |-> [closed |-> [A |-> FALSE, B |-> FALSE], received |-> [A |-> 0, B |-> 0], leak |-> [A |-> FALSE, B |-> FALSE], par |-> [boundA |-> 2, boundB |-> 4, pausedA |-> 1, pausedB |-> 1, protoA |-> 1, protoB |-> 1], started |-> [A |-> 3, B |-> 0], accepted |-> [A |-> 0, B |-> 0], eofsent |-> [A |-> FALSE, B |-> FALSE], eos |-> [A |-> FALSE, B |-> FALSE], cut |-> [A |-> FALSE, B |-> FALSE], rst |-> FALSE, ops |-> {[s |-> "A", t |-> 1, op |-> "send", arg |-> 3, settled |-> FALSE, hold |-> {}, closed0 |-> FALSE, must |-> FALSE, certain |-> FALSE]}, creq |-> {<<"A", 1>>}]]]),
    ([pr |-> [rq |-> <<>>, rev |-> FALSE, wset |-> FALSE, eof |-> FALSE, exc |-> FALSE, closed |-> FALSE, rg |-> 0, sg |-> 0, wgen |-> 1],hist |-> <<>>,task |-> <<[pc |-> "idle", op |-> "none", arg |-> 0, g |-> 0], [pc |-> "idle", op |-> "none", arg |-> 0, g |-> 0]>>,env |-> [kroom |-> 0, fed |-> 0, drained |-> 0, burst |-> 0, nenv |-> 1, nops |-> 1],tr |-> [reading |-> FALSE, closing |-> FALSE, buf |-> 1, wpaused |-> TRUE, pend |-> "none", lost |-> FALSE, eofseen |-> FALSE, weof |-> FALSE],hv |-> [res |-> <<[r |-> "cancelled", off |-> 0, len |-> 0], [r |-> "none", off |-> 0, len |-> 0]>>, bad |-> {}, p |-> [closed |-> [A |-> FALSE, B |-> FALSE], received |-> [A |-> 0, B |-> 0], leak |-> [A |-> FALSE, B |-> FALSE], par |-> [boundA |-> 2, boundB |-> 4, pausedA |-> 1, pausedB |-> 1, protoA |-> 1, protoB |-> 1], started |-> [A |-> 3, B |-> 0], accepted |-> [A |-> 0, B |-> 0], eofsent |-> [A |-> FALSE, B |-> FALSE], eos |-> [A |-> FALSE, B |-> FALSE], cut |-> [A |-> TRUE, B |-> FALSE], rst |-> FALSE, ops |-> {}, creq |-> {}]]])
    >>
----


=============================================================================

---- CONFIG MC_C18_TTrace_1790048517 ----
CONSTANTS
    NT = 2
    Ops1 = { "send" }
    Ops2 = { "send" , "close" }
    Ops3 = { }
    MaxOps = 4
    Total = 0
    ChunkMax = 2
    MaxBytesSet = { 1 , 2 }
    SendSizes = { 1 , 3 }
    KCap = 2
    PausedAtStart = TRUE
    EnvKinds = { "drain" , "reset" , "cancel" }
    MaxEnv = 1
    MaxBurst = 1
    Emit = FALSE

INVARIANT
    _inv

CHECK_DEADLOCK
    \* CHECK_DEADLOCK off because of PROPERTY or INVARIANT above.
    FALSE

INIT
    _init

NEXT
    _next

CONSTANT
    _TETrace <- _trace

ALIAS
    _expression
=============================================================================
\* Generated on Tue Sep 22 03:42:20 UTC 2026