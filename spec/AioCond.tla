----------------------------- MODULE AioCond -----------------------------
(***************************************************************************)
(* Event (anyio._backends._asyncio :1853-1875 over asyncio.Event) and      *)
(* Condition (anyio._core._synchronization :276-385, after fix F4) on top  *)
(* of the kernel and Lock.                                                 *)
(***************************************************************************)
EXTENDS AioLock

(********************************* Event **********************************)
\* flag = asyncio.Event._value, waiters = asyncio.Event._waiters (futures, by task, in order)
EvInit == [flag |-> FALSE, waiters |-> <<>>]

RECURSIVE SetAll(_, _)
SetAll(q, ts) == IF ts = <<>> THEN q ELSE SetAll(FutSetResult(q, Head(ts)), Tail(ts))

EvSet(q, ev) ==                     \* asyncio.Event.set(): "for fut in waiters: if not done: set_result"
  IF ev.flag THEN [q |-> q, ev |-> ev]
  ELSE [q |-> SetAll(q, ev.waiters), ev |-> [ev EXCEPT !.flag = TRUE]]

EvWaitEnabled(q, t) == q.run = t /\ q.T[t].stack # <<>> /\ Top(q, t).f = "ev_wait"
EvWaitStep(q, ev, t) ==
  LET pc == Top(q, t).pc IN
  CASE pc = "start" ->
         IF ev.flag THEN [q |-> Call(q, t, "ckpt", Frame("yield", "start", 0, 0)), ev |-> ev]
         ELSE [q |-> SuspendFut(q, t, "wait"), ev |-> [ev EXCEPT !.waiters = Append(@, t)]]
    [] pc = "ckpt" ->
         [q |-> IF IsExc(Reg(q, t)) THEN Raise(q, t, Reg(q, t)) ELSE Ret(q, t), ev |-> ev]
    [] pc = "wait" ->               \* finally: self._waiters.remove(fut)
         [q |-> IF IsExc(Reg(q, t)) THEN Raise(q, t, Reg(q, t)) ELSE Ret(q, t),
          ev |-> [ev EXCEPT !.waiters = SelectSeq(@, LAMBDA w : w # t)]]

(******************************* Condition ********************************)
\* lk = the underlying Lock, owner = Condition._owner_task, waiters = Condition._waiters (one-shot
\* events, identified by the waiting task), cset[t] = the event of t's current wait() is set
CondInit == [lk |-> LockInit(FALSE), owner |-> 0, waiters |-> <<>>,
             cset |-> [t \in Task |-> FALSE]]

\* Condition.release(): self._lock.release(); self._owner_task = None
CondRelease(q, cd, t) ==
  LET r == LockRelease(q, cd.lk, t) IN
  IF r.err THEN [q |-> q, cd |-> cd, err |-> TRUE]
  ELSE [q |-> r.q, cd |-> [cd EXCEPT !.lk = r.lk, !.owner = 0], err |-> FALSE]

CondAcqNowait(cd, t) ==
  LET r == LockNowait(cd.lk, t) IN
  IF r.res = "ok" THEN [cd |-> [cd EXCEPT !.lk = r.lk, !.owner = t], res |-> "ok"]
  ELSE [cd |-> cd, res |-> r.res]

RECURSIVE CondPopSet(_, _, _)
CondPopSet(q, cd, n) ==             \* notify(n): pop up to n events and set them
  IF n = 0 \/ cd.waiters = <<>> THEN [q |-> q, cd |-> cd]
  ELSE LET w == Head(cd.waiters) IN
       CondPopSet(FutSetResult(q, w), [cd EXCEPT !.waiters = Tail(@), !.cset[w] = TRUE], n - 1)

\* notify(n) / notify_all (n = -1) by task t
CondNotify(q, cd, t, n) ==
  IF cd.owner # t THEN [q |-> q, cd |-> cd, err |-> TRUE]
  ELSE LET r == CondPopSet(q, cd, IF n < 0 THEN Len(cd.waiters) ELSE n) IN
       [q |-> r.q, cd |-> r.cd, err |-> FALSE]

\* Condition.acquire(): await self._lock.acquire(); self._owner_task = current
CondAcqEnabled(q, t) == q.run = t /\ q.T[t].stack # <<>> /\ Top(q, t).f = "cond_acq"
CondAcqStep(q, cd, t) ==
  LET pc == Top(q, t).pc IN
  CASE pc = "start" -> [q |-> Call(q, t, "got", Frame("lock_acq", "start", 0, 0)), cd |-> cd]
    [] pc = "got" ->
         IF IsExc(Reg(q, t)) THEN [q |-> Raise(q, t, Reg(q, t)), cd |-> cd]
         ELSE [q |-> Ret(q, t), cd |-> [cd EXCEPT !.owner = t]]

\* Condition.wait() (:341-361); frame field b holds the exception to re-raise after the finally
NoExc == Val
CondWaitEnabled(q, t) == q.run = t /\ q.T[t].stack # <<>> /\ Top(q, t).f = "cond_wait"
CondWaitStep(q, cd, t) ==
  LET pc == Top(q, t).pc IN
  CASE pc = "start" -> [q |-> Call(q, t, "w1", Frame("cic", "start", 0, 0)), cd |-> cd]
    [] pc = "w1" ->
         IF IsExc(Reg(q, t)) THEN [q |-> Raise(q, t, Reg(q, t)), cd |-> cd]
         ELSE IF cd.owner # t THEN [q |-> Raise(q, t, Err("RuntimeError")), cd |-> cd]
         ELSE LET cd1 == [cd EXCEPT !.waiters = Append(@, t), !.cset[t] = FALSE]
                  r == CondRelease(q, cd1, t) IN
              IF r.err THEN [q |-> Raise(q, t, Err("RuntimeError")), cd |-> cd1]
              ELSE [q |-> SuspendFut(r.q, t, "w2"), cd |-> r.cd]
    [] pc = "w2" ->                 \* back from "await event.wait()"
         LET x == Reg(q, t)
             r == IF ~IsExc(x) THEN [q |-> q, cd |-> cd]
                  ELSE IF ~cd.cset[t]
                       THEN [q |-> q, cd |-> [cd EXCEPT !.waiters = SelectSeq(@, LAMBDA w : w # t)]]
                       ELSE CondPopSet(q, cd, 1)          \* pass the notification on
             \* finally: with CancelScope(shield=True): await self.acquire()
             q1 == SetTop(r.q, t, [Top(r.q, t) EXCEPT !.b = x])
             q2 == ScopeEnter(q1, t, TRUE, INF, FALSE, "condwait")
         IN [q |-> Call(q2, t, "w3", Frame("cond_acq", "start", 0, 0)), cd |-> r.cd]
    [] pc = "w3" ->
         LET r == ScopeExit(q, t, Reg(q, t))
             pending == Top(q, t).b IN
         IF IsExc(r.reg) THEN [q |-> Raise(r.q, t, r.reg), cd |-> cd]
         ELSE IF IsExc(pending) THEN [q |-> Raise(r.q, t, pending), cd |-> cd]
         ELSE [q |-> Ret(r.q, t), cd |-> cd]

=============================================================================
