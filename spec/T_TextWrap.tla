------------------------------- MODULE T_TextWrap -------------------------------
(***************************************************************************)
(* Trace specification for the text part of C16 (hand-written in the shape *)
(* of the generated T_* modules, plus model drift).                        *)
(*                                                                         *)
(* A trace: params [mode, ws, bw, lens] - the widths of the characters of  *)
(* the text, the BOM width of the encoding, and the lengths of the chunks  *)
(* the encoded text was cut into (mode "recv", zero-length chunks allowed) *)
(* or of the strings that were sent (mode "rt") - and one event per        *)
(* receive() call on the real TextReceiveStream: [k, out].                 *)
(*  - verdict: P_TextWrap!TextApply (ConcatEqualsDecode/RoundTripIdentity) *)
(*  - drift  : the machine TextStream predicts which characters every      *)
(*    single receive() returns; a different grouping is only counted.      *)
(***************************************************************************)
EXTENDS TextStream, P_TextWrap, Json, IOUtils, TLC

Batch == JsonDeserialize(IOEnv.TRACE_FILE).traces

VARIABLES tid, l, p, pred, bad, drift

Evs == Batch[tid].events
Par == Batch[tid].params

TInit == /\ tid \in 1..Len(Batch)
         /\ l = 1
         /\ p = TextP0(Len(Par.ws), Par.mode)
         /\ pred = IF Par.mode = "rt" THEN OutputsOfRoundTrip(Par.ws, Par.bw, Par.lens)
                   ELSE OutputsOfReceive(Par.ws, Par.bw, Par.lens)
         /\ bad = {}
         /\ drift = 0

TStep == /\ l >= 1 /\ l <= Len(Evs) /\ bad = {}
         /\ \E e \in {Evs[l]} :
              \E a \in {TextApply(p, e)} :
                /\ p' = a.p
                /\ bad' = a.bad
                /\ drift' = IF \/ e.k = "ok" /\ l <= Len(pred) /\ pred[l] = e.out
                               \/ e.k = "eos" /\ l = Len(pred) + 1
                            THEN drift ELSE drift + 1
                /\ l' = IF a.bad = {} THEN l + 1 ELSE l
         /\ UNCHANGED <<tid, pred>>

TDone == /\ l >= 1 /\ (l > Len(Evs) \/ bad # {})
         /\ PrintT(<<"@@V", ToJson([tid |-> tid, n |-> l - 1, bad |-> bad, at |-> l,
                                     drift |-> drift])>>)
         /\ l' = 0
         /\ UNCHANGED <<tid, p, pred, bad, drift>>

TSpec == TInit /\ [][TStep \/ TDone]_<<tid, l, p, pred, bad, drift>>
=============================================================================
