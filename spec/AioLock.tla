----------------------------- MODULE AioLock -----------------------------
(***************************************************************************)
(* anyio._backends._asyncio.Lock (:1878-1959) on top of the kernel.        *)
(* State of one lock:  owner (Lock._owner_task, 0 = None),                 *)
(*   waiters (Lock._waiters: the deque of (task, future); the future of an *)
(*   entry is the one its task currently awaits, so its state is           *)
(*   K.T[task].fut), fast (fast_acquire).                                  *)
(* One frame "lock_acq" per call of acquire(); labels = the awaits.        *)
(***************************************************************************)
EXTENDS Aio

LockInit(fast) == [owner |-> 0, waiters |-> <<>>, fast |-> fast]

\* Lock.release() by task t (:1939-1955).  Returns [q, lk, err].
RECURSIVE LockHandOff(_, _)
LockHandOff(q, lk) ==
  IF lk.waiters = <<>> THEN [q |-> q, lk |-> [lk EXCEPT !.owner = 0]]
  ELSE LET w == Head(lk.waiters)
           lk1 == [lk EXCEPT !.waiters = Tail(@)] IN
       IF q.T[w].fut = "cancelled" THEN LockHandOff(q, lk1)      \* "if fut.cancelled(): continue"
       ELSE [q |-> FutSetResult(q, w), lk |-> [lk1 EXCEPT !.owner = w]]

LockRelease(q, lk, t) ==
  IF lk.owner # t THEN [q |-> q, lk |-> lk, err |-> TRUE]
  ELSE LET r == LockHandOff(q, lk) IN [q |-> r.q, lk |-> r.lk, err |-> FALSE]

\* Lock.acquire_nowait() (:1925-1934): "ok" / "error" / "wouldblock"
LockNowait(lk, t) ==
  IF lk.owner = 0 /\ lk.waiters = <<>> THEN [lk |-> [lk EXCEPT !.owner = t], res |-> "ok"]
  ELSE IF lk.owner = t THEN [lk |-> lk, res |-> "error"]
  ELSE [lk |-> lk, res |-> "wouldblock"]

\* Lock.acquire() (:1889-1923).  Returns [q, lk].
LockAcqEnabled(q, t) == q.run = t /\ q.T[t].stack # <<>> /\ Top(q, t).f = "lock_acq"
LockAcqStep(q, lk, t) ==
  LET pc == Top(q, t).pc IN
  CASE pc = "start" ->
         IF lk.owner = 0 /\ lk.waiters = <<>>
         THEN [q |-> Call(q, t, "fast1", Frame("cic", "start", 0, 0)), lk |-> lk]
         ELSE IF lk.owner = t
         THEN [q |-> Raise(q, t, Err("RuntimeError")), lk |-> lk]
         ELSE [q |-> SuspendFut(q, t, "wait"), lk |-> [lk EXCEPT !.waiters = Append(@, t)]]
    [] pc = "fast1" ->                          \* back from checkpoint_if_cancelled
         IF IsExc(Reg(q, t)) THEN [q |-> Raise(q, t, Reg(q, t)), lk |-> lk]
         ELSE IF lk.fast THEN [q |-> Ret(q, t), lk |-> [lk EXCEPT !.owner = t]]
         ELSE [q |-> Call(q, t, "fast2", Frame("csc", "start", 0, 0)), lk |-> [lk EXCEPT !.owner = t]]
    [] pc = "fast2" ->                          \* back from cancel_shielded_checkpoint
         IF IsCancel(Reg(q, t))
         THEN LET r == LockRelease(q, lk, t) IN [q |-> Raise(r.q, t, Reg(q, t)), lk |-> r.lk]
         ELSE IF IsExc(Reg(q, t)) THEN [q |-> Raise(q, t, Reg(q, t)), lk |-> lk]
         ELSE [q |-> Ret(q, t), lk |-> lk]
    [] pc = "wait" ->                           \* resumed from "await fut"
         IF IsCancel(Reg(q, t))
         THEN IF q.T[t].lastfut = "cancelled"
              THEN [q |-> Raise(q, t, Reg(q, t)),
                    lk |-> [lk EXCEPT !.waiters = SelectSeq(@, LAMBDA w : w # t)]]
              ELSE LET r == LockRelease(q, lk, t) IN [q |-> Raise(r.q, t, Reg(q, t)), lk |-> r.lk]
         ELSE IF IsExc(Reg(q, t)) THEN [q |-> Raise(q, t, Reg(q, t)), lk |-> lk]
         ELSE [q |-> Ret(q, t), lk |-> lk]

=============================================================================
