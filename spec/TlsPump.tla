------------------------------ MODULE TlsPump ------------------------------
(***************************************************************************)
(* Property C17: the pump loop of anyio.streams.tls.TLSStream              *)
(* (`_call_sslobject_method`, src/anyio/streams/tls.py:182-226, and the    *)
(* callers wrap / send / receive / unwrap / aclose, :99-180, :228-261)     *)
(* between an abstract SSL engine and a transport that the environment     *)
(* controls completely.                                                    *)
(*                                                                         *)
(* Ciphertext.  Every direction carries a sequence of records; a record is *)
(* two units (i = 1: its head, i = 2: its tail), so that a chunk boundary  *)
(* can fall before, inside and after every record.  Kinds: "hs" a          *)
(* handshake flight, "tk" the TLS 1.3 session tickets (sent by the server  *)
(* when its handshake is complete, absorbed silently by the client), "app" *)
(* n units of plaintext, "cn" the close_notify alert.                      *)
(*                                                                         *)
(* Engine (one per side; stands for ssl.SSLObject + the two MemoryBIOs).   *)
(*   bin / ineof : incoming BIO (units fed, not yet consumed) and its EOF  *)
(*   bout        : outgoing BIO (units produced, not yet read by the pump) *)
(*   hs, ok      : handshake stage, handshake complete                     *)
(*   plain       : plaintext units of the current record not yet read      *)
(*   txcn, rxcn  : close_notify sent / received;  dead : fatal error;      *)
(*   deof        : ... and the fatal error was the unexpected EOF           *)
(* An engine call needs the COMPLETE next record (AEAD): with less it      *)
(* answers want-read, or the EOF error when the BIO is at EOF.             *)
(* Handshake flights: TLS 1.2  c->s F1, s->c F2, c->s F3, s->c F4;         *)
(* TLS 1.3  c->s F1, s->c F2, c->s F3 (client complete after writing F3,   *)
(* server complete after reading F3, then writes the tickets).             *)
(*                                                                         *)
(* Pump (the code under verification), one call:                           *)
(*   want-read -> flush bout to the transport, wait in transport.receive() *)
(*                (the side PARKS); data -> bin, EndOfStream -> ineof      *)
(*   ok / b""  -> flush bout, return (receive: b"" -> EndOfStream)         *)
(*   EOF error -> BrokenResourceError if standard_compatible else          *)
(*                EndOfStream;  other SSL errors are re-raised             *)
(* The flush is ONE step that empties bout (tls.py: one transport.send of  *)
(* `_write_bio.read()`), however many records one engine call produced     *)
(* (send of up to 13 full records = 208 KiB in the -simulate               *)
(* configurations).  Named deviation FlushInPieces: an implementation may  *)
(* hand bout to the transport in several transport.send() calls within the *)
(* same pass; the observer accepts any number of "tsend" events, the       *)
(* harness reassembles the records across the pieces, and what counts is   *)
(* PendingOutputFlushed / OutputFlushedOnReturn: bout is empty whenever    *)
(* the pump waits for input or returns.                                    *)
(*                                                                         *)
(* Environment (all nondeterminism): the application on either side        *)
(* chooses its next call while it is idle (send of 0..13 units, receive    *)
(* with max 1..3 units, aclose); the transport hands a parked side any     *)
(* non-empty prefix of what is in flight (= all re-chunkings and           *)
(* coalescings) or, at most MaxCut times, end-of-file although more is or  *)
(* will be in flight (= truncation at that position); a closed transport   *)
(* end reports end-of-file once drained.                                   *)
(* Repeated observation of the end: an application whose receive() (or     *)
(* send()) has raised keeps calling receive() / send(), at most MaxAfter   *)
(* times, before it calls aclose().  Each such call is one more pass of    *)
(* the pump against the engine as the end left it: after a truncation the  *)
(* BIOs have seen EOF and the engine answers every read and write with the *)
(* EOF error again (OpenSSL: a reason-less SSLEOFError from the second     *)
(* time on) and unwrap with another SSL error; after the peer's            *)
(* close_notify read keeps answering "zero" while write still works        *)
(* (half-closed connection).                                               *)
(*                                                                         *)
(* Ghost state: pst / pbad = the observer P_Tls fed with the same events   *)
(* the harness records from the real library; hist = the choices, hidden   *)
(* by VIEW, printed on every edge for replay on the real code.             *)
(***************************************************************************)
EXTENDS P_Tls, TLC, Json

CONSTANTS V,          \* 12 or 13
          SCC, SCS,   \* subsets of BOOLEAN: standard_compatible of client / server
          BIG,        \* subset of BOOLEAN: TRUE = a unit of plaintext is a full 16384-byte record
          SendSizes, RecvSizes, MaxSend, MaxRecv, MaxCut,
          MaxAfter,   \* receive / send calls of one side after its first call that raised
          CutFrom     \* {0} for model checking.  Only to spread the random walks of -simulate: a cut
                      \* is allowed from the cfg.cutfrom-th choice on (cfg.cutfrom \in CutFrom)

VARIABLES E, pipe, T, closed, eofd, ncut, cfg, hist, pst, pbad

vars == <<E, pipe, T, closed, eofd, ncut, cfg, hist, pst, pbad>>
View == <<E, pipe, T, closed, eofd, ncut, cfg, pst, pbad>>

Peer(x) == TPeer(x)
Min(a, b) == IF a < b THEN a ELSE b

(****************************** ciphertext *********************************)
Rec(k, r, n) == << [k |-> k, r |-> r, i |-> 1, n |-> n], [k |-> k, r |-> r, i |-> 2, n |-> n] >>

Engine0 == [hs |-> 0, ok |-> FALSE, bin |-> <<>>, ineof |-> FALSE, bout |-> <<>>, plain |-> 0,
            rxcn |-> FALSE, txcn |-> FALSE, dead |-> FALSE, deof |-> FALSE, wr |-> 0]

Emit(g, k, n) == [g EXCEPT !.bout = @ \o Rec(k, g.wr + 1, n), !.wr = @ + 1]
RECURSIVE EmitApp1(_, _)
EmitApp1(g, n) == IF n = 0 THEN g ELSE EmitApp1(Emit(g, "app", 1), n - 1)
HeadComplete(g) == Len(g.bin) >= 2
HeadRec(g) == g.bin[1]
Consume(g) == [g EXCEPT !.bin = SubSeq(@, 3, Len(@))]
Die(g) == [g EXCEPT !.dead = TRUE]
R(res, g, val) == [res |-> res, g |-> g, val |-> val]
DieEOF(g) == [g EXCEPT !.dead = TRUE, !.deof = TRUE]
NeedMore(g) == IF g.ineof THEN R("eof", DieEOF(g), 0) ELSE R("wantread", g, 0)
\* a call on a dead engine: the EOF error again if that is what killed it
Dead(g) == R(IF g.deof THEN "eof" ELSE "err", g, 0)

(****************************** engine calls *******************************)
\* SSLObject.do_handshake
HsClient2(g) ==                       \* TLS 1.2: waiting for F4
  IF HeadComplete(g) THEN R("ok", [Consume(g) EXCEPT !.ok = TRUE, !.hs = 3], 0) ELSE NeedMore(g)
HsClient1(g) ==                       \* waiting for F2; answers with F3
  IF HeadComplete(g)
  THEN LET g1 == Emit([Consume(g) EXCEPT !.hs = 2], "hs", 0) IN
       IF V = 13 THEN R("ok", [g1 EXCEPT !.ok = TRUE, !.hs = 3], 0) ELSE HsClient2(g1)
  ELSE NeedMore(g)
HsClient(g) ==
  CASE g.hs = 0 -> HsClient1(Emit([g EXCEPT !.hs = 1], "hs", 0))
    [] g.hs = 1 -> HsClient1(g)
    [] g.hs = 2 -> HsClient2(g)
    [] OTHER -> R("ok", g, 0)
HsServer1(g) ==                       \* waiting for F3; answers with F4 / the tickets
  IF HeadComplete(g)
  THEN R("ok", [Emit(Consume(g), IF V = 13 THEN "tk" ELSE "hs", 0) EXCEPT !.ok = TRUE, !.hs = 3], 0)
  ELSE NeedMore(g)
HsServer(g) ==
  CASE g.hs = 0 -> IF HeadComplete(g) THEN HsServer1(Emit([Consume(g) EXCEPT !.hs = 1], "hs", 0))
                   ELSE NeedMore(g)
    [] g.hs = 1 -> HsServer1(g)
    [] OTHER -> R("ok", g, 0)

\* SSLObject.read(m): at most what is left of ONE record
RdData(g, m) == LET k == Min(m, g.plain) IN R("ok", [g EXCEPT !.plain = @ - k], k)
Rd1(g, m) ==
  IF ~HeadComplete(g) THEN NeedMore(g)
  ELSE LET h == HeadRec(g) IN
       CASE h.k = "app" -> RdData([Consume(g) EXCEPT !.plain = h.n], m)
         [] h.k = "cn" -> R("zero", [Consume(g) EXCEPT !.rxcn = TRUE], 0)
         [] OTHER -> R("err", Die(g), 0)
Rd(g, m) ==
  IF g.dead THEN Dead(g)
  ELSE IF g.plain > 0 THEN RdData(g, m)
  ELSE IF g.rxcn THEN R("zero", g, 0)
  ELSE IF HeadComplete(g) /\ HeadRec(g).k = "tk" THEN Rd1(Consume(g), m)
  ELSE Rd1(g, m)

\* SSLObject.write(n units): memory BIOs never push back
Wr(g, n, big) ==
  IF g.dead THEN Dead(g)
  ELSE IF g.txcn THEN R("err", g, 0)
  ELSE IF n = 0 THEN R("ok", g, 0)
  ELSE IF big THEN R("ok", EmitApp1(g, n), n)
  ELSE R("ok", Emit(g, "app", n), n)

\* SSLObject.unwrap: send close_notify, then wait for the peer's; application data that arrives
\* (or is still unread) after our close_notify is a fatal error
RECURSIVE Uw1(_)
Uw1(g) ==
  IF g.rxcn THEN R("ok", g, 0)
  ELSE IF g.plain > 0 THEN R("err", Die(g), 0)
  ELSE IF ~HeadComplete(g) THEN NeedMore(g)
  ELSE LET h == HeadRec(g) IN
       CASE h.k = "cn" -> R("ok", [Consume(g) EXCEPT !.rxcn = TRUE], 0)
         [] h.k = "tk" -> Uw1(Consume(g))
         [] OTHER -> R("err", Die(Consume(g)), 0)
Uw(g) ==
  IF g.dead THEN R("err", g, 0)
  ELSE Uw1(IF g.txcn THEN g ELSE [Emit(g, "cn", 0) EXCEPT !.txcn = TRUE])

Do(x, g, op, arg) ==
  CASE op = "wrap" -> IF x = "c" THEN HsClient(g) ELSE HsServer(g)
    [] op = "send" -> Wr(g, arg, cfg.big[x])
    [] op = "recv" -> Rd(g, arg)
    [] op = "close" -> Uw(g)

(****************************** the pump ***********************************)
\* One pass of `_call_sslobject_method` from the engine call to either the wait in
\* transport.receive() ("park") or the return / raise.
Pump(x, g, op, arg) ==
  LET r == Do(x, g, op, arg)
      fl == [r.g EXCEPT !.bout = <<>>]
  IN CASE r.res = "wantread" -> [g |-> fl, sent |-> r.g.bout, out |-> "park", val |-> 0]
       [] r.res = "ok" -> [g |-> fl, sent |-> r.g.bout, out |-> "ok", val |-> r.val]
       [] r.res = "zero" -> [g |-> fl, sent |-> r.g.bout, out |-> "eos", val |-> 0]
       [] r.res = "eof" -> [g |-> r.g, sent |-> <<>>,
                            out |-> IF cfg.sc[x] THEN "broken" ELSE "eos", val |-> 0]
       [] OTHER -> [g |-> r.g, sent |-> <<>>, out |-> "other", val |-> 0]

Task0 == [pc |-> "new", st |-> "rest", arg |-> 0, nsend |-> 0, nrecv |-> 0, nafter |-> 0, failed |-> FALSE,
          wrap |-> "", endr |-> "", closer |-> "", got |-> 0]

EndEv(x, op, res, n, max) ==
  [ev |-> "end", s |-> x, op |-> op, res |-> res, n |-> n, max |-> max, match |-> TRUE, pending |-> 0]

\* the events the harness would record for this pass
PumpEvents(x, op, arg, pr) ==
  (IF pr.sent # <<>> THEN << [ev |-> "tsend", s |-> x, n |-> Len(pr.sent)] >> ELSE <<>>)
  \o (IF pr.out = "park" THEN << [ev |-> "trecv", s |-> x, pending |-> 0] >>
      ELSE IF op = "recv" /\ pr.out = "ok" THEN << EndEv(x, op, "data", pr.val, arg) >>
      ELSE << EndEv(x, op, pr.out, arg, arg) >>)
  \o (IF pr.out # "park" /\ (op = "close" \/ (op = "wrap" /\ pr.out # "ok"))
      THEN << [ev |-> "tclose", s |-> x] >> ELSE <<>>)

TaskAfter(t, op, arg, pr) ==
  IF pr.out = "park" THEN [t EXCEPT !.pc = op, !.st = "park", !.arg = arg]
  ELSE CASE op = "wrap" -> [t EXCEPT !.pc = IF pr.out = "ok" THEN "idle" ELSE "done", !.st = "rest",
                                     !.wrap = pr.out]
         [] op = "send" -> IF t.failed
                           THEN [t EXCEPT !.pc = "idle", !.st = "rest", !.nafter = @ + 1]
                           ELSE [t EXCEPT !.pc = "idle", !.st = "rest", !.nsend = @ + 1,
                                          !.failed = pr.out # "ok"]
         [] op = "recv" -> IF pr.out = "ok"
                           THEN [t EXCEPT !.pc = "idle", !.st = "rest", !.nrecv = @ + 1, !.got = @ + pr.val]
                           ELSE [t EXCEPT !.pc = "idle", !.st = "rest", !.failed = TRUE, !.endr = pr.out,
                                          !.nafter = IF t.failed THEN @ + 1 ELSE @]
         [] op = "close" -> [t EXCEPT !.pc = "done", !.st = "rest", !.closer = pr.out]

\* side x continues (after input / EOF was fed into engine g, or with a new call); restx = what
\* stays in flight to x; pre = the events that precede the pass; h = the choice made
Run(x, g, op, arg, pre, h, restx) ==
  LET pr == Pump(x, g, op, arg)
      fr == TlsApplySeq(pst, pre \o PumpEvents(x, op, arg, pr))
      y == Peer(x)
  IN /\ E' = [E EXCEPT ![x] = pr.g]
     /\ T' = [T EXCEPT ![x] = TaskAfter(T[x], op, arg, pr)]
     /\ closed' = [closed EXCEPT ![x] = @ \/ (pr.out # "park" /\ (op = "close" \/ (op = "wrap" /\ pr.out # "ok")))]
     /\ pipe' = [pipe EXCEPT ![x] = restx, ![y] = @ \o pr.sent]
     /\ pst' = fr.p
     /\ pbad' = pbad \cup fr.bad
     /\ hist' = hist \o h

StartEv(x, op, n) == [ev |-> "start", s |-> x, op |-> op, n |-> n]
Choice(x, op, a) == << <<"o", x, op, a>> >>

(****************************** actions ************************************)
Init ==
  /\ E = [c |-> Engine0, s |-> Engine0]
  /\ pipe = [c |-> <<>>, s |-> <<>>]          \* pipe[x]: units in flight TO x
  /\ T = [c |-> Task0, s |-> Task0]
  /\ closed = TNo                             \* x closed its end of the transport
  /\ eofd = TNo                               \* end-of-file was reported to x
  /\ ncut = 0
  /\ cfg \in [sc : [c : SCC, s : SCS], big : [c : BIG, s : BIG], cutfrom : CutFrom]
  /\ hist = <<>>
  /\ pst = TlsP0(cfg.sc.c, cfg.sc.s)
  /\ pbad = {}

\* both sides call TLSStream.wrap (client first)
Begin(x) ==
  /\ T[x].pc = "new" /\ (x = "s" => T["c"].pc # "new")
  /\ Run(x, E[x], "wrap", 0, << StartEv(x, "wrap", 0) >>, <<>>, pipe[x])
  /\ UNCHANGED <<eofd, ncut, cfg>>

Idle(x) == T[x].pc = "idle" /\ T[x].st = "rest"

\* while the stream is healthy at most MaxSend / MaxRecv calls; once a call has raised, at most
\* MaxAfter further send / receive calls (the repeated observation of the end)
MayCall(x, n, max) == Idle(x) /\ IF T[x].failed THEN T[x].nafter < MaxAfter ELSE n < max

Send(x) == \E n \in SendSizes :
  /\ MayCall(x, T[x].nsend, MaxSend)
  /\ Run(x, E[x], "send", n, << StartEv(x, "send", n) >>, Choice(x, "send", n), pipe[x])
  /\ UNCHANGED <<eofd, ncut, cfg>>

\* (a receive after the end returns no data, so its max_bytes is immaterial: the smallest size only)
Recv(x) == \E m \in (IF T[x].failed THEN {CHOOSE k \in RecvSizes : \A j \in RecvSizes : k <= j} ELSE RecvSizes) :
  /\ MayCall(x, T[x].nrecv, MaxRecv)
  /\ Run(x, E[x], "recv", m, << StartEv(x, "recv", m) >>, Choice(x, "recv", m), pipe[x])
  /\ UNCHANGED <<eofd, ncut, cfg>>

\* aclose (tls.py:240-248): the closing handshake only when standard_compatible, then
\* transport.aclose() in every case
Close(x) ==
  /\ Idle(x)
  /\ IF cfg.sc[x]
     THEN Run(x, E[x], "close", 0, << StartEv(x, "close", 0) >>, Choice(x, "close", 0), pipe[x])
     ELSE LET fr == TlsApplySeq(pst, << StartEv(x, "close", 0), EndEv(x, "close", "ok", 0, 0),
                                        [ev |-> "tclose", s |-> x] >>)
          IN /\ T' = [T EXCEPT ![x].pc = "done", ![x].closer = "ok"]
             /\ closed' = [closed EXCEPT ![x] = TRUE]
             /\ pst' = fr.p /\ pbad' = pbad \cup fr.bad
             /\ hist' = hist \o Choice(x, "close", 0)
             /\ UNCHANGED <<E, pipe>>
  /\ UNCHANGED <<eofd, ncut, cfg>>

Parked(x) == T[x].st = "park"

\* the transport hands the first k units in flight to the parked side.  The pump asks for at most
\* 65536 bytes (transport.receive() default): of full 16 KiB records three fit (six units from a
\* record boundary on); tail + two records + head of a fourth may not, so five units otherwise.
MaxChunk(x) == IF ~cfg.big[Peer(x)] THEN 99
               ELSE IF pipe[x] # <<>> /\ pipe[x][1].i = 1 THEN 6 ELSE 5
Deliver(x) == \E k \in 1..Min(Len(pipe[x]), MaxChunk(x)) :
  /\ Parked(x) /\ ~eofd[x]
  /\ Run(x, [E[x] EXCEPT !.bin = @ \o SubSeq(pipe[x], 1, k)], T[x].pc, T[x].arg,
         << [ev |-> "tdl", s |-> x, n |-> k] >>, << <<"d", x, k>> >>,
         SubSeq(pipe[x], k + 1, Len(pipe[x])))
  /\ UNCHANGED <<eofd, ncut, cfg>>

\* end-of-file: the peer closed its end and everything was handed over, or the transport is cut here
Drained(x) == pipe[x] = <<>> /\ closed[Peer(x)]
DeliverEOF(x) ==
  /\ Parked(x) /\ ~eofd[x]
  /\ Drained(x) \/ (ncut < MaxCut /\ Len(hist) >= cfg.cutfrom)
  /\ ncut' = IF Drained(x) THEN ncut ELSE ncut + 1
  /\ eofd' = [eofd EXCEPT ![x] = TRUE]
  /\ Run(x, [E[x] EXCEPT !.ineof = TRUE], T[x].pc, T[x].arg, << [ev |-> "teof", s |-> x] >>,
         << <<"e", x>> >>, pipe[x])
  /\ UNCHANGED cfg

Next ==
  \E x \in TSides :
    \/ Begin(x) \/ Send(x) \/ Recv(x) \/ Close(x)
    \/ Deliver(x) \/ DeliverEOF(x)

Spec == Init /\ [][Next]_vars

(****************************** properties *********************************)
\* C17: the observer never sees a violated clause
PropertyHolds == pbad = {}

\* tls.py:190-194: the pump never waits for input while it holds unflushed output
PendingOutputFlushed == \A x \in TSides : Parked(x) => E[x].bout = <<>>

\* nothing stuck: when nothing can move, nobody sits on input it could act on
Stalled == /\ \A x \in TSides : T[x].pc # "new" /\ ~Idle(x)
           /\ \A x \in TSides : Parked(x) => (pipe[x] = <<>> \/ eofd[x]) /\ ~(Drained(x) /\ ~eofd[x])
StallOk == Stalled => TlsApply(pst, [ev |-> "stall"]).bad = {}

\* input is never fed after EOF, and EOF is final
NoInputAfterEOF == \A x \in TSides : E[x].ineof => eofd[x]

\* plaintext is conserved: written = read + buffered in the reader + in flight + in the writer's BIO
\* (until something is cut, dies or is closed)
RECURSIVE PlainIn(_)
PlainIn(us) == IF us = <<>> THEN 0
               ELSE (IF us[1].k = "app" /\ us[1].i = 2 THEN us[1].n ELSE 0) + PlainIn(Tail(us))
Healthy == ncut = 0 /\ \A x \in TSides : ~E[x].dead /\ ~closed[x] /\ ~E[x].txcn
Conservation ==
  Healthy => \A x \in TSides :
     pst.sentok[Peer(x)] = T[x].got + E[x].plain + PlainIn(E[x].bin) + PlainIn(pipe[x])
                           + PlainIn(E[Peer(x)].bout)

TypeOK == /\ \A x \in TSides : T[x].st \in {"rest", "park"} /\ E[x].hs \in 0..3
          /\ ncut \in 0..MaxCut /\ \A x \in TSides : T[x].nafter \in 0..MaxAfter

(****************************** scenario output ****************************)
\* compact, to keep the emitted lines short: choices are tuples <<"o", side, op, units>>,
\* <<"d", side, units>>, <<"e", side>>; cfg = <<sc.c, sc.s, big.c, big.s>>; fin per side =
\* <<pc, st, wrap, got, endr, closer, closed>>
FinOf(t, cl) == [x \in TSides |-> <<t[x].pc, t[x].st, t[x].wrap, t[x].got, t[x].endr, t[x].closer, cl[x]>>]
Payload == [cfg |-> <<cfg.sc.c, cfg.sc.s, cfg.big.c, cfg.big.s>>, v |-> V, h |-> hist',
            fin |-> FinOf(T', closed')]
Terminal(t) == \A x \in TSides : t[x].pc = "done"
EmitAC == (hist' # hist) => PrintT(<<"@@H", ToJson(Payload)>>)
EmitFinalAC == (hist' # hist /\ Terminal(T')) => PrintT(<<"@@F", ToJson(Payload)>>)
=============================================================================
