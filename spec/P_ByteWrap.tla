------------------------------- MODULE P_ByteWrap -------------------------------
(***************************************************************************)
(* Property-level observer for anyio.streams.buffered                      *)
(* BufferedByteReceiveStream (property C16, byte part): the wrapper is     *)
(* transparent to chunking.                                                *)
(*                                                                         *)
(* The observer does not know how the wrapper works.  It sees, per call,   *)
(*   [op, n, d, k, v, buf, pulled]                                         *)
(*   op  "rx" receive(n) | "rex" receive_exactly(n) |                      *)
(*       "ru" receive_until(d, n) (n = max_bytes) | "feed" feed_data(d) |  *)
(*       "close" aclose()                                                  *)
(*   k   outcome: "ok" | "eos" EndOfStream | "incomplete" IncompleteRead | *)
(*       "notfound" DelimiterNotFound | "closed" ClosedResourceError |     *)
(*       "error" anything else                                             *)
(*   v   the bytes returned (<<>> unless k = "ok")                         *)
(*   buf the `buffer` property after the call                              *)
(*   pulled  how many bytes the wrapped stream handed over during the call *)
(*           (observed at the wrapped stream, which is the environment)    *)
(* and keeps                                                               *)
(*   p.buf   the buffer as last observed,                                  *)
(*   p.rest  the bytes the wrapped stream has not handed over yet (the     *)
(*           wrapped stream never blocks: p.rest = <<>> is end of stream), *)
(*   p.closed.                                                             *)
(* p.buf \o p.rest is everything that is still to be handed out, in order. *)
(*                                                                         *)
(* Clauses (only what the property statement forbids is forbidden):        *)
(*  PrefixExact             a successful call hands out (returned bytes    *)
(*                          plus the consumed delimiter) exactly the head  *)
(*                          of p.buf \o p.rest, and what it took from the  *)
(*                          wrapped stream without handing out is in the   *)
(*                          buffer: nothing dropped, duplicated, reordered *)
(*  FailureConsumesNothing  same equation with nothing handed out          *)
(*  FeedAppends             feed_data appends to the buffer                *)
(*  ReceiveSize             receive(n) returns 1..n bytes                  *)
(*  EndOfStreamOnlyWhenDrained                                             *)
(*  ExactlyN                receive_exactly(n) returns n bytes             *)
(*  IncompleteReadOnlyAtEnd ... or fails only if fewer than n bytes remain *)
(*  UntilExcludesDelimiter  the returned bytes followed by the delimiter   *)
(*                          contain the delimiter only at the very end     *)
(*  DelimiterNotFoundOnlyIfAbsent   from the first max_bytes bytes         *)
(*  IncompleteReadOnlyIfAbsent      from all the bytes before the end      *)
(*  ExpectedOutcome         no other kind of outcome on an open stream     *)
(* On a closed stream only the conservation clauses apply.                 *)
(***************************************************************************)
EXTENDS ByteSeqs, FiniteSets

ByteP0(buf, rest) == [buf |-> buf, rest |-> rest, closed |-> FALSE]

\* (the bound variable makes TLC build the record once instead of once per field)
BNames(r) == UNION {{n \in DOMAIN x : ~x[n]} : x \in {r}}

ByteApply(p, e) ==
  LET avail == p.buf \o p.rest
      ok == e.k = "ok"
      consumed == IF ok /\ e.op \in {"rx", "rex"} THEN e.v
                  ELSE IF ok /\ e.op = "ru" THEN e.v \o e.d
                  ELSE <<>>
      grown == p.buf \o Take(p.rest, e.pulled) \o (IF e.op = "feed" /\ ok THEN e.d ELSE <<>>)
      conserved == e.pulled <= Len(p.rest) /\ consumed \o e.buf = grown
      common == IF e.op = "feed" THEN [FeedAppends |-> ok /\ conserved]
                ELSE [PrefixExact |-> ~ok \/ conserved,
                      FailureConsumesNothing |-> ok \/ conserved]
      special ==
        IF p.closed \/ e.op \in {"feed", "close"} THEN {}
        ELSE IF e.op = "rx" THEN
          BNames([ReceiveSize |-> ok => (Len(e.v) >= 1 /\ Len(e.v) <= e.n),
                  EndOfStreamOnlyWhenDrained |-> e.k = "eos" => avail = <<>>,
                  ExpectedOutcome |-> e.k \in {"ok", "eos"}])
        ELSE IF e.op = "rex" THEN
          BNames([ExactlyN |-> ok => Len(e.v) = e.n,
                  IncompleteReadOnlyAtEnd |-> e.k = "incomplete" => Len(avail) < e.n,
                  ExpectedOutcome |-> e.k \in {"ok", "incomplete"}])
        ELSE IF e.op = "ru" THEN
          BNames([UntilExcludesDelimiter |-> ok => FirstOcc(e.d, e.v \o e.d) = Len(e.v) + 1,
                  DelimiterNotFoundOnlyIfAbsent |-> e.k = "notfound" => ~Occurs(e.d, Take(avail, e.n)),
                  IncompleteReadOnlyIfAbsent |-> e.k = "incomplete" => ~Occurs(e.d, avail),
                  ExpectedOutcome |-> e.k \in {"ok", "notfound", "incomplete"}])
        ELSE {"UnknownEvent"}
      closing == e.op = "close" /\ ok
  IN [p |-> [buf |-> e.buf,
             rest |-> IF closing THEN <<>> ELSE Drop(p.rest, e.pulled),
             closed |-> p.closed \/ closing],
      bad |-> BNames(common) \cup special]
=============================================================================
