------------------------------ MODULE MC_C10S ------------------------------
(***************************************************************************)
(* Composition root for property C10, Semaphore part.  Same structure as   *)
(* MC_C09: NT most-general clients share one Semaphore(InitV,              *)
(* max_value=MaxV or None when MaxV = 0, fast_acquire=Fast); the           *)
(* environment cancels scopes / tasks between handles.  A client releases  *)
(* what it still holds when it leaves ("finally").                         *)
(***************************************************************************)
EXTENDS AioSync, P_Sem, Json

CONSTANTS Ops, MaxOps, MaxEnv, Fast, EnvKinds, InitV, MaxV,
          Retry      \* TRUE: a client whose scope absorbed its cancellation opens a fresh one and carries on

VARIABLES L, E, hist, pst, pbad

vars == <<K, L, E, hist, pst, pbad>>
View == <<K, L, E, pst, pbad>>

MaxVal == IF MaxV = 0 THEN NOMAX ELSE MaxV
Client0 == <<Frame("client", "init", 0, 0)>>      \* a = operations done, b = permits held

Init ==
  /\ K = KInit([t \in Task |-> Client0], [t \in Task |-> NOSCOPE])
  /\ L = SemInit(InitV, MaxVal, Fast)
  /\ E = [n |-> 0, pre |-> [t \in Task |-> FALSE], scoped |-> {}, natived |-> {}, qat |-> 0]
  /\ hist = <<>>
  /\ pst = SemP0(InitV, MaxVal)
  /\ pbad = {}

Boot == [K EXCEPT !.ready = [i \in 1..NT |-> HStep(i)]]

Ev(ev, t, res, sm) == [ev |-> ev, t |-> t, res |-> res, value |-> sm.value, waiting |-> Len(sm.waiters)]
Feed(e) == /\ pst' = SemApply(pst, e).p
           /\ pbad' = pbad \cup SemApply(pst, e).bad
H(t, c) == [w |-> "t", t |-> t, c |-> c, at |-> K.nh, cyc |-> K.cycle]
HE(t, c) == [w |-> "e", t |-> t, c |-> c, at |-> K.nh, cyc |-> K.cycle]
ResOf(r) == IF ~IsExc(r) THEN "ok" ELSE IF IsCancel(r) THEN "cancelled" ELSE "error"

ClientInit(t) ==
  /\ At(K, t, "client", "init")
  /\ K' = SetPc(ScopeEnter(K, t, FALSE, INF, E.pre[t], "task"), t, "choose")
  /\ UNCHANGED <<L, E, hist, pst, pbad>>

ClientChoose(t) ==
  /\ At(K, t, "client", "choose")
  /\ LET n == Top(K, t).a
         held == Top(K, t).b
         upd(q, dh) == SetTop(q, t, [Top(q, t) EXCEPT !.a = n + 1, !.b = held + dh])
     IN
     \/ /\ n < MaxOps /\ "acq" \in Ops
        /\ K' = Call(upd(K, 0), t, "ret", Frame("sem_acq", "start", 0, 0))
        /\ Feed([ev |-> "start", t |-> t])
        /\ hist' = Append(hist, H(t, "acq"))
        /\ UNCHANGED <<L, E>>
     \/ /\ n < MaxOps /\ "nowait" \in Ops
        /\ LET r == SemNowait(L) IN
           /\ L' = r.sm
           /\ Feed(Ev("nowait", t, r.res, r.sm))
           /\ K' = upd(K, IF r.res = "ok" THEN 1 ELSE 0)
        /\ hist' = Append(hist, H(t, "nowait"))
        /\ UNCHANGED E
     \/ /\ n < MaxOps /\ "rel" \in Ops
        /\ LET r == SemRelease(K, L) IN
           /\ L' = r.sm
           /\ K' = upd(r.q, IF ~r.err /\ held > 0 THEN 0 - 1 ELSE 0)
           /\ Feed(Ev("rel", t, IF r.err THEN "error" ELSE "ok", r.sm))
        /\ hist' = Append(hist, H(t, "rel"))
        /\ UNCHANGED E
     \/ /\ n < MaxOps /\ "yield" \in Ops
        /\ K' = Call(upd(K, 0), t, "ret", Frame("yield", "start", 0, 0))
        /\ hist' = Append(hist, H(t, "yield"))
        /\ UNCHANGED <<L, E, pst, pbad>>
     \/ /\ K' = SetPc([K EXCEPT !.T[t].reg = Val], t, "fin")
        /\ hist' = Append(hist, H(t, "end"))
        /\ UNCHANGED <<L, E, pst, pbad>>

ClientRet(t) ==
  /\ At(K, t, "client", "ret")
  /\ LET r == Reg(K, t)
         wasAcq == t \in PSeqSet(pst.inprog)
         fr == Top(K, t)
         k1 == IF wasAcq /\ ~IsExc(r) THEN SetTop(K, t, [fr EXCEPT !.b = @ + 1]) ELSE K
     IN /\ IF wasAcq THEN Feed(Ev("end", t, ResOf(r), L)) ELSE UNCHANGED <<pst, pbad>>
        /\ K' = SetPc(k1, t, IF IsCancel(r) THEN "fin" ELSE "choose")
  /\ UNCHANGED <<L, E, hist>>

\* "finally: release every permit still held" (one per step), then leave the scope
ClientFin(t) ==
  /\ At(K, t, "client", "fin")
  /\ IF Top(K, t).b > 0
     THEN LET r == SemRelease(K, L) IN
          /\ L' = r.sm
          /\ K' = SetTop(r.q, t, [Top(r.q, t) EXCEPT !.b = @ - 1])
          /\ Feed(Ev("rel", t, IF r.err THEN "error" ELSE "ok", r.sm))
          /\ UNCHANGED E
     ELSE LET x == ScopeExit(K, t, Reg(K, t))
              again == Retry /\ x.caught IN
          /\ K' = IF again THEN SetPc(ScopeEnter(x.q, t, FALSE, INF, FALSE, "task"), t, "choose")
                  ELSE IF IsExc(x.reg) THEN Raise(x.q, t, x.reg) ELSE Ret(x.q, t)
          /\ E' = IF again THEN [E EXCEPT !.scoped = @ \ {t}] ELSE E
          /\ IF again THEN Feed([ev |-> "cdone", t |-> t]) ELSE UNCHANGED <<pst, pbad>>
          /\ UNCHANGED L
  /\ UNCHANGED hist

LibStep(t) ==
  \/ /\ HelperEnabled(K, t)
     /\ K' = HelperStep(K, t)
     /\ UNCHANGED <<L, E, hist, pst, pbad>>
  \/ /\ SemAcqEnabled(K, t)
     /\ LET r == SemAcqStep(K, L, t) IN K' = r.q /\ L' = r.sm
     /\ UNCHANGED <<E, hist, pst, pbad>>
  \/ /\ FinishEnabled(K, t)
     /\ K' = FinishTask(K, t)
     /\ UNCHANGED <<L, E, hist, pst, pbad>>

Cycle == /\ CycleStartEnabled(K) /\ K' = CycleStart(K) /\ UNCHANGED <<L, E, hist, pst, pbad>>
RunHandle == /\ PopEnabled(K)
             /\ K' = RunKernelHandle(Popped(K), NextHandle(K))
             /\ UNCHANGED <<L, E, hist, pst, pbad>>

EnvPoint == K.run = NONE /\ (K.left > 0 \/ (Quiescent(K) /\ E.qat = K.nh + 1))

EnvCancel(t) ==
  /\ EnvPoint /\ "cancel" \in EnvKinds /\ E.n < MaxEnv /\ t \notin E.scoped /\ K.T[t].st # "done"
  /\ IF Depth(K, t) = 0
     THEN /\ K.T[t].st = "unborn"
          /\ E' = [E EXCEPT !.n = @ + 1, !.scoped = @ \cup {t}, !.pre[t] = TRUE]
          /\ K' = K
     ELSE /\ K' = ScopeCancel(K, <<t, 1>>)
          /\ E' = [E EXCEPT !.n = @ + 1, !.scoped = @ \cup {t}]
  /\ Feed([ev |-> "creq", t |-> t])
  /\ hist' = Append(hist, HE(t, "cancel"))
  /\ UNCHANGED L

EnvNative(t) ==
  /\ EnvPoint /\ "native" \in EnvKinds /\ E.n < MaxEnv /\ t \notin E.natived /\ K.T[t].st # "done"
  /\ K' = TaskCancel(K, t, FALSE)
  /\ E' = [E EXCEPT !.n = @ + 1, !.natived = @ \cup {t}]
  /\ Feed([ev |-> "creq", t |-> t])
  /\ hist' = Append(hist, HE(t, "native"))
  /\ UNCHANGED L

Quiesce ==
  /\ Quiescent(K) /\ E.qat # K.nh + 1
  /\ E' = [E EXCEPT !.qat = K.nh + 1]
  /\ Feed([ev |-> "quiescent", value |-> L.value, waiting |-> Len(L.waiters)])
  /\ UNCHANGED <<K, L, hist>>

Start == K.cycle = 0 /\ K.ready = <<>> /\ K.nh = 0 /\ \A t \in Task : K.T[t].st = "unborn"

Next ==
  \/ /\ Start /\ E.qat = 0 /\ K' = Boot /\ UNCHANGED <<L, E, hist, pst, pbad>>
  \/ (~Start /\ Cycle)
  \/ RunHandle
  \/ \E t \in Task : ClientInit(t) \/ ClientChoose(t) \/ ClientRet(t) \/ ClientFin(t) \/ LibStep(t)
  \/ \E t \in Task : EnvCancel(t) \/ EnvNative(t)
  \/ (~Start /\ Quiesce)

Spec == Init /\ [][Next]_vars

\* Known finding F7 (see DESIGN.md section 7 and known_findings.json): the model reproduces the
\* pinned code, which has this defect; every other clause must hold.
KnownFindingClauses == {"AcquireFailsAfterOverRelease"}
PropertyHolds == pbad \subseteq KnownFindingClauses
TypeOK == L.value \in Nat /\ \A i \in DOMAIN L.waiters : L.waiters[i] \in Task
\* "value > 0 implies no live waiter" (between handles)
NoLiveWaiterWhenPermitFree ==
  (K.run = NONE /\ L.value > 0) => \A i \in DOMAIN L.waiters : K.T[L.waiters[i]].fut # "pending"
NoDuplicateWaiters == \A i, j \in DOMAIN L.waiters : L.waiters[i] = L.waiters[j] => i = j
NoDeadWaiters == K.run = NONE => \A i \in DOMAIN L.waiters : K.T[L.waiters[i]].st # "done"
Residue == \A t \in Task : (K.T[t].st = "done" /\ t \notin E.natived) => K.T[t].nc = 0

Final == [value |-> L.value, waiting |-> Len(L.waiters), nh |-> K.nh,
          out |-> [t \in Task |-> IF K.T[t].st # "done" THEN "blocked" ELSE ResOf(K.T[t].out)],
          nc |-> [t \in Task |-> K.T[t].nc]]
EmitFinalAC == (E'.qat # E.qat) => PrintT(<<"@@F", ToJson([h |-> hist', fin |-> Final])>>)
EmitAC == /\ (hist' # hist) => PrintT(<<"@@H", ToJson(hist')>>)
          /\ EmitFinalAC
=============================================================================
