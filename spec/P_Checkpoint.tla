---------------------------- MODULE P_Checkpoint ----------------------------
(***************************************************************************)
(* Property-level observer of C08 (checkpoint discipline).                 *)
(*                                                                         *)
(* One trace = one CELL of the matrix {operation} x {state in which it can *)
(* complete without waiting} x {scope configuration}, given as Par.cell    *)
(* (the record CheckpointSpec enumerates), followed by one event per loop  *)
(* configuration on which the cell was EXECUTED on the real library:       *)
(*                                                                         *)
(*   [cfg     |-> "vstock" | "veager" | "asyncio" | "uvloop",              *)
(*    outcome |-> "return" | "cancelled" | "error",                        *)
(*    yielded |-> 0 | 1,   a callback queued with loop.call_soon           *)
(*                         immediately before the call had run when the    *)
(*                         call returned / raised                          *)
(*    before, after |-> the public projection of the object (and of the    *)
(*                         peers) immediately before the call and after it *)
(*                         (records of small integers and strings)]        *)
(*                                                                         *)
(* The observer does NOT trust the expectation the model computed: whether *)
(* the caller is effectively cancelled is recomputed here from the scope   *)
(* stack of the cell, with the visibility rule of the statement: walking   *)
(* from the innermost scope outwards, a cancelled scope makes the caller   *)
(* cancelled; a shielded one that is not itself cancelled hides everything *)
(* outside it.                                                             *)
(*                                                                         *)
(* Cell fields used here:                                                  *)
(*   op, fast (0/1: Lock/Semaphore created with fast_acquire=True),        *)
(*   host   "root" | "task" | "child" | "gchild" | "hchild"  what runs the *)
(*          call: the root task, a plain asyncio task, a task-group child, *)
(*          a child of a CANCELLED group, a child whose handle was         *)
(*          cancelled - the last three sit inside the group scope and the  *)
(*          handle scope, which are part of the visible stack,             *)
(*   stack  sequence (outermost first) of [c |-> 0/1, s |-> 0/1]: scopes   *)
(*          entered by the caller itself: cancelled?, shielded?            *)
(*   enforce "both"  : operation of the statement's table: both clauses,   *)
(*           "yield" : only "passes a checkpoint = yields" is stated       *)
(*                     (itertools traversals, the empty task group),       *)
(*           "none"  : recorded for model conformance only (calls whose    *)
(*                     regular completion is an exception, prefixes of     *)
(*                     infinite iterators): the statement is silent.       *)
(*                                                                         *)
(* Clauses (rule P-permissive: nothing else is forbidden):                 *)
(*   Checkpointed            a call that returns normally has yielded,     *)
(*                           unless it is the documented exemption;        *)
(*   PreCancelledRaises      entered effectively cancelled: the outcome is *)
(*                           the cancellation exception;                   *)
(*   PreCancelledNoEffect    ... and the public projection is unchanged    *)
(*                           (nothing acquired, sent, consumed, started;   *)
(*                           Condition.wait still holds the lock);         *)
(*   OnlyDocumentedExemption fast_acquire exists on Lock / Semaphore (and  *)
(*                           a Condition built on such a Lock) only, and   *)
(*                           it exempts from the YIELD only: an exempt     *)
(*                           acquire entered effectively cancelled still   *)
(*                           raises and acquires nothing.                  *)
(***************************************************************************)
EXTENDS Naturals, Sequences, FiniteSets

Names(r) == {n \in DOMAIN r : ~r[n]}

Sc(c, s) == [c |-> c, s |-> s]

\* scopes the host contributes below the caller's own stack (outermost first)
HostScopes(h) ==
  CASE h = "child"  -> <<Sc(0, 0), Sc(0, 0)>>      \* group scope, handle scope
    [] h = "gchild" -> <<Sc(1, 0), Sc(0, 0)>>      \* group scope cancelled
    [] h = "hchild" -> <<Sc(0, 0), Sc(1, 0)>>      \* handle cancelled
    [] OTHER        -> <<>>

FullStack(host, stack) == HostScopes(host) \o stack

\* the statement's "effectively cancelled", innermost scope first
RECURSIVE EffFrom(_, _)
EffFrom(st, i) ==
  IF i = 0 THEN FALSE
  ELSE IF st[i].c = 1 THEN TRUE
  ELSE IF st[i].s = 1 THEN FALSE
  ELSE EffFrom(st, i - 1)

Eff(st) == EffFrom(st, Len(st))

CellCancelled(c) == Eff(FullStack(c.host, c.stack))

FastOps == {"lock_acquire", "sem_acquire", "cond_acquire"}
Exempt(c) == c.fast = 1 /\ c.op \in FastOps

CkP0(par) == [cell |-> par.cell, n |-> 0]

CkClauses(c, e) ==
  LET canc == CellCancelled(c)
      ex   == Exempt(c)
  IN [Checkpointed |->
        (e.outcome = "return" /\ c.enforce # "none" /\ ~ex) => e.yielded = 1,
      PreCancelledRaises |->
        (canc /\ c.enforce = "both" /\ ~ex) => e.outcome = "cancelled",
      PreCancelledNoEffect |->
        (canc /\ c.enforce = "both" /\ ~ex) => e.before = e.after,
      OnlyDocumentedExemption |->
        /\ c.fast = 1 => c.op \in FastOps
        /\ (ex /\ canc /\ c.enforce = "both") => (e.outcome = "cancelled" /\ e.before = e.after)]

CkApply(p, e) == [p |-> [p EXCEPT !.n = @ + 1], bad |-> Names(CkClauses(p.cell, e))]
=============================================================================
