------------------------------ MODULE MC_C10L ------------------------------
(***************************************************************************)
(* Composition root for property C10, CapacityLimiter part.  NT            *)
(* most-general clients share one CapacityLimiter(Total0).  A task borrows *)
(* as itself ("acq", "nowait", "rel") or on behalf of its own foreign       *)
(* borrower object 10+t ("acqf", "relf"); it may assign total_tokens        *)
(* ("set<v>", v from Totals; INF = math.inf).  The environment cancels      *)
(* scopes / tasks between handles.                                          *)
(***************************************************************************)
EXTENDS AioSync, P_Limiter, Json

CONSTANTS Ops, MaxOps, MaxEnv, EnvKinds, Total0, Totals,
          Retry      \* TRUE: a client whose scope absorbed its cancellation opens a fresh one and carries on

VARIABLES L, E, hist, pst, pbad

vars == <<K, L, E, hist, pst, pbad>>
View == <<K, L, E, pst, pbad>>

Client0 == <<Frame("client", "init", 0, 0)>>      \* a = operations done, b = 1 (self token held) + 2 (foreign held)
Foreign(t) == 10 + t

Init ==
  /\ K = KInit([t \in Task |-> Client0], [t \in Task |-> NOSCOPE])
  /\ L = LimInit(Total0)
  /\ E = [n |-> 0, pre |-> [t \in Task |-> FALSE], scoped |-> {}, natived |-> {}, qat |-> 0]
  /\ hist = <<>>
  /\ pst = LimP0(Total0)
  /\ pbad = {}

Boot == [K EXCEPT !.ready = [i \in 1..NT |-> HStep(i)]]

ObsOf(lm) == [borrowed |-> Cardinality(lm.borrowers), total |-> lm.total, waiting |-> Len(lm.queue)]
Ev(ev, t, b, res, lm) ==
  [ev |-> ev, t |-> t, b |-> b, res |-> res, borrowed |-> Cardinality(lm.borrowers),
   total |-> lm.total, waiting |-> Len(lm.queue)]
Feed(e) == /\ pst' = LimApply(pst, e).p
           /\ pbad' = pbad \cup LimApply(pst, e).bad
H(t, c) == [w |-> "t", t |-> t, c |-> c, at |-> K.nh, cyc |-> K.cycle]
HE(t, c) == [w |-> "e", t |-> t, c |-> c, at |-> K.nh, cyc |-> K.cycle]
ResOf(r) == IF ~IsExc(r) THEN "ok" ELSE IF IsCancel(r) THEN "cancelled" ELSE "error"
HasSelf(h) == h \in {1, 3}
HasForeign(h) == h \in {2, 3}
SetName(v) == IF v = INF THEN "setinf" ELSE CASE v = 0 -> "set0" [] v = 1 -> "set1" [] v = 2 -> "set2" [] v = 3 -> "set3"

ClientInit(t) ==
  /\ At(K, t, "client", "init")
  /\ K' = SetPc(ScopeEnter(K, t, FALSE, INF, E.pre[t], "task"), t, "choose")
  /\ UNCHANGED <<L, E, hist, pst, pbad>>

ClientChoose(t) ==
  /\ At(K, t, "client", "choose")
  /\ LET n == Top(K, t).a
         held == Top(K, t).b
         upd(q, h) == SetTop(q, t, [Top(q, t) EXCEPT !.a = n + 1, !.b = h])
         acq(b, nm) ==
            /\ K' = Call(upd(K, held), t, "ret", Frame("lim_acq", "start", b, 0))
            /\ Feed([ev |-> "start", t |-> t, b |-> b])
            /\ hist' = Append(hist, H(t, nm))
            /\ UNCHANGED <<L, E>>
         rel(b, nm, bit) ==
            LET r == LimRelease(K, L, b) IN
            /\ L' = r.lm
            /\ K' = upd(r.q, IF ~r.err /\ (IF bit = 1 THEN HasSelf(held) ELSE HasForeign(held))
                             THEN held - bit ELSE held)
            /\ Feed(Ev("rel", t, b, IF r.err THEN "error" ELSE "ok", r.lm))
            /\ hist' = Append(hist, H(t, nm))
            /\ UNCHANGED E
     IN
     \/ (n < MaxOps /\ "acq" \in Ops /\ acq(t, "acq"))
     \/ (n < MaxOps /\ "acqf" \in Ops /\ acq(Foreign(t), "acqf"))
     \/ /\ n < MaxOps /\ "nowait" \in Ops
        /\ LET r == LimNowait(L, t) IN
           /\ L' = r.lm
           /\ Feed(Ev("nowait", t, t, r.res, r.lm))
           /\ K' = upd(K, IF r.res = "ok" THEN held + 1 ELSE held)
        /\ hist' = Append(hist, H(t, "nowait"))
        /\ UNCHANGED E
     \/ (n < MaxOps /\ "rel" \in Ops /\ rel(t, "rel", 1))
     \/ (n < MaxOps /\ "relf" \in Ops /\ rel(Foreign(t), "relf", 2))
     \/ /\ n < MaxOps /\ "set" \in Ops
        /\ \E v \in Totals :
             LET r == LimSetTotal(K, L, v) IN
             /\ L' = r.lm
             /\ K' = upd(r.q, held)
             /\ Feed([ev |-> "settotal", v |-> v, borrowed |-> Cardinality(r.lm.borrowers),
                      total |-> r.lm.total, waiting |-> Len(r.lm.queue)])
             /\ hist' = Append(hist, H(t, SetName(v)))
        /\ UNCHANGED E
     \/ /\ n < MaxOps /\ "yield" \in Ops
        /\ K' = Call(upd(K, held), t, "ret", Frame("yield", "start", 0, 0))
        /\ hist' = Append(hist, H(t, "yield"))
        /\ UNCHANGED <<L, E, pst, pbad>>
     \/ /\ K' = SetPc([K EXCEPT !.T[t].reg = Val], t, "fin")
        /\ hist' = Append(hist, H(t, "end"))
        /\ UNCHANGED <<L, E, pst, pbad>>

InProgOf(t) == {pst.inprog[i] : i \in {j \in DOMAIN pst.inprog : pst.inprog[j].t = t}}

ClientRet(t) ==
  /\ At(K, t, "client", "ret")
  /\ LET r == Reg(K, t)
         wasAcq == InProgOf(t) # {}
         b == (CHOOSE x \in InProgOf(t) : TRUE).b
         fr == Top(K, t)
         k1 == IF wasAcq /\ ~IsExc(r)
               THEN SetTop(K, t, [fr EXCEPT !.b = @ + (IF b = t THEN 1 ELSE 2)]) ELSE K
     IN /\ IF wasAcq THEN Feed(Ev("end", t, b, ResOf(r), L)) ELSE UNCHANGED <<pst, pbad>>
        /\ K' = SetPc(k1, t, IF IsCancel(r) THEN "fin" ELSE "choose")
  /\ UNCHANGED <<L, E, hist>>

\* "finally: release what is still held" (one per step), then leave the scope
ClientFin(t) ==
  /\ At(K, t, "client", "fin")
  /\ LET held == Top(K, t).b IN
     IF held > 0
     THEN LET b == IF HasSelf(held) THEN t ELSE Foreign(t)
              bit == IF HasSelf(held) THEN 1 ELSE 2
              r == LimRelease(K, L, b) IN
          /\ L' = r.lm
          /\ K' = SetTop(r.q, t, [Top(r.q, t) EXCEPT !.b = @ - bit])
          /\ Feed(Ev("rel", t, b, IF r.err THEN "error" ELSE "ok", r.lm))
          /\ UNCHANGED E
     ELSE LET x == ScopeExit(K, t, Reg(K, t))
              again == Retry /\ x.caught IN
          /\ K' = IF again THEN SetPc(ScopeEnter(x.q, t, FALSE, INF, FALSE, "task"), t, "choose")
                  ELSE IF IsExc(x.reg) THEN Raise(x.q, t, x.reg) ELSE Ret(x.q, t)
          /\ E' = IF again THEN [E EXCEPT !.scoped = @ \ {t}] ELSE E
          /\ IF again THEN Feed([ev |-> "cdone", t |-> t]) ELSE UNCHANGED <<pst, pbad>>
          /\ UNCHANGED L
  /\ UNCHANGED hist

LibStep(t) ==
  \/ /\ HelperEnabled(K, t)
     /\ K' = HelperStep(K, t)
     /\ UNCHANGED <<L, E, hist, pst, pbad>>
  \/ /\ LimAcqEnabled(K, t)
     /\ LET r == LimAcqStep(K, L, t) IN K' = r.q /\ L' = r.lm
     /\ UNCHANGED <<E, hist, pst, pbad>>
  \/ /\ FinishEnabled(K, t)
     /\ K' = FinishTask(K, t)
     /\ UNCHANGED <<L, E, hist, pst, pbad>>

Cycle == /\ CycleStartEnabled(K) /\ K' = CycleStart(K) /\ UNCHANGED <<L, E, hist, pst, pbad>>
RunHandle == /\ PopEnabled(K)
             /\ K' = RunKernelHandle(Popped(K), NextHandle(K))
             /\ UNCHANGED <<L, E, hist, pst, pbad>>

EnvPoint == K.run = NONE /\ (K.left > 0 \/ (Quiescent(K) /\ E.qat = K.nh + 1))

EnvCancel(t) ==
  /\ EnvPoint /\ "cancel" \in EnvKinds /\ E.n < MaxEnv /\ t \notin E.scoped /\ K.T[t].st # "done"
  /\ IF Depth(K, t) = 0
     THEN /\ K.T[t].st = "unborn"
          /\ E' = [E EXCEPT !.n = @ + 1, !.scoped = @ \cup {t}, !.pre[t] = TRUE]
          /\ K' = K
     ELSE /\ K' = ScopeCancel(K, <<t, 1>>)
          /\ E' = [E EXCEPT !.n = @ + 1, !.scoped = @ \cup {t}]
  /\ Feed([ev |-> "creq", t |-> t])
  /\ hist' = Append(hist, HE(t, "cancel"))
  /\ UNCHANGED L

EnvNative(t) ==
  /\ EnvPoint /\ "native" \in EnvKinds /\ E.n < MaxEnv /\ t \notin E.natived /\ K.T[t].st # "done"
  /\ K' = TaskCancel(K, t, FALSE)
  /\ E' = [E EXCEPT !.n = @ + 1, !.natived = @ \cup {t}]
  /\ Feed([ev |-> "creq", t |-> t])
  /\ hist' = Append(hist, HE(t, "native"))
  /\ UNCHANGED L

Quiesce ==
  /\ Quiescent(K) /\ E.qat # K.nh + 1
  /\ E' = [E EXCEPT !.qat = K.nh + 1]
  /\ Feed([ev |-> "quiescent", borrowed |-> Cardinality(L.borrowers), total |-> L.total,
           waiting |-> Len(L.queue)])
  /\ UNCHANGED <<K, L, hist>>

Start == K.cycle = 0 /\ K.ready = <<>> /\ K.nh = 0 /\ \A t \in Task : K.T[t].st = "unborn"

Next ==
  \/ /\ Start /\ E.qat = 0 /\ K' = Boot /\ UNCHANGED <<L, E, hist, pst, pbad>>
  \/ (~Start /\ Cycle)
  \/ RunHandle
  \/ \E t \in Task : ClientInit(t) \/ ClientChoose(t) \/ ClientRet(t) \/ ClientFin(t) \/ LibStep(t)
  \/ \E t \in Task : EnvCancel(t) \/ EnvNative(t)
  \/ (~Start /\ Quiesce)

Spec == Init /\ [][Next]_vars

PropertyHolds == pbad = {}
TypeOK == /\ L.total \in Nat
          /\ \A i \in DOMAIN L.queue : L.queue[i].t \in Task
\* a free token is never left while a waiter is queued (between handles)
NoWaiterWhenTokenFree == (K.run = NONE /\ L.queue # <<>>) => Cardinality(L.borrowers) >= L.total
\* a queued entry always belongs to a task that is still waiting for it
QueueEntriesLive == K.run = NONE => \A i \in DOMAIN L.queue : K.T[L.queue[i].t].st # "done"
NoDuplicateBorrowersQueued == \A i, j \in DOMAIN L.queue : L.queue[i].b = L.queue[j].b => i = j
Residue == \A t \in Task : (K.T[t].st = "done" /\ t \notin E.natived) => K.T[t].nc = 0

Final == [borrowed |-> Cardinality(L.borrowers), total |-> L.total, waiting |-> Len(L.queue), nh |-> K.nh,
          out |-> [t \in Task |-> IF K.T[t].st # "done" THEN "blocked" ELSE ResOf(K.T[t].out)],
          nc |-> [t \in Task |-> K.T[t].nc]]
EmitFinalAC == (E'.qat # E.qat) => PrintT(<<"@@F", ToJson([h |-> hist', fin |-> Final])>>)
EmitAC == /\ (hist' # hist) => PrintT(<<"@@H", ToJson(hist')>>)
          /\ EmitFinalAC
=============================================================================
