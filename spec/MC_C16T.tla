------------------------------- MODULE MC_C16T -------------------------------
(***************************************************************************)
(* Exhaustive enumeration of the text experiments of TextStream (C16).     *)
(*                                                                         *)
(* One state per case: an encoding shape [w |-> set of character widths,   *)
(* bw |-> width of the BOM], a text of up to MaxChars characters with all  *)
(* assignments of widths, and                                              *)
(*   mode "recv": every way of cutting the encoded bytes at up to MaxCuts  *)
(*                points (also inside a character and inside the BOM),     *)
(*   mode "rt"  : every way of sending the text as up to MaxSends strings  *)
(*                (empty strings included).                                *)
(* Checked: the strings the machine returns satisfy the observer           *)
(* P_TextWrap (PropertyHolds).  Emitted: one @@T line per case with the    *)
(* strings the machine returns, call by call; the harness runs the case    *)
(* on the real TextReceiveStream / TextSendStream with real code points.   *)
(***************************************************************************)
EXTENDS TextStream, P_TextWrap, FiniteSetsExt, Json, TLC

CONSTANTS EncSet, MaxChars, MaxCuts, MaxSends, Emit,
          NSlices, Slice     \* of the texts of full length MaxChars only slice Slice of NSlices is taken

VARIABLES case, outs, bad

Shape(name, w, bw) == [name |-> name, w |-> w, bw |-> bw]
\* utf-8, utf-8-sig, utf-16, utf-16-le/be, utf-32, utf-32-le/be, latin-1 (any single-byte code page)
U8 == Shape("u8", {1, 2, 3, 4}, 0)
U8Sig == Shape("u8sig", {1, 2, 3, 4}, 3)
U16 == Shape("u16", {2, 4}, 2)
U16X == Shape("u16x", {2, 4}, 0)
U32 == Shape("u32", {4}, 4)
U32X == Shape("u32x", {4}, 0)
L1 == Shape("l1", {1}, 0)
Shapes == CASE EncSet = 0 -> {U8, U8Sig, U16, U16X, U32, U32X, L1}
            [] EncSet = 1 -> {U8}
            [] EncSet = 2 -> {U8Sig}
            [] EncSet = 3 -> {U16, U16X}
            [] EncSet = 4 -> {U32, U32X, L1}
            [] EncSet = 5 -> {U16, U16X, U32, U32X, L1}

RECURSIVE SumSeq(_)
SumSeq(s) == IF s = <<>> THEN 0 ELSE Head(s) + SumSeq(Tail(s))

WsVal(ws) == SumSeq([i \in 1..Len(ws) |-> i * ws[i]])

SetMin(S) == CHOOSE x \in S : \A y \in S : x <= y

\* lengths of the pieces of 1..total cut after every position in cuts
RECURSIVE LensOf(_, _, _)
LensOf(cuts, from, total) ==
  IF from > total THEN <<>>
  ELSE LET e == SetMin({c \in cuts : c >= from} \cup {total})
       IN <<e - from + 1>> \o LensOf(cuts, e + 1, total)

CutSets(total) == IF total <= 1 THEN {{}}
                  ELSE UNION {kSubset(k, 1..(total - 1)) :
                                k \in 0..(IF MaxCuts < total - 1 THEN MaxCuts ELSE total - 1)}

SendLens(n) == UNION {{f \in [1..k -> 0..n] : SumSeq(f) = n} : k \in 1..MaxSends}

Walk(n, mode, os) ==
  LET evs == [i \in 1..(Len(os) + 1) |->
                IF i <= Len(os) THEN [k |-> "ok", out |-> os[i]] ELSE [k |-> "eos", out |-> <<>>]]
      RECURSIVE Go(_, _)
      Go(p, i) == IF i > Len(evs) THEN {}
                  ELSE LET r == TextApply(p, evs[i]) IN r.bad \cup Go(r.p, i + 1)
  IN Go(TextP0(n, mode), 1)

Init ==
  \E sh \in Shapes, n \in 0..MaxChars :
    \E ws \in {x \in [1..n -> sh.w] : n < MaxChars \/ WsVal(x) % NSlices = Slice} :
      \E mode \in {"recv", "rt"} :
        \E lens \in (IF mode = "recv"
                     THEN {LensOf(cuts, 1, sh.bw + SumSeq(ws)) : cuts \in CutSets(sh.bw + SumSeq(ws))}
                     ELSE SendLens(n)) :
          \E os \in {IF mode = "recv" THEN OutputsOfReceive(ws, sh.bw, lens)
                     ELSE OutputsOfRoundTrip(ws, sh.bw, lens)} :
            /\ case = [enc |-> sh.name, mode |-> mode, ws |-> ws, bw |-> sh.bw, lens |-> lens]
            /\ outs = os
            /\ bad = Walk(n, mode, os)
            /\ Emit => PrintT(<<"@@T", ToJson([enc |-> sh.name, mode |-> mode, ws |-> ws, bw |-> sh.bw,
                                                lens |-> lens, outs |-> os])>>)

Next == UNCHANGED <<case, outs, bad>>

Spec == Init /\ [][Next]_<<case, outs, bad>>

PropertyHolds == bad = {}
\* every receive() of the machine returns a non-empty string
NonEmptyOutputs == \A i \in 1..Len(outs) : outs[i] # <<>>
=============================================================================
