------------------------------ MODULE P_Scope ------------------------------
(***************************************************************************)
(* Property-level reference semantics of cancel scopes: an independent     *)
(* re-computation of "effectively cancelled", "visible", deadlines and the *)
(* native cancellation-request count from the observable history, against  *)
(* which the outcomes observed on the real library are judged.             *)
(* Decides C03 (level-triggered cancellation), C04 (containment, shields,  *)
(* absorb rule), C05 (no residue), C06 (deadlines).                        *)
(*                                                                         *)
(* A scope is identified by [t, n]: the n-th scope entered by task t.      *)
(* sc[t] is t's stack of active scopes (outermost first); root[t] is the   *)
(* scope (of another task) the stack hangs below (task-group children), or *)
(* NOROOT.  Every event carries now (loop clock) and cyc (loop cycle).     *)
(*                                                                         *)
(*  [ev="enter", t, n, shield, dl, called, kind, nc]                       *)
(*        kind: task|plain|fail|move|group|handle (group / handle scopes   *)
(*        are cancelled by the library itself, not by the client)          *)
(*  [ev="exit",  t, n, ein, eout, caught, called, nc, timeout]             *)
(*        ein/eout: "none"|"cancel"|"native"|"err"                         *)
(*        timeout: the `with fail_after` statement raised TimeoutError     *)
(*  [ev="cancel", t, n]   cancel() called on scope [t, n]                  *)
(*  [ev="setshield", t, n, v]  [ev="setdl", t, n, dl]                      *)
(*  [ev="opstart", t, op]  [ev="opend", t, op, res, cc, gc]                *)
(*        res: ok|cancelled|native|err; cc: cancel_called of t's stack;    *)
(*        gc: cancel_called of the scopes of all active task groups        *)
(*  [ev="probe", t, nc, effdl, cc]                                         *)
(*  [ev="native", t]  Task.cancel() issued on t from outside               *)
(*  [ev="root", t, rt, rn]  t's stack hangs below scope [rt, rn]           *)
(*  [ev="quiescent", blocked, timers, alldone, tail, late]                 *)
(*        blocked: sequence of tasks suspended in an operation; timers: .. *)
(*        tail: loop cycles between the end of the last task and idle;     *)
(*        late: number of scopes whose cancel_called became true after exit*)
(***************************************************************************)
EXTENDS Naturals, Integers, Sequences, FiniteSets

PINF == 99           \* the integer that stands for math.inf in traces and models
LATENCY == 4         \* loop cycles within which a blocked operation must be interrupted (C03)

NOROOT == [t |-> 0, n |-> 0]
OpIdle == [on |-> FALSE, eff |-> FALSE, alleff |-> FALSE, sawEff |-> FALSE, since |-> 0]

ScopeP0(tasks) ==
  [sc |-> [t \in tasks |-> <<>>],
   root |-> [t \in tasks |-> NOROOT],
   op |-> [t \in tasks |-> OpIdle],
   natives |-> [t \in tasks |-> 0]]     \* native Task.cancel() calls issued so far

SNames(r) == {x \in DOMAIN r : ~r[x]}

\* position of scope n on t's stack, 0 if not active
Pos(p, t, n) == IF \E i \in DOMAIN p.sc[t] : p.sc[t][i].n = n
                THEN CHOOSE i \in DOMAIN p.sc[t] : p.sc[t][i].n = n ELSE 0

RECURSIVE EffAt(_, _, _)
\* is the scope at position i of t's stack effectively cancelled?  (i = 0: continue at root[t])
EffAt(p, t, i) ==
  IF i = 0
  THEN IF p.root[t] = NOROOT THEN FALSE
       ELSE EffAt(p, p.root[t].t, Pos(p, p.root[t].t, p.root[t].n))
  ELSE IF i > Len(p.sc[t]) THEN FALSE
  ELSE IF p.sc[t][i].called THEN TRUE
  ELSE IF p.sc[t][i].shield THEN FALSE
  ELSE EffAt(p, t, i - 1)

EffCur(p, t) == EffAt(p, t, Len(p.sc[t]))

RECURSIVE EffDlAt(_, _, _, _)
EffDlAt(p, t, i, acc) ==
  IF i = 0
  THEN IF p.root[t] = NOROOT THEN acc
       ELSE EffDlAt(p, p.root[t].t, Pos(p, p.root[t].t, p.root[t].n), acc)
  ELSE IF i > Len(p.sc[t]) THEN acc
  ELSE LET a == IF p.sc[t][i].dl < acc THEN p.sc[t][i].dl ELSE acc IN
       IF p.sc[t][i].called THEN 0 - 1
       ELSE IF p.sc[t][i].shield THEN a
       ELSE EffDlAt(p, t, i - 1, a)

ByLibrary(k) == k \in {"group", "handle"}

\* deadline bookkeeping for observations that carry cc (cancel_called of t's stack)
DeadlineClauses(p, t, cc, now) ==
  [NotEarly |-> \A i \in DOMAIN p.sc[t] :
                   (i <= Len(cc) /\ cc[i] = 1 /\ ~p.sc[t][i].called /\ ~ByLibrary(p.sc[t][i].kind))
                      => now >= p.sc[t][i].dl,
   NotMissed |-> \A i \in DOMAIN p.sc[t] :
                   (i <= Len(cc) /\ cc[i] = 0) => ~(now > p.sc[t][i].dl)]
\* a scope observed as cancelled without an explicit cancel(): its deadline fired (or the library
\* cancelled a group / handle scope)
AbsorbCC(p, t, cc) ==
  [p EXCEPT !.sc[t] = [i \in DOMAIN @ |->
      IF i <= Len(cc) /\ cc[i] = 1 THEN [@[i] EXCEPT !.called = TRUE] ELSE @[i]]]

\* gc: observed cancel_called of the cancel scopes of all active task groups, a sequence of
\* [t, n, c]; the library cancels those itself (child failure, body failure, host cancelled)
RECURSIVE AbsorbGC(_, _)
AbsorbGC(p, gc) ==
  IF gc = <<>> THEN p
  ELSE LET g == Head(gc)
           i == Pos(p, g.t, g.n)
           p1 == IF i # 0 /\ g.c = 1 THEN [p EXCEPT !.sc[g.t][i].called = TRUE] ELSE p
       IN AbsorbGC(p1, Tail(gc))

ScopeApply0(p, e) ==
  CASE e.ev = "enter" ->
         LET rec == [n |-> e.n, called |-> (e.called = 1) \/ e.now >= e.dl, shield |-> e.shield = 1,
                     dl |-> e.dl, nc0 |-> e.nc, nat0 |-> p.natives[e.t], kind |-> e.kind,
                     expl |-> e.called = 1, moved |-> FALSE]
         IN [p |-> [p EXCEPT !.sc[e.t] = Append(@, rec)], bad |-> {}]
    [] e.ev = "exit" ->
         LET i == Len(p.sc[e.t])
             s == p.sc[e.t][i]
             pc == AbsorbGC(AbsorbCC(p, e.t, [j \in 1..i |-> IF j = i THEN e.called ELSE 0]),
                            IF "gc" \in DOMAIN e THEN e.gc ELSE <<>>)
             s1 == pc.sc[e.t][i]
             parentVisible == ~s1.shield /\ EffAt(pc, e.t, i - 1)
             mustAbsorb == s1.called /\ ~parentVisible
             swallowed == e.ein # "none" /\ e.eout = "none"
             enclosingEff == EffAt(pc, e.t, i - 1)
             cl == [TopOfStack |-> s.n = e.n,
                    AbsorbIff |-> (e.ein = "cancel") => (swallowed <=> mustAbsorb),
                    CaughtIff |-> (e.caught = 1) <=> (e.ein = "cancel" /\ mustAbsorb),
                    ErrorsPass |-> (e.ein = "err") => (e.eout = "err"),
                    NativeCancelPasses |-> (e.ein = "native") => (e.eout = "native"),
                    NothingInvented |-> (e.ein = "none") => (e.eout = "none"),
                    \* the native cancellation-request count is back at its value on entry (plus the
                    \* Task.cancel() calls issued from outside meanwhile) once nothing enclosing is cancelled
                    NoResidue |-> ~enclosingEff => e.nc = s.nc0 + (p.natives[e.t] - s.nat0),
                    NotEarly |-> (e.called = 1 /\ ~s.called /\ ~ByLibrary(s.kind)) => e.now >= s.dl,
                    TimeoutErrorIff |->
                        (s.kind = "fail" /\ ~s.expl /\ ~s.moved) =>
                           ((e.timeout = 1) <=> (e.ein = "cancel" /\ mustAbsorb /\ e.now >= s.dl))]
         IN [p |-> [pc EXCEPT !.sc[e.t] = SubSeq(@, 1, i - 1)], bad |-> SNames(cl)]
    [] e.ev = "cancel" ->
         LET i == Pos(p, e.t, e.n) IN
         IF i = 0 THEN [p |-> p, bad |-> {}]
         ELSE [p |-> [p EXCEPT !.sc[e.t][i].called = TRUE, !.sc[e.t][i].expl = TRUE], bad |-> {}]
    [] e.ev = "setshield" ->
         LET i == Pos(p, e.t, e.n) IN
         IF i = 0 THEN [p |-> p, bad |-> {}]
         ELSE [p |-> [p EXCEPT !.sc[e.t][i].shield = (e.v = 1)], bad |-> {}]
    [] e.ev = "setdl" ->
         LET i == Pos(p, e.t, e.n) IN
         IF i = 0 THEN [p |-> p, bad |-> {}]
         ELSE \* a deadline that is already due cancels at once.  `moved` records a reassignment made
              \* AFTER the scope was cancelled / its deadline had fired: only then the statement excuses
              \* fail_after from reporting faithfully (a deadline moved while still pending does not)
              [p |-> [p EXCEPT !.sc[e.t][i].dl = e.dl,
                               !.sc[e.t][i].moved = @ \/ p.sc[e.t][i].called \/ e.now >= p.sc[e.t][i].dl,
                               !.sc[e.t][i].called = @ \/ e.now >= e.dl],
               bad |-> {}]
    [] e.ev = "opstart" ->
         LET eff == EffCur(p, e.t) IN
         [p |-> [p EXCEPT !.op[e.t] = [on |-> TRUE, eff |-> eff, alleff |-> eff, sawEff |-> eff,
                                       since |-> e.cyc]],
          bad |-> {}]
    [] e.ev = "opend" ->
         LET o == p.op[e.t]
             pc == AbsorbGC(AbsorbCC(p, e.t, e.cc), e.gc)
             effNow == EffCur(pc, e.t)
             \* cc[i] = -1: the cancel flag of that scope could not be observed (permissive)
             unknown == \E i \in DOMAIN e.cc : e.cc[i] = 0 - 1
             cl == [CancelOnlyIfEffective |-> (e.res = "cancelled") => (o.sawEff \/ effNow \/ unknown),
                    \* started inside an effectively cancelled scope and inside one ever since: must raise
                    EveryCheckpointRaises |-> (e.res = "ok") => ~(o.alleff /\ effNow),
                    NativeOnlyIfRequested |-> (e.res = "native") => p.natives[e.t] > 0]
         IN [p |-> [pc EXCEPT !.op[e.t] = OpIdle],
             bad |-> SNames(cl) \cup SNames(DeadlineClauses(p, e.t, e.cc, e.now))]
    [] e.ev = "probe" ->
         LET pc == AbsorbCC(p, e.t, e.cc)
             cl == [EffectiveDeadline |-> e.effdl = EffDlAt(pc, e.t, Len(pc.sc[e.t]), PINF)]
         IN [p |-> pc, bad |-> SNames(cl) \cup SNames(DeadlineClauses(p, e.t, e.cc, e.now))]
    [] e.ev = "native" -> [p |-> [p EXCEPT !.natives[e.t] = @ + 1], bad |-> {}]
    [] e.ev = "root" -> [p |-> [p EXCEPT !.root[e.t] = [t |-> e.rt, n |-> e.rn]], bad |-> {}]
    [] e.ev = "quiescent" ->
         LET stuck == {t \in DOMAIN p.sc : (\E i \in DOMAIN e.blocked : e.blocked[i] = t) /\ EffCur(p, t)}
             cl == [NothingBlockedInCancelledScope |-> stuck = {},
                    NoLiveTimerAfterEnd |-> (e.alldone = 1) => e.timers = 0,
                    LoopIdleAfterEnd |-> (e.alldone = 1) => e.tail <= 4,
                    NotAfterExit |-> e.late = 0]
         IN [p |-> p, bad |-> SNames(cl)]
    [] OTHER -> [p |-> p, bad |-> {"UnknownEvent"}]

\* Wrapper: (1) bounded latency - an operation that has been inside an effectively cancelled,
\* unshielded scope continuously for more than LATENCY loop cycles must have ended;
\* (2) after every event the per-operation view of every task is refreshed.
ScopeApply(p, e) ==
  LET late == {t \in DOMAIN p.op : p.op[t].on /\ p.op[t].eff /\ e.cyc > p.op[t].since + LATENCY}
      r == ScopeApply0(p, e)
      q == r.p
      q1 == [q EXCEPT !.op = [t \in DOMAIN q.op |->
               IF ~q.op[t].on THEN q.op[t]
               ELSE LET ef == EffCur(q, t) IN
                    [q.op[t] EXCEPT !.eff = ef, !.alleff = @ /\ ef, !.sawEff = @ \/ ef,
                                    !.since = IF ef /\ ~q.op[t].eff THEN e.cyc ELSE @]]]
  IN [p |-> q1, bad |-> r.bad \cup (IF late # {} THEN {"InterruptedWithinBoundedCycles"} ELSE {})]
=============================================================================
