------------------------------- MODULE SeqFns -------------------------------
(***************************************************************************)
(* Property C19: the 20 functions of anyio.itertools and                   *)
(* anyio.functools.reduce, written as operators on FINITE SEQUENCES.       *)
(*                                                                         *)
(* Every operator returns an OUTCOME  <<out, err>> :                       *)
(*   out  the sequence of values the (async) iterator yields before it     *)
(*        finishes or raises,                                              *)
(*   err  "" when it finishes normally, otherwise the NAME of the          *)
(*        exception class ("ValueError", "TypeError").                     *)
(* Infinite iterators (count, cycle, repeat without times) are specified   *)
(* by their prefix of length k.                                            *)
(*                                                                         *)
(* The definitions are deliberately DECLARATIVE (the k-th output as a      *)
(* function of the input: index sets, mixed-radix digits, ranks in the     *)
(* lexicographic order) and do not follow the loops of the implementation, *)
(* so that agreement is evidence.  The specification itself is validated   *)
(* against the CPython standard library on the same domain (three-way      *)
(* agreement, harness/c19.py).                                             *)
(*                                                                         *)
(* Encodings (values are integers and tuples of values):                   *)
(*  - an optional integer argument is a sequence: <<>> = omitted / the     *)
(*    documented None default, <<n>> = the integer n, <<0,0>> = an         *)
(*    explicit None where None is NOT a legal value (-> TypeError);        *)
(*  - Python's None inside RESULTS (zip_longest default fill) is NoneVal;  *)
(*  - callbacks are named: Pred / Key / Bin / ApplyN below give their      *)
(*    meaning, harness/c19_fns.py holds the same tables as Python lambdas; *)
(*  - groupby yields <<key, <<group members>> >>.                          *)
(***************************************************************************)
EXTENDS Integers, Sequences, FiniteSets

NoneVal == -99

Ok(s)    == <<s, "">>
Err(cls) == <<<<>>, cls>>

IsInt(o)      == Len(o) = 1      \* optional argument holds an integer
IsOmitted(o)  == Len(o) = 0
IsBadNone(o)  == Len(o) = 2

Min(S) == CHOOSE x \in S : \A y \in S : x <= y
Max(S) == CHOOSE x \in S : \A y \in S : x >= y

(***************************************************************************)
(* Named callbacks                                                         *)
(***************************************************************************)
Pred(p, x) == CASE p = "pos"   -> x > 0
                [] p = "even"  -> x % 2 = 0
                [] p = "odd"   -> x % 2 = 1       \* Python side returns the int x % 2 (truthiness)
                [] p = "lt2"   -> x < 2
                [] p = "true"  -> TRUE
                [] p = "false" -> FALSE

Key(k, x) == CASE k = "none"  -> x                \* key=None: the element itself
               [] k = "mod2"  -> x % 2
               [] k = "half"  -> x \div 2
               [] k = "const" -> 7

Bin(f, a, b) == CASE f = "default" -> a + b       \* operator.add
                  [] f = "add"     -> a + b
                  [] f = "sub"     -> a - b
                  [] f = "nc"      -> (2 * a + b) % 100003   \* neither commutative nor associative

RECURSIVE FoldL(_, _, _, _)
FoldL(f, acc, s, i) == IF i > Len(s) THEN acc ELSE FoldL(f, Bin(f, acc, s[i]), s, i + 1)

\* functions applied by starmap to an argument tuple
ApplyN(f, args) == CASE f = "sum"  -> FoldL("add", 0, args, 1)
                     [] f = "nc"   -> FoldL("nc", 1, args, 1)
                     [] f = "add2" -> args[1] + args[2]      \* strictly binary, see Starmap

(***************************************************************************)
(* Helpers                                                                 *)
(***************************************************************************)
\* the elements of a finite set of integers in increasing order
SortedIdx(I) == [k \in 1..Cardinality(I) |->
                   CHOOSE i \in I : Cardinality({j \in I : j < i}) = k - 1]

\* the subsequence of s at the index set I
Pick(s, I) == LET idx == SortedIdx(I) IN [k \in 1..Len(idx) |-> s[idx[k]]]

RECURSIVE Flatten(_)
Flatten(ss) == IF ss = <<>> THEN <<>> ELSE Head(ss) \o Flatten(Tail(ss))

\* a finite set S of tuples, all of length len over 1..n, in lexicographic order
RECURSIVE SortLexFrom(_, _, _, _)
SortLexFrom(S, len, i, n) ==
  IF len = 0 THEN (IF S = {} THEN <<>> ELSE << <<>> >>)
  ELSE IF i > n THEN <<>>
  ELSE LET sub  == {Tail(u) : u \in {v \in S : v[1] = i}}
           rest == SortLexFrom(sub, len - 1, 1, n)
       IN [k \in 1..Len(rest) |-> <<i>> \o rest[k]] \o SortLexFrom(S, len, i + 1, n)

\* index tuples of length r over 1..n that satisfy Rel between every two positions i < j
IdxTuples(n, r, Rel(_, _)) ==
  IF r = 0 THEN << <<>> >>
  ELSE SortLexFrom({t \in [1..r -> 1..n] : \A i, j \in 1..r : i < j => Rel(t[i], t[j])}, r, 1, n)

Select(s, tuples) == [k \in 1..Len(tuples) |-> [j \in 1..Len(tuples[k]) |-> s[tuples[k][j]]]]

(***************************************************************************)
(* The functions                                                           *)
(***************************************************************************)
\* accumulate(s, f, initial=init): running left fold
Accumulate(s, f, init) ==
  IF IsInt(init)
  THEN Ok([k \in 1..Len(s) + 1 |-> FoldL(f, init[1], SubSeq(s, 1, k - 1), 1)])
  ELSE Ok([k \in 1..Len(s) |-> FoldL(f, s[1], SubSeq(s, 2, k), 1)])

\* batched(s, n, strict=strict)
Batched(s, n, strict) ==
  IF ~IsInt(n) THEN Err("TypeError")
  ELSE IF n[1] < 1 THEN Err("ValueError")
  ELSE LET m    == n[1]
           q    == Len(s) \div m
           full == [k \in 1..q |-> SubSeq(s, (k - 1) * m + 1, k * m)]
       IN IF Len(s) % m = 0 THEN Ok(full)
          ELSE IF strict THEN <<full, "ValueError">>
          ELSE Ok(Append(full, SubSeq(s, q * m + 1, Len(s))))

\* chain(*ss) and chain.from_iterable(ss)
Chain(ss) == Ok(Flatten(ss))

\* combinations(s, r): index tuples strictly increasing
Combinations(s, r) ==
  IF ~IsInt(r) THEN Err("TypeError")
  ELSE IF r[1] < 0 THEN Err("ValueError")
  ELSE IF r[1] > Len(s) THEN Ok(<<>>)
  ELSE Ok(Select(s, IdxTuples(Len(s), r[1], LAMBDA a, b : a < b)))

\* combinations_with_replacement(s, r): index tuples non-decreasing
CombinationsWR(s, r) ==
  IF ~IsInt(r) THEN Err("TypeError")
  ELSE IF r[1] < 0 THEN Err("ValueError")
  ELSE IF Len(s) = 0 /\ r[1] > 0 THEN Ok(<<>>)
  ELSE Ok(Select(s, IdxTuples(Len(s), r[1], LAMBDA a, b : a <= b)))

\* permutations(s, r): index tuples with pairwise different positions; r omitted = Len(s)
PermutationsOf(s, r) ==
  IF IsBadNone(r) THEN Err("TypeError")
  ELSE LET rr == IF IsOmitted(r) THEN Len(s) ELSE r[1] IN
       IF rr < 0 THEN Err("ValueError")
       ELSE IF rr > Len(s) THEN Ok(<<>>)
       ELSE Ok(Select(s, IdxTuples(Len(s), rr, LAMBDA a, b : a # b)))

\* compress(data, selectors): selectors are integers, 0 is false
Compress(d, sel) ==
  Ok(Pick(d, {i \in 1..Len(d) : i <= Len(sel) /\ sel[i] # 0}))

\* count(start, step): first k values.  None is not a number.
Count(start, step, k) ==
  IF IsBadNone(start) \/ IsBadNone(step) THEN Err("TypeError")
  ELSE LET a == IF IsOmitted(start) THEN 0 ELSE start[1]
           d == IF IsOmitted(step) THEN 1 ELSE step[1]
       IN Ok([i \in 1..k |-> a + (i - 1) * d])

\* cycle(s): first k values
Cycle(s, k) == IF s = <<>> THEN Ok(<<>>) ELSE Ok([i \in 1..k |-> s[((i - 1) % Len(s)) + 1]])

Failing(p, s) == {i \in 1..Len(s) : ~Pred(p, s[i])}

Dropwhile(p, s) == IF Failing(p, s) = {} THEN Ok(<<>>) ELSE Ok(SubSeq(s, Min(Failing(p, s)), Len(s)))
Takewhile(p, s) == IF Failing(p, s) = {} THEN Ok(s) ELSE Ok(SubSeq(s, 1, Min(Failing(p, s)) - 1))
Filterfalse(p, s) == Ok(Pick(s, Failing(p, s)))

\* groupby(s, key): maximal runs of equal keys
GroupBy(s, key) ==
  LET starts == SortedIdx({i \in 1..Len(s) : i = 1 \/ Key(key, s[i]) # Key(key, s[i - 1])})
      m      == Len(starts)
      stop(j) == IF j = m THEN Len(s) ELSE starts[j + 1] - 1
  IN Ok([j \in 1..m |-> <<Key(key, s[starts[j]]), SubSeq(s, starts[j], stop(j))>>])

\* islice(s, *args): args is the tuple of the 0..4 positional arguments after the iterable,
\* each <<>> (None) or <<n>>
Islice(s, args) ==
  IF Len(args) = 0 \/ Len(args) > 3 THEN Err("TypeError")
  ELSE LET start == IF Len(args) = 1 THEN <<>> ELSE args[1]
           stop  == IF Len(args) = 1 THEN args[1] ELSE args[2]
           step  == IF Len(args) = 3 THEN args[3] ELSE <<>>
       IN IF \/ (IsInt(start) /\ start[1] < 0)
             \/ (IsInt(stop) /\ stop[1] < 0)
             \/ (IsInt(step) /\ step[1] < 1)
          THEN Err("ValueError")
          ELSE LET a == IF IsInt(start) THEN start[1] ELSE 0
                   d == IF IsInt(step) THEN step[1] ELSE 1
               IN Ok(Pick(s, {i \in 1..Len(s) : /\ i - 1 >= a
                                                /\ (IsInt(stop) => i - 1 < stop[1])
                                                /\ (i - 1 - a) % d = 0}))

Pairwise(s) == Ok([i \in 1..Len(s) - 1 |-> <<s[i], s[i + 1]>>])

\* product(*ss, repeat=rep): mixed-radix counting, last pool fastest
RECURSIVE ProdLen(_, _)
ProdLen(ps, j) == IF j > Len(ps) THEN 1 ELSE Len(ps[j]) * ProdLen(ps, j + 1)

Product(ss, rep) ==
  IF IsBadNone(rep) THEN Err("TypeError")
  ELSE LET r == IF IsOmitted(rep) THEN 1 ELSE rep[1] IN
       IF r < 0 THEN Err("ValueError")
       ELSE LET ps == [i \in 1..Len(ss) * r |-> ss[((i - 1) % Len(ss)) + 1]]
                m  == Len(ps)
                N  == ProdLen(ps, 1)
            IN Ok([k \in 1..N |->
                     [j \in 1..m |-> ps[j][(((k - 1) \div ProdLen(ps, j + 1)) % Len(ps[j])) + 1]]])

\* repeat(x, times): times omitted = forever (first k values)
Repeat(x, times, k) ==
  IF IsOmitted(times) THEN Ok([i \in 1..k |-> x])
  ELSE Ok([i \in 1..times[1] |-> x])         \* 1..n is empty for n <= 0

\* starmap(f, ss): "add2" takes exactly two arguments, any other arity is a TypeError raised
\* when that tuple is reached
Starmap(f, ss) ==
  LET wrong == {i \in 1..Len(ss) : f = "add2" /\ Len(ss[i]) # 2} IN
  IF wrong = {} THEN Ok([i \in 1..Len(ss) |-> ApplyN(f, ss[i])])
  ELSE <<[i \in 1..Min(wrong) - 1 |-> ApplyN(f, ss[i])], "TypeError">>

\* tee(s, n): n iterators, each sees all of s (outcome: the n sequences)
Tee(s, n) ==
  IF IsBadNone(n) THEN Err("TypeError")
  ELSE LET m == IF IsOmitted(n) THEN 2 ELSE n[1] IN
       IF m < 0 THEN Err("ValueError") ELSE Ok([i \in 1..m |-> s])

\* zip_longest(*ss, fillvalue=fill)
ZipLongest(ss, fill) ==
  LET f == IF IsOmitted(fill) THEN NoneVal ELSE fill[1]
      L == IF ss = <<>> THEN 0 ELSE Max({Len(ss[j]) : j \in 1..Len(ss)})
  IN Ok([i \in 1..L |-> [j \in 1..Len(ss) |-> IF i <= Len(ss[j]) THEN ss[j][i] ELSE f]])

\* functools.reduce(f, s[, initial])
Reduce(f, s, init) ==
  IF IsInt(init) THEN Ok(<<FoldL(f, init[1], s, 1)>>)
  ELSE IF s = <<>> THEN Err("TypeError")
  ELSE Ok(<<FoldL(f, s[1], s, 2)>>)

(***************************************************************************)
(* Dispatch on a case record [fn |-> name, a |-> arguments]                *)
(***************************************************************************)
Eval(c) ==
  LET a == c.a IN
  CASE c.fn = "accumulate"    -> Accumulate(a.s, a.f, a.init)
    [] c.fn = "batched"       -> Batched(a.s, a.n, a.strict)
    [] c.fn = "chain"         -> Chain(a.ss)
    [] c.fn = "chain_from_iterable" -> Chain(a.ss)
    [] c.fn = "combinations"  -> Combinations(a.s, a.r)
    [] c.fn = "combinations_with_replacement" -> CombinationsWR(a.s, a.r)
    [] c.fn = "compress"      -> Compress(a.s, a.sel)
    [] c.fn = "count"         -> Count(a.start, a.step, a.k)
    [] c.fn = "cycle"         -> Cycle(a.s, a.k)
    [] c.fn = "dropwhile"     -> Dropwhile(a.p, a.s)
    [] c.fn = "filterfalse"   -> Filterfalse(a.p, a.s)
    [] c.fn = "groupby"       -> GroupBy(a.s, a.key)
    [] c.fn = "islice"        -> Islice(a.s, a.args)
    [] c.fn = "pairwise"      -> Pairwise(a.s)
    [] c.fn = "permutations"  -> PermutationsOf(a.s, a.r)
    [] c.fn = "product"       -> Product(a.ss, a.rep)
    [] c.fn = "repeat"        -> Repeat(a.x, a.times, a.k)
    [] c.fn = "starmap"       -> Starmap(a.f, a.ss)
    [] c.fn = "takewhile"     -> Takewhile(a.p, a.s)
    [] c.fn = "tee"           -> Tee(a.s, a.n)
    [] c.fn = "zip_longest"   -> ZipLongest(a.ss, a.fill)
    [] c.fn = "reduce"        -> Reduce(a.f, a.s, a.init)
=============================================================================
