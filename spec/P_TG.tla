------------------------------- MODULE P_TG -------------------------------
(***************************************************************************)
(* Property-level observer for task groups: C01 (join), C02 (every         *)
(* exception surfaces exactly once), C07 (start() handshake).  It extends  *)
(* the scope reference semantics P_Scope (state field s) so that "an       *)
(* enclosing scope is cancelled" can be decided for pass-through clauses.  *)
(*                                                                         *)
(* Groups are numbered g = 10 * host + k (k-th group of that host); error  *)
(* identities are strings; values are integers.  Additional events:        *)
(*  [ev="tgenter", t, g, n, nc]   n: number of the group's cancel scope     *)
(*  [ev="spawn", g, c, via ("soon"|"start"), by]                           *)
(*  [ev="taskend", c, how, leaves, val]  how the child's COROUTINE ended:  *)
(*        ok | err | cancelled | native; leaves: error ids it raised       *)
(*  [ev="bodyexc", g, how, leaves]  the body of the block raised           *)
(*  [ev="tgexit", t, g, raised, leaves, handles, gc, cc] raised: none|cancel|*)
(*        native | group | err; handles: seq of [c, status, val, exc]      *)
(*  [ev="started", c, v, res, cpc]  res: ok | err; cpc: the caller of start()*)
(*        has a pending cancellation (TaskInfo.has_pending_cancellation()) *)
(*  [ev="startret", t, c, res, val, leaves, cdone, gcalled]  start()       *)
(*        returned: ok(val) | err(leaves / "RuntimeError") | cancelled |   *)
(*        native; cdone: the child's task is done; gcalled: group scope's  *)
(*        cancel_called                                                    *)
(*  plus every event of P_Scope (enter / exit / cancel / opstart / ...).   *)
(*  Any event that carries a task c counts as "c executed a step".         *)
(***************************************************************************)
EXTENDS P_Scope

TGP0(tasks) ==
  [s |-> ScopeP0(tasks),
   members |-> [g \in {} |-> {}],   \* group -> set of children ever spawned in it
   grp |-> [c \in tasks |-> 0],     \* child -> its group
   via |-> [c \in tasks |-> ""],
   ended |-> [c \in tasks |-> "no"],\* how the child's coroutine ended
   eleaves |-> [c \in tasks |-> {}],
   eval |-> [c \in tasks |-> 0],
   body |-> [g \in {} |-> {}],      \* group -> error ids raised by the body
   exited |-> {},                   \* groups whose block has finished
   routed |-> {},                   \* children whose failure was delivered through start()
   startedv |-> [c \in tasks |-> 0],\* value passed to the first started() call (0 = not called)
   nstarted |-> [c \in tasks |-> 0],
   startret |-> [c \in tasks |-> ""],   \* outcome of the start() call that spawned c
   starter |-> [c \in tasks |-> 0],
   nat0 |-> [c \in tasks |-> 0],    \* native cancellations of the start() caller issued before c was spawned
   failedFirst |-> {},              \* early-failed start() children that failed before any native cancellation of
                                    \* their caller was issued (their error sat on the readiness future)
   maybeLost |-> {},                \* ... whose caller's start() then ended in a native cancellation (finding F17)
   surfaced |-> {},                 \* early-failed start() children whose error the group raised before start() returned
   unsurfaced |-> {},               \* ... and those whose group finished without it: start() must deliver it
   owed |-> {},                     \* children whose second started() was accepted while nothing yet shows
                                    \* that the caller was cancelled: their start() must end in cancellation
   causes |-> [g \in {} |-> 0],     \* legitimate reasons why group g may be cancelled (count)
   gscope |-> [g \in {} |-> 0]]     \* group -> n of its cancel scope on the host's stack

TNames(r) == {x \in DOMAIN r : ~r[x]}
SeqToSet(s) == {s[i] : i \in DOMAIN s}
Dom(f) == DOMAIN f
HasKey(f, k) == k \in DOMAIN f
Put(f, k, v) == [x \in DOMAIN f \cup {k} |-> IF x = k THEN v ELSE f[x]]

\* the task an event speaks about executing something
Actor(e) ==
  IF e.ev \in {"opstart", "opend", "probe", "enter", "exit", "tgenter", "started"} THEN
      (IF e.ev = "started" THEN e.c ELSE e.t)
  ELSE IF e.ev = "startret" THEN e.t ELSE 0

TGApply(p, e) ==
  LET actor == Actor(e)
      \* C01: a member of a finished group executes another step
      stepAfterExit == actor # 0 /\ p.grp[actor] # 0 /\ p.grp[actor] \in p.exited
      base ==
        CASE e.ev = "tgenter" ->
               LET rec == [n |-> e.n, called |-> FALSE, shield |-> FALSE, dl |-> PINF, nc0 |-> e.nc,
                           nat0 |-> p.s.natives[e.t], kind |-> "group", expl |-> FALSE, moved |-> FALSE] IN
               [p |-> [p EXCEPT !.members = Put(@, e.g, {}), !.body = Put(@, e.g, {}),
                                !.causes = Put(@, e.g, 0), !.gscope = Put(@, e.g, e.n),
                                !.s.sc[e.t] = Append(@, rec)],
                bad |-> {}]
          [] e.ev = "spawn" ->
               [p |-> [p EXCEPT !.members = Put(@, e.g, @[e.g] \cup {e.c}), !.grp[e.c] = e.g,
                                !.via[e.c] = e.via, !.starter[e.c] = e.by,
                                !.nat0[e.c] = p.s.natives[e.by]],
                bad |-> TNames([SpawnOnlyIntoLiveGroup |-> e.g \notin p.exited])]
          [] e.ev = "taskend" ->
               LET g == p.grp[e.c]
                   \* an error raised by a member (not delivered through start()) cancels the group
                   \* ... unless it is a start()ed child that has not called started() yet: its failure
                   \* belongs to the caller of start()
                   isCause == e.how \in {"err", "native", "cancelled"} /\ g # 0 /\ HasKey(p.causes, g)
                              /\ ~(p.via[e.c] = "start" /\ p.nstarted[e.c] = 0) IN
               [p |-> [p EXCEPT !.ended[e.c] = e.how, !.eleaves[e.c] = SeqToSet(e.leaves),
                                !.eval[e.c] = e.val,
                                !.failedFirst = IF e.how = "err" /\ p.via[e.c] = "start" /\ p.nstarted[e.c] = 0
                                                   /\ p.starter[e.c] # 0
                                                   /\ p.s.natives[p.starter[e.c]] = p.nat0[e.c]
                                                THEN @ \cup {e.c} ELSE @,
                                !.causes = IF isCause THEN Put(@, g, @[g] + 1) ELSE @],
                bad |-> TNames([EndsOnce |-> p.ended[e.c] = "no"])]
          [] e.ev = "bodyexc" ->
               [p |-> [p EXCEPT !.body = Put(@, e.g, SeqToSet(e.leaves)),
                                !.causes = Put(@, e.g, @[e.g] + 1)],
                bad |-> {}]
          [] e.ev = "started" ->
               LET first == p.nstarted[e.c] = 0
                   callerGone == p.startret[e.c] \in {"cancelled", "native"}
                                 \/ (p.starter[e.c] # 0 /\ (EffCur(p.s, p.starter[e.c])
                                                            \/ p.s.natives[p.starter[e.c]] > 0))
                   \* started() is silently accepted again only on a readiness future that was cancelled,
                   \* i.e. when the caller of start() was cancelled while waiting.  The caller may by now sit
                   \* in start()'s shielded clean-up (no pending cancellation any more, cpc = 0) and the
                   \* cancellation may have been library-internal (no event): then the verdict is deferred
                   \* until start() returns - it must end in cancellation.
                   unexplained == ~first /\ e.res = "ok" /\ ~(callerGone \/ e.cpc = 1)
               IN [p |-> [p EXCEPT !.nstarted[e.c] = @ + 1,
                                   !.startedv[e.c] = IF first THEN e.v ELSE @,
                                   !.owed = IF unexplained /\ p.startret[e.c] = "" THEN @ \cup {e.c} ELSE @],
                   bad |-> TNames([FirstStartedAccepted |-> first => e.res = "ok",
                                   SecondStartedIsError |-> unexplained => p.startret[e.c] = ""])]
          [] e.ev = "startret" ->
               LET c == e.c
                   childFailedEarly == p.ended[c] # "no" /\ p.nstarted[c] = 0
                   g == p.grp[c]
                   cl == [ReturnsStartedValue |-> (e.res = "ok") => (p.nstarted[c] > 0 /\ e.val = p.startedv[c]),
                          SecondStartedIsError |-> c \in p.owed => e.res \in {"cancelled", "native"},
                          \* the error of an early-failed child surfaces exactly once: not from start() if its
                          \* group has raised it already, and from start() if its group finished without it
                          \* (only a native Task.cancel() of the caller can still replace it, asyncio semantics)
                          NoDuplicates |-> c \in p.surfaced => e.res # "err",
                          NoneDropped |-> c \in p.unsurfaced => e.res \in {"err", "native"},
                          \* Known finding F17: the child's error was on the readiness future when the caller
                          \* of start() was cancelled natively (Task.cancel()) before it resumed: start() raises
                          \* CancelledError and the error is never retrieved.  Certain here when the group has
                          \* finished without it; otherwise decided when the group finishes (maybeLost).
                          StartErrorLostOnNativeCancelOfCaller |-> ~(c \in p.unsurfaced /\ e.res = "native"),
                          ChildErrorToCaller |->
                              (e.res = "err") =>
                                 (childFailedEarly /\
                                  (IF p.ended[c] = "err" THEN SeqToSet(e.leaves) = p.eleaves[c]
                                   ELSE SeqToSet(e.leaves) = {"RuntimeError"})),
                          EarlyFailureReported |-> (childFailedEarly /\ p.ended[c] \in {"ok", "err"})
                                                      => e.res \in {"err", "cancelled", "native"},
                          \* ... for a caller that was cancelled ONCE: a second, native cancellation can
                          \* interrupt the shielded wait for the child (anyio cannot shield from it)
                          ChildDoneBeforeCancelledStartReturns |->
                              (e.res \in {"cancelled", "native"}
                               /\ p.s.natives[e.t] + (IF EffCur(p.s, e.t) THEN 1 ELSE 0) <= 1) => e.cdone = 1,
                          GroupNotCancelledByStartFailure |->
                              \* ... unless something else legitimately cancelled it: another failure,
                              \* a cancelled enclosing scope, or the host being cancelled natively
                              (e.res = "err" /\ g # 0 /\ HasKey(p.causes, g) /\ p.causes[g] = 0
                                 /\ p.s.natives[g \div 10] = 0
                                 /\ ~EffAt(p.s, g \div 10, Pos(p.s, g \div 10, p.gscope[g])))
                                 => e.gcalled = 0]
                   maybe == e.res = "native" /\ childFailedEarly /\ p.ended[c] = "err" /\ c \in p.failedFirst
                            /\ c \notin p.surfaced /\ c \notin p.unsurfaced
               IN [p |-> [p EXCEPT !.startret[c] = e.res,
                                   !.maybeLost = IF maybe THEN @ \cup {c} ELSE @,
                                   !.routed = IF e.res = "err" THEN @ \cup {c} ELSE @],
                   bad |-> TNames(cl)]
          [] e.ev = "tgexit" ->
               LET g == e.g
                   mem == p.members[g]
                   \* A child spawned by start() that failed before calling started() delivers its error to
                   \* the caller of start() - or to the group, if that caller was cancelled meanwhile.  When
                   \* the group finishes before that start() call has returned (caller in another task),
                   \* the observer cannot know yet which: the leaf may be in the group, and whichever way it
                   \* went is checked when start() returns (exactly once: surfaced / unsurfaced).
                   unresolved == {m \in mem : p.via[m] = "start" /\ p.nstarted[m] = 0 /\ p.ended[m] = "err"
                                               /\ p.startret[m] = ""}
                   lostCand == mem \cap p.maybeLost
                   expected == p.body[g] \cup UNION {p.eleaves[c] : c \in {m \in mem : p.ended[m] = "err" /\ m \notin p.routed
                                                                                  /\ m \notin unresolved /\ m \notin lostCand}}
                   may == UNION {p.eleaves[c] : c \in unresolved \cup lostCand}
                   got == SeqToSet(e.leaves)
                   inGroup == {m \in unresolved : p.eleaves[m] # {} /\ p.eleaves[m] \subseteq got}
                   hs == SeqToSet(e.handles)
                   statusOk(h) ==
                      LET how == p.ended[h.c] IN
                      CASE how = "ok" -> h.status = "finished" /\ h.val = p.eval[h.c]
                        [] how = "err" -> h.status = "failed" /\ SeqToSet(h.exc) = p.eleaves[h.c]
                        [] how \in {"cancelled", "native"} -> h.status = "cancelled"
                        [] OTHER -> FALSE
                   \* the group's scope is the innermost scope of the host: leave it
                   i == Len(p.s.sc[e.t])
                   ps == AbsorbGC(AbsorbCC([p.s EXCEPT !.sc[e.t] = SubSeq(@, 1, i - 1)], e.t, e.cc), e.gc)
                   cl == [JoinAll |-> \A c \in mem : p.ended[c] # "no",
                          GroupScopeIsInnermost |-> i >= 1 /\ p.s.sc[e.t][i].n = p.gscope[g],
                          HandleFinal |-> \A h \in hs : p.ended[h.c] = "no" \/ statusOk(h),
                          \* a host that is cancelled natively (Task.cancel()) re-raises that
                          \* CancelledError as asyncio demands; errors then travel as its context only
                          NoneDropped |-> (e.raised # "native") => expected \subseteq got,
                          NoneInvented |-> got \subseteq expected \cup may,
                          \* known finding F17 (see startret): the error did not reach the group either
                          StartErrorLostOnNativeCancelOfCaller |->
                              \A m \in lostCand : p.eleaves[m] \subseteq got,
                          \* client-raised errors carry unique names; the library's own RuntimeErrors (second
                          \* started(), child exited without started()) are distinct objects with one name
                          NoDuplicates |-> LET named == SelectSeq(e.leaves, LAMBDA x : x # "RuntimeError")
                                           IN Len(named) = Cardinality(SeqToSet(named)),
                          NoCancelLeaves |-> "CANCEL" \notin got,
                          NoErrorNoRaise |-> (expected \cup may = {}) => e.raised \in {"none", "cancel", "native"},
                          ErrorsRaiseGroup |-> (expected # {} /\ e.raised # "native") => e.raised = "group",
                          CancelOnlyPassesThrough |->
                              (e.raised = "cancel") => EffCur(ps, e.t)]
               IN [p |-> [p EXCEPT !.exited = @ \cup {g}, !.s = ps,
                                   !.surfaced = @ \cup inGroup, !.unsurfaced = @ \cup (unresolved \ inGroup)],
                   bad |-> TNames(cl)]
          [] OTHER ->
               LET r == ScopeApply(p.s, e) IN [p |-> [p EXCEPT !.s = r.p], bad |-> r.bad]
  IN [p |-> base.p,
      bad |-> base.bad \cup (IF stepAfterExit THEN {"NoStepAfterGroupExit"} ELSE {})]
=============================================================================
