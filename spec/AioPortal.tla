----------------------------- MODULE AioPortal -----------------------------
(***************************************************************************)
(* Implementation-shaped model of anyio.from_thread.BlockingPortal on the  *)
(* asyncio backend (src/anyio/from_thread.py: BlockingPortal, _call_func,  *)
(* _spawn_task_from_thread, start_task_soon, start_task, call, stop,       *)
(* start_blocking_portal; src/anyio/_backends/_asyncio.py:                 *)
(* run_sync_from_thread, TaskGroup.__aexit__ / _spawn / task_done,         *)
(* CancelScope._deliver_cancellation).                                     *)
(*                                                                         *)
(* Not the handle-exact kernel of Aio.tla: the event loop is ONE FIFO of   *)
(* ready handles (call_soon and call_soon_threadsafe append to the same    *)
(* deque), one action per handle; caller threads are processes with one    *)
(* action per critical section (what a thread does between two points      *)
(* where it synchronises with the loop or takes the Future's lock).        *)
(*                                                                         *)
(* Threads 1..NT are callers, thread 0 is the owner of                     *)
(* start_blocking_portal() (it only leaves the context).  Call 0 is the    *)
(* owner's internal portal.call(portal.stop, cancel_remaining).            *)
(*                                                                         *)
(* The state is one record S (pure next-state operators compose), fields:  *)
(*  tid      portal._event_loop_thread_id is set                           *)
(*  stopev   portal._stop_event is set                                     *)
(*  host     the portal's main task: "sleep" (sleep_until_stopped) |       *)
(*           "joining" (TaskGroup.__aexit__ waiting for children) |        *)
(*           "ckpt" (no children: the single shielded checkpoint) | "done" *)
(*           (group scope exited, run_portal returned)                     *)
(*  gtasks   TaskGroup._tasks (call ids)                                   *)
(*  gcancel  the group's cancel scope has been cancelled                   *)
(*  loop     "running" | "draining" (asyncio.run shutting down, handles    *)
(*           still run) | "stopped" (no more iterations, not yet closed) | *)
(*           "closed"                                                      *)
(*  rq       the loop's ready queue                                        *)
(*  kind[c], fut[c] ("none" | "pending" | "val" | "exc" | "cancelled"),    *)
(*  sfut[c]  start_task's task_status_future,                              *)
(*  task[c]  the _call_func task: st "none" | "new" | "parked" | "epi"     *)
(*           (between future.cancelled() and future.set_result) | "done";  *)
(*           tc = event_loop_thread_id captured; cb = done-callback        *)
(*           registered; sc = the call's own CancelScope cancelled;        *)
(*           wk = what the pending wake-up will deliver                    *)
(*  exposed[c]  a caller holds the future;  obs[c] it has seen it done     *)
(*  thr[i]   [pc, c] of thread i;  canc  the thread inside Future.cancel() *)
(*  gate     gates set (in the loop);  relreq  gates the environment opened*)
(*                                                                         *)
(* A thread inside start_task() is at pc "waitstart" until sfut[c] is     *)
(* resolved; for kind "stw" (the callable waits at its gate BEFORE         *)
(* started()) that is a quiescent state: the thread stays there until the  *)
(* environment opens the gate or the task is cancelled.                    *)
(*                                                                         *)
(* Two races of the code can be switched on:                               *)
(*  FutRace  _call_func's `if not future.cancelled(): future.set_result()` *)
(*           is two critical sections (it is: Future.cancel() of a caller  *)
(*           can land in between -> InvalidStateError kills the portal)    *)
(*  ChkRace  `_check_running()` and the marshalling `run_sync()` are two   *)
(*           critical sections (they are: stop() can land in between)      *)
(* With both FALSE the model states the assumption that these windows are  *)
(* not hit; see notes/finding_C15.md.                                      *)
(***************************************************************************)
EXTENDS Naturals, Sequences, FiniteSets, P_Portal

CONSTANTS NT,          \* caller threads
          NC,          \* calls (ids 1..NC)
          Kinds,       \* kinds the callers may use
          MaxStop,     \* stop-kind calls
          MaxCancel,   \* Future.cancel() calls
          FutRace, ChkRace,
          QStep        \* TRUE: the environment acts only at quiescent points (the replay binding)

VARIABLES S, qd, hist, pst, pbad

Calls == 0..NC
Thr == 0..NT
CoroKinds == {"ret", "fail", "block", "st", "stw", "stfail", "stop0", "stop1", "stop01"}
GateKinds == {"block", "st", "stw"}

Task0 == [st |-> "none", tc |-> FALSE, cb |-> FALSE, sc |-> FALSE, wk |-> "none",
          chk |-> FALSE, res |-> ""]

S0 == [tid |-> TRUE, stopev |-> FALSE, host |-> "sleep", gtasks |-> {}, gcancel |-> FALSE,
       loop |-> "running", rq |-> <<>>, crashed |-> FALSE,
       kind |-> [c \in Calls |-> "none"],
       fut |-> [c \in Calls |-> "none"], sfut |-> [c \in Calls |-> "none"],
       task |-> [c \in Calls |-> Task0],
       exposed |-> {}, obs |-> {},
       thr |-> [i \in Thr |-> [pc |-> "idle", c |-> 0]],
       canc |-> [pc |-> "idle", c |-> 0],
       gate |-> {}, relreq |-> {},
       nxt |-> 1, nstop |-> 0, ncancel |-> 0, left |-> FALSE,
       inert |-> {}]       \* ghost: calls whose _call_func captured event_loop_thread_id = None

-----------------------------------------------------------------------------
(* pure helpers: state -> state; each returns [s, ev] where ev are the     *)
(* property-level events the step makes observable (call 0 is internal)    *)

Enq(s, h) == [s EXCEPT !.rq = Append(@, h)]
Vis(es) == SelectSeq(es, LAMBDA e : e.c # 0)

GroupActive(s) == s.host # "done"
ScopeCancelled(s, c) == s.task[c].sc \/ s.gcancel

\* CancelScope._deliver_cancellation reaching the task of call c
Deliver(s, c) ==
  IF s.task[c].st = "parked" /\ s.task[c].wk = "none"         \* waiter pending: Task.cancel()
    THEN Enq([s EXCEPT !.task[c].wk = "cancel"], [k |-> "wake", c |-> c])
  ELSE IF s.task[c].st = "parked" /\ s.task[c].wk = "yield"   \* in sleep(0): _must_cancel
    THEN [s EXCEPT !.task[c].wk = "cancel"]
  ELSE s                      \* not started (retried later), waiter already done, or finished

RECURSIVE DeliverAll(_, _)
DeliverAll(s, cs) ==
  IF cs = {} THEN s
  ELSE LET c == CHOOSE x \in cs : \A y \in cs : x <= y
       IN DeliverAll(Deliver(s, c), cs \ {c})

\* the task's coroutine has returned: Task done-callback (TaskGroup task_done) is scheduled
Finish(s, c) == Enq([s EXCEPT !.task[c].st = "done"], [k |-> "tdone", c |-> c])

\* Future.set_result / set_exception / cancel taking effect, with start_task's task_done callback
Resolve(s, c, r) ==
  LET s1 == [s EXCEPT !.fut[c] = r]
  IN IF s.kind[c] \in StartKinds /\ s.sfut[c] = "pending"
       THEN [s1 EXCEPT !.sfut[c] = IF r = "val" THEN "nostart" ELSE r]
       ELSE s1

\* _call_func after the callable: `if not future.cancelled(): future.set_result(retval)`
Epilogue(s, c, r) ==
  IF FutRace
    THEN [s EXCEPT !.task[c].st = "epi", !.task[c].chk = (s.fut[c] # "cancelled"),
                   !.task[c].res = r]
    ELSE Finish(IF s.fut[c] # "cancelled" THEN Resolve(s, c, r) ELSE s, c)

\* the body raised the cancellation exception
CancelledExit(s, c) ==
  IF s.task[c].sc
    THEN Finish(s, c)        \* own scope: the future is cancelled already (swallowed or not)
    ELSE Finish(IF s.fut[c] = "pending" THEN Resolve(s, c, "cancelled") ELSE s, c)

\* `await gate.wait()` in the body of call c
Park(s, c) ==
  IF c \in s.gate
    THEN Enq([s EXCEPT !.task[c].st = "parked",          \* Event set: checkpoint() = sleep(0)
                       !.task[c].wk = IF ScopeCancelled(s, c) THEN "cancel" ELSE "yield"],
             [k |-> "wake", c |-> c])
    ELSE LET s1 == [s EXCEPT !.task[c].st = "parked", !.task[c].wk = "none"]
         IN IF ScopeCancelled(s, c) THEN Enq(s1, [k |-> "deliver", c |-> c]) ELSE s1

\* portal.stop(cr) running in the loop
DoStop(s, cr) ==
  LET s1 == [s EXCEPT !.tid = FALSE, !.stopev = TRUE]
      s2 == IF ~s.stopev /\ s.host = "sleep" THEN Enq(s1, [k |-> "host"]) ELSE s1
  IN IF cr THEN DeliverAll([s2 EXCEPT !.gcancel = TRUE], s2.gtasks) ELSE s2

\* the body of a stop-kind callable (portal.stop has no checkpoint: one critical section);
\* "stop01" = await portal.stop(); await portal.stop(cancel_remaining=True)
StopBody(s, k) ==
  IF k = "stop01" THEN DoStop(DoStop(s, FALSE), TRUE) ELSE DoStop(s, k = "stop1")

\* first step of the task of call c: _call_func up to the first suspension
FirstStep(s, c) ==
  LET k == s.kind[c] IN
  IF k = "sync"
    THEN [s |-> Epilogue([s EXCEPT !.task[c].tc = s.tid], c, "val"),
          ev |-> <<[ev |-> "exec", c |-> c], [ev |-> "bend", c |-> c, how |-> "ret"]>>]
  ELSE
    \* with CancelScope() as scope: future.add_done_callback(callback)  (invoked at once, in the
    \* loop thread, when the future is already cancelled)
    LET s1 == [s EXCEPT !.task[c].tc = s.tid, !.task[c].cb = TRUE,
                        !.task[c].sc = (s.fut[c] = "cancelled" /\ s.tid),
                        !.inert = IF s.tid THEN @ ELSE @ \cup {c}]
    IN CASE k = "ret" ->
              [s |-> Epilogue(s1, c, "val"),
               ev |-> <<[ev |-> "exec", c |-> c], [ev |-> "bend", c |-> c, how |-> "ret"]>>]
         [] k \in {"fail", "stfail"} ->
              [s |-> Epilogue(s1, c, "exc"),
               ev |-> <<[ev |-> "exec", c |-> c], [ev |-> "bend", c |-> c, how |-> "raise"]>>]
         [] k \in StopKinds ->
              [s |-> Epilogue(StopBody(s1, k), c, "val"),
               ev |-> <<[ev |-> "exec", c |-> c], [ev |-> "bend", c |-> c, how |-> "ret"]>>]
         [] k \in {"block", "stw"} ->      \* "stw": parks BEFORE task_status.started(): sfut stays pending
              [s |-> Park(s1, c), ev |-> <<[ev |-> "exec", c |-> c]>>]
         [] k = "st" ->
              [s |-> Park([s1 EXCEPT !.sfut[c] = IF @ = "pending" THEN "val" ELSE @], c),
               ev |-> <<[ev |-> "exec", c |-> c]>>]

\* the task of call c is resumed
Wake(s, c) ==
  IF s.task[c].wk = "cancel"
    THEN [s |-> CancelledExit([s EXCEPT !.task[c].wk = "none"], c),
          ev |-> <<[ev |-> "bend", c |-> c, how |-> "cancelled"]>>]
    ELSE \* the gate is open; "stw" now calls task_status.started(SVal(c)) and returns at once
         LET s1 == [s EXCEPT !.task[c].wk = "none"]
             s2 == IF s.kind[c] = "stw" /\ s.sfut[c] = "pending"
                     THEN [s1 EXCEPT !.sfut[c] = "val"] ELSE s1
         IN [s |-> Epilogue(s2, c, "val"),
             ev |-> <<[ev |-> "bend", c |-> c, how |-> "ret"]>>]

\* run_sync_from_thread's wrapper: TaskGroup.start_soon(_call_func, ...) for the call of thread i
Spawn(s, i) ==
  LET c == s.thr[i].c IN
  IF GroupActive(s)
    THEN LET s1 == Enq([s EXCEPT !.task[c].st = "new", !.gtasks = @ \cup {c}],
                       [k |-> "step", c |-> c])
         IN IF i = 0 THEN [s |-> [s1 EXCEPT !.thr[i].pc = "waitres"], ev |-> <<>>]
            ELSE IF s.kind[c] \in StartKinds
              THEN [s |-> [s1 EXCEPT !.thr[i].pc = "waitstart"], ev |-> <<>>]
            ELSE [s |-> [s1 EXCEPT !.thr[i].pc = "idle", !.exposed = @ \cup {c}],
                  ev |-> <<[ev |-> "returned", c |-> c]>>]
    ELSE \* "This task group is not active": RuntimeError through run_sync to the caller
         [s |-> [s EXCEPT !.thr[i].pc = IF i = 0 THEN "join" ELSE "idle", !.fut[c] = "none"],
          ev |-> <<[ev |-> "refused", c |-> c]>>]

\* TaskGroup task_done of call c
TDone(s, c) ==
  LET s1 == [s EXCEPT !.gtasks = @ \ {c}]
  IN IF s.host = "joining" /\ s1.gtasks = {} THEN Enq(s1, [k |-> "host"]) ELSE s1

\* the portal's main task runs
Host(s) ==
  CASE s.host = "sleep" ->           \* BlockingPortal.__aexit__: stop(); TaskGroup.__aexit__
         IF s.gtasks # {} THEN [s EXCEPT !.host = "joining"]
         ELSE Enq([s EXCEPT !.host = "ckpt"], [k |-> "host"])
    [] s.host = "joining" ->
         IF s.gtasks = {} THEN [s EXCEPT !.host = "done", !.loop = "draining"] ELSE s
    [] s.host = "ckpt" -> [s EXCEPT !.host = "done", !.loop = "draining"]
    [] OTHER -> s

\* one ready handle
RunHandle(s, h) ==
  CASE h.k = "spawn" -> Spawn(s, h.i)
    [] h.k = "step" -> FirstStep(s, h.c)
    [] h.k = "wake" -> Wake(s, h.c)
    [] h.k = "deliver" -> [s |-> Deliver(s, h.c), ev |-> <<>>]
    [] h.k = "scancel" ->        \* scope.cancel() marshalled by the future's done-callback
         [s |-> [Deliver([s EXCEPT !.task[h.c].sc = TRUE], h.c) EXCEPT !.canc.pc = "idle"],
          ev |-> <<>>]
    [] h.k = "gset" ->
         [s |-> LET s1 == [s EXCEPT !.gate = @ \cup {h.g}]
                IN IF s.task[h.g].st = "parked" /\ s.task[h.g].wk = "none"
                     THEN Enq([s1 EXCEPT !.task[h.g].wk = "ok"], [k |-> "wake", c |-> h.g])
                     ELSE s1,
          ev |-> <<>>]
    [] h.k = "tdone" -> [s |-> TDone(s, h.c), ev |-> <<>>]
    [] h.k = "host" -> [s |-> Host(s), ev |-> <<>>]

-----------------------------------------------------------------------------
(* actions *)

Feed(es) == LET r == PortalApplyAll([p |-> pst, bad |-> pbad], Vis(es))
            IN pst' = r.p /\ pbad' = r.bad
NoFeed == UNCHANGED <<pst, pbad>>

InEpi == \E c \in Calls : S.task[c].st = "epi"
Alive == ~S.crashed

\* ---- the loop thread
G_Loop == Alive /\ S.loop \in {"running", "draining"} /\ S.rq # <<>> /\ ~InEpi
LoopStep ==
  /\ G_Loop
  /\ LET r == RunHandle([S EXCEPT !.rq = Tail(@)], Head(S.rq))
     IN S' = r.s /\ Feed(r.ev)
  /\ qd' = FALSE /\ UNCHANGED hist

G_Epi(c) == Alive /\ S.task[c].st = "epi"
EpiStep(c) ==                     \* the second critical section of the epilogue
  /\ G_Epi(c)
  /\ S' = IF ~S.task[c].chk THEN Finish(S, c)
          ELSE IF S.fut[c] = "cancelled" THEN [S EXCEPT !.crashed = TRUE]   \* InvalidStateError
          ELSE Finish(Resolve(S, c, S.task[c].res), c)
  /\ qd' = FALSE /\ UNCHANGED hist /\ NoFeed

G_LoopLast == Alive /\ S.loop = "draining" /\ S.rq = <<>> /\ ~InEpi
LoopLast == G_LoopLast /\ S' = [S EXCEPT !.loop = "stopped"]
            /\ qd' = FALSE /\ UNCHANGED hist /\ NoFeed
G_LoopClose == Alive /\ S.loop = "stopped"
LoopClose == G_LoopClose /\ S' = [S EXCEPT !.loop = "closed"]
             /\ qd' = FALSE /\ UNCHANGED hist /\ NoFeed

\* ---- caller threads: internal steps
\* run_sync(): loop.is_closed() check, call_soon_threadsafe(wrapper), f.result()
Marshal(s, i) ==
  LET c == s.thr[i].c IN
  IF s.loop = "closed"           \* RunFinishedError (a RuntimeError)
    THEN [s |-> [s EXCEPT !.thr[i].pc = IF i = 0 THEN "join" ELSE "idle", !.fut[c] = "none"],
          ev |-> <<[ev |-> "refused", c |-> c]>>]
  ELSE IF s.loop = "stopped"     \* the handle will never run
    THEN [s |-> [s EXCEPT !.thr[i].pc = "hung"], ev |-> <<>>]
  ELSE [s |-> Enq([s EXCEPT !.thr[i].pc = "marsh"], [k |-> "spawn", i |-> i]), ev |-> <<>>]

G_Marshal(i) == Alive /\ S.thr[i].pc = "checked"
MarshalStep(i) ==
  /\ G_Marshal(i)
  /\ LET r == Marshal(S, i) IN S' = r.s /\ Feed(r.ev)
  /\ qd' = FALSE /\ UNCHANGED hist

\* start_task(): task_status_future.result() returns / raises
G_WaitStart(i) == Alive /\ S.thr[i].pc = "waitstart" /\ S.sfut[S.thr[i].c] # "pending"
WaitStart(i) ==
  /\ G_WaitStart(i)
  /\ LET c == S.thr[i].c
         r == S.sfut[c] IN
     IF r = "val"
       THEN /\ S' = [S EXCEPT !.thr[i].pc = "idle", !.exposed = @ \cup {c}]
            /\ Feed(<<[ev |-> "started", c |-> c, v |-> SVal(c)]>>)
       ELSE /\ S' = [S EXCEPT !.thr[i].pc = "idle"]
            /\ Feed(<<[ev |-> "startfail", c |-> c,
                       res |-> IF r \in {"exc", "cancelled"} THEN r ELSE "other",
                       v |-> IF r = "exc" THEN Tag(c) ELSE 0]>>)
  /\ qd' = FALSE /\ UNCHANGED hist

\* the owner: portal.call(stop).result() returns, then thread.join()
G_OwnerRes == Alive /\ S.thr[0].pc = "waitres" /\ S.fut[0] \notin {"none", "pending"}
OwnerRes == G_OwnerRes /\ S' = [S EXCEPT !.thr[0].pc = "join"]
            /\ qd' = FALSE /\ UNCHANGED hist /\ NoFeed
G_OwnerJoin == Alive /\ S.thr[0].pc = "join" /\ S.loop = "closed"
OwnerJoin == /\ G_OwnerJoin
             /\ S' = [S EXCEPT !.thr[0].pc = "out", !.left = TRUE]
             /\ Feed(<<[ev |-> "exited", c |-> 1, alive |-> 0]>>)
             /\ qd' = FALSE /\ UNCHANGED hist

\* a caller sees its future done
OutVal(c) == IF S.fut[c] = "val" THEN (IF S.kind[c] \in StopKinds THEN 0 ELSE Val(c))
             ELSE IF S.fut[c] = "exc" THEN Tag(c) ELSE 0
G_Observe(c) == Alive /\ c \in S.exposed \ S.obs /\ S.fut[c] \in {"val", "exc", "cancelled"}
Observe(c) ==
  /\ G_Observe(c) /\ \A d \in Calls : d < c => ~G_Observe(d)
  /\ S' = [S EXCEPT !.obs = @ \cup {c}]
  /\ Feed(<<[ev |-> "done", c |-> c, res |-> S.fut[c], v |-> OutVal(c)]>>)
  /\ qd' = FALSE /\ UNCHANGED hist

Internal ==
  \/ LoopStep \/ LoopLast \/ LoopClose
  \/ \E c \in Calls : EpiStep(c) \/ Observe(c)
  \/ \E i \in Thr : MarshalStep(i) \/ WaitStart(i)
  \/ OwnerRes \/ OwnerJoin

Quiescent ==
  /\ Alive
  /\ ~G_Loop /\ ~G_LoopLast /\ ~G_LoopClose /\ ~G_OwnerRes /\ ~G_OwnerJoin
  /\ \A c \in Calls : ~G_Epi(c) /\ ~G_Observe(c)
  /\ \A i \in Thr : ~G_Marshal(i) /\ ~G_WaitStart(i)

\* ---- the environment (the scenario): issue, cancel, release, exit
EnvOK == Alive /\ (QStep => (Quiescent /\ qd))

\* _check_running() and (unless ChkRace) the marshalling, by thread i for call c of kind k
Check(s, i, c, k) ==
  LET s1 == [s EXCEPT !.kind[c] = k, !.thr[i].c = c]
      e0 == <<[ev |-> "issue", c |-> c, t |-> i, kind |-> k]>>
  IN IF ~s.tid
       THEN [s |-> [s1 EXCEPT !.thr[i].pc = IF i = 0 THEN "join" ELSE "idle"],
             ev |-> e0 \o <<[ev |-> "refused", c |-> c]>>]
     ELSE LET s2 == [s1 EXCEPT !.fut[c] = "pending",
                               !.sfut[c] = IF k \in StartKinds THEN "pending" ELSE "none",
                               !.thr[i].pc = "checked"]
          IN IF ChkRace THEN [s |-> s2, ev |-> e0]
             ELSE LET r == Marshal(s2, i) IN [s |-> r.s, ev |-> e0 \o r.ev]

Issue(i, k) ==
  /\ EnvOK /\ i # 0 /\ S.thr[i].pc = "idle" /\ S.nxt <= NC /\ k \in Kinds
  /\ \A j \in 1..(i - 1) : S.thr[j].pc # "idle"     \* threads are interchangeable: lowest idle one
  /\ k \in StopKinds => S.nstop < MaxStop
  /\ LET c == S.nxt
         r == Check([S EXCEPT !.nxt = @ + 1, !.nstop = IF k \in StopKinds THEN @ + 1 ELSE @],
                    i, c, k)
     IN S' = r.s /\ Feed(r.ev)
  /\ hist' = Append(hist, [a |-> "issue", t |-> i, c |-> S.nxt, k |-> k])
  /\ qd' = FALSE

\* Future.cancel() of call c by some thread holding the future
Cancel(c) ==
  /\ EnvOK /\ c \in S.exposed /\ S.canc.pc = "idle" /\ S.ncancel < MaxCancel
  /\ LET ok == S.fut[c] \in {"pending", "cancelled"}
         s0 == [S EXCEPT !.ncancel = @ + 1]
         s1 == IF S.fut[c] = "pending" THEN Resolve(s0, c, "cancelled") ELSE s0
         \* the done-callback of _call_func runs in the cancelling thread: run_sync(scope.cancel)
         s2 == IF S.fut[c] = "pending" /\ S.task[c].cb /\ S.task[c].tc /\ S.task[c].st # "done"
                  /\ S.loop \in {"running", "draining"}
                 THEN Enq([s1 EXCEPT !.canc = [pc |-> "marsh", c |-> c]],
                          [k |-> "scancel", c |-> c])
                 ELSE s1
     IN /\ S' = s2
        /\ Feed(<<[ev |-> "cancelcall", c |-> c],
                  [ev |-> "cancel", c |-> c, ok |-> IF ok THEN 1 ELSE 0]>>)
  /\ hist' = Append(hist, [a |-> "cancel", t |-> 0, c |-> c, k |-> ""])
  /\ qd' = FALSE

\* the environment opens gate g: loop.call_soon_threadsafe(event.set)
Release(g) ==
  /\ EnvOK /\ g \in 1..NC /\ S.kind[g] \in GateKinds /\ g \notin S.relreq
  /\ S' = LET s1 == [S EXCEPT !.relreq = @ \cup {g}]
          IN IF S.loop \in {"running", "draining"} THEN Enq(s1, [k |-> "gset", g |-> g]) ELSE s1
  /\ Feed(<<[ev |-> "release", c |-> g, g |-> g]>>)
  /\ hist' = Append(hist, [a |-> "release", t |-> 0, c |-> g, k |-> ""])
  /\ qd' = FALSE

\* the owner leaves `with start_blocking_portal()`: portal.call(portal.stop, exc); thread.join()
Exit(exc) ==
  /\ EnvOK /\ S.thr[0].pc = "idle" /\ ~S.left
  /\ LET r == Check(S, 0, 0, IF exc = 1 THEN "stop1" ELSE "stop0")
     IN /\ S' = r.s
        /\ Feed(<<[ev |-> "exit", c |-> 1, exc |-> exc]>> \o r.ev)
  /\ hist' = Append(hist, [a |-> "exit", t |-> 0, c |-> exc, k |-> ""])
  /\ qd' = FALSE

Quiesce ==
  /\ Quiescent /\ ~qd
  /\ qd' = TRUE
  /\ Feed(<<[ev |-> "quiescent", c |-> 1]>>)
  /\ UNCHANGED <<S, hist>>

Env == \/ \E i \in Thr, k \in Kinds : Issue(i, k)
       \/ \E c \in 1..NC : Cancel(c) \/ Release(c)
       \/ \E x \in {0, 1} : Exit(x)

Init == S = S0 /\ qd = FALSE /\ hist = <<>> /\ pst = PortalP0 /\ pbad = {}
\* Partial-order reduction: a caller's look at a done future and the harness' quiescence report touch
\* only observer state, so they are taken as soon as they are possible (no other action in between).
Urgent == (\E c \in Calls : G_Observe(c)) \/ (Quiescent /\ ~qd)
Next == \/ (\E c \in Calls : Observe(c)) \/ Quiesce
        \/ (~Urgent /\ (Internal \/ Env))
vars == <<S, qd, hist, pst, pbad>>
Spec == Init /\ [][Next]_vars
View == <<S, qd, pst, pbad>>
=============================================================================
