------------------------------- MODULE MC_C19 -------------------------------
(***************************************************************************)
(* C19, exhaustive part: the bounded input domain of every function of     *)
(* SeqFns, enumerated by TLC.  One initial state per case; the only step   *)
(* evaluates the specification operator on the case and prints             *)
(*      @@C {"c": case, "r": outcome}                                      *)
(* The harness runs every printed case on CPython's itertools / functools  *)
(* and on anyio (synchronous and asynchronous sources) and compares the    *)
(* three outcomes.                                                         *)
(*                                                                         *)
(* Domain: element sequences over the alphabet 0..2 up to length MaxLen    *)
(* (0 is falsy, which matters for compress and for `initial`), every small *)
(* integer parameter including the invalid ones (negative, 0, too large,   *)
(* None).  Groups selects the function groups this run enumerates (the     *)
(* harness splits the domain over several TLC runs); the islice group can  *)
(* be split further (Part of NParts, by a hash of the element sequence).   *)
(***************************************************************************)
EXTENDS SeqFns, TLC, Json

CONSTANTS Groups,     \* set of function groups enumerated by this run (see CasesOf)
          MaxLen,     \* bound on the length of element sequences
          Part, NParts  \* the islice group is split into NParts runs by a hash of the element sequence

Alpha == 0..2

SeqsOver(A, n) == {<<>>} \cup UNION {[1..k -> A] : k \in 1..n}
Seqs(n) == SeqsOver(Alpha, n)

Opt(S)      == {<<>>} \cup {<<n>> : n \in S}           \* omitted / None-default, or an integer
OptNone(S)  == Opt(S) \cup {<<0, 0>>}                  \* ... or an explicit illegal None

Case(fn, a) == [fn |-> fn, a |-> a]

Preds == {"pos", "even", "odd", "lt2", "true", "false"}

\* positional arguments of islice after the iterable
IArg == Opt(-1..MaxLen + 1)
IsliceArgs == {<<>>} \cup {<<a>> : a \in IArg} \cup {<<a, b>> : a, b \in IArg}
              \cup {<<a, b, c>> : a, b, c \in IArg}
              \cup {<<a, b, c, <<1>>>> : a, b \in Opt({0, 1}), c \in Opt({1})}

InPart(s) == (FoldL("add", Len(s), s, 1) % NParts) = Part

CasesOf(g) ==
  CASE g = "accumulate" ->
         {Case("accumulate", [s |-> s, f |-> f, init |-> i]) :
            s \in Seqs(MaxLen), f \in {"default", "add", "sub", "nc"}, i \in Opt({0, 1, 5})}
    [] g = "batched" ->
         {Case("batched", [s |-> s, n |-> n, strict |-> b]) :
            s \in Seqs(MaxLen), n \in OptNone(-1..MaxLen + 1) \ {<<>>}, b \in BOOLEAN}
    [] g = "chain" ->
         {Case("chain", [ss |-> ss]) :
            ss \in {<<>>} \cup {<<a>> : a \in Seqs(MaxLen)} \cup {<<a, b>> : a, b \in Seqs(MaxLen)}
                   \cup {<<a, b, c>> : a, b, c \in Seqs(2)}}
         \cup
         {Case("chain_from_iterable", [ss |-> ss]) :
            ss \in {<<>>} \cup {<<a>> : a \in Seqs(MaxLen)} \cup {<<a, b>> : a, b \in Seqs(MaxLen - 1)}
                   \cup {<<a, b, c>> : a, b, c \in Seqs(2)}}
    [] g = "combinations" ->
         {Case("combinations", [s |-> s, r |-> r]) :
            s \in Seqs(MaxLen), r \in OptNone(-1..MaxLen + 1) \ {<<>>}}
         \cup
         {Case("combinations_with_replacement", [s |-> s, r |-> r]) :
            s \in Seqs(MaxLen), r \in OptNone(-1..MaxLen) \ {<<>>}}
    [] g = "permutations" ->
         {Case("permutations", [s |-> s, r |-> r]) :
            s \in Seqs(MaxLen), r \in Opt(-1..MaxLen + 1)}
    [] g = "compress" ->
         {Case("compress", [s |-> s, sel |-> sel]) :
            s \in Seqs(MaxLen), sel \in SeqsOver({0, 1}, MaxLen + 1) \cup SeqsOver({0, 2}, 2)}
    [] g = "infinite" ->
         {Case("count", [start |-> a, step |-> d, k |-> k]) :
            a \in OptNone(-2..2), d \in OptNone(-2..2), k \in {1, 5}}
         \cup
         {Case("cycle", [s |-> s, k |-> k]) : s \in Seqs(MaxLen), k \in 0..2 * MaxLen + 1}
         \cup
         {Case("repeat", [x |-> x, times |-> t, k |-> 4]) : x \in Alpha, t \in Opt(-2..MaxLen + 1)}
    [] g = "predicates" ->
         {Case(fn, [p |-> p, s |-> s]) :
            fn \in {"dropwhile", "takewhile", "filterfalse"}, p \in Preds, s \in Seqs(MaxLen)}
    [] g = "groupby" ->
         {Case("groupby", [s |-> s, key |-> k]) :
            s \in Seqs(MaxLen + 1), k \in {"none", "mod2", "half", "const"}}
         \cup
         {Case("pairwise", [s |-> s]) : s \in Seqs(MaxLen + 1)}
    [] g = "islice" ->
         {Case("islice", [s |-> s, args |-> args]) : s \in {x \in Seqs(MaxLen) : InPart(x)}, args \in IsliceArgs}
    [] g = "product" ->
         {Case("product", [ss |-> ss, rep |-> r]) :
            ss \in {<<>>} \cup {<<a>> : a \in Seqs(3)} \cup {<<a, b>> : a, b \in Seqs(2)}
                   \cup {<<a, b, c>> : a, b, c \in Seqs(1)},
            r \in OptNone(-1..2)}
         \cup
         {Case("product", [ss |-> <<a>>, rep |-> <<3>>]) : a \in Seqs(MaxLen)}
    [] g = "starmap" ->
         {Case("starmap", [f |-> f, ss |-> ss]) :
            f \in {"sum", "nc", "add2"},
            ss \in SeqsOver(SeqsOver(Alpha, 2) \ {<<>>}, 2) \cup SeqsOver({<<>>, <<1>>, <<1, 2>>, <<2, 0, 1>>}, 3)}
    [] g = "tee" ->
         {Case("tee", [s |-> s, n |-> n]) : s \in Seqs(MaxLen), n \in OptNone(-1..3)}
    [] g = "zip_longest" ->
         {Case("zip_longest", [ss |-> ss, fill |-> f]) :
            ss \in {<<>>} \cup {<<a>> : a \in Seqs(MaxLen)} \cup {<<a, b>> : a, b \in Seqs(MaxLen)}
                   \cup {<<a, b, c>> : a, b, c \in Seqs(2)},
            f \in Opt({7})}
    [] g = "reduce" ->
         {Case("reduce", [f |-> f, s |-> s, init |-> i]) :
            s \in Seqs(MaxLen), f \in {"add", "sub", "nc"}, i \in Opt({0, 1, 5})}

AllGroups == {"accumulate", "batched", "chain", "combinations", "permutations", "compress", "infinite",
              "predicates", "groupby", "islice", "product", "starmap", "tee", "zip_longest", "reduce"}

ASSUME Groups \subseteq AllGroups

Cases == UNION {CasesOf(g) : g \in Groups}

VARIABLES c, r

Init == c \in Cases /\ r = <<>>

Next == /\ r = <<>>
        /\ r' = Eval(c)
        /\ c' = c
        /\ PrintT(<<"@@C", ToJson([c |-> c, r |-> r'])>>)

Spec == Init /\ [][Next]_<<c, r>>

\* every outcome is a pair <<sequence, error-class name>>
OutcomeShape == r # <<>> => (Len(r) = 2 /\ r[2] \in {"", "ValueError", "TypeError"})
=============================================================================
