------------------------------ MODULE MC_C11E ------------------------------
(***************************************************************************)
(* Composition root for property C11, Event part: NT most-general clients  *)
(* share one anyio.Event; ops: wait / set / yield; environment cancels.    *)
(***************************************************************************)
EXTENDS AioCond, P_Event, Json

CONSTANTS Ops, MaxOps, MaxEnv, EnvKinds,
          Retry      \* TRUE: a client whose scope absorbed its cancellation opens a fresh one and carries on

VARIABLES L, E, hist, pst, pbad
vars == <<K, L, E, hist, pst, pbad>>
View == <<K, L, E, pst, pbad>>
Client0 == <<Frame("client", "init", 0, 0)>>

Init ==
  /\ K = KInit([t \in Task |-> Client0], [t \in Task |-> NOSCOPE])
  /\ L = EvInit
  /\ E = [n |-> 0, pre |-> [t \in Task |-> FALSE], scoped |-> {}, natived |-> {}, qat |-> 0]
  /\ hist = <<>>
  /\ pst = EventP0
  /\ pbad = {}
Feed(e) == /\ pst' = EventApply(pst, e).p
           /\ pbad' = pbad \cup EventApply(pst, e).bad

Boot == [K EXCEPT !.ready = [i \in 1..NT |-> HStep(i)]]
H(t, c) == [w |-> "t", t |-> t, c |-> c, at |-> K.nh, cyc |-> K.cycle]
HE(t, c) == [w |-> "e", t |-> t, c |-> c, at |-> K.nh, cyc |-> K.cycle]
ResOf(r) == IF ~IsExc(r) THEN "ok" ELSE IF IsCancel(r) THEN "cancelled" ELSE "error"

ClientInit(t) ==
  /\ At(K, t, "client", "init")
  /\ K' = SetPc(ScopeEnter(K, t, FALSE, INF, E.pre[t], "task"), t, "choose")
  /\ UNCHANGED <<L, E, hist, pst, pbad>>

ClientChoose(t) ==
  /\ At(K, t, "client", "choose")
  /\ LET n == Top(K, t).a
         upd(q) == SetTop(q, t, [Top(q, t) EXCEPT !.a = n + 1])
     IN
     \/ /\ n < MaxOps /\ "wait" \in Ops
        /\ K' = Call(upd(K), t, "ret", Frame("ev_wait", "start", 0, 0))
        /\ Feed([ev |-> "start", t |-> t])
        /\ hist' = Append(hist, H(t, "wait"))
        /\ UNCHANGED <<L, E>>
     \/ /\ n < MaxOps /\ "set" \in Ops
        /\ LET r == EvSet(K, L) IN
           /\ L' = r.ev
           /\ K' = upd(r.q)
           /\ Feed([ev |-> "set", isset |-> r.ev.flag])
        /\ hist' = Append(hist, H(t, "set"))
        /\ UNCHANGED E
     \/ /\ n < MaxOps /\ "yield" \in Ops
        /\ K' = Call(upd(K), t, "ret", Frame("yield", "start", 0, 0))
        /\ hist' = Append(hist, H(t, "yield"))
        /\ UNCHANGED <<L, E, pst, pbad>>
     \/ /\ K' = SetPc([K EXCEPT !.T[t].reg = Val], t, "fin")
        /\ hist' = Append(hist, H(t, "end"))
        /\ UNCHANGED <<L, E, pst, pbad>>

ClientRet(t) ==
  /\ At(K, t, "client", "ret")
  /\ LET r == Reg(K, t)
         wasWait == t \in pst.inprog
     IN /\ IF wasWait THEN Feed([ev |-> "end", t |-> t, res |-> ResOf(r), isset |-> L.flag])
                     ELSE UNCHANGED <<pst, pbad>>
        /\ K' = SetPc(K, t, IF IsCancel(r) THEN "fin" ELSE "choose")
  /\ UNCHANGED <<L, E, hist>>

ClientFin(t) ==
  /\ At(K, t, "client", "fin")
  /\ LET x == ScopeExit(K, t, Reg(K, t))
         again == Retry /\ x.caught IN
     /\ K' = IF again THEN SetPc(ScopeEnter(x.q, t, FALSE, INF, FALSE, "task"), t, "choose")
                  ELSE IF IsExc(x.reg) THEN Raise(x.q, t, x.reg) ELSE Ret(x.q, t)
     /\ E' = IF again THEN [E EXCEPT !.scoped = @ \ {t}] ELSE E
     /\ IF again THEN Feed([ev |-> "cdone", t |-> t]) ELSE UNCHANGED <<pst, pbad>>
  /\ UNCHANGED <<L, hist>>

LibStep(t) ==
  \/ /\ HelperEnabled(K, t)
     /\ K' = HelperStep(K, t)
     /\ UNCHANGED <<L, E, hist, pst, pbad>>
  \/ /\ EvWaitEnabled(K, t)
     /\ LET r == EvWaitStep(K, L, t) IN K' = r.q /\ L' = r.ev
     /\ UNCHANGED <<E, hist, pst, pbad>>
  \/ /\ FinishEnabled(K, t)
     /\ K' = FinishTask(K, t)
     /\ UNCHANGED <<L, E, hist, pst, pbad>>


Cycle == /\ CycleStartEnabled(K) /\ K' = CycleStart(K) /\ UNCHANGED <<L, E, hist, pst, pbad>>
RunHandle == /\ PopEnabled(K)
             /\ K' = RunKernelHandle(Popped(K), NextHandle(K))
             /\ UNCHANGED <<L, E, hist, pst, pbad>>

EnvPoint == K.run = NONE /\ (K.left > 0 \/ (Quiescent(K) /\ E.qat = K.nh + 1))

EnvCancel(t) ==
  /\ EnvPoint /\ "cancel" \in EnvKinds /\ E.n < MaxEnv /\ t \notin E.scoped /\ K.T[t].st # "done"
  /\ IF Depth(K, t) = 0
     THEN /\ K.T[t].st = "unborn"
          /\ E' = [E EXCEPT !.n = @ + 1, !.scoped = @ \cup {t}, !.pre[t] = TRUE]
          /\ K' = K
     ELSE /\ K' = ScopeCancel(K, <<t, 1>>)
          /\ E' = [E EXCEPT !.n = @ + 1, !.scoped = @ \cup {t}]
  /\ Feed([ev |-> "creq", t |-> t])
  /\ hist' = Append(hist, HE(t, "cancel"))
  /\ UNCHANGED L

EnvNative(t) ==
  /\ EnvPoint /\ "native" \in EnvKinds /\ E.n < MaxEnv /\ t \notin E.natived /\ K.T[t].st # "done"
  /\ K' = TaskCancel(K, t, FALSE)
  /\ E' = [E EXCEPT !.n = @ + 1, !.natived = @ \cup {t}]
  /\ Feed([ev |-> "creq", t |-> t])
  /\ hist' = Append(hist, HE(t, "native"))
  /\ UNCHANGED L

Quiesce ==
  /\ Quiescent(K) /\ E.qat # K.nh + 1
  /\ E' = [E EXCEPT !.qat = K.nh + 1]
  /\ Feed([ev |-> "quiescent", isset |-> L.flag, waiting |-> Len(L.waiters)])
  /\ UNCHANGED <<K, L, hist>>

Start == K.cycle = 0 /\ K.ready = <<>> /\ K.nh = 0 /\ \A t \in Task : K.T[t].st = "unborn"

Next ==
  \/ /\ Start /\ E.qat = 0 /\ K' = Boot /\ UNCHANGED <<L, E, hist, pst, pbad>>
  \/ (~Start /\ Cycle)
  \/ RunHandle
  \/ \E t \in Task : ClientInit(t) \/ ClientChoose(t) \/ ClientRet(t) \/ ClientFin(t) \/ LibStep(t)
  \/ \E t \in Task : EnvCancel(t) \/ EnvNative(t)
  \/ (~Start /\ Quiesce)

Spec == Init /\ [][Next]_vars

PropertyHolds == pbad = {}
TypeOK == L.flag \in BOOLEAN /\ \A i \in DOMAIN L.waiters : L.waiters[i] \in Task
\* between handles nobody is still pending on a set event
NoPendingWaiterOnSetEvent ==
  (K.run = NONE /\ L.flag) => \A i \in DOMAIN L.waiters : K.T[L.waiters[i]].fut # "pending"
Residue == \A t \in Task : (K.T[t].st = "done" /\ t \notin E.natived) => K.T[t].nc = 0

Final == [isset |-> L.flag, waiting |-> Len(L.waiters), nh |-> K.nh,
          out |-> [t \in Task |-> IF K.T[t].st # "done" THEN "blocked" ELSE ResOf(K.T[t].out)],
          nc |-> [t \in Task |-> K.T[t].nc]]
EmitFinalAC == (E'.qat # E.qat) => PrintT(<<"@@F", ToJson([h |-> hist', fin |-> Final])>>)
EmitAC == /\ (hist' # hist) => PrintT(<<"@@H", ToJson(hist')>>)
          /\ EmitFinalAC
=============================================================================
