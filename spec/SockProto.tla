------------------------------ MODULE SockProto ------------------------------
(***************************************************************************)
(* C18.  The asyncio socket stream of anyio as a state machine:             *)
(*   StreamProtocol   (_backends/_asyncio.py:1253-1288)  read_queue,        *)
(*                    read_event, write_event, is_at_eof, exception         *)
(*   SocketStream     (:1325-1410)  receive / send / send_eof / aclose,     *)
(*                    _closed, the two ResourceGuards                       *)
(* at the granularity of one task step (from one await to the next).  The   *)
(* selector transport (pause / resume_reading, write with a zero write      *)
(* buffer limit, close / abort) is part of the machine exactly as far as    *)
(* the stream uses it; the kernel and the peer are environment actions:     *)
(*   Data(k)   k bytes arrive: data_received        PeerEof: eof_received   *)
(*   Drain(k)  the peer reads k bytes: the transport flushes its buffer and *)
(*             calls resume_writing when it is empty                         *)
(*   Reset     the connection breaks (closing, connection_lost(exc) due)    *)
(*   Lost      the pending connection_lost callback runs                    *)
(*   Cancel(t) native cancellation of the task inside a call                *)
(* (pause_writing is not an action of its own: the transport calls it       *)
(* synchronously inside write() when it could not pass everything to the    *)
(* kernel, limit 0.)                                                        *)
(*                                                                         *)
(* Bytes of the incoming stream are numbered from 0; a chunk is [s, n].     *)
(* Every observable event of a step is passed through the property-level    *)
(* observer P_Sock (side "A" = this endpoint, side "B", task 0 = the peer   *)
(* with a kernel of capacity 0 towards us and KCap away from us), so the    *)
(* clauses InOrderNoLossNoDup, ChunkSize, BusyResource, the closed /       *)
(* end-of-stream rules and BackPressure are checked on the model by the     *)
(* same operators that judge traces of the real code.                       *)
(***************************************************************************)
EXTENDS P_Sock, TLC

CONSTANTS NT,            \* client tasks 1..NT
          Ops1, Ops2, Ops3,  \* calls each task may make: subsets of {"recv","send","close","eof"}
          MaxOps,        \* calls in total
          Total,         \* bytes the peer sends at most
          ChunkMax,      \* largest chunk one data_received delivers
          MaxBytesSet,   \* max_bytes values
          SendSizes,     \* sizes passed to send
          KCap,          \* capacity of the kernel buffers towards the peer
          PausedAtStart, \* TRUE: connect_tcp (transport paused at creation); FALSE: accept / from_socket
          EnvKinds,      \* subset of {"data","peof","drain","reset","cancel"}
          MaxEnv,        \* adversarial environment actions (reset, cancel) in total
          MaxBurst,      \* chunks the loop may deliver between a reader's wake-up and its next step
          Emit           \* record the history of actions (for replay)

VARIABLES pr,    \* protocol + stream: rq, rev, wgen, wset, eof, exc, closed, rg, sg
          tr,    \* transport: reading, closing, pend, lost, eofseen, buf, wpaused, weof
          env,   \* kernel / counters: fed, kroom, drained, burst, nenv, nops
          task,  \* per task: pc, op, arg, g
          hv,    \* observer: p, bad;  res = last result per task
          hist

vars == <<pr, tr, env, task, hv, hist>>
View == <<pr, tr, env, task, hv>>

Tasks == 1..NT
OpsOf(t) == CASE t = 1 -> Ops1 [] t = 2 -> Ops2 [] OTHER -> Ops3
Min(a, b) == IF a < b THEN a ELSE b

Par == [boundA |-> KCap, boundB |-> ChunkMax * (1 + MaxBurst),
        pausedA |-> IF PausedAtStart THEN 1 ELSE 0, pausedB |-> 1, protoA |-> 1, protoB |-> 1,
        deferA |-> 0, deferB |-> 0]

NoRes == [r |-> "none", off |-> 0, len |-> 0]
Idle == [pc |-> "idle", op |-> "none", arg |-> 0, g |-> 0]

Init ==
  /\ pr = [rq |-> <<>>, rev |-> FALSE, wgen |-> 0, wset |-> TRUE, eof |-> FALSE, exc |-> FALSE,
           closed |-> FALSE, rg |-> 0, sg |-> 0]
  /\ tr = [reading |-> ~PausedAtStart, closing |-> FALSE, pend |-> "none", lost |-> FALSE,
           eofseen |-> FALSE, buf |-> 0, wpaused |-> FALSE, weof |-> FALSE]
  /\ env = [fed |-> 0, kroom |-> KCap, drained |-> 0, burst |-> 0, nenv |-> 0, nops |-> 0]
  /\ task = [t \in Tasks |-> Idle]
  /\ hv = [p |-> SockP0(Par), bad |-> {}, res |-> [t \in Tasks |-> NoRes]]
  /\ hist = <<>>

H(a, t, k) == hist' = IF Emit THEN Append(hist, [a |-> a, t |-> t, k |-> k]) ELSE hist

\* asyncio.Event.set(): every waiter of that event object becomes runnable
Wake(tk, p) ==
  [t \in Tasks |->
     IF tk[t].pc = "r_wait" /\ p.rev THEN [tk[t] EXCEPT !.pc = "r_run"]
     ELSE IF tk[t].pc = "s_wait" /\ p.wset /\ tk[t].g = p.wgen THEN [tk[t] EXCEPT !.pc = "s_run"]
     ELSE tk[t]]

Observe(es, t, res) ==
  LET r == SockApplySeq(hv.p, es) IN
  hv' = [hv EXCEPT !.p = r.p, !.bad = @ \cup r.bad, !.res[t] = res]
ObserveEnv(es) ==
  LET r == SockApplySeq(hv.p, es) IN hv' = [hv EXCEPT !.p = r.p, !.bad = @ \cup r.bad]

RStart(t, mb) == [ev |-> "rstart", s |-> "A", t |-> t, mb |-> mb]
REnd(t, res, off, len) == [ev |-> "rend", s |-> "A", t |-> t, res |-> res, off |-> off, len |-> len, match |-> 1]
SStartE(t, n) == [ev |-> "sstart", s |-> "A", t |-> t, n |-> n]
SEnd(t, res) == [ev |-> "send", s |-> "A", t |-> t, res |-> res]
Res(r, off, len) == [r |-> r, off |-> off, len |-> len]

CanCall(t) == task[t].pc = "idle" /\ env.nops < MaxOps
Count == env' = [env EXCEPT !.nops = @ + 1]

(***************************************************************************)
(* receive(max_bytes), first step: guard, then either resume reading and    *)
(* wait for read_event, or a checkpoint.                                    *)
(***************************************************************************)
RCall(t, mb) ==
  /\ CanCall(t) /\ "recv" \in OpsOf(t)
  /\ Count /\ H("rcall", t, mb)
  /\ IF pr.rg # 0
     THEN /\ Observe(<<RStart(t, mb), REnd(t, "busy", 0, 0)>>, t, Res("busy", 0, 0))
          /\ UNCHANGED <<pr, tr, task>>
     ELSE /\ pr' = [pr EXCEPT !.rg = t]
          /\ Observe(<<RStart(t, mb)>>, t, NoRes)
          /\ IF ~pr.rev /\ ~tr.closing /\ ~pr.eof
             THEN /\ tr' = [tr EXCEPT !.reading = TRUE]          \* resume_reading()
                  /\ task' = [task EXCEPT ![t] = [pc |-> "r_wait", op |-> "recv", arg |-> mb, g |-> 0]]
             ELSE /\ tr' = tr
                  /\ task' = [task EXCEPT ![t] = [pc |-> "r_chk", op |-> "recv", arg |-> mb, g |-> 0]]

\* second step: (pause reading,) pop a chunk, split it, clear the event when the queue is empty
RStep(t) ==
  /\ task[t].pc \in {"r_run", "r_chk"}
  /\ H("step", t, 0)
  /\ tr' = IF task[t].pc = "r_run" /\ ~tr.closing THEN [tr EXCEPT !.reading = FALSE] ELSE tr
  /\ env' = IF task[t].pc = "r_run" THEN [env EXCEPT !.burst = 0] ELSE env
  /\ task' = [task EXCEPT ![t] = Idle]
  /\ IF pr.rq = <<>>
     THEN LET r == IF pr.closed THEN "closed" ELSE IF pr.exc THEN "broken" ELSE "eos" IN
          /\ pr' = [pr EXCEPT !.rg = 0]
          /\ Observe(<<REnd(t, r, 0, 0)>>, t, Res(r, 0, 0))
     ELSE LET c == Head(pr.rq)
              mb == task[t].arg
              n == Min(c.n, mb)
              rest == IF c.n > mb THEN <<[s |-> c.s + mb, n |-> c.n - mb]>> \o Tail(pr.rq)
                      ELSE Tail(pr.rq) IN
          /\ pr' = [pr EXCEPT !.rg = 0, !.rq = rest, !.rev = IF rest = <<>> THEN FALSE ELSE @]
          /\ Observe(<<REnd(t, "ok", c.s, n)>>, t, Res("ok", c.s, n))

(***************************************************************************)
(* send(n bytes): guard, checkpoint; then the closed / broken checks,       *)
(* transport.write() and the wait for the write event.                      *)
(***************************************************************************)
SCall(t, n) ==
  /\ CanCall(t) /\ "send" \in OpsOf(t) /\ ~tr.weof
  /\ Count /\ H("scall", t, n)
  /\ UNCHANGED tr
  /\ IF pr.sg # 0
     THEN /\ Observe(<<SStartE(t, n), SEnd(t, "busy")>>, t, Res("busy", 0, 0))
          /\ UNCHANGED <<pr, task>>
     ELSE /\ pr' = [pr EXCEPT !.sg = t]
          /\ Observe(<<SStartE(t, n)>>, t, NoRes)
          /\ task' = [task EXCEPT ![t] = [pc |-> "s_chk", op |-> "send", arg |-> n, g |-> 0]]

SFinish(t, r, p1) ==
  /\ pr' = [p1 EXCEPT !.sg = 0]
  /\ task' = [task EXCEPT ![t] = Idle]
  /\ Observe(<<SEnd(t, r)>>, t, Res(r, 0, 0))

SStep(t) ==
  /\ task[t].pc \in {"s_chk", "s_run"}
  /\ H("step", t, 0)
  /\ IF task[t].pc = "s_run" THEN SFinish(t, "ok", pr) /\ UNCHANGED <<tr, env>>
     ELSE IF pr.closed THEN SFinish(t, "closed", pr) /\ UNCHANGED <<tr, env>>
     ELSE IF pr.exc THEN SFinish(t, "broken", pr) /\ UNCHANGED <<tr, env>>
     ELSE IF tr.weof                                   \* write() after write_eof() raises RuntimeError,
     THEN SFinish(t, IF tr.closing THEN "broken" ELSE "error", pr) /\ UNCHANGED <<tr, env>>   \* mapped when closing
     ELSE IF tr.pend # "none" \/ tr.lost
     THEN \* connection_lost already scheduled: write() drops the data silently
          /\ UNCHANGED <<tr, env>>
          /\ IF pr.wset THEN SFinish(t, "ok", pr)
             ELSE /\ task' = [task EXCEPT ![t].pc = "s_wait", ![t].g = pr.wgen]
                  /\ UNCHANGED <<pr, hv>>
     ELSE LET n == task[t].arg
              m == IF tr.buf = 0 THEN Min(n, env.kroom) ELSE 0      \* passed to the kernel at once
              b == tr.buf + n - m
              pause == b > 0 /\ ~tr.wpaused                          \* pause_writing(): a NEW event
              p1 == IF pause THEN [pr EXCEPT !.wgen = @ + 1, !.wset = FALSE] ELSE pr IN
          /\ tr' = [tr EXCEPT !.buf = b, !.wpaused = @ \/ pause]
          /\ env' = [env EXCEPT !.kroom = @ - m]
          /\ IF p1.wset THEN SFinish(t, "ok", p1)
             ELSE /\ pr' = p1
                  /\ task' = [task EXCEPT ![t].pc = "s_wait", ![t].g = p1.wgen]
                  /\ UNCHANGED hv

(***************************************************************************)
(* aclose(): _closed, write_eof, close; one yield; abort.   send_eof().     *)
(***************************************************************************)
CCall(t) ==
  /\ CanCall(t) /\ "close" \in OpsOf(t)
  /\ Count /\ H("ccall", t, 0)
  /\ pr' = [pr EXCEPT !.closed = TRUE]
  /\ Observe(<<[ev |-> "close", s |-> "A"]>>, t, NoRes)
  /\ IF tr.closing
     THEN UNCHANGED <<tr, task>>
     ELSE /\ tr' = [tr EXCEPT !.weof = TRUE, !.closing = TRUE,
                              !.pend = IF tr.buf = 0 THEN "clean" ELSE @]
          /\ task' = [task EXCEPT ![t] = [pc |-> "c_chk", op |-> "close", arg |-> 0, g |-> 0]]

CStep(t) ==
  /\ task[t].pc = "c_chk"
  /\ H("step", t, 0)
  /\ tr' = IF tr.pend = "none" /\ ~tr.lost THEN [tr EXCEPT !.buf = 0, !.pend = "clean"] ELSE tr  \* abort()
  /\ task' = [task EXCEPT ![t] = Idle]
  /\ UNCHANGED <<pr, env, hv>>

EofCall(t) ==
  /\ CanCall(t) /\ "eof" \in OpsOf(t)
  /\ Count /\ H("eofcall", t, 0)
  /\ tr' = IF tr.closing \/ tr.weof THEN tr ELSE [tr EXCEPT !.weof = TRUE]
  /\ Observe(<<[ev |-> "eof", s |-> "A"]>>, t, NoRes)
  /\ UNCHANGED <<pr, task>>

\* a cancelled call: CancelledError is raised at the await, the guard is released on the way out
XStep(t) ==
  /\ task[t].pc = "cancel"
  /\ H("step", t, 0)
  /\ task' = [task EXCEPT ![t] = Idle]
  /\ UNCHANGED tr
  /\ env' = IF task[t].op = "recv" THEN [env EXCEPT !.burst = 0] ELSE env
  /\ IF task[t].op = "recv"
     THEN /\ pr' = [pr EXCEPT !.rg = 0]
          /\ Observe(<<REnd(t, "cancelled", 0, 0)>>, t, Res("cancelled", 0, 0))
     ELSE /\ pr' = [pr EXCEPT !.sg = 0]
          /\ Observe(<<SEnd(t, "cancelled")>>, t, Res("cancelled", 0, 0))

Step(t) == RStep(t) \/ SStep(t) \/ CStep(t) \/ XStep(t)

(***************************************************************************)
(* Environment.                                                             *)
(***************************************************************************)
\* a receive call that has been woken (or cancelled) and has not run yet
Woken == \E t \in Tasks : task[t].op = "recv" /\ task[t].pc \in {"r_run", "cancel"}

Data(k) ==
  /\ "data" \in EnvKinds
  /\ tr.reading /\ ~tr.closing /\ ~tr.eofseen
  /\ env.fed + k <= Total
  /\ ~Woken \/ env.burst < MaxBurst
  /\ H("data", 0, k)
  /\ LET p1 == [pr EXCEPT !.rq = Append(@, [s |-> env.fed, n |-> k]), !.rev = TRUE] IN
     /\ pr' = p1
     /\ task' = Wake(task, p1)
  /\ env' = [env EXCEPT !.fed = @ + k, !.burst = IF Woken THEN @ + 1 ELSE 0]
  /\ ObserveEnv(<<[ev |-> "sstart", s |-> "B", t |-> 0, n |-> k],
                  [ev |-> "send", s |-> "B", t |-> 0, res |-> "ok"]>>)
  /\ UNCHANGED tr

PeerEof ==
  /\ "peof" \in EnvKinds
  /\ tr.reading /\ ~tr.closing /\ ~tr.eofseen
  /\ H("peof", 0, 0)
  /\ LET p1 == [pr EXCEPT !.eof = TRUE, !.rev = TRUE] IN
     /\ pr' = p1
     /\ task' = Wake(task, p1)
  /\ tr' = [tr EXCEPT !.eofseen = TRUE]
  /\ ObserveEnv(<<[ev |-> "eof", s |-> "B"]>>)
  /\ UNCHANGED env

\* the peer reads k bytes; the transport's write handler moves buffered bytes into the kernel
Drain(k) ==
  /\ "drain" \in EnvKinds
  /\ k <= KCap - env.kroom
  /\ H("drain", 0, k)
  /\ LET room == env.kroom + k
         flush == tr.buf > 0 /\ tr.pend = "none" /\ ~tr.lost
         m == IF flush THEN Min(tr.buf, room) ELSE 0
         b == tr.buf - m
         resume == flush /\ b = 0 /\ tr.wpaused
         p1 == IF resume THEN [pr EXCEPT !.wset = TRUE] ELSE pr IN
     /\ env' = [env EXCEPT !.kroom = room - m, !.drained = @ + k]
     /\ tr' = [tr EXCEPT !.buf = b, !.wpaused = IF resume THEN FALSE ELSE @,
                         !.pend = IF flush /\ b = 0 /\ tr.closing THEN "clean" ELSE @]
     /\ pr' = p1
     /\ task' = Wake(task, p1)
  /\ ObserveEnv(<<[ev |-> "rstart", s |-> "B", t |-> 0, mb |-> k],
                  [ev |-> "rend", s |-> "B", t |-> 0, res |-> "ok", off |-> env.drained, len |-> k,
                   match |-> 1]>>)

Adversary == env.nenv < MaxEnv

Reset ==
  /\ "reset" \in EnvKinds /\ Adversary
  /\ ~tr.closing /\ ~tr.lost
  /\ H("reset", 0, 0)
  /\ tr' = [tr EXCEPT !.closing = TRUE, !.pend = "err", !.buf = 0]
  /\ env' = [env EXCEPT !.nenv = @ + 1]
  /\ ObserveEnv(<<[ev |-> "reset"]>>)
  /\ UNCHANGED <<pr, task>>

Lost ==
  /\ tr.pend # "none" /\ ~tr.lost
  /\ H("lost", 0, 0)
  /\ LET p1 == [pr EXCEPT !.exc = @ \/ tr.pend = "err", !.rev = TRUE, !.wset = TRUE] IN
     /\ pr' = p1
     /\ task' = Wake(task, p1)
  /\ tr' = [tr EXCEPT !.lost = TRUE, !.pend = "none"]
  /\ UNCHANGED <<env, hv>>

Cancel(t) ==
  /\ "cancel" \in EnvKinds /\ Adversary
  /\ task[t].pc \in {"r_wait", "r_run", "r_chk", "s_chk", "s_wait", "s_run"}
  /\ H("cancel", t, 0)
  /\ task' = [task EXCEPT ![t].pc = "cancel"]
  /\ env' = [env EXCEPT !.nenv = @ + 1]
  /\ ObserveEnv(<<[ev |-> "creq", s |-> "A", t |-> t]>>)
  /\ UNCHANGED <<pr, tr>>

PeerProgress == (\E k \in 1..ChunkMax : Data(k)) \/ PeerEof
PeerReads == \E k \in 1..KCap : Drain(k)

Next ==
  \/ \E t \in Tasks :
        \/ \E mb \in MaxBytesSet : RCall(t, mb)
        \/ \E n \in SendSizes : SCall(t, n)
        \/ CCall(t) \/ EofCall(t) \/ Step(t) \/ Cancel(t)
  \/ PeerProgress \/ PeerReads \/ Reset \/ Lost

Spec == Init /\ [][Next]_vars

\* a fair loop, a kernel that keeps delivering and a peer that keeps reading and finally sends EOF
FairSpec == /\ Spec
            /\ \A t \in Tasks : WF_vars(Step(t))
            /\ WF_vars(Lost) /\ WF_vars(PeerProgress) /\ WF_vars(PeerReads)

(***************************************************************************)
(* Clauses.                                                                 *)
(***************************************************************************)
QBytes == LET F[i \in 0..Len(pr.rq)] == IF i = 0 THEN 0 ELSE F[i - 1] + pr.rq[i].n IN F[Len(pr.rq)]
InRecv == {t \in Tasks : task[t].op = "recv" /\ task[t].pc # "idle"}
InSend == {t \in Tasks : task[t].op = "send" /\ task[t].pc # "idle"}
LeakPossible == ~PausedAtStart \/ "cancel" \in EnvKinds

TypeOK ==
  /\ pr.rg \in 0..NT /\ pr.sg \in 0..NT /\ pr.wgen \in 0..MaxOps
  /\ \A i \in DOMAIN pr.rq : pr.rq[i].n >= 1
  /\ tr.buf >= 0 /\ env.kroom \in 0..KCap /\ tr.pend \in {"none", "clean", "err"}
  /\ \A t \in Tasks : task[t].pc \in {"idle", "r_wait", "r_run", "r_chk", "s_chk", "s_wait", "s_run",
                                       "c_chk", "cancel"}

\* every clause of the property-level observer holds on every behaviour of the machine (the known
\* finding F10 excepted where the configuration makes it reachable)
PropertyHolds == hv.bad \subseteq (IF LeakPossible THEN {"UnboundedBufferingWhileNotReceiving"} ELSE {})
PropertyHoldsStrict == hv.bad = {}

\* BusyResource: the guards admit one task per direction, and exactly the tasks inside hold them
GuardsExact ==
  /\ InRecv = (IF pr.rg = 0 THEN {} ELSE {pr.rg})
  /\ InSend = (IF pr.sg = 0 THEN {} ELSE {pr.sg})

\* the queue holds a contiguous piece of the stream, in order, ending at the last byte fed
QueueContiguous ==
  /\ \A i \in 1..(Len(pr.rq) - 1) : pr.rq[i].s + pr.rq[i].n = pr.rq[i + 1].s
  /\ pr.rq # <<>> => pr.rq[Len(pr.rq)].s + pr.rq[Len(pr.rq)].n = env.fed
  /\ hv.p.received["B"] + QBytes = env.fed

\* data queued => the event is set: a receive call never waits while data is available
QueuedImpliesEvent == pr.rq # <<>> => pr.rev

\* ReceiveNeverBlocksWhenClosed / no lost wake-up: a waiting task always has a pending source of
\* its wake-up (the transport is reading, a connection_lost is due, the buffer is being flushed)
LostDue == tr.pend # "none" \/ \E t \in Tasks : task[t].pc = "c_chk"    \* abort() is still to come
WaitersCanBeWoken ==
  \A t \in Tasks :
    /\ task[t].pc = "r_wait" => /\ ~pr.rev
                                /\ (tr.reading /\ ~tr.closing /\ ~tr.eofseen) \/ LostDue
    /\ (task[t].pc = "r_wait" /\ pr.closed) => LostDue
    /\ task[t].pc = "s_wait" => /\ task[t].g = pr.wgen /\ ~pr.wset
                                /\ tr.buf > 0 \/ LostDue

\* a receive call on a closed stream never starts to wait
NeverWaitsOnceClosed == \A t \in Tasks : (task[t].pc = "r_wait" /\ pr.closed) => tr.closing

\* the transport reads only while a receive call waits - or the observer knows about the leak (F10)
ReadingOnlyInsideReceive ==
  (tr.reading /\ ~tr.closing /\ ~tr.eofseen
     /\ ~\E t \in Tasks : task[t].op = "recv" /\ task[t].pc \in {"r_wait", "r_run", "cancel"})
  => hv.p.leak["A"]

\* the user-space queue is bounded when there is no leak ...
BackPressure == ~hv.p.leak["A"] => QBytes <= ChunkMax * (1 + MaxBurst)
\* ... and unbounded when there is one: violated for PausedAtStart = FALSE or with Cancel (F10)
BackPressureStrict == QBytes <= ChunkMax * (1 + MaxBurst)

\* zero write-buffer limit: while anything is left in the user-space buffer (of a send call in
\* progress or of a cancelled one) the write gate is shut, so the next send call waits as well
WriteGateShutWhileBuffered == (tr.buf > 0 /\ ~tr.closing) => (tr.wpaused /\ ~pr.wset)

Live ==
  /\ \A t \in Tasks : (task[t].pc = "r_wait") ~> (task[t].pc # "r_wait")
  /\ \A t \in Tasks : (task[t].pc = "s_wait") ~> (task[t].pc # "s_wait")
=============================================================================
