------------------------------- MODULE P_Tls -------------------------------
(***************************************************************************)
(* Property-level observer for anyio.streams.tls.TLSStream (property C17). *)
(*                                                                         *)
(* Two TLSStream objects ("c" = client, "s" = server) talk over a          *)
(* transport that the environment controls.  The observer sees             *)
(*   - what the application does on either stream and what it gets back    *)
(*     (start / end of wrap, send, receive, aclose), and                   *)
(*   - what crosses the transport (the ground truth the clauses are judged *)
(*     against): bytes handed to the transport, bytes handed out by it,    *)
(*     end-of-file handed out by it, calls of transport.receive().         *)
(* Lengths are plain numbers: abstract units in the model (TlsPump), bytes *)
(* in traces recorded from the real library.                               *)
(*                                                                         *)
(* Events (s = side):                                                      *)
(*  [ev="start",s,op,n]   op in {"wrap","send","recv","close"}; n = length *)
(*                        of the payload (send) / max_bytes (recv)         *)
(*  [ev="end",s,op,res,n,max,match,pending]                                *)
(*        res: "ok" | "data" (recv returned n bytes; match = they equal    *)
(*        the next n bytes the peer wrote) | "eos" (EndOfStream) |         *)
(*        "broken" (BrokenResourceError) | "closed" (ClosedResourceError)  *)
(*        | "other" (any other exception); pending = bytes left in the     *)
(*        outgoing BIO when the call returned                              *)
(*  [ev="tsend",s,n]      the stream of s called transport.send(n bytes)   *)
(*  [ev="trecv",s,pending] the stream of s called transport.receive()      *)
(*        while `pending` bytes sat in its outgoing BIO                    *)
(*  [ev="tdl",s,n]        the transport handed n bytes to s                *)
(*  [ev="teof",s]         the transport reported end-of-file to s          *)
(*  [ev="tclose",s]       s closed its end of the transport                *)
(*  [ev="stall"]          nothing can move: every live side waits in       *)
(*                        transport.receive() and nothing is in flight     *)
(*  [ev="hang",s]         s neither returned nor waited for the transport  *)
(*                                                                         *)
(* The peer's closing handshake is what the peer's stream hands to the     *)
(* transport while its aclose() runs (the close_notify alert); it has      *)
(* reached side x when every byte up to its end has been handed to x.      *)
(* The end of a stream is observed as often as the application asks: every *)
(* receive() after the first one that raised is judged by the same clauses *)
(* (the verdict is stable: EndStable), and no exception other than anyio's *)
(* EndOfStream / BrokenResourceError / ClosedResourceError may escape from *)
(* receive(), from send(), or from the aclose() that follows a clean end   *)
(* (NoUnexpectedException).  A send() may fail only after the side's own   *)
(* receive() has reported the end.                                         *)
(* Everything the statement of C17 is silent about is accepted: the result *)
(* of aclose() of a stream whose end was not observed, how much data       *)
(* precedes a reported truncation, how a receive splits the data of a      *)
(* record, which of anyio's exceptions a send() after the end raises.      *)
(* NOT observed (pinned tree, see notes/finding_C17.md): the result of     *)
(* aclose() of a standard_compatible stream AFTER a reported truncation -  *)
(* SSLObject.unwrap() on the dead engine raises ssl.SSLError               *)
(* (SHUTDOWN_WHILE_IN_INIT), which aclose() lets through.                  *)
(***************************************************************************)
EXTENDS Naturals, Sequences, FiniteSets

TPeer(x) == IF x = "c" THEN "s" ELSE "c"
TSides == {"c", "s"}
TNames(r) == {n \in DOMAIN r : ~r[n]}
TZero == [c |-> 0, s |-> 0]
TNo == [c |-> FALSE, s |-> FALSE]

TlsP0(scc, scs) ==
  [sc |-> [c |-> scc, s |-> scs],   \* standard_compatible of either stream
   sentstart |-> TZero,             \* plaintext passed to send() calls that started
   sentok |-> TZero,                \* plaintext of send() calls that returned
   delivered |-> TZero,             \* plaintext returned by receive()
   tsent |-> TZero,                 \* ciphertext handed to the transport by the side
   tdelivered |-> TZero,            \* ciphertext handed to the side by the transport
   cnend |-> TZero,                 \* end (in tsent) of the side's closing handshake, 0 = none
   teof |-> TNo,                    \* the transport reported end-of-file to the side
   parked |-> TNo,                  \* the side waits in transport.receive()
   op |-> [c |-> "new", s |-> "new"],
   ended |-> TNo,                   \* the side's receive() has raised
   endres |-> [c |-> "", s |-> ""]] \* ... with this result (the first time)

\* the peer's closing handshake has completely reached x
CnIn(p, x) == p.cnend[TPeer(x)] > 0 /\ p.tdelivered[x] >= p.cnend[TPeer(x)]

\* wrap() or receive() of x raised `res`
EndClauses(p, x, op, res) ==
  LET cn == CnIn(p, x) IN
  [CleanCloseIsEndOfStream |-> cn => res = "eos",
   CleanEndAfterAllData |-> (cn /\ op = "recv" /\ res = "eos") => p.delivered[x] = p.sentok[TPeer(x)],
   TruncationIsBroken |-> (~cn /\ p.teof[x] /\ p.sc[x]) => res = "broken",
   TruncationIsEndOfStreamWhenNotStandard |-> (~cn /\ p.teof[x] /\ ~p.sc[x]) => res = "eos",
   EndOnlyWhenTransportEnded |-> cn \/ p.teof[x],
   EndStable |-> (op = "recv" /\ p.ended[x]) => res = p.endres[x],
   NoUnexpectedException |-> op = "recv" => res # "other"]

\* nothing can move any more
StallClauses(p) ==
  LET allin(x) == p.parked[x] /\ ~p.teof[x] /\ p.tdelivered[x] = p.tsent[TPeer(x)] IN
  [NoStallWithPendingInput |->
     \A x \in TSides : allin(x) =>
        /\ ~CnIn(p, x) \/ p.op[x] = "close"     \* a received close_notify ends wrap/receive
        /\ p.op[x] = "recv" => p.delivered[x] = p.sentok[TPeer(x)],
   HandshakeProgress |-> ~(\A x \in TSides : allin(x) /\ p.op[x] = "wrap")]

TlsApply(p, e) ==
  CASE e.ev = "start" ->
         [p |-> [p EXCEPT !.op[e.s] = e.op,
                          !.sentstart[e.s] = IF e.op = "send" THEN @ + e.n ELSE @],
          bad |-> {}]
    [] e.ev = "end" /\ e.op = "wrap" ->
         IF e.res = "ok"
         THEN [p |-> [p EXCEPT !.op[e.s] = "idle"],
               bad |-> TNames([OutputFlushedOnReturn |-> e.pending = 0])]
         ELSE [p |-> [p EXCEPT !.op[e.s] = "done"], bad |-> TNames(EndClauses(p, e.s, "wrap", e.res))]
    [] e.ev = "end" /\ e.op = "send" ->
         IF e.res = "ok"
         THEN [p |-> [p EXCEPT !.op[e.s] = "idle", !.sentok[e.s] = @ + e.n],
               bad |-> TNames([OutputFlushedOnReturn |-> e.pending = 0])]
         ELSE \* only a stream whose receive() has reported the end may refuse to send
              [p |-> [p EXCEPT !.op[e.s] = "idle"],
               bad |-> TNames([SendSucceeds |-> p.ended[e.s],
                               NoUnexpectedException |-> e.res # "other"])]
    [] e.ev = "end" /\ e.op = "recv" ->
         IF e.res = "data"
         THEN LET cl == [Prefix |-> e.match /\ p.delivered[e.s] + e.n <= p.sentstart[TPeer(e.s)],
                         MaxBytes |-> e.n >= 1 /\ e.n <= e.max]
              IN [p |-> [p EXCEPT !.op[e.s] = "idle", !.delivered[e.s] = @ + e.n], bad |-> TNames(cl)]
         ELSE [p |-> [p EXCEPT !.op[e.s] = "idle", !.ended[e.s] = TRUE,
                               !.endres[e.s] = IF p.ended[e.s] THEN @ ELSE e.res],
               bad |-> TNames(EndClauses(p, e.s, "recv", e.res))]
    [] e.ev = "end" /\ e.op = "close" ->
         \* judged only after a clean end was observed (see the head of the module)
         [p |-> [p EXCEPT !.op[e.s] = "done"],
          bad |-> TNames([NoUnexpectedException |->
                            (p.ended[e.s] /\ CnIn(p, e.s)) => e.res # "other"])]
    [] e.ev = "tsend" ->
         LET t1 == p.tsent[e.s] + e.n IN
         [p |-> [p EXCEPT !.tsent[e.s] = t1,
                          !.cnend[e.s] = IF p.op[e.s] = "close" THEN t1 ELSE @],
          bad |-> {}]
    [] e.ev = "trecv" ->
         [p |-> [p EXCEPT !.parked[e.s] = TRUE],
          bad |-> TNames([PendingOutputFlushed |-> e.pending = 0,
                          NoReadAfterEOF |-> ~p.teof[e.s]])]
    [] e.ev = "tdl" ->
         [p |-> [p EXCEPT !.parked[e.s] = FALSE, !.tdelivered[e.s] = @ + e.n],
          bad |-> TNames([TransportSane |-> p.tdelivered[e.s] + e.n <= p.tsent[TPeer(e.s)]])]
    [] e.ev = "teof" -> [p |-> [p EXCEPT !.parked[e.s] = FALSE, !.teof[e.s] = TRUE], bad |-> {}]
    [] e.ev = "tclose" -> [p |-> p, bad |-> {}]
    [] e.ev = "stall" -> [p |-> p, bad |-> TNames(StallClauses(p))]
    [] e.ev = "hang" -> [p |-> p, bad |-> {"Progress"}]
    [] OTHER -> [p |-> p, bad |-> {"UnknownEvent"}]

\* a sequence of events; stops at the first event that violates a clause
RECURSIVE TlsApplySeq(_, _)
TlsApplySeq(p, es) ==
  IF es = <<>> THEN [p |-> p, bad |-> {}]
  ELSE LET r == TlsApply(p, Head(es)) IN
       IF r.bad # {} THEN r ELSE TlsApplySeq(r.p, Tail(es))
=============================================================================
