CONSTANTS
  NT = 3
  INF = 99
  Ops = {"acq", "nowait", "rel", "yield"}
  MaxOps = 3
  MaxEnv = 2
  Fast = FALSE
  EnvKinds = {"cancel", "native"}
SPECIFICATION Spec
VIEW View
INVARIANT PropertyHolds
INVARIANT TypeOK
INVARIANT NoDuplicateWaiters
INVARIANT NoLiveWaiterOnFreeLock
INVARIANT OwnerAlive
INVARIANT NoDeadWaiters
INVARIANT Residue
CHECK_DEADLOCK FALSE
