------------------------------ MODULE AioThreads ------------------------------
(***************************************************************************)
(* Implementation-shaped model of anyio.to_thread.run_sync on the asyncio  *)
(* backend:                                                                *)
(*   AsyncIOBackend.run_sync_in_worker_thread  _asyncio.py:2590-2647       *)
(*   WorkerThread (run, _report_result)        _asyncio.py:988-1068        *)
(*   check_cancelled / run_async_from_thread / run_sync_from_thread        *)
(*                                             _asyncio.py:2649-2721       *)
(*   CapacityLimiter.acquire/release           _asyncio.py:2107-2165       *)
(*   CancelScope cancel/_deliver_cancellation/__exit__ (the parts that     *)
(*   matter for one task per scope)            _asyncio.py:422-665         *)
(*                                                                         *)
(* Granularity: one step per critical section.  The event-loop thread is a *)
(* FIFO queue `ready` of handles; running the head handle to its next      *)
(* suspension point is one step (asyncio runs handles one at a time, in    *)
(* call_soon order).  Every worker thread is a process of its own whose    *)
(* steps (take an item, pass the gate, act, post the report) interleave    *)
(* arbitrarily with the loop's; call_soon_threadsafe appends a handle at   *)
(* the moment the thread step happens, i.e. at an arbitrary position of    *)
(* the loop's work.                                                        *)
(*                                                                         *)
(* The state is ONE record s; the operators below are functions from state *)
(* to state, so that the pieces of one critical section compose.  The      *)
(* field s.ev collects the observable events of a step (see P_ThreadPool). *)
(*                                                                         *)
(* Callers.  Caller c is the task                                          *)
(*     with CancelScope(shield=cfg[c].osh) as O_c:   (the scope the        *)
(*         var.set(10+c)                   environment cancels; its shield *)
(*                                         changes nothing here - nothing  *)
(*                                         above O_c is ever cancelled -   *)
(*                                         but a scope that is shielded    *)
(*                                         AND cancelled is what the walks *)
(*                                         of check_cancelled and of the   *)
(*                                         delivery must get right)        *)
(*         [O_c.cancel() if cfg[c].pre]                                    *)
(*         r = await to_thread.run_sync(f_c, abandon_on_cancel=cfg[c].ab,  *)
(*                                      limiter=L)                         *)
(*         await checkpoint()                                              *)
(* Thread functions f_c: log, wait for gate c, then by cfg[c].kind         *)
(*   "ret"    return 20+c            "raise"  raise exception 30+c         *)
(*   "rsync"  return from_thread.run_sync(g_c)      (g_c returns 40+c)     *)
(*   "rasync" return from_thread.run(r_c)  (r_c: checkpoint; return 50+c)  *)
(*   "cc"     try check_cancelled() -> return 60 + (1 if it raised)        *)
(*                                                                         *)
(* Deliberate deviations: MAX_IDLE_TIME pruning is not modelled (no time   *)
(* passes); Task.uncancel() bookkeeping is not modelled (the callers never *)
(* look at it); the loop is never closed while threads run.                *)
(***************************************************************************)
EXTENDS Naturals, Sequences, FiniteSets

CONSTANTS NC,        \* number of calls
          Total      \* tokens of the limiter

Calls == 1..NC
Workers == 1..NC     \* one worker is created per dispatch at most

H(k, c) == [k |-> k, c |-> c, w |-> 0]
HRep(w, c) == [k |-> "report", c |-> c, w |-> w]
Push(s, h) == [s EXCEPT !.ready = Append(@, h)]
Emit(s, e) == [s EXCEPT !.ev = Append(@, e)]
SeqRemove(q, x) == SelectSeq(q, LAMBDA y : y # x)

Init0(cfg) ==
  [cfg |-> cfg,
   ready |-> [i \in 1..NC |-> H("step", i)],   \* TaskGroup.start_soon in order
   ev |-> <<>>,
   \* caller task
   pc |-> [c \in Calls |-> "start"],
   mc |-> [c \in Calls |-> FALSE],             \* Task._must_cancel
   fut |-> [c \in Calls |-> "none"],           \* the future the task awaits: pending/result/cancelled
   handed |-> [c \in Calls |-> FALSE],         \* limiter wait: event.is_set()
   inS |-> [c \in Calls |-> FALSE],            \* inside the scope S_c of run_sync_in_worker_thread
   shd |-> [c \in Calls |-> FALSE],            \* the task's innermost scope is shielded
   var |-> [c \in Calls |-> 0],                \* the caller's context variable
   cres |-> [c \in Calls |-> [out |-> "none", val |-> 0]],   \* result stored in the future
   \* outer scope O_c
   oc |-> [c \in Calls |-> FALSE],             \* _cancel_called
   oh |-> [c \in Calls |-> FALSE],             \* _cancel_handle is not None
   \* limiter
   bor |-> {}, lq |-> <<>>,
   \* worker pool
   idle |-> <<>>, nw |-> 0,
   wq |-> [w \in Workers |-> <<>>],            \* WorkerThread.queue
   wcur |-> [w \in Workers |-> 0],             \* the call whose function the thread executes
   \* thread function
   fpc |-> [c \in Calls |-> "none"],           \* none/gate/cbwait/cbdone/fin/rep
   gate |-> [c \in Calls |-> FALSE],
   ictx |-> [c \in Calls |-> 0],               \* the copied context travelling with the item
   fres |-> [c \in Calls |-> [out |-> "none", val |-> 0]],
   cb |-> [c \in Calls |-> [res |-> "none", val |-> 0]],
   \* the task that from_thread.run creates
   rst |-> [c \in Calls |-> "none"],           \* none/new/cp/done
   rmc |-> [c \in Calls |-> FALSE]]

Ab(s, c) == s.cfg[c].ab
Kind(s, c) == s.cfg[c].kind

(***************************************************************************)
(* CancelScope._deliver_cancellation(origin = O_c)       _asyncio.py:581   *)
(* O_c._tasks holds the caller task unless it sits in a child scope; the   *)
(* walk descends into child scopes that are not shielded (S_c when         *)
(* abandon_on_cancel).  The task created by from_thread.run is registered  *)
(* in worker_scope (:2641-2644, :2672): O_c, or S_c when abandon_on_cancel *)
(* - reachable from O_c only while S_c is still a child of O_c.            *)
(* cur: the caller task is the current task (cancel() / __exit__ called by *)
(* the task itself): it is skipped but keeps the retry alive.              *)
(***************************************************************************)
TReach(s, c) == s.pc[c] \notin {"start", "done"} /\ ~s.shd[c]
RReach(s, c) == s.rst[c] = "cp" /\ (~Ab(s, c) \/ s.inS[c])

Deliver(s, c, cur) ==
  LET tr == TReach(s, c)
      rr == RReach(s, c)
      s1 == IF tr /\ ~s.mc[c] /\ ~cur
            THEN IF s.pc[c] \in {"lwait", "fwait"}
                 THEN IF s.fut[c] = "pending"      \* task.cancel() cancels the awaited future
                      THEN Push([s EXCEPT !.fut[c] = "cancelled"], H("step", c))
                      ELSE s                         \* waiter.done(): skipped, retried (:606)
                 ELSE [s EXCEPT !.mc[c] = TRUE]      \* in sleep(0): _must_cancel
            ELSE s
      s2 == IF rr /\ ~s1.rmc[c] THEN [s1 EXCEPT !.rmc[c] = TRUE] ELSE s1
  IN IF tr \/ rr
     THEN [Push(s2, H("deliver", c)) EXCEPT !.oh[c] = TRUE]
     ELSE [s2 EXCEPT !.oh[c] = FALSE]

\* CancelScope._restart_cancellation_in_parent (:631) as called from the __exit__ of a scope
\* whose parent is O_c, by the caller task itself
Restart(s, c) == IF s.oc[c] /\ ~s.oh[c] THEN Deliver(s, c, TRUE) ELSE s

(***************************************************************************)
(* CapacityLimiter                                                         *)
(***************************************************************************)
\* _notify_next_waiter (:2107): hand a free token to the head of the queue
Notify(s) ==
  IF s.lq # <<>> /\ Cardinality(s.bor) < Total
  THEN LET d == Head(s.lq)
           s1 == [s EXCEPT !.bor = @ \cup {d}, !.lq = Tail(@), !.handed[d] = TRUE]
       IN IF s.fut[d] = "pending"                 \* Event.set() skips a cancelled waiter future
          THEN Push([s1 EXCEPT !.fut[d] = "result"], H("step", d))
          ELSE s1
  ELSE s
\* release_on_behalf_of (:2157)
Release(s, c) == Notify([s EXCEPT !.bor = @ \ {c}])

(***************************************************************************)
(* The caller task, one operator per resumption                            *)
(***************************************************************************)
\* run_sync returned / raised into the harness coroutine
EndCall(s, c, out, val) ==
  LET s1 == Emit(s, [ev |-> "ret", c |-> c, out |-> out, val |-> val])
  IN IF out = "cancelled"
     THEN [s1 EXCEPT !.pc[c] = "done", !.mc[c] = FALSE]    \* re-raised; O_c swallows it; task done
     ELSE Push([s1 EXCEPT !.pc[c] = "cpN"], H("step", c))   \* await checkpoint(): sleep(0)

\* `with CancelScope(shield=not abandon_on_cancel)`, pick a worker, queue.put_nowait, await future
\* (:2612-2647; no suspension point in between)
Dispatch(s, c) ==
  LET s1 == [s EXCEPT !.inS[c] = TRUE, !.shd[c] = ~Ab(s, c), !.fut[c] = "pending",
                      !.pc[c] = "fwait", !.ictx[c] = s.var[c]]     \* copy_context()
  IN IF s1.idle = <<>>
     THEN LET w == s1.nw + 1 IN [s1 EXCEPT !.nw = w, !.wq[w] = Append(@, c)]
     ELSE LET w == s1.idle[Len(s1.idle)]                            \* idle_workers.pop(): LIFO
          IN [s1 EXCEPT !.idle = SubSeq(@, 1, Len(@) - 1), !.wq[w] = Append(@, c)]

\* acquire_on_behalf_of (:2131): checkpoint_if_cancelled, then the fast path or the queue
Acquire(s, c) ==
  IF s.oc[c]                                       \* checkpoint_if_cancelled: await sleep(0), re-test
  THEN Push([s EXCEPT !.pc[c] = "cic"], H("step", c))
  ELSE IF s.lq = <<>> /\ Cardinality(s.bor) < Total
       THEN \* token taken; cancel_shielded_checkpoint: a shielded scope around sleep(0)
            Push([s EXCEPT !.bor = @ \cup {c}, !.shd[c] = TRUE, !.pc[c] = "acqcp"], H("step", c))
       ELSE [s EXCEPT !.lq = Append(@, c), !.fut[c] = "pending", !.handed[c] = FALSE,
                      !.pc[c] = "lwait"]

StepCaller(s, c) ==
  CASE s.pc[c] = "start" ->
         LET s1 == Emit([s EXCEPT !.var[c] = 10 + c, !.pc[c] = "cp0"],
                        [ev |-> "call", c |-> c, ab |-> IF Ab(s, c) THEN 1 ELSE 0,
                         kind |-> Kind(s, c)])
             s2 == IF s.cfg[c].pre
                   THEN Deliver(Emit([s1 EXCEPT !.oc[c] = TRUE], [ev |-> "creq", c |-> c]), c, TRUE)
                   ELSE s1
         IN Push(s2, H("step", c))                  \* await cls.checkpoint() (:2598)
    [] s.pc[c] \in {"cp0", "cic"} ->
         IF s.mc[c] THEN EndCall(s, c, "cancelled", 0) ELSE Acquire(s, c)
    [] s.pc[c] = "acqcp" ->
         \* leave the shielded scope of cancel_shielded_checkpoint, then enter S_c and dispatch
         Dispatch(Restart([s EXCEPT !.shd[c] = FALSE], c), c)
    [] s.pc[c] = "lwait" ->
         IF s.fut[c] = "cancelled"
         THEN LET s1 == [s EXCEPT !.lq = SeqRemove(@, c), !.fut[c] = "none"]
                  s2 == IF s.handed[c] THEN Release(s1, c) ELSE s1       \* :2140-2146
              IN EndCall(s2, c, "cancelled", 0)
         ELSE Dispatch(s, c)
    [] s.pc[c] = "fwait" ->
         \* S_c.__exit__ (task back into O_c, restart a held-back cancellation), limiter.__aexit__
         LET s1 == Restart([s EXCEPT !.inS[c] = FALSE, !.shd[c] = FALSE], c)
             s2 == Release(s1, c)
         IN IF s.fut[c] = "cancelled"
            THEN EndCall(s2, c, "cancelled", 0)
            ELSE EndCall(s2, c, s.cres[c].out, s.cres[c].val)
    [] s.pc[c] = "cpN" ->
         Emit([s EXCEPT !.pc[c] = "done", !.mc[c] = FALSE],
              [ev |-> "cp", c |-> c, res |-> IF s.mc[c] THEN "cancelled" ELSE "ok"])
    [] OTHER -> s

(***************************************************************************)
(* Handles posted by threads                                               *)
(***************************************************************************)
\* WorkerThread._report_result (:1012)
Report(s, w, c) ==
  LET s1 == [s EXCEPT !.idle = Append(@, w)]
  IN IF s.fut[c] = "pending"
     THEN Push([s1 EXCEPT !.fut[c] = "result", !.cres[c] = s.fres[c]], H("step", c))
     ELSE s1                                        \* future.cancelled(): the outcome is dropped

\* run_sync_from_thread.wrapper (:2704): g_c runs on the loop thread
RunSyncCb(s, c) == [s EXCEPT !.cb[c] = [res |-> "ok", val |-> 40 + c], !.fpc[c] = "cbdone"]

\* run_coroutine_threadsafe's callback: ensure_future(task_wrapper())
Spawn(s, c) == Push([s EXCEPT !.rst[c] = "new"], H("rstep", c))

\* task_wrapper (:2668): register in worker_scope, run r_c up to its checkpoint; then finish
RStep(s, c) ==
  IF s.rst[c] = "new"
  THEN Push([s EXCEPT !.rst[c] = "cp"], H("rstep", c))
  ELSE [s EXCEPT !.rst[c] = "done", !.fpc[c] = "cbdone",
                 !.cb[c] = IF s.rmc[c] THEN [res |-> "cancelled", val |-> 0]
                           ELSE [res |-> "ok", val |-> 50 + c]]

RunHandle(s) ==
  LET h == Head(s.ready)
      s0 == [s EXCEPT !.ready = Tail(@)]
  IN CASE h.k = "step" -> StepCaller(s0, h.c)
       [] h.k = "deliver" -> Deliver(s0, h.c, FALSE)
       [] h.k = "report" -> Report(s0, h.w, h.c)
       [] h.k = "rsync" -> RunSyncCb(s0, h.c)
       [] h.k = "spawn" -> Spawn(s0, h.c)
       [] h.k = "rstep" -> RStep(s0, h.c)

(***************************************************************************)
(* Worker threads                                                          *)
(***************************************************************************)
\* WorkerThread.run: queue.get(); `if not future.cancelled()` (:1033-1044)
PickupEnabled(s, w) == s.wq[w] # <<>> /\ s.wcur[w] = 0
Pickup(s, w) ==
  LET c == Head(s.wq[w])
      s1 == [s EXCEPT !.wq[w] = Tail(@)]
  IN IF s.fut[c] = "cancelled"
     THEN s1          \* skipped: nothing is reported, the worker never returns to idle_workers
     ELSE Emit([s1 EXCEPT !.wcur[w] = c, !.fpc[c] = "gate"],
               [ev |-> "fstart", c |-> c, ctx |-> s.ictx[c]])     \* context.run(func)

\* f_c passes its gate and acts
ActEnabled(s, c) == s.fpc[c] = "gate" /\ s.gate[c]
Act(s, c) ==
  CASE Kind(s, c) = "ret" -> [s EXCEPT !.fres[c] = [out |-> "v", val |-> 20 + c], !.fpc[c] = "fin"]
    [] Kind(s, c) = "raise" -> [s EXCEPT !.fres[c] = [out |-> "e", val |-> 30 + c], !.fpc[c] = "fin"]
    [] Kind(s, c) = "rsync" -> Push([s EXCEPT !.fpc[c] = "cbwait"], H("rsync", c))    \* :2720
    [] Kind(s, c) = "rasync" -> Push([s EXCEPT !.fpc[c] = "cbwait"], H("spawn", c))  \* :2691
    [] Kind(s, c) = "cc" ->
         \* check_cancelled (:2650) starts at worker_scope: O_c (parent of the shielded S_c), or
         \* S_c (never cancelled itself, not shielded) and then its parent O_c
         LET saw == IF s.oc[c] THEN 1 ELSE 0
         IN Emit([s EXCEPT !.fres[c] = [out |-> "v", val |-> 60 + saw], !.fpc[c] = "fin"],
                 [ev |-> "cc", c |-> c, saw |-> saw])

\* the concurrent future of the call-back is done: f.result() returns / raises in the thread
CbDoneEnabled(s, c) == s.fpc[c] = "cbdone"
CbDone(s, c) ==
  LET how == IF Kind(s, c) = "rsync" THEN "sync" ELSE "async"
      s1 == Emit(s, [ev |-> "cb", c |-> c, how |-> how, res |-> s.cb[c].res, val |-> s.cb[c].val])
  IN [s1 EXCEPT !.fpc[c] = "fin",
                !.fres[c] = IF s.cb[c].res = "ok" THEN [out |-> "v", val |-> s.cb[c].val]
                            ELSE [out |-> "e", val |-> 70 + c]]

\* f_c returns / raises; call_soon_threadsafe(_report_result) (:1045-1053); back to queue.get()
FinishEnabled(s, w) == s.wcur[w] # 0 /\ s.fpc[s.wcur[w]] = "fin"
Finish(s, w) ==
  LET c == s.wcur[w]
  IN Push(Emit([s EXCEPT !.wcur[w] = 0, !.fpc[c] = "rep"],
               [ev |-> "fend", c |-> c, out |-> s.fres[c].out, val |-> s.fres[c].val]),
          HRep(w, c))

ThreadEnabled(s) ==
  \/ \E w \in Workers : PickupEnabled(s, w) \/ FinishEnabled(s, w)
  \/ \E c \in Calls : ActEnabled(s, c) \/ CbDoneEnabled(s, c)

(***************************************************************************)
(* Environment                                                             *)
(***************************************************************************)
\* another task calls O_c.cancel() (:650) between two handles
CancelEnabled(s, c) == s.pc[c] \notin {"start", "done"} /\ ~s.oc[c]
Cancel(s, c) == Deliver(Emit([s EXCEPT !.oc[c] = TRUE], [ev |-> "creq", c |-> c]), c, FALSE)

OpenGate(s, c) == [s EXCEPT !.gate[c] = TRUE]

Quiescent(s) == s.ready = <<>> /\ ~ThreadEnabled(s)
AllOver(s) == (\A c \in Calls : s.gate[c]) /\ Quiescent(s)

(***************************************************************************)
(* Implementation-level invariants                                         *)
(***************************************************************************)
LimiterOK(s) == /\ Cardinality(s.bor) <= Total
                /\ \A i \in DOMAIN s.lq : s.lq[i] \notin s.bor
\* a worker is in at most one place; idle workers have no work
PoolOK(s) == /\ \A i, j \in DOMAIN s.idle : i # j => s.idle[i] # s.idle[j]
             /\ \A i \in DOMAIN s.idle : s.wq[s.idle[i]] = <<>> /\ s.wcur[s.idle[i]] = 0
             /\ s.nw <= NC
             /\ \A w \in Workers : Len(s.wq[w]) <= 1
\* a function that runs on behalf of a caller still bound to it holds a token
RunnerHoldsToken(s) ==
  \A w \in Workers : LET c == s.wcur[w] IN (c # 0 /\ s.pc[c] = "fwait") => c \in s.bor
\* when everything is over: no token is out, every caller is done, every created worker
\* that reported is idle again
FinalOK(s) == AllOver(s) => /\ s.bor = {} /\ s.lq = <<>>
                            /\ \A c \in Calls : s.pc[c] = "done"
                            /\ \A w \in Workers : s.wcur[w] = 0
=============================================================================
