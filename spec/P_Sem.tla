------------------------------- MODULE P_Sem -------------------------------
(***************************************************************************)
(* Property-level observer for anyio.Semaphore (property C10).             *)
(*                                                                         *)
(* avail = permits that exist and are not held: initial value, minus one   *)
(* per acquire that RETURNED, plus one per release that was accepted.      *)
(* A permit that release() hands directly to a queued waiter is still      *)
(* "free" for the observer until that waiter's acquire() returns, so the   *)
(* reported `value` may be lower than avail by at most the number of       *)
(* acquirers in progress, and must be equal when nobody is in progress.    *)
(*                                                                         *)
(* Events: [ev="start",t] [ev="end",t,res,value,waiting]                   *)
(*   [ev="nowait",t,res,value,waiting] [ev="rel",t,res,value,waiting]      *)
(*   [ev="creq",t] [ev="quiescent",value,waiting]                          *)
(***************************************************************************)
EXTENDS Naturals, Sequences, FiniteSets

SemP0(init, maxv) ==
  [avail |-> init, maxv |-> maxv, init |-> init, inprog |-> <<>>,
   obl |-> {},      \* FIFO obligations [s |-> set of overtaken acquirers, ok |-> how many of them may still return normally]
   over |-> FALSE,  \* a release was accepted although all max_value permits already existed (hand-off window)
   creq |-> {}]

PSeqRemove(s, x) == SelectSeq(s, LAMBDA y : y # x)
PSeqSet(s) == {s[i] : i \in DOMAIN s}
PBefore(s, x) == {s[i] : i \in {j \in DOMAIN s : \A k \in DOMAIN s : s[k] = x => j < k}}
PNames(r) == {n \in DOMAIN r : ~r[n]}

(* FIFO ("first come first served") for a counting primitive.  When acquirer u is granted a permit
   while the set Earlier of acquirers that called before it are still in progress, those are
   overtaken - except the g of them that already own a permit that is merely in hand-off (g = true
   free permits minus reported value).  So at most g members of Earlier may still return normally;
   the others must end in cancellation.  An obligation is violated when more members return. *)
OblAdd(obl, earlier, g) ==
  IF Cardinality(earlier) > g THEN obl \cup {[s |-> earlier, ok |-> g]} ELSE obl
OblOnOk(obl, t) ==       \* t returned normally
  {IF t \in o.s THEN [s |-> o.s \ {t}, ok |-> o.ok - 1] ELSE o : o \in obl}
OblViolated(obl, t) == \E o \in obl : t \in o.s /\ o.ok = 0
OblOnGone(obl, t) ==     \* t ended in cancellation / error
  {o2 \in {[s |-> o.s \ {t}, ok |-> o.ok] : o \in obl} : Cardinality(o2.s) > o2.ok}
Transit(avail, value) == IF avail > value THEN avail - value ELSE 0

SemObs(p, e) ==
  [ReportedValueNotAboveTrue |-> e.value <= p.avail,
   ReportedValueAccountsForHandOff |-> p.avail - e.value <= Len(p.inprog),
   WaitingCountTrue |-> e.waiting <= Len(p.inprog)]

SemApply0(p, e) ==
  CASE e.ev = "start" -> [p |-> [p EXCEPT !.inprog = Append(@, e.t)], bad |-> {}]
    [] e.ev = "end" /\ e.res = "ok" ->
         LET cl == [NeverOverGranted |-> p.avail > 0,
                    FifoNoOvertaking |-> ~OblViolated(p.obl, e.t)]
             a1 == IF p.avail > 0 THEN p.avail - 1 ELSE 0
             p1 == [p EXCEPT !.avail = a1,
                             !.obl = OblAdd(OblOnGone(OblOnOk(@, e.t), e.t),
                                            PBefore(p.inprog, e.t), Transit(a1, e.value)),
                             !.inprog = PSeqRemove(@, e.t)]
         IN [p |-> p1, bad |-> PNames(cl) \cup PNames(SemObs(p1, e))]
    [] e.ev = "end" /\ e.res = "cancelled" ->
         LET cl == [CancelWasRequested |-> e.t \in p.creq]
             p1 == [p EXCEPT !.inprog = PSeqRemove(@, e.t), !.obl = OblOnGone(@, e.t)]
         IN [p |-> p1, bad |-> PNames(cl) \cup PNames(SemObs(p1, e))]
    [] e.ev = "end" /\ e.res = "error" ->
         \* acquire() never raises anything but the cancellation.  Known finding F7 is classified by
         \* the observer itself: after an over-release in the hand-off window (p.over) a cancelled
         \* waiter's give-back raises ValueError out of acquire().
         [p |-> [p EXCEPT !.inprog = PSeqRemove(@, e.t), !.obl = OblOnGone(@, e.t)],
          bad |-> {"AcquireNeverFails"}]
    [] e.ev = "nowait" /\ e.res = "ok" ->
         LET cl == [NeverOverGranted |-> p.avail > 0]
             a1 == IF p.avail > 0 THEN p.avail - 1 ELSE 0
             p1 == [p EXCEPT !.avail = a1,
                             !.obl = OblAdd(@, PSeqSet(p.inprog), Transit(a1, e.value))]
         IN [p |-> p1, bad |-> PNames(cl) \cup PNames(SemObs(p1, e))]
    [] e.ev = "nowait" /\ e.res = "wouldblock" ->
         \* refused only when no permit is free for a newcomer: every free permit is in hand-off
         LET cl == [WouldBlockOnlyWhenNoneFree |-> p.avail <= Len(p.inprog)]
         IN [p |-> p, bad |-> PNames(cl) \cup PNames(SemObs(p, e))]
    [] e.ev = "rel" /\ e.res = "ok" ->
         LET cl == [ReleaseBeyondMaxRejected |->
                      p.maxv < 0 \/ p.avail < p.maxv \/ p.inprog # <<>>]
             p1 == [p EXCEPT !.avail = @ + 1,
                             !.over = @ \/ (p.maxv >= 0 /\ p.avail >= p.maxv)]
         IN [p |-> p1, bad |-> PNames(cl) \cup PNames(SemObs(p1, e))]
    [] e.ev = "rel" /\ e.res = "error" ->
         LET cl == [ReleaseRejectedOnlyAtMax |-> p.maxv >= 0 /\ p.avail >= p.maxv]
         IN [p |-> p, bad |-> PNames(cl) \cup PNames(SemObs(p, e))]
    [] e.ev = "creq" -> [p |-> [p EXCEPT !.creq = @ \cup {e.t}], bad |-> {}]
    [] e.ev = "cdone" -> [p |-> [p EXCEPT !.creq = @ \ {e.t}], bad |-> {}]   \* t's scope absorbed the request; t carries on
    [] e.ev = "quiescent" ->
         LET cl == [NoFreePermitWithWaiters |-> p.inprog # <<>> => p.avail = 0,
                    ValueTrueWhenIdle |-> p.inprog = <<>> => (e.value = p.avail /\ e.waiting = 0)]
         IN [p |-> p, bad |-> PNames(cl) \cup PNames(SemObs(p, e))]
    [] OTHER -> [p |-> p, bad |-> {"UnknownEvent"}]

\* Once an over-release has been accepted (p.over, only possible in the hand-off window) more than
\* max_value permits exist and the accounting of the primitive is off; whatever fails afterwards is
\* the one known finding F7, which the observer names itself so that every other violation is
\* still reported under its own clause name.
SemApply(p, e) ==
  LET r == SemApply0(p, e) IN
  IF p.over /\ r.bad # {} THEN [p |-> r.p, bad |-> {"AcquireFailsAfterOverRelease"}] ELSE r
=============================================================================
