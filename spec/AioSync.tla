----------------------------- MODULE AioSync -----------------------------
(***************************************************************************)
(* Semaphore (:1962-2047) and CapacityLimiter (:2050-2169) of             *)
(* anyio._backends._asyncio on top of the kernel.                          *)
(* One frame per blocking method; labels = the awaits of the method.       *)
(***************************************************************************)
EXTENDS AioLock

NOMAX == 0 - 1     \* max_value = None

(******************************* Semaphore ********************************)
\* value = _value, maxv = _max_value, waiters = _waiters (futures, identified by their task)
SemInit(v, maxv, fast) == [value |-> v, maxv |-> maxv, waiters |-> <<>>, fast |-> fast]

RECURSIVE SemHandOff(_, _)
SemHandOff(q, sm) ==                                        \* the while loop of release()
  IF sm.waiters = <<>> THEN [q |-> q, sm |-> [sm EXCEPT !.value = @ + 1]]
  ELSE LET w == Head(sm.waiters)
           sm1 == [sm EXCEPT !.waiters = Tail(@)] IN
       IF q.T[w].fut = "cancelled" THEN SemHandOff(q, sm1)
       ELSE [q |-> FutSetResult(q, w), sm |-> sm1]

SemRelease(q, sm) ==                                        \* :2024-2036
  IF sm.maxv # NOMAX /\ sm.value = sm.maxv THEN [q |-> q, sm |-> sm, err |-> TRUE]
  ELSE LET r == SemHandOff(q, sm) IN [q |-> r.q, sm |-> r.sm, err |-> FALSE]

SemNowait(sm) ==                                            \* :2018-2022
  IF sm.value = 0 THEN [sm |-> sm, res |-> "wouldblock"]
  ELSE [sm |-> [sm EXCEPT !.value = @ - 1], res |-> "ok"]

SemAcqEnabled(q, t) == q.run = t /\ q.T[t].stack # <<>> /\ Top(q, t).f = "sem_acq"
SemAcqStep(q, sm, t) ==                                     \* :1987-2016
  LET pc == Top(q, t).pc IN
  CASE pc = "start" ->
         IF sm.value > 0 /\ sm.waiters = <<>>
         THEN [q |-> Call(q, t, "fast1", Frame("cic", "start", 0, 0)), sm |-> sm]
         ELSE [q |-> SuspendFut(q, t, "wait"), sm |-> [sm EXCEPT !.waiters = Append(@, t)]]
    [] pc = "fast1" ->
         IF IsExc(Reg(q, t)) THEN [q |-> Raise(q, t, Reg(q, t)), sm |-> sm]
         ELSE IF sm.fast THEN [q |-> Ret(q, t), sm |-> [sm EXCEPT !.value = @ - 1]]
         ELSE [q |-> Call(q, t, "fast2", Frame("csc", "start", 0, 0)),
               sm |-> [sm EXCEPT !.value = @ - 1]]
    [] pc = "fast2" ->
         IF IsCancel(Reg(q, t))
         THEN LET r == SemRelease(q, sm) IN [q |-> Raise(r.q, t, Reg(q, t)), sm |-> r.sm]
         ELSE IF IsExc(Reg(q, t)) THEN [q |-> Raise(q, t, Reg(q, t)), sm |-> sm]
         ELSE [q |-> Ret(q, t), sm |-> sm]
    [] pc = "wait" ->
         IF IsCancel(Reg(q, t))
         THEN IF q.T[t].lastfut = "cancelled"
              THEN [q |-> Raise(q, t, Reg(q, t)),
                    sm |-> [sm EXCEPT !.waiters = SelectSeq(@, LAMBDA w : w # t)]]
              ELSE LET r == SemRelease(q, sm) IN [q |-> Raise(r.q, t, Reg(q, t)), sm |-> r.sm]
         ELSE IF IsExc(Reg(q, t)) THEN [q |-> Raise(q, t, Reg(q, t)), sm |-> sm]
         ELSE [q |-> Ret(q, t), sm |-> sm]

(***************************** CapacityLimiter ****************************)
\* total = _total_tokens (INF = math.inf), borrowers = _borrowers, queue = _wait_queue as a
\* sequence of [b |-> borrower, t |-> waiting task]; evset[t] = the asyncio.Event of t's current
\* wait is set.  Borrowers are integers: a task borrows as itself (its own number) or on behalf of
\* a foreign object.
LimInit(total) == [total |-> total, borrowers |-> {}, queue |-> <<>>,
                   evset |-> [t \in Task |-> FALSE]]

\* wake the first waiter: it becomes a borrower at once (token reserved), its event is set
LimWakeFirst(q, lm) ==
  LET e == Head(lm.queue) IN
  [q |-> FutSetResult(q, e.t),
   lm |-> [lm EXCEPT !.queue = Tail(@), !.borrowers = @ \cup {e.b}, !.evset[e.t] = TRUE]]

LimNotifyNext(q, lm) ==                                     \* :2103-2108
  IF lm.queue # <<>> /\ Cardinality(lm.borrowers) < lm.total THEN LimWakeFirst(q, lm)
  ELSE [q |-> q, lm |-> lm]

RECURSIVE LimWakeWhileFree(_, _)
LimWakeWhileFree(q, lm) ==
  IF lm.queue # <<>> /\ Cardinality(lm.borrowers) < lm.total
  THEN LET r == LimWakeFirst(q, lm) IN LimWakeWhileFree(r.q, r.lm)
  ELSE [q |-> q, lm |-> lm]

LimSetTotal(q, lm, v) == LimWakeWhileFree(q, [lm EXCEPT !.total = v])   \* :2077-2093 (after fix F1)

LimNowait(lm, b) ==                                         \* acquire_on_behalf_of_nowait :2113-2122
  IF b \in lm.borrowers THEN [lm |-> lm, res |-> "error"]
  ELSE IF lm.queue # <<>> \/ Cardinality(lm.borrowers) >= lm.total THEN [lm |-> lm, res |-> "wouldblock"]
  ELSE [lm |-> [lm EXCEPT !.borrowers = @ \cup {b}], res |-> "ok"]

LimRelease(q, lm, b) ==                                     \* release_on_behalf_of :2153-2161
  IF b \notin lm.borrowers THEN [q |-> q, lm |-> lm, err |-> TRUE]
  ELSE LET r == LimNotifyNext(q, [lm EXCEPT !.borrowers = @ \ {b}]) IN
       [q |-> r.q, lm |-> r.lm, err |-> FALSE]

\* acquire_on_behalf_of(b) :2127-2148; frame arg a = borrower
LimAcqEnabled(q, t) == q.run = t /\ q.T[t].stack # <<>> /\ Top(q, t).f = "lim_acq"
LimAcqStep(q, lm, t) ==
  LET pc == Top(q, t).pc
      b  == Top(q, t).a IN
  CASE pc = "start" -> [q |-> Call(q, t, "try", Frame("cic", "start", 0, 0)), lm |-> lm]
    [] pc = "try" ->
         IF IsExc(Reg(q, t)) THEN [q |-> Raise(q, t, Reg(q, t)), lm |-> lm]
         ELSE LET r == LimNowait(lm, b) IN
              (CASE r.res = "error" -> [q |-> Raise(q, t, Err("RuntimeError")), lm |-> lm]
                [] r.res = "ok"    -> [q |-> Call(q, t, "got", Frame("csc", "start", 0, 0)), lm |-> r.lm]
                [] r.res = "wouldblock" ->
                     \* _wait_queue[borrower] = event; await event.wait()
                     [q |-> SuspendFut(q, t, "wait"),
                      lm |-> [lm EXCEPT !.queue = Append(@, [b |-> b, t |-> t]), !.evset[t] = FALSE]])
    [] pc = "got" ->                            \* back from cancel_shielded_checkpoint
         IF IsExc(Reg(q, t))
         THEN LET r == LimRelease(q, lm, b) IN [q |-> Raise(r.q, t, Reg(q, t)), lm |-> r.lm]
         ELSE [q |-> Ret(q, t), lm |-> lm]
    [] pc = "wait" ->
         IF IsExc(Reg(q, t))
         THEN LET lm1 == [lm EXCEPT !.queue = SelectSeq(@, LAMBDA e : e.t # t)] IN
              IF lm.evset[t]
              THEN LET r == LimNotifyNext(q, [lm1 EXCEPT !.borrowers = @ \ {b}]) IN
                   [q |-> Raise(r.q, t, Reg(q, t)), lm |-> r.lm]
              ELSE [q |-> Raise(q, t, Reg(q, t)), lm |-> lm1]
         ELSE [q |-> Ret(q, t), lm |-> lm]

=============================================================================
