------------------------------- MODULE Aio -------------------------------
(***************************************************************************)
(* Implementation-shaped specification of the asyncio kernel as anyio's    *)
(* asyncio backend uses it, together with anyio's CancelScope.             *)
(*                                                                         *)
(* Granularity: one event-loop *handle* (callback) runs atomically with    *)
(* respect to other handles.  Inside a handle that resumes a task, the     *)
(* task's coroutine stack is executed in micro-steps (one per frame        *)
(* label) while K.run = that task; nothing else can move meanwhile, so the *)
(* micro-steps add states linearly.                                        *)
(*                                                                         *)
(* Mirrors (pinned tree 8af61b4, CPython 3.12.1):                          *)
(*   asyncio.base_events.BaseEventLoop._run_once   -> CycleStart, PopHandle *)
(*   asyncio.tasks.Task.__step/__wakeup/cancel/uncancel -> Resume,          *)
(*        SuspendBare, SuspendFut, TaskCancel, FinishTask                   *)
(*   anyio._backends._asyncio.CancelScope (:384-699)  -> Scope* operators   *)
(*   AsyncIOBackend.checkpoint_if_cancelled / cancel_shielded_checkpoint /  *)
(*        sleep (:2499-2530)                          -> frames cic/csc/sleep*)
(*                                                                         *)
(* All kernel and scope state lives in ONE record-valued variable K so     *)
(* that the effects of one critical section compose functionally           *)
(* (K' = F(G(K))) exactly like the statements of the Python method.        *)
(***************************************************************************)
EXTENDS Naturals, Sequences, FiniteSets, TLC

CONSTANTS NT,        \* number of tasks; Task == 1..NT (integers give a canonical iteration order)
          INF        \* "math.inf" for deadlines (a Nat larger than every finite time used)

Task == 1..NT
NONE == 0            \* no task
NOSCOPE == <<0, 0>>  \* no scope; a scope is identified by <<host task, depth on the host's scope stack>>

VARIABLE K

(***************************** values *************************************)
\* outcome register of a task: what the innermost await / call produced
Val        == [k |-> "val", c |-> "", a |-> FALSE, e |-> 0]
ValV(v)    == [k |-> "val", c |-> "", a |-> FALSE, e |-> v]
Cancelled(anyio) == [k |-> "exc", c |-> "cancel", a |-> anyio, e |-> 0]
Err(e)     == [k |-> "exc", c |-> "err", a |-> FALSE, e |-> e]   \* e: error identity / class name
IsExc(r)    == r.k = "exc"
IsCancel(r) == r.k = "exc" /\ r.c = "cancel"
IsAnyioCancel(r) == IsCancel(r) /\ r.a

\* handles of the loop's ready queue
HStep(t)    == [k |-> "step",    t |-> t, s |-> NOSCOPE]   \* Task.__step: first step / bare-yield resume
HWake(t)    == [k |-> "wake",    t |-> t, s |-> NOSCOPE]   \* Task.__wakeup: awaited future is done
HDeliver(s) == [k |-> "deliver", t |-> 0, s |-> s]         \* CancelScope._deliver_cancellation(origin=s)
HNoop       == [k |-> "noop",    t |-> 0, s |-> NOSCOPE]   \* a deliver handle whose scope has exited
HDone(t)    == [k |-> "tgdone",  t |-> t, s |-> NOSCOPE]   \* TaskGroup._spawn.task_done(t)
HSleep(t)   == [k |-> "sleep",   t |-> t, s |-> NOSCOPE]   \* timer of asyncio.sleep(d) of task t
HTimeout(s) == [k |-> "timeout", t |-> 0, s |-> s]         \* CancelScope._timeout timer

Frame(f, pc, a, b) == [f |-> f, pc |-> pc, a |-> a, b |-> b]

ScopeRec(called, shield, dl, tag) ==
  [called |-> called, shield |-> shield, dl |-> dl, timer |-> FALSE, handle |-> FALSE,
   pend |-> 0, tag |-> tag]

TaskInit(stack, root) ==
  [st |-> "unborn",        \* unborn / pending / done
   stack |-> stack,        \* coroutine stack, innermost frame last
   fut |-> "none",         \* state of the future the task awaits: none / pending / result / cancelled
   lastfut |-> "none",     \* state that future had when the task was last resumed (fut.cancelled() tests)
   futany |-> FALSE,       \* the cancelled future's message is an anyio one
   must |-> FALSE,         \* Task._must_cancel
   mustany |-> FALSE,      \* ... and the message it carries is an anyio one
   nc |-> 0,               \* Task.cancelling()
   reg |-> Val,            \* outcome of the last await / call
   out |-> Val,            \* final outcome once done
   ingroup |-> FALSE]      \* member of a TaskGroup whose done-callback has not run yet

\* rev: the iteration order of CancelScope._tasks / _child_scopes (Python sets: any order is a legal
\* execution).  FALSE = tasks ascending, same-task child scope first; TRUE = the reverse.  Models that
\* want both orders explored choose rev nondeterministically in Init (KInitR).
KInitR(stacks, roots, rev) ==
  [ready |-> <<>>, left |-> 0, cycle |-> 0, nh |-> 0, now |-> 0, timers |-> <<>>, run |-> NONE,
   T |-> [t \in Task |-> TaskInit(stacks[t], roots[t])],
   S |-> [t \in Task |-> <<>>],
   root |-> roots, rev |-> rev]
KInit(stacks, roots) == KInitR(stacks, roots, FALSE)

(***************************** small helpers ******************************)
MinOf(S) == CHOOSE x \in S : \A y \in S : x <= y
RECURSIVE SortedSeq(_)
SortedSeq(S) == IF S = {} THEN <<>> ELSE LET m == MinOf(S) IN <<m>> \o SortedSeq(S \ {m})

Range(s) == {s[i] : i \in DOMAIN s}
Reverse(s) == [i \in DOMAIN s |-> s[Len(s) + 1 - i]]

CallSoon(q, h) == [q EXCEPT !.ready = Append(@, h)]

Depth(q, t)  == Len(q.S[t])
Top(q, t)    == q.T[t].stack[Len(q.T[t].stack)]
SetTop(q, t, fr) == [q EXCEPT !.T[t].stack[Len(q.T[t].stack)] = fr]
SetPc(q, t, pc)  == SetTop(q, t, [Top(q, t) EXCEPT !.pc = pc])
Push(q, t, fr)   == [q EXCEPT !.T[t].stack = Append(@, fr)]
Pop(q, t)        == [q EXCEPT !.T[t].stack = SubSeq(@, 1, Len(@) - 1)]
Call(q, t, pc, fr) == Push(SetPc(q, t, pc), t, fr)       \* continue at pc when fr returns / raises
Ret(q, t)        == [Pop(q, t) EXCEPT !.T[t].reg = Val]
RetV(q, t, v)    == [Pop(q, t) EXCEPT !.T[t].reg = ValV(v)]
Raise(q, t, x)   == [Pop(q, t) EXCEPT !.T[t].reg = x]
Reg(q, t)        == q.T[t].reg
At(q, t, f, pc)  == q.run = t /\ q.T[t].stack # <<>> /\ Top(q, t).f = f /\ Top(q, t).pc = pc

(***************************** asyncio.Task *******************************)
\* Task.cancel(msg): tasks.c task_cancel_impl
TaskCancel(q, t, anyio) ==
  IF q.T[t].st = "done" THEN q
  ELSE LET q1 == [q EXCEPT !.T[t].nc = @ + 1] IN
       IF q.T[t].fut = "pending"
       THEN CallSoon([q1 EXCEPT !.T[t].fut = "cancelled", !.T[t].futany = anyio], HWake(t))
       ELSE [q1 EXCEPT !.T[t].must = TRUE, !.T[t].mustany = anyio]

\* Task.uncancel() (3.12: does not touch _must_cancel)
TaskUncancelN(q, t, n) == [q EXCEPT !.T[t].nc = IF @ >= n THEN @ - n ELSE 0]

\* coroutine yields None ("await sleep(0)"): Task.__step does call_soon(self.__step)
SuspendBare(q, t, pc) == [CallSoon(SetPc(q, t, pc), HStep(t)) EXCEPT !.run = NONE]

\* coroutine yields a fresh pending future; "if self._must_cancel: if fut.cancel(): must = False"
SuspendFut(q, t, pc) ==
  LET q1 == [SetPc(q, t, pc) EXCEPT !.run = NONE] IN
  IF q.T[t].must
  THEN CallSoon([q1 EXCEPT !.T[t].fut = "cancelled", !.T[t].futany = q.T[t].mustany,
                           !.T[t].must = FALSE], HWake(t))
  ELSE [q1 EXCEPT !.T[t].fut = "pending"]

\* Future.set_result on the future task t awaits (no-op unless pending); schedules the wake-up
FutSetResult(q, t) ==
  IF q.T[t].fut = "pending" THEN CallSoon([q EXCEPT !.T[t].fut = "result"], HWake(t)) ELSE q

\* a step / wake-up handle of task t runs: Task.__step
Resume(q, t) ==
  LET tr == q.T[t]
      \* "if self._must_cancel: if not isinstance(exc, CancelledError): exc = make_cancelled_error()":
      \* the CancelledError of a cancelled awaited future wins over the must-cancel message
      thrown == IF tr.fut = "cancelled" THEN Cancelled(tr.futany)
                ELSE IF tr.must THEN Cancelled(tr.mustany) ELSE Val
      q1 == [q EXCEPT !.run = t, !.T[t].must = FALSE, !.T[t].fut = "none", !.T[t].reg = thrown,
                      !.T[t].lastfut = tr.fut,
                      !.T[t].st = "pending"]
  IN IF tr.st = "unborn" /\ IsExc(thrown)
     THEN [q1 EXCEPT !.T[t].stack = <<>>]     \* exception thrown into a coroutine that never started
     ELSE q1

(***************************** CancelScope ********************************)
Sc(q, s)     == q.S[s[1]][s[2]]
Parent(q, s) == IF s[2] > 1 THEN <<s[1], s[2] - 1>> ELSE q.root[s[1]]
Cur(q, t)    == IF Depth(q, t) > 0 THEN <<t, Depth(q, t)>> ELSE q.root[t]   \* TaskState.cancel_scope
Live(q, s)   == s # NOSCOPE /\ s[2] <= Depth(q, s[1])

RECURSIVE EffCancelled(_, _)
EffCancelled(q, s) ==                                    \* :551-563
  IF s = NOSCOPE THEN FALSE
  ELSE IF Sc(q, s).called THEN TRUE
  ELSE IF Sc(q, s).shield THEN FALSE
  ELSE EffCancelled(q, Parent(q, s))

\* CancelScope._tasks / _child_scopes are derived from the stacks:
TasksOf(q, s) ==
  (IF s[2] = Depth(q, s[1]) THEN {s[1]} ELSE {})
  \cup {c \in Task : q.root[c] = s /\ Depth(q, c) = 0 /\ q.T[c].ingroup}
ChildTasksScopes(q, s) == {c \in Task : q.root[c] = s /\ Depth(q, c) >= 1}

SetSc(q, s, r) == [q EXCEPT !.S[s[1]][s[2]] = r]

RECURSIVE DelTasks(_, _, _, _)
RECURSIVE DelScopes(_, _, _)
RECURSIVE Deliver(_, _, _)

\* the loop over self._tasks of _deliver_cancellation (:594-612)
DelTasks(q, ts, s, origin) ==
  IF ts = <<>> THEN [q |-> q, retry |-> FALSE]
  ELSE LET t == Head(ts) IN
    IF q.T[t].st = "done" THEN DelTasks(q, Tail(ts), s, origin)
    ELSE LET eligible == /\ ~q.T[t].must
                         /\ t # q.run
                         /\ (t = s[1] \/ q.T[t].st # "unborn")
                         /\ q.T[t].fut \in {"none", "pending"}
             qc == TaskCancel(q, t, TRUE)
             q1 == IF ~eligible THEN q
                   ELSE IF t = origin[1]
                        THEN SetSc(qc, origin, [Sc(qc, origin) EXCEPT !.pend = @ + 1])
                        ELSE qc
             r == DelTasks(q1, Tail(ts), s, origin)
         IN [q |-> r.q, retry |-> TRUE]

DelScopes(q, ss, origin) ==
  IF ss = <<>> THEN [q |-> q, retry |-> FALSE]
  ELSE LET r1 == Deliver(q, Head(ss), origin)
           r2 == DelScopes(r1.q, Tail(ss), origin)
       IN [q |-> r2.q, retry |-> r1.retry \/ r2.retry]

\* CancelScope._deliver_cancellation(origin) on scope s (:581-629)
Deliver(q, s, origin) ==
  LET ord(x) == IF q.rev THEN Reverse(x) ELSE x
      r1 == DelTasks(q, ord(SortedSeq(TasksOf(q, s))), s, origin)
      same == IF s[2] < Depth(q, s[1]) THEN <<(<<s[1], s[2] + 1>>)>> ELSE <<>>
      kidsAll == ord(same \o [i \in 1..Cardinality(ChildTasksScopes(q, s)) |->
                                <<SortedSeq(ChildTasksScopes(q, s))[i], 1>>])
      kids == SelectSeq(kidsAll, LAMBDA c : ~Sc(q, c).shield /\ ~Sc(q, c).called)
      r2 == DelScopes(r1.q, kids, origin)
      retry == r1.retry \/ r2.retry
  IN IF origin = s
     THEN IF retry
          THEN [q |-> CallSoon(SetSc(r2.q, s, [Sc(r2.q, s) EXCEPT !.handle = TRUE]), HDeliver(s)),
                retry |-> TRUE]
          ELSE [q |-> SetSc(r2.q, s, [Sc(r2.q, s) EXCEPT !.handle = FALSE]), retry |-> FALSE]
     ELSE [q |-> r2.q, retry |-> retry]

RemoveTimer(q, h) == [q EXCEPT !.timers = SelectSeq(@, LAMBDA x : x.h # h)]
AddTimer(q, when, h) == [q EXCEPT !.timers = Append(@, [when |-> when, h |-> h])]

\* CancelScope.cancel() (:650-665) on an entered scope
ScopeCancel(q, s) ==
  IF Sc(q, s).called THEN q
  ELSE LET q1 == RemoveTimer(SetSc(q, s, [Sc(q, s) EXCEPT !.called = TRUE, !.timer = FALSE]),
                             HTimeout(s))
       IN Deliver(q1, s, s).q

\* CancelScope._timeout() (:573-579)
ScopeTimeout(q, s) ==
  LET dl == Sc(q, s).dl IN
  IF dl = INF THEN q
  ELSE IF q.now >= dl THEN ScopeCancel(q, s)
  ELSE AddTimer(SetSc(q, s, [Sc(q, s) EXCEPT !.timer = TRUE]), dl, HTimeout(s))

\* CancelScope.__enter__ (:422-451); `called`: cancel() had been called before entering
ScopeEnter(q, t, shield, dl, called, tag) ==
  LET s  == <<t, Depth(q, t) + 1>>
      q1 == [q EXCEPT !.S[t] = Append(@, ScopeRec(called, shield, dl, tag))]
      q2 == ScopeTimeout(q1, s)
  IN IF Sc(q2, s).called THEN Deliver(q2, s, s).q ELSE q2

RECURSIVE RestartInParent(_, _)
RestartInParent(q, p) ==                                  \* :631-648, p = the scope to start looking at
  IF p = NOSCOPE THEN q
  ELSE IF Sc(q, p).called THEN (IF ~Sc(q, p).handle THEN Deliver(q, p, p).q ELSE q)
  ELSE IF Sc(q, p).shield THEN q
  ELSE RestartInParent(q, Parent(q, p))

\* CancelScope.__exit__ (:453-549) of t's innermost scope with outcome x (Val = no exception).
\* Result: [q, reg] where reg is what continues after the `with` (Val if swallowed / nothing raised),
\* caught = cancelled_caught.
ScopeExit(q, t, x) ==
  LET d  == Depth(q, t)
      s  == <<t, d>>
      sc == Sc(q, s)
      p  == Parent(q, s)
      q1 == [RemoveTimer(q, HTimeout(s)) EXCEPT
               !.S[t] = SubSeq(@, 1, d - 1),
               !.ready = [i \in DOMAIN @ |-> IF @[i] = HDeliver(s) THEN HNoop ELSE @[i]]]
      q2 == RestartInParent(q1, p)
      visible == p # NOSCOPE /\ ~sc.shield /\ EffCancelled(q2, p)
  IN IF sc.called /\ ~visible
     THEN LET q3 == TaskUncancelN(q2, t, sc.pend) IN
          IF IsAnyioCancel(x) THEN [q |-> q3, reg |-> Val, caught |-> TRUE]
          ELSE IF x.k = "exc" /\ x.c = "group" /\ x.a
               THEN [q |-> q3,
                     reg |-> IF x.e = {} THEN Val ELSE [x EXCEPT !.a = FALSE],
                     caught |-> TRUE]
               ELSE [q |-> q3, reg |-> x, caught |-> FALSE]
     ELSE \* the count is handed to the parent only if that scope is hosted by the same task (fix F11)
          LET q3 == IF sc.pend > 0 /\ p # NOSCOPE /\ p[1] = t
                    THEN SetSc(q2, p, [Sc(q2, p) EXCEPT !.pend = @ + sc.pend])
                    ELSE q2
          IN [q |-> q3, reg |-> x, caught |-> FALSE]

\* shield setter (:693-698)
ScopeSetShield(q, s, v) ==
  IF Sc(q, s).shield = v THEN q
  ELSE LET q1 == SetSc(q, s, [Sc(q, s) EXCEPT !.shield = v]) IN
       IF v THEN q1 ELSE RestartInParent(q1, Parent(q1, s))

\* deadline setter (:671-679)
ScopeSetDeadline(q, s, dl) ==
  LET q1 == RemoveTimer(SetSc(q, s, [Sc(q, s) EXCEPT !.dl = dl, !.timer = FALSE]), HTimeout(s))
  IN IF ~Sc(q1, s).called THEN ScopeTimeout(q1, s) ELSE q1

\* AsyncIOBackend.current_effective_deadline (:2537-2558); -1 stands for -inf
RECURSIVE EffDeadlineFrom(_, _, _)
EffDeadlineFrom(q, s, acc) ==
  IF s = NOSCOPE THEN acc
  ELSE LET a == IF Sc(q, s).dl < acc THEN Sc(q, s).dl ELSE acc IN
       IF Sc(q, s).called THEN 0 - 1
       ELSE IF Sc(q, s).shield THEN a
       ELSE EffDeadlineFrom(q, Parent(q, s), a)

\* does checkpoint_if_cancelled (:2503-2520) find a cancelled scope before a shield?
RECURSIVE CicSees(_, _)
CicSees(q, s) ==
  IF s = NOSCOPE THEN FALSE
  ELSE IF Sc(q, s).called THEN TRUE
  ELSE IF Sc(q, s).shield THEN FALSE
  ELSE CicSees(q, Parent(q, s))

(***************** frames of the backend helper coroutines ****************)
\* Each *Step(t) operator is a state function K -> K guarded by At(...); the root module
\* assembles them into Next.

\* sleep(0) as a frame of its own is never needed: callers use SuspendBare directly.

\* checkpoint_if_cancelled: "while scope: if scope.cancel_called: await sleep(0) ..."
\* The Python loop stays on the scope it found, so once it has seen a cancelled scope it spins
\* until the sleep(0) raises.
CicEnabled(q, t) == At(q, t, "cic", "start") \/ At(q, t, "cic", "spin")
CicStep(q, t) ==
  IF Top(q, t).pc = "start"
  THEN IF CicSees(q, Cur(q, t)) THEN SuspendBare(q, t, "spin") ELSE Ret(q, t)
  ELSE IF IsExc(Reg(q, t)) THEN Raise(q, t, Reg(q, t)) ELSE SuspendBare(q, t, "spin")

\* cancel_shielded_checkpoint: "with CancelScope(shield=True): await sleep(0)"
CscTag == [n |-> 0, kind |-> "csc", cl |-> 0]
CscEnabled(q, t) == At(q, t, "csc", "start") \/ At(q, t, "csc", "back")
CscStep(q, t) ==
  IF Top(q, t).pc = "start"
  THEN SuspendBare(ScopeEnter(q, t, TRUE, INF, FALSE, CscTag), t, "back")
  ELSE LET r == ScopeExit(q, t, Reg(q, t)) IN
       IF IsExc(r.reg) THEN Raise(r.q, t, r.reg) ELSE Ret(r.q, t)

\* AsyncIOBackend.checkpoint(): await sleep(0)
YieldEnabled(q, t) == At(q, t, "yield", "start") \/ At(q, t, "yield", "back")
YieldStep(q, t) ==
  IF Top(q, t).pc = "start" THEN SuspendBare(q, t, "back")
  ELSE IF IsExc(Reg(q, t)) THEN Raise(q, t, Reg(q, t)) ELSE Ret(q, t)

\* asyncio.sleep(d), d > 0 (frame arg a = d): future + call_later; finally: h.cancel()
SleepEnabled(q, t) == At(q, t, "sleep", "start") \/ At(q, t, "sleep", "back")
SleepStep(q, t) ==
  IF Top(q, t).pc = "start"
  THEN SuspendFut(AddTimer(q, q.now + Top(q, t).a, HSleep(t)), t, "back")
  ELSE LET q1 == RemoveTimer(q, HSleep(t)) IN
       IF IsExc(Reg(q, t)) THEN Raise(q1, t, Reg(q, t)) ELSE Ret(q1, t)

HelperEnabled(q, t) == CicEnabled(q, t) \/ CscEnabled(q, t) \/ YieldEnabled(q, t) \/ SleepEnabled(q, t)
HelperStep(q, t) ==
  IF CicEnabled(q, t) THEN CicStep(q, t)
  ELSE IF CscEnabled(q, t) THEN CscStep(q, t)
  ELSE IF YieldEnabled(q, t) THEN YieldStep(q, t)
  ELSE SleepStep(q, t)

(***************************** the loop ************************************)
Due(q) == SelectSeq(q.timers, LAMBDA x : x.when <= q.now)
NotDue(q) == SelectSeq(q.timers, LAMBDA x : x.when > q.now)
RECURSIVE SortByWhen(_)
SortByWhen(ts) ==     \* stable selection sort by deadline
  IF ts = <<>> THEN <<>>
  ELSE LET m == MinOf({ts[i].when : i \in DOMAIN ts})
           i0 == MinOf({i \in DOMAIN ts : ts[i].when = m})
       IN <<ts[i0]>> \o SortByWhen(SubSeq(ts, 1, i0 - 1) \o SubSeq(ts, i0 + 1, Len(ts)))

Idle(q) == q.run = NONE /\ q.left = 0 /\ q.ready = <<>>
Quiescent(q) == Idle(q) /\ q.timers = <<>>          \* nothing will ever happen without the environment

\* BaseEventLoop._run_once up to "ntodo = len(self._ready)".  On the controlled loop the clock
\* moves only when nothing is ready (jump to the next timer) or by an explicit environment step.
CycleStart(q) ==
  LET q0 == IF q.ready = <<>> /\ q.timers # <<>>
            THEN LET nxt == MinOf({q.timers[i].when : i \in DOMAIN q.timers}) IN
                 [q EXCEPT !.now = IF nxt > @ THEN nxt ELSE @]
            ELSE q
      due == SortByWhen(Due(q0))
      rdy == q0.ready \o [i \in DOMAIN due |-> due[i].h]
  IN [q0 EXCEPT !.ready = rdy, !.timers = NotDue(q0), !.left = Len(rdy), !.cycle = @ + 1]
CycleStartEnabled(q) == q.run = NONE /\ q.left = 0 /\ (q.ready # <<>> \/ q.timers # <<>>)

\* the next handle of this cycle
PopEnabled(q) == q.run = NONE /\ q.left > 0
NextHandle(q) == Head(q.ready)
Popped(q) == [q EXCEPT !.ready = Tail(@), !.left = @ - 1, !.nh = @ + 1]

\* handles the kernel itself knows how to run
RunKernelHandle(q, h) ==
  CASE h.k \in {"step", "wake"} -> Resume(q, h.t)
    [] h.k = "deliver" -> Deliver(q, h.s, h.s).q
    [] h.k = "noop"    -> q
    [] h.k = "sleep"   -> FutSetResult(q, h.t)
    [] h.k = "timeout" -> ScopeTimeout(SetSc(q, h.s, [Sc(q, h.s) EXCEPT !.timer = FALSE]), h.s)

\* the coroutine of t has returned or raised out of its outermost frame: Task.__step epilogue
FinishEnabled(q, t) == q.run = t /\ q.T[t].stack = <<>>
FinishTask(q, t) ==
  LET r == q.T[t].reg
      out == IF IsExc(r) THEN r ELSE IF q.T[t].must THEN Cancelled(q.T[t].mustany) ELSE r
      q1 == [q EXCEPT !.run = NONE, !.T[t].st = "done", !.T[t].out = out, !.T[t].must = FALSE]
  IN IF q.T[t].ingroup THEN CallSoon(q1, HDone(t)) ELSE q1

=============================================================================
