------------------------------ MODULE MC_C20 ------------------------------
(***************************************************************************)
(* Composition root for property C20 (async lru_cache).                    *)
(*                                                                         *)
(* One wrapper (maxsize MaxSize, ttl Ttl, always_checkpoint AlwaysCp) on   *)
(* one loop.  All nondeterminism is the environment's, which acts between  *)
(* any two handles of the loop or when the loop is idle:                   *)
(*   call(t, k)   spawn a task in caller slot t that, inside its own       *)
(*                CancelScope, calls the cached function with key k        *)
(*                (at most NT calls in flight, MaxCalls in total; a slot   *)
(*                is reused once its task has finished)                    *)
(*   gate(t, ok|fail)  open the gate of the execution of the wrapped       *)
(*                function that task t is suspended in: it then returns a  *)
(*                fresh object or raises a fresh error                     *)
(*   cancel(t) / native(t)  cancel the caller's scope / Task.cancel()      *)
(*   tick         move the clock by one (ttl)                              *)
(* Ghost state: pst/pbad = the observer P_Cache fed with the events the    *)
(* harness records from the real library; hist = the environment's         *)
(* choices (hidden by VIEW), printed so that the harness can replay them.  *)
(***************************************************************************)
EXTENDS AioCache, P_Cache, Json

CONSTANTS MaxCalls, MaxEnv, MaxTicks, EnvKinds,
          Warm,        \* number of keys computed one after the other before the free part starts
          EnvAt        \* "any": between any two handles and when idle; "idle": only when idle (in batches)

VARIABLES C, E, hist, pst, pbad
vars == <<K, C, E, hist, pst, pbad>>
View == <<K, C, E, pst, pbad>>

Client0 == <<Frame("client", "idle", 0, 0)>>

Init ==
  /\ K = KInit([t \in Task |-> Client0], [t \in Task |-> NOSCOPE])
  /\ C = CacheInit
  /\ E = [n |-> 0, calls |-> 0, live |-> {}, scoped |-> {}, natived |-> {}, qat |-> 0, ticks |-> 0,
          kmax |-> 0, pp |-> 0]
  /\ hist = <<>>
  /\ pst = CacheP0(MaxSize, Ttl)
  /\ pbad = {}

RECURSIVE ApplyAll(_, _, _)
ApplyAll(p, bad, evs) ==
  IF evs = <<>> THEN [p |-> p, bad |-> bad]
  ELSE LET r == CacheApply(p, Head(evs)) IN ApplyAll(r.p, bad \cup r.bad, Tail(evs))
FeedSeq(evs) == LET r == ApplyAll(pst, pbad, evs) IN pst' = r.p /\ pbad' = r.bad
Feed(e) == FeedSeq(<<e>>)

HE(act, t, k) == [c |-> act, t |-> t, k |-> k, at |-> K.nh]

(****************************** one handle *********************************)
\* While a handle resumes a task nothing else can move (Aio: K.run = that task), so the whole run
\* of the task up to its next suspension is ONE step of this specification: the micro-steps of the
\* frames (kernel helpers, Lock.acquire, __call__, the wrapped function, the caller) are composed
\* functionally.  A run state is [q, c, evs, done]: kernel, cache, observable events so far, tasks
\* that finished.
RS(q, c, evs, done) == [q |-> q, c |-> c, evs |-> evs, done |-> done]

\* caller: "with scope: emit call; try: await f(k)"
ClientStartF(S, t) ==
  LET k == Top(S.q, t).a
      q1 == ScopeEnter(S.q, t, FALSE, INF, FALSE, "task") IN
  RS(Call(q1, t, "ret", Frame("cache_call", "start", k, 0)), S.c,
     Append(S.evs, [ev |-> "call", c |-> t, k |-> k]), S.done)

\* "... except: emit ret"; only a cancellation is re-raised into the scope
ClientRetF(S, t) ==
  LET r == Reg(S.q, t)
      res == IF ~IsExc(r) THEN "ok" ELSE IF IsCancel(r) THEN "cancelled"
             ELSE IF r.e = KEYERROR THEN "internal" ELSE "err"
      v == IF res \in {"ok", "err"} THEN r.e ELSE 0
      x == ScopeExit(S.q, t, IF IsCancel(r) THEN r ELSE Val)
  IN RS(IF IsExc(x.reg) THEN Raise(x.q, t, x.reg) ELSE Ret(x.q, t), S.c,
        Append(S.evs, [ev |-> "ret", c |-> t, res |-> res, v |-> v]), S.done)

Micro(S) ==
  LET q == S.q
      t == q.run IN
  IF At(q, t, "client", "init") THEN ClientStartF(S, t)
  ELSE IF At(q, t, "client", "ret") THEN ClientRetF(S, t)
  ELSE IF HelperEnabled(q, t) THEN RS(HelperStep(q, t), S.c, S.evs, S.done)
  ELSE IF LockAcqEnabled(q, t)
  THEN LET lid == LockOfFrame(q, t)
           r == LockAcqStep(q, S.c.locks[lid], t) IN
       RS(r.q, [S.c EXCEPT !.locks[lid] = r.lk], S.evs, S.done)
  ELSE IF CacheCallEnabled(q, t)
  THEN LET r == CacheCallStep(q, S.c, t) IN RS(r.q, r.c, S.evs \o r.evs, S.done)
  ELSE IF WrappedEnabled(q, t)
  THEN LET r == WrappedStep(q, S.c, t) IN RS(r.q, r.c, S.evs \o r.evs, S.done)
  ELSE RS(FinishTask(q, t), S.c, S.evs, S.done \cup {t})       \* FinishEnabled(q, t)

RECURSIVE RunAll(_)
RunAll(S) == IF S.q.run = NONE THEN S ELSE RunAll(Micro(S))

Cycle == /\ CycleStartEnabled(K) /\ K' = CycleStart(K) /\ UNCHANGED <<C, E, hist, pst, pbad>>
RunHandle ==
  /\ PopEnabled(K)
  /\ LET S == RunAll(RS(RunKernelHandle(Popped(K), NextHandle(K)), C, <<>>, {})) IN
     /\ K' = S.q
     /\ C' = S.c
     /\ FeedSeq(S.evs)
     /\ E' = [E EXCEPT !.live = @ \ S.done]
  /\ UNCHANGED hist

(****************************** environment *********************************)
\* "idle": the loop went idle (Quiesce recorded it) and no handle has run since; several actions
\* may be taken at the same idle point, they take effect in this order
EnvPoint == IF EnvAt = "any"
            THEN K.run = NONE /\ (K.left > 0 \/ (Quiescent(K) /\ E.qat = K.nh + 1))
            ELSE K.run = NONE /\ K.left = 0 /\ E.qat = K.nh + 1
\* forced warm-up: call(1), ok, call(2), ok, ... (Warm keys); the bounds count what comes after it
RECURSIVE WarmSeq(_)
WarmSeq(n) == IF n = 0 THEN <<>> ELSE WarmSeq(n - 1) \o <<[c |-> "call", k |-> n], [c |-> "ok", k |-> 0]>>
InWarm == E.pp < 2 * Warm
WarmOK(act, k) == IF InWarm THEN WarmSeq(Warm)[E.pp + 1] = [c |-> act, k |-> k] ELSE TRUE
Count(e) == IF InWarm THEN [e EXCEPT !.pp = @ + 1] ELSE [e EXCEPT !.n = @ + 1]
FreeSlots == Task \ E.live
MinSlot == CHOOSE t \in FreeSlots : \A u \in FreeSlots : t <= u

\* loop.create_task(caller(t, k)); slots and keys are interchangeable: lowest free slot, and a key
\* not used before must be the next one
EnvCall(k) ==
  /\ EnvPoint /\ E.n < MaxEnv /\ (IF InWarm THEN TRUE ELSE E.calls < MaxCalls) /\ FreeSlots # {} /\ k <= E.kmax + 1
  /\ WarmOK("call", k)
  /\ LET t == MinSlot
         fresh == [TaskInit(<<Frame("client", "init", k, 0)>>, NOSCOPE) EXCEPT !.st = "unborn"] IN
     /\ K' = CallSoon([K EXCEPT !.T[t] = fresh], HStep(t))
     /\ E' = [Count(E) EXCEPT !.calls = IF InWarm THEN @ ELSE @ + 1, !.live = @ \cup {t}, !.scoped = @ \ {t},
                       !.natived = @ \ {t}, !.kmax = IF k > @ THEN k ELSE @]
     /\ hist' = Append(hist, HE("call", t, k))
  /\ UNCHANGED <<C, pst, pbad>>

EnvGate(t, how) ==
  /\ EnvPoint /\ E.n < MaxEnv /\ t \in E.live /\ C.xof[t] # 0 /\ C.gout[C.xof[t]] = "none"
  /\ how \in EnvKinds /\ WarmOK(how, 0)
  /\ LET r == GateOpen(K, C, t, how) IN K' = r.q /\ C' = r.c
  /\ E' = Count(E)
  /\ hist' = Append(hist, HE(how, t, C.xof[t]))
  /\ UNCHANGED <<pst, pbad>>

EnvCancel(t) ==
  /\ EnvPoint /\ ~InWarm /\ "cancel" \in EnvKinds /\ E.n < MaxEnv /\ t \in E.live /\ t \notin E.scoped
  /\ K.T[t].st = "pending" /\ Depth(K, t) >= 1
  /\ K' = ScopeCancel(K, <<t, 1>>)
  /\ E' = [E EXCEPT !.n = @ + 1, !.scoped = @ \cup {t}]
  /\ Feed([ev |-> "creq", c |-> t])
  /\ hist' = Append(hist, HE("cancel", t, 0))
  /\ UNCHANGED C

EnvNative(t) ==
  /\ EnvPoint /\ ~InWarm /\ "native" \in EnvKinds /\ E.n < MaxEnv /\ t \in E.live /\ t \notin E.natived
  /\ K.T[t].st = "pending"
  /\ K' = TaskCancel(K, t, FALSE)
  /\ E' = [E EXCEPT !.n = @ + 1, !.natived = @ \cup {t}]
  /\ Feed([ev |-> "creq", c |-> t])
  /\ hist' = Append(hist, HE("native", t, 0))
  /\ UNCHANGED C

EnvTick ==
  /\ EnvPoint /\ ~InWarm /\ Ttl # NOTTL /\ E.n < MaxEnv /\ E.ticks < MaxTicks /\ E.pp + E.calls > 0
  /\ K' = [K EXCEPT !.now = @ + 1]
  /\ E' = [E EXCEPT !.n = @ + 1, !.ticks = @ + 1]
  /\ Feed([ev |-> "tick", now |-> K.now + 1])
  /\ hist' = Append(hist, HE("tick", 0, 0))
  /\ UNCHANGED C

\* the loop is idle: the harness drops its references, collects garbage and records which result
\* objects still exist
Quiesce ==
  /\ Quiescent(K) /\ E.qat # K.nh + 1
  /\ E' = [E EXCEPT !.qat = K.nh + 1]
  /\ Feed([ev |-> "quiescent", alive |-> SortedSeq(Retained(C))])
  /\ UNCHANGED <<K, C, hist>>

Next ==
  \/ Cycle
  \/ RunHandle
  \/ \E k \in Keys : EnvCall(k)
  \/ \E t \in Task : EnvGate(t, "ok") \/ EnvGate(t, "fail") \/ EnvCancel(t) \/ EnvNative(t)
  \/ EnvTick
  \/ Quiesce

Spec == Init /\ [][Next]_vars

(****************************** properties **********************************)
\* C20: no clause of the observer fails, other than the known-finding shapes (which the observer
\* collects in pst.known)
PropertyHolds == pbad = {}
\* sanity of the model: it reproduces the pinned code's defect (TLC must REFUTE these)
NoKnownFinding == pst.known = {}
NoKeyErrorFinding == SigKeyError \notin pst.known
NoRetentionFinding == SigRetention \notin pst.known
NoTwiceFinding == SigTwice \notin pst.known
NoTtlOrderFinding == SigTtlOrder \notin pst.known

\* (currsize itself is not constrained: on the pinned tree it drifts, even below zero, F3b)
TypeOK == /\ C.nlk <= MaxLocks /\ C.nx <= MaxLocks
          /\ \A i, j \in DOMAIN C.ord : C.ord[i] = C.ord[j] => i = j
\* a placeholder carries a lock, a result does not
EntryShape == \A i \in DOMAIN C.ord : LET e == C.ent[C.ord[i]] IN (e.v = 0) = (e.lk # 0)
\* between handles a lock without owner has no live waiter
NoLiveWaiterOnFreeLock ==
  K.run = NONE => \A l \in 1..C.nlk : C.locks[l].owner = 0 =>
                     \A i \in DOMAIN C.locks[l].waiters : K.T[C.locks[l].waiters[i]].fut # "pending"
Residue == \A t \in Task : (K.T[t].st = "done" /\ t \notin E.natived) => K.T[t].nc = 0

(****************************** scenario output *****************************)
Final == [hits |-> C.hits, misses |-> C.misses, currsize |-> C.currsize, ord |-> C.ord,
          nh |-> K.nh, nx |-> C.nx, known |-> pst.known]
EmitFinalAC == (E'.qat # E.qat) => PrintT(<<"@@F", ToJson([h |-> hist', fin |-> Final])>>)
EmitAC == /\ (hist' # hist) => PrintT(<<"@@H", ToJson(hist')>>)
          /\ EmitFinalAC
=============================================================================
