-------------------------------- MODULE P_Tee --------------------------------
(***************************************************************************)
(* Property-level observer of C19, tee part:                               *)
(*   "The iterators returned by tee() each observe the complete source     *)
(*    sequence however their consumers interleave, and the source is       *)
(*    consumed only once."                                                 *)
(*                                                                         *)
(* Deterministic observer  TeeApply(p, e)  over the events visible at the  *)
(* two interfaces of tee(): the source iterable handed to it and the       *)
(* iterators it returns (consumers 1..nc, each iterating one of them).     *)
(*  [ev="iter"]                 the source's __aiter__/__iter__ was called *)
(*  [ev="pull"]                 the source iterator's __anext__ entered    *)
(*  [ev="pulled", k, v]         ... and handed out its k-th answer         *)
(*                              (v = 0: exhausted)                         *)
(*  [ev="ret", c, v]            consumer c received v from its iterator    *)
(*  [ev="stop", c]              consumer c received StopAsyncIteration     *)
(*  [ev="exc", c]               consumer c received any other exception    *)
(*  [ev="deadlock"]             nothing runnable, consumers unfinished     *)
(*  [ev="end"]                  the run is over                            *)
(*                                                                         *)
(* Clauses (rule P-permissive: only what the statement forbids):           *)
(*  EachSeesAll         every value a consumer receives is the next        *)
(*                      element of the source sequence, and it is told     *)
(*                      "exhausted" only after the last one;               *)
(*  SourceConsumedOnce  the source iterable is iterated once, and no       *)
(*                      position of it is requested twice (the k-th        *)
(*                      answer is handed out once, in order);              *)
(*  SourceNotReentered  no second __anext__ of the source while one is in  *)
(*                      progress (an async generator would raise);         *)
(*  NoConsumerError, ConsumersNotStuck, AllFinished  every consumer        *)
(*                      terminates with StopAsyncIteration.                *)
(* Asking an exhausted source again is NOT a clause (CPython's own tee     *)
(* does it).                                                               *)
(***************************************************************************)
EXTENDS Integers, Sequences, FiniteSets

Names(r) == {n \in DOMAIN r : ~r[n]}

TeeP0(src, nc) == [src      |-> src,                     \* the source sequence (non-zero integers)
                   nc       |-> nc,
                   got      |-> [c \in 1..nc |-> <<>>],  \* what each consumer has received
                   stopped  |-> {},                      \* consumers told "exhausted"
                   iters    |-> 0,                       \* times the source iterable was iterated
                   inflight |-> FALSE,                   \* a source __anext__ is in progress
                   pulls    |-> 0]                       \* answers the source has handed out

TeeApply(p, e) ==
  CASE e.ev = "iter" ->
         [p |-> [p EXCEPT !.iters = @ + 1],
          bad |-> Names([SourceConsumedOnce |-> p.iters = 0])]
    [] e.ev = "pull" ->
         [p |-> [p EXCEPT !.inflight = TRUE],
          bad |-> Names([SourceNotReentered |-> ~p.inflight])]
    [] e.ev = "pulled" ->
         [p |-> [p EXCEPT !.inflight = FALSE, !.pulls = @ + 1],
          bad |-> Names([SourceConsumedOnce |-> e.k = p.pulls + 1])]
    [] e.ev = "ret" ->
         LET n == IF e.c \in 1..p.nc THEN Len(p.got[e.c]) ELSE 0
             cl == [EachSeesAll |-> /\ e.c \in 1..p.nc
                                    /\ e.c \notin p.stopped
                                    /\ n < Len(p.src)
                                    /\ e.v = p.src[n + 1]]
         IN [p |-> IF e.c \in 1..p.nc THEN [p EXCEPT !.got[e.c] = Append(@, e.v)] ELSE p,
             bad |-> Names(cl)]
    [] e.ev = "stop" ->
         LET cl == [EachSeesAll |-> e.c \in 1..p.nc /\ p.got[e.c] = p.src] IN
         [p |-> [p EXCEPT !.stopped = @ \cup {e.c}], bad |-> Names(cl)]
    [] e.ev = "exc" ->
         [p |-> p, bad |-> {"NoConsumerError"}]
    [] e.ev = "deadlock" ->
         [p |-> p, bad |-> {"ConsumersNotStuck"}]
    [] e.ev = "end" ->
         [p |-> p, bad |-> Names([AllFinished |-> p.stopped = 1..p.nc])]
    [] OTHER -> [p |-> p, bad |-> {"UnknownEvent"}]
=============================================================================
