---------------------------- MODULE P_ThreadPool ----------------------------
(***************************************************************************)
(* Property-level observer for anyio.to_thread.run_sync (property C14).    *)
(*                                                                         *)
(* Calls are numbered 1..n.  Call c sets a context variable to 10+c before *)
(* it calls run_sync(f_c, abandon_on_cancel=ab, limiter=L); all calls      *)
(* share the limiter L with `total` tokens.  f_c logs what it sees.        *)
(*                                                                         *)
(* Events (every field a string or a small integer):                       *)
(*  [ev="call",c,ab,kind]      the caller is about to await run_sync       *)
(*  [ev="fstart",c,ctx]        f_c began to run in a worker thread and     *)
(*                             read the context variable                   *)
(*  [ev="cc",c,saw]            f_c called from_thread.check_cancelled();   *)
(*                             saw=1 iff it raised                         *)
(*  [ev="cb",c,how,res,val]    f_c called from_thread.run_sync (how="sync")*)
(*                             / from_thread.run (how="async"): res="ok"   *)
(*                             with the value, or res="cancelled"          *)
(*  [ev="fend",c,out,val]      f_c is about to return val (out="v") or to  *)
(*                             raise exception number val (out="e")        *)
(*  [ev="ret",c,out,val]       run_sync returned val / raised exception    *)
(*                             number val / raised the cancellation        *)
(*                             (out="cancelled")                           *)
(*  [ev="cp",c,res]            the caller's next checkpoint after a call   *)
(*                             that was not cancelled: "ok" / "cancelled"  *)
(*  [ev="creq",c]              scope.cancel() of the caller's scope        *)
(*  [ev="quiescent",borrowed,final]  nothing can run; final=1: all gates   *)
(*                             are open and the task group has been left   *)
(*                                                                         *)
(* Values: f_c returns 20+c / raises exception 30+c; call-back g_c returns *)
(* 40+c (only when it runs on the loop thread), coroutine r_c returns 50+c;*)
(* 60+saw after check_cancelled; exception 70+c when the call-back was     *)
(* cancelled.  Objects are compared by IDENTITY in the harness: `ret` has  *)
(* val=0 when what came out of run_sync is not the very object that the    *)
(* function returned / raised.                                             *)
(***************************************************************************)
EXTENDS Naturals, Sequences, FiniteSets

ThreadP0(total, n) ==
  [total |-> total, n |-> n,
   st   |-> [c \in 1..n |-> "new"],      \* new / call / ended
   ab   |-> [c \in 1..n |-> 0],
   kind |-> [c \in 1..n |-> "none"],
   fs   |-> [c \in 1..n |-> "no"],       \* the function: no / run / end
   fout |-> [c \in 1..n |-> "none"],
   fval |-> [c \in 1..n |-> 0],
   rout |-> [c \in 1..n |-> "none"],     \* how the call ended
   creq |-> {}]

TPNames(r) == {n \in DOMAIN r : ~r[n]}
TPKnown(p, c) == c \in 1..p.n

\* a function that is executing and whose caller is still bound to it
Abandoned(p, c) == p.ab[c] = 1 /\ p.st[c] = "ended"
Running(p) == {c \in 1..p.n : p.fs[c] = "run" /\ ~Abandoned(p, c)}
InCall(p) == {c \in 1..p.n : p.st[c] = "call"}

ThreadApply0(p, e) ==
  CASE e.ev = "call" ->
         [p |-> [p EXCEPT !.st[e.c] = "call", !.ab[e.c] = e.ab, !.kind[e.c] = e.kind],
          bad |-> TPNames([CallMadeOnce |-> p.st[e.c] = "new"])]
    [] e.ev = "fstart" ->
         LET p1 == [p EXCEPT !.fs[e.c] = "run"]
             cl == [FunctionRunsOnce |-> p.fs[e.c] = "no",
                    FunctionRunsForACall |-> p.st[e.c] # "new",
                    \* without abandon_on_cancel the function never outlives / follows its call
                    RunsWithinCall |-> p.ab[e.c] = 1 \/ p.st[e.c] = "call",
                    ContextVisible |-> e.ctx = 10 + e.c,
                    BoundedRunning |-> Cardinality(Running(p1)) <= p.total]
         IN [p |-> p1, bad |-> TPNames(cl)]
    [] e.ev = "cc" ->
         LET cl == [CheckCancelledReports |-> (e.saw = 1) <=> (e.c \in p.creq),
                    UnknownEvent |-> p.fs[e.c] = "run"]
         IN [p |-> p, bad |-> TPNames(cl)]
    [] e.ev = "cb" ->
         LET right == IF e.how = "sync" THEN 40 + e.c ELSE 50 + e.c
             cl == [CallbacksRight |->
                       \/ e.res = "ok" /\ e.val = right
                       \/ e.res = "cancelled" /\ e.how = "async" /\ e.c \in p.creq,
                    UnknownEvent |-> p.fs[e.c] = "run"]
         IN [p |-> p, bad |-> TPNames(cl)]
    [] e.ev = "fend" ->
         [p |-> [p EXCEPT !.fs[e.c] = "end", !.fout[e.c] = e.out, !.fval[e.c] = e.val],
          bad |-> TPNames([UnknownEvent |-> p.fs[e.c] = "run"])]
    [] e.ev = "ret" ->
         LET p1 == [p EXCEPT !.st[e.c] = "ended", !.rout[e.c] = e.out]
             cl == IF e.out = "cancelled"
                   THEN [NoSpuriousCancel |-> e.c \in p.creq,
                         \* without abandon_on_cancel a call whose function has started returns
                         \* the function's outcome, never the cancellation
                         CancelDeferred |-> p.ab[e.c] = 1 \/ p.fs[e.c] = "no",
                         Faithful |-> TRUE, UnknownEvent |-> p.st[e.c] = "call"]
                   ELSE [NoSpuriousCancel |-> TRUE, CancelDeferred |-> TRUE,
                         Faithful |-> /\ p.fs[e.c] = "end"
                                      /\ p.fout[e.c] = e.out
                                      /\ p.fval[e.c] = e.val,
                         UnknownEvent |-> p.st[e.c] = "call" /\ e.out \in {"v", "e"}]
         IN [p |-> p1, bad |-> TPNames(cl)]
    [] e.ev = "cp" ->
         LET cl == [NoSpuriousCancel |-> e.res = "cancelled" => e.c \in p.creq,
                    \* the cancellation that was held back is delivered at the next checkpoint
                    CancelDeferred |-> (p.ab[e.c] = 0 /\ e.c \in p.creq) => e.res = "cancelled",
                    UnknownEvent |-> p.st[e.c] = "ended" /\ p.rout[e.c] # "cancelled"]
         IN [p |-> p, bad |-> TPNames(cl)]
    [] e.ev = "creq" -> [p |-> [p EXCEPT !.creq = @ \cup {e.c}], bad |-> {}]
    [] e.ev = "quiescent" ->
         LET cl == [\* a token is only held on behalf of a call in progress ...
                    TokenAlwaysReturned |-> /\ e.borrowed <= Cardinality(InCall(p))
                                            /\ e.final = 1 => e.borrowed = 0,
                    \* ... and every running, non-abandoned function holds one
                    BoundedRunning |-> Cardinality(Running(p)) <= e.borrowed,
                    AbandonedReturnsPromptly |->
                       \A c \in InCall(p) : p.ab[c] = 1 => c \notin p.creq,
                    AllCallsEnd |-> e.final = 1 =>
                       \A c \in 1..p.n : p.st[c] # "call" /\ p.fs[c] # "run"]
         IN [p |-> p, bad |-> TPNames(cl)]
    [] OTHER -> [p |-> p, bad |-> {"UnknownEvent"}]

ThreadApply(p, e) ==
  IF "c" \in DOMAIN e /\ ~TPKnown(p, e.c) THEN [p |-> p, bad |-> {"UnknownEvent"}]
  ELSE ThreadApply0(p, e)
=============================================================================
