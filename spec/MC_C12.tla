------------------------------ MODULE MC_C12 ------------------------------
(***************************************************************************)
(* Composition root for properties C12 and C13 (memory object streams).    *)
(* NT most-general clients share one memory object stream with NS0 send    *)
(* and NR0 receive handles open initially (more can be cloned, up to 4 per *)
(* side).  Operations name the handle they use: send<h>, recv<h>, snw<h>   *)
(* (send_nowait), rnw<h> (receive_nowait), clS<h> / clR<h> (close),        *)
(* cloneS<h> / cloneR<h>, yield.  Item sent by task t: 10*t + k (k-th send *)
(* of t).  The environment cancels scopes / tasks and, as a synchronous    *)
(* callback outside any task, calls send_nowait / receive_nowait on handle *)
(* 1 (items 1, 2, ...).  With Wrap = TRUE every client runs its operations *)
(* inside "with CancelScope(shield=True): with CancelScope():" nested in    *)
(* the scope the environment cancels: that cancellation is then invisible   *)
(* to the operations (has_pending_cancellation must stop at the shield), so *)
(* it is not reported to the observer as a cancellation request.            *)
(***************************************************************************)
EXTENDS AioMem, P_Chan, Json

CONSTANTS Ops, MaxOps, MaxEnv, EnvKinds, MaxBuf, NS0, NR0, Wrap,
          Retry      \* TRUE: a client whose scope absorbed its cancellation opens a fresh one and carries on

VARIABLES L, E, hist, pst, pbad
vars == <<K, L, E, hist, pst, pbad>>
View == <<K, L, E, pst, pbad>>
Client0 == <<Frame("client", "init", 0, 0)>>     \* a = operations done, b = items sent so far

Init ==
  /\ K = KInit([t \in Task |-> Client0], [t \in Task |-> NOSCOPE])
  /\ L = MemInit(MaxBuf, NS0, NR0)
  /\ E = [n |-> 0, pre |-> [t \in Task |-> FALSE], scoped |-> {}, natived |-> {}, qat |-> 0, sent |-> 0]
  /\ hist = <<>>
  /\ pst = ChanP0(MaxBuf, NS0, NR0)
  /\ pbad = {}
Feed(e) == /\ pst' = ChanApply(pst, e).p
           /\ pbad' = pbad \cup ChanApply(pst, e).bad

Boot == [K EXCEPT !.ready = [i \in 1..NT |-> HStep(i)]]
H(t, c) == [w |-> "t", t |-> t, c |-> c, at |-> K.nh, cyc |-> K.cycle]
HE(t, c) == [w |-> "e", t |-> t, c |-> c, at |-> K.nh, cyc |-> K.cycle]
ResOf(r) == IF ~IsExc(r) THEN "ok" ELSE IF IsCancel(r) THEN "cancelled" ELSE r.e

Ev(ev, t, op, h, res, item, m) ==
  [ev |-> ev, t |-> t, op |-> op, h |-> h, res |-> res, item |-> item,
   buf |-> Len(m.buf), os |-> m.osend, or |-> m.orecv, ws |-> Len(m.wsend), wr |-> Len(m.wrecv)]
EvH(ev, side, h, nh, res, m) ==
  [ev |-> ev, side |-> side, h |-> h, nh |-> nh, res |-> res,
   buf |-> Len(m.buf), os |-> m.osend, or |-> m.orecv, ws |-> Len(m.wsend), wr |-> Len(m.wrecv)]

Hs == 1..2
OpName(base, h) == IF h = 1 THEN base \o "1" ELSE base \o "2"
FreeSlot(m, side) == CHOOSE h \in 1..4 : m.hs[side][h] = "none" /\ \A g \in 1..4 : g < h => m.hs[side][g] # "none"
HasFree(m, side) == \E h \in 1..4 : m.hs[side][h] = "none"

ClientInit(t) ==
  /\ At(K, t, "client", "init")
  /\ LET q1 == ScopeEnter(K, t, FALSE, INF, E.pre[t], "task")
         q2 == IF Wrap THEN ScopeEnter(ScopeEnter(q1, t, TRUE, INF, FALSE, "shield"), t, FALSE, INF, FALSE, "inner")
               ELSE q1
     IN K' = SetPc(q2, t, "choose")
  /\ UNCHANGED <<L, E, hist, pst, pbad>>

ClientChoose(t) ==
  /\ At(K, t, "client", "choose")
  /\ LET n == Top(K, t).a
         k == Top(K, t).b
         item == 10 * t + k + 1
         upd(q, dk) == SetTop(q, t, [Top(q, t) EXCEPT !.a = n + 1, !.b = k + dk])
     IN
     \/ \E h \in Hs :
          /\ n < MaxOps /\ OpName("send", h) \in Ops
          /\ K' = Call(upd(K, 1), t, "ret", Frame("mem_send", "start", h, item))
          /\ Feed([ev |-> "start", t |-> t, op |-> "send", h |-> h, item |-> item])
          /\ hist' = Append(hist, H(t, OpName("send", h)))
          /\ UNCHANGED <<L, E>>
     \/ \E h \in Hs :
          /\ n < MaxOps /\ OpName("recv", h) \in Ops
          /\ K' = Call(upd(K, 0), t, "ret", Frame("mem_recv", "start", h, 0))
          /\ Feed([ev |-> "start", t |-> t, op |-> "recv", h |-> h, item |-> 0])
          /\ hist' = Append(hist, H(t, OpName("recv", h)))
          /\ UNCHANGED <<L, E>>
     \/ \E h \in Hs :
          /\ n < MaxOps /\ OpName("snw", h) \in Ops
          /\ LET r == MemSendNowait(K, L, h, item) IN
             /\ L' = r.m
             /\ K' = upd(r.q, 1)
             /\ Feed(Ev("nowait", t, "send", h, r.res, item, r.m))
          /\ hist' = Append(hist, H(t, OpName("snw", h)))
          /\ UNCHANGED E
     \/ \E h \in Hs :
          /\ n < MaxOps /\ OpName("rnw", h) \in Ops
          /\ LET r == MemRecvNowait(K, L, h) IN
             /\ L' = r.m
             /\ K' = upd(r.q, 0)
             /\ Feed(Ev("nowait", t, "recv", h, r.res, r.item, r.m))
          /\ hist' = Append(hist, H(t, OpName("rnw", h)))
          /\ UNCHANGED E
     \/ \E h \in Hs, side \in {"S", "R"} :
          /\ n < MaxOps /\ OpName("cl" \o side, h) \in Ops
          /\ LET r == MemClose(K, L, side, h) IN
             /\ L' = r.m
             /\ K' = upd(r.q, 0)
             /\ Feed(EvH("close", side, h, 0, "ok", r.m))
          /\ hist' = Append(hist, H(t, OpName("cl" \o side, h)))
          /\ UNCHANGED E
     \/ \E h \in Hs, side \in {"S", "R"} :
          /\ n < MaxOps /\ OpName("clone" \o side, h) \in Ops /\ HasFree(L, side)
          /\ LET nh == FreeSlot(L, side)
                 r == MemClone(L, side, h, nh) IN
             /\ L' = r.m
             /\ K' = upd(K, 0)
             /\ Feed(EvH("clone", side, h, nh, r.res, r.m))
          /\ hist' = Append(hist, H(t, OpName("clone" \o side, h)))
          /\ UNCHANGED E
     \/ /\ n < MaxOps /\ "yield" \in Ops
        /\ K' = Call(upd(K, 0), t, "ret", Frame("yield", "start", 0, 0))
        /\ hist' = Append(hist, H(t, "yield"))
        /\ UNCHANGED <<L, E, pst, pbad>>
     \/ /\ K' = SetPc([K EXCEPT !.T[t].reg = Val], t, "fin")
        /\ hist' = Append(hist, H(t, "end"))
        /\ UNCHANGED <<L, E, pst, pbad>>

ClientRet(t) ==
  /\ At(K, t, "client", "ret")
  /\ LET r == Reg(K, t)
         isSend == KHas(pst.sending, t)
         isRecv == KHas(pst.recving, t)
     IN /\ IF isSend THEN Feed(Ev("end", t, "send", KFind(pst.sending, t).h, ResOf(r), 0, L))
           ELSE IF isRecv THEN Feed(Ev("end", t, "recv", KFind(pst.recving, t).h, ResOf(r),
                                       IF IsExc(r) THEN 0 ELSE r.e, L))
           ELSE UNCHANGED <<pst, pbad>>
        /\ K' = SetPc(K, t, IF IsCancel(r) THEN "fin" ELSE "choose")
  /\ UNCHANGED <<L, E, hist>>

RECURSIVE ExitN(_, _, _, _)
ExitN(q, t, x, n) == IF n = 1 THEN ScopeExit(q, t, x)
                     ELSE LET r == ScopeExit(q, t, x) IN ExitN(r.q, t, r.reg, n - 1)

ClientFin(t) ==
  /\ At(K, t, "client", "fin")
  /\ LET x == ExitN(K, t, Reg(K, t), IF Wrap THEN 3 ELSE 1)
         again == Retry /\ ~Wrap /\ x.caught IN
     /\ K' = IF again THEN SetPc(ScopeEnter(x.q, t, FALSE, INF, FALSE, "task"), t, "choose")
                  ELSE IF IsExc(x.reg) THEN Raise(x.q, t, x.reg) ELSE Ret(x.q, t)
     /\ E' = IF again THEN [E EXCEPT !.scoped = @ \ {t}] ELSE E
     /\ IF again THEN Feed([ev |-> "cdone", t |-> t]) ELSE UNCHANGED <<pst, pbad>>
  /\ UNCHANGED <<L, hist>>

LibStep(t) ==
  \/ /\ HelperEnabled(K, t)
     /\ K' = HelperStep(K, t)
     /\ UNCHANGED <<L, E, hist, pst, pbad>>
  \/ /\ MemSendEnabled(K, t)
     /\ LET r == MemSendStep(K, L, t) IN K' = r.q /\ L' = r.m
     /\ UNCHANGED <<E, hist, pst, pbad>>
  \/ /\ MemRecvEnabled(K, t)
     /\ LET r == MemRecvStep(K, L, t) IN K' = r.q /\ L' = r.m
     /\ UNCHANGED <<E, hist, pst, pbad>>
  \/ /\ FinishEnabled(K, t)
     /\ K' = FinishTask(K, t)
     /\ UNCHANGED <<L, E, hist, pst, pbad>>

Cycle == /\ CycleStartEnabled(K) /\ K' = CycleStart(K) /\ UNCHANGED <<L, E, hist, pst, pbad>>
RunHandle == /\ PopEnabled(K)
             /\ K' = RunKernelHandle(Popped(K), NextHandle(K))
             /\ UNCHANGED <<L, E, hist, pst, pbad>>

EnvPoint == K.run = NONE /\ (K.left > 0 \/ (Quiescent(K) /\ E.qat = K.nh + 1))

EnvCancel(t) ==
  /\ EnvPoint /\ "cancel" \in EnvKinds /\ E.n < MaxEnv /\ t \notin E.scoped /\ K.T[t].st # "done"
  /\ IF Depth(K, t) = 0
     THEN /\ K.T[t].st = "unborn"
          /\ E' = [E EXCEPT !.n = @ + 1, !.scoped = @ \cup {t}, !.pre[t] = TRUE]
          /\ K' = K
     ELSE /\ K' = ScopeCancel(K, <<t, 1>>)
          /\ E' = [E EXCEPT !.n = @ + 1, !.scoped = @ \cup {t}]
  /\ IF Wrap THEN UNCHANGED <<pst, pbad>> ELSE Feed([ev |-> "creq", t |-> t, kind |-> "scope"])
  /\ hist' = Append(hist, HE(t, "cancel"))
  /\ UNCHANGED L

EnvNative(t) ==
  /\ EnvPoint /\ "native" \in EnvKinds /\ E.n < MaxEnv /\ t \notin E.natived /\ K.T[t].st # "done"
  /\ K' = TaskCancel(K, t, FALSE)
  /\ E' = [E EXCEPT !.n = @ + 1, !.natived = @ \cup {t}]
  /\ Feed([ev |-> "creq", t |-> t, kind |-> "native"])
  /\ hist' = Append(hist, HE(t, "native"))
  /\ UNCHANGED L

\* a synchronous callback outside any task: send_nowait / receive_nowait on handle 1
EnvSend ==
  /\ EnvPoint /\ "esend" \in EnvKinds /\ E.n < MaxEnv
  /\ LET item == E.sent + 1
         r == MemSendNowait(K, L, 1, item) IN
     /\ L' = r.m /\ K' = r.q
     /\ Feed(Ev("nowait", 0, "send", 1, r.res, item, r.m))
  /\ E' = [E EXCEPT !.n = @ + 1, !.sent = @ + 1]
  /\ hist' = Append(hist, HE(0, "esend"))

EnvRecv ==
  /\ EnvPoint /\ "erecv" \in EnvKinds /\ E.n < MaxEnv
  /\ LET r == MemRecvNowait(K, L, 1) IN
     /\ L' = r.m /\ K' = r.q
     /\ Feed(Ev("nowait", 0, "recv", 1, r.res, r.item, r.m))
  /\ E' = [E EXCEPT !.n = @ + 1]
  /\ hist' = Append(hist, HE(0, "erecv"))

\* ... and closes send handle 1 (the last send clone goes away while receivers are blocked)
EnvClose ==
  /\ EnvPoint /\ "eclose" \in EnvKinds /\ E.n < MaxEnv /\ L.hs["S"][1] = "open"
  /\ LET r == MemClose(K, L, "S", 1) IN
     /\ L' = r.m /\ K' = r.q
     /\ Feed(EvH("close", "S", 1, 0, "ok", r.m))
  /\ E' = [E EXCEPT !.n = @ + 1]
  /\ hist' = Append(hist, HE(0, "eclose"))

Quiesce ==
  /\ Quiescent(K) /\ E.qat # K.nh + 1
  /\ E' = [E EXCEPT !.qat = K.nh + 1]
  /\ Feed([ev |-> "quiescent", buf |-> Len(L.buf), os |-> L.osend, or |-> L.orecv,
           ws |-> Len(L.wsend), wr |-> Len(L.wrecv)])
  /\ UNCHANGED <<K, L, hist>>

Start == K.cycle = 0 /\ K.ready = <<>> /\ K.nh = 0 /\ \A t \in Task : K.T[t].st = "unborn"

Next ==
  \/ /\ Start /\ E.qat = 0 /\ K' = Boot /\ UNCHANGED <<L, E, hist, pst, pbad>>
  \/ (~Start /\ Cycle)
  \/ RunHandle
  \/ \E t \in Task : ClientInit(t) \/ ClientChoose(t) \/ ClientRet(t) \/ ClientFin(t) \/ LibStep(t)
  \/ \E t \in Task : EnvCancel(t) \/ EnvNative(t)
  \/ EnvSend \/ EnvRecv \/ EnvClose
  \/ (~Start /\ Quiesce)

Spec == Init /\ [][Next]_vars

\* Known finding F6 (DESIGN.md section 7): a native Task.cancel() between the hand-over of an item
\* to a blocked receiver and that receiver's wake-up loses the item.  The model reproduces the code.
KnownFindingClauses == {"ItemLostOnNativeCancelOfReceiver"}
PropertyHolds == pbad \subseteq KnownFindingClauses
PropertyHoldsStrict == pbad = {}      \* holds when the environment never cancels natively
TypeOK == /\ Len(L.buf) <= L.maxbuf
          /\ L.osend \in 0..4 /\ L.orecv \in 0..4
\* an item lives in exactly one place; blocked parties are consistent with the buffer (between handles)
NoReceiverWaitingWithBufferedItem ==
  (K.run = NONE /\ L.buf # <<>>) => \A i \in DOMAIN L.wrecv : K.T[L.wrecv[i]].fut # "pending"
NoSenderWaitingWithRoom ==
  (K.run = NONE /\ Len(L.buf) < L.maxbuf /\ L.orecv > 0) =>
      \A i \in DOMAIN L.wsend : K.T[L.wsend[i].t].fut # "pending"
CountersMatchHandles ==
  /\ L.osend = Cardinality({h \in 1..4 : L.hs["S"][h] = "open"})
  /\ L.orecv = Cardinality({h \in 1..4 : L.hs["R"][h] = "open"})
Residue == \A t \in Task : (K.T[t].st = "done" /\ t \notin E.natived) => K.T[t].nc = 0

Final == [buf |-> Len(L.buf), os |-> L.osend, or |-> L.orecv, ws |-> Len(L.wsend), wr |-> Len(L.wrecv),
          nh |-> K.nh,
          out |-> [t \in Task |-> IF K.T[t].st # "done" THEN "blocked"
                                  ELSE IF ~IsExc(K.T[t].out) THEN "ok"
                                  ELSE IF IsCancel(K.T[t].out) THEN "cancelled" ELSE "error"],
          nc |-> [t \in Task |-> K.T[t].nc]]
EmitFinalAC == (E'.qat # E.qat) => PrintT(<<"@@F", ToJson([h |-> hist', fin |-> Final])>>)
EmitAC == /\ (hist' # hist) => PrintT(<<"@@H", ToJson(hist')>>)
          /\ EmitFinalAC
=============================================================================
