------------------------------- MODULE P_Cond -------------------------------
(***************************************************************************)
(* Property-level specification of anyio.Condition (property C11).         *)
(*                                                                         *)
(* holder  : task between a successful acquire / wait and its release or   *)
(*           next wait (0 = nobody)                                        *)
(* waiting : tasks inside wait() that are queued for a notification, in    *)
(*           the order in which they called wait()                         *)
(* notified: tasks inside wait() that hold a notification                  *)
(* passed  : notified waiters whose notification has been passed on;       *)
(* gone    : waiters that withdrew from the queue (both kinds must end in  *)
(*           cancellation)                                                 *)
(*                                                                         *)
(* notify(n) selects the first min(n, |waiting|) queued waiters.  A waiter *)
(* for which a cancellation has been requested may, at an instant that is  *)
(* not observable through the public API, withdraw from the queue or - if  *)
(* it already holds a notification - pass it on to the head of the queue.  *)
(* These are SILENT steps of the specification: the observer therefore     *)
(* tracks the SET of abstract states that are compatible with the observed *)
(* events (subset construction; TLC infers what was not logged) and the    *)
(* reported tasks_waiting prunes it.  A clause is violated only when NO    *)
(* compatible state explains an event.                                     *)
(*                                                                         *)
(* Events: [ev="start",t,op] op in acq|wait;  [ev="end",t,op,res,owner,w]  *)
(*  [ev="nowait",t,res,owner,w] [ev="rel",t,res,owner,w]                   *)
(*  [ev="notify",t,n,res,owner,w] (n = -1: notify_all) [ev="creq",t]       *)
(*  [ev="quiescent",owner,w]    (owner: lock owner or 0, w: tasks_waiting) *)
(***************************************************************************)
EXTENDS Naturals, Sequences, FiniteSets

CondP0 == [holder |-> 0, acq |-> {}, inwait |-> {}, waiting |-> <<>>, notified |-> {},
           passed |-> {}, gone |-> {}, creq |-> {}, native |-> {}, refuse |-> {},
           taint |-> FALSE]   \* known finding F8 has occurred: the observer is out of sync from here on

CNames(r) == {n \in DOMAIN r : ~r[n]}
CSeqSet(s) == {s[i] : i \in DOMAIN s}
CRemove(s, x) == SelectSeq(s, LAMBDA y : y # x)
CTake(s, k) == {s[i] : i \in {j \in DOMAIN s : j <= k}}
CDrop(s, k) == SubSeq(s, k + 1, Len(s))
CMin(a, b) == IF a < b THEN a ELSE b

(* silent steps of one abstract state *)
CondSilentSucc(p) ==
  {[p EXCEPT !.waiting = CRemove(@, t), !.gone = @ \cup {t}] :
       t \in {u \in CSeqSet(p.waiting) : u \in p.creq}}
  \cup
  {[p EXCEPT !.passed = @ \cup {t},
             !.notified = IF p.waiting # <<>> THEN @ \cup {Head(p.waiting)} ELSE @,
             !.waiting = IF p.waiting # <<>> THEN Tail(@) ELSE @] :
       t \in {u \in p.notified \ p.passed : u \in p.creq}}

RECURSIVE CondClosure(_)
CondClosure(ps) ==
  LET nxt == ps \cup UNION {CondSilentSucc(p) : p \in ps} IN
  IF nxt = ps THEN ps ELSE CondClosure(nxt)

ObsOk(p, e) == [WaitingCountTrue |-> e.w = Len(p.waiting)]

CondApply0(p, e) ==
  CASE e.ev = "start" /\ e.op = "acq" -> [p |-> [p EXCEPT !.acq = @ \cup {e.t}], bad |-> {}]
    [] e.ev = "start" /\ e.op = "wait" ->
         IF p.holder = e.t
         THEN [p |-> [p EXCEPT !.holder = 0, !.inwait = @ \cup {e.t}, !.waiting = Append(@, e.t)],
               bad |-> {}]
         ELSE [p |-> [p EXCEPT !.refuse = @ \cup {e.t}, !.inwait = @ \cup {e.t}], bad |-> {}]
    [] e.ev = "end" /\ e.op = "acq" ->
         LET p1 == [p EXCEPT !.acq = @ \ {e.t}] IN
         IF e.res = "ok"
         THEN [p |-> [p1 EXCEPT !.holder = e.t],
               bad |-> CNames([MutualExclusion |-> p.holder = 0, ReturnsToOwner |-> e.owner = e.t])
                       \cup CNames(ObsOk(p1, e))]
         ELSE IF e.res = "cancelled"
         THEN [p |-> p1, bad |-> CNames([CancelWasRequested |-> e.t \in p.creq]) \cup CNames(ObsOk(p1, e))]
         ELSE [p |-> p1, bad |-> CNames([ErrorOnlyWhenReacquiring |-> p.holder = e.t])]
    [] e.ev = "end" /\ e.op = "wait" /\ e.t \in p.refuse ->
         \* wait() without holding the lock must be refused
         [p |-> [p EXCEPT !.refuse = @ \ {e.t}, !.inwait = @ \ {e.t}],
          bad |-> CNames([RefusedUnlessHolding |->
                            e.res = "error" \/ (e.res = "cancelled" /\ e.t \in p.creq)])]
    [] e.ev = "end" /\ e.op = "wait" /\ e.res = "ok" ->
         LET cl == [NoSpuriousWake |-> e.t \in p.notified /\ e.t \notin p.passed,
                    MutualExclusion |-> p.holder = 0,
                    WaitReturnsHolding |-> e.owner = e.t]
             p1 == [p EXCEPT !.holder = e.t, !.inwait = @ \ {e.t}, !.notified = @ \ {e.t},
                             !.waiting = CRemove(@, e.t)]
         IN [p |-> p1, bad |-> CNames(cl) \cup CNames(ObsOk(p1, e))]
    [] e.ev = "end" /\ e.op = "wait" /\ e.res = "cancelled" ->
         \* Known finding F8: a native Task.cancel() that lands while wait() re-acquires the lock
         \* (the shielded acquire in its finally block) makes wait() raise WITHOUT the lock, and a
         \* notification the waiter had already consumed is not passed on.
         LET pre == e.t \in p.waiting          \* cancelled before it queued (checkpoint at entry)?
             cl == [CancelWasRequested |-> e.t \in p.creq,
                    MutualExclusion |-> e.owner = e.t => p.holder = 0,
                    NotificationPassedOn |->
                        (e.owner = e.t /\ e.t \in p.notified /\ e.t \notin p.passed) => p.waiting = <<>>,
                    \* the re-acquire is shielded: only a NATIVE cancellation can interrupt it (F8)
                    WaitInterruptedInReacquire |-> (e.t \in p.native) => e.owner = e.t,
                    WaitRaisesHoldingTheLock |-> (e.t \notin p.native) => e.owner = e.t]
             p1 == [p EXCEPT !.holder = IF e.owner = e.t THEN e.t ELSE @,
                             !.inwait = @ \ {e.t}, !.notified = @ \ {e.t}, !.passed = @ \ {e.t},
                             !.gone = @ \ {e.t}, !.waiting = CRemove(@, e.t)]
         IN [p |-> p1, bad |-> CNames(cl) \cup CNames(ObsOk(p1, e))]
    [] e.ev = "end" /\ e.op = "wait" ->          \* error although the caller held the lock
         [p |-> [p EXCEPT !.inwait = @ \ {e.t}, !.waiting = CRemove(@, e.t), !.notified = @ \ {e.t},
                          !.holder = IF e.owner = e.t THEN e.t ELSE @],
          bad |-> {"HolderMayWait"}]
    [] e.ev = "nowait" ->
         IF e.res = "ok"
         THEN [p |-> [p EXCEPT !.holder = e.t],
               bad |-> CNames([MutualExclusion |-> p.holder = 0, ReturnsToOwner |-> e.owner = e.t])]
         ELSE [p |-> p, bad |-> CNames(ObsOk(p, e))]
    [] e.ev = "rel" ->
         IF e.res = "ok"
         THEN [p |-> [p EXCEPT !.holder = IF @ = e.t THEN 0 ELSE @],
               bad |-> CNames([OnlyOwnerReleases |-> p.holder = e.t]) \cup CNames(ObsOk(p, e))]
         ELSE [p |-> p, bad |-> CNames([OwnerCanRelease |-> p.holder # e.t])]
    [] e.ev = "notify" ->
         IF e.res = "ok"
         THEN LET k == IF e.n < 0 THEN Len(p.waiting) ELSE CMin(e.n, Len(p.waiting))
                  p1 == [p EXCEPT !.notified = @ \cup CTake(p.waiting, k), !.waiting = CDrop(@, k)]
              IN [p |-> p1,
                  bad |-> CNames([RefusedUnlessHolding |-> p.holder = e.t]) \cup CNames(ObsOk(p1, e))]
         ELSE [p |-> p, bad |-> CNames([HolderMayNotify |-> p.holder # e.t])]
    [] e.ev = "creq" ->
         [p |-> [p EXCEPT !.creq = @ \cup {e.t}, !.native = IF e.kind = "native" THEN @ \cup {e.t} ELSE @],
          bad |-> {}]
    [] e.ev = "cdone" -> [p |-> [p EXCEPT !.creq = @ \ {e.t}], bad |-> {}]   \* t's scope absorbed the request; t carries on
    [] e.ev = "quiescent" ->
         \* nobody who holds a notification is left asleep while the lock is free, and nobody is
         \* left waiting for a free lock
         LET cl == [NotifiedNotLeftAsleep |-> (p.notified \ p.passed) # {} => p.holder # 0,
                    NoFreeLockWithWaiters |-> p.acq # {} => p.holder # 0,
                    CancelledNotLeftAsleep |-> (p.passed \cup p.gone) # {} => p.holder # 0]
         IN [p |-> p, bad |-> CNames(cl) \cup CNames(ObsOk(p, e))]
    [] OTHER -> [p |-> p, bad |-> {"UnknownEvent"}]

CondApply(p, e) ==
  LET r == CondApply0(p, e) IN
  IF p.taint /\ r.bad # {} THEN [p |-> r.p, bad |-> {"WaitInterruptedInReacquire"}]
  ELSE [p |-> [r.p EXCEPT !.taint = @ \/ "WaitInterruptedInReacquire" \in r.bad], bad |-> r.bad]

(* subset construction: ps = set of abstract states compatible with the events so far *)
CondApplySet(ps, e) ==
  LET cands == CondClosure(ps)
      rs == {CondApply(p, e) : p \in cands}
      good == {r \in rs : r.bad = {}}
      \* no compatible state explains the event: report the explanation that violates the fewest clauses
      best == CHOOSE r \in rs : \A r2 \in rs : Cardinality(r.bad) <= Cardinality(r2.bad)
  IN IF good # {} THEN [ps |-> {r.p : r \in good}, bad |-> {}]
     ELSE [ps |-> {best.p}, bad |-> best.bad]
=============================================================================
