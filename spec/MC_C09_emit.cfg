CONSTANTS
  NT = 2
  INF = 99
  Ops = {"acq", "nowait", "rel", "yield"}
  MaxOps = 2
  MaxEnv = 1
  Fast = FALSE
  EnvKinds = {"cancel", "native"}
SPECIFICATION Spec
VIEW View
INVARIANT PropertyHolds
INVARIANT TypeOK
INVARIANT NoDuplicateWaiters
INVARIANT NoLiveWaiterOnFreeLock
INVARIANT OwnerAlive
INVARIANT NoDeadWaiters
INVARIANT Residue
CHECK_DEADLOCK FALSE
ACTION_CONSTRAINT EmitAC
