------------------------------- MODULE ByteSeqs -------------------------------
(***************************************************************************)
(* Byte strings as sequences of small integers: the operators shared by    *)
(* the stream machine BufStream and the property observer P_ByteWrap.      *)
(***************************************************************************)
EXTENDS Naturals, Sequences

BMin(a, b) == IF a < b THEN a ELSE b
Take(s, n) == SubSeq(s, 1, BMin(n, Len(s)))
Drop(s, n) == IF n >= Len(s) THEN <<>> ELSE SubSeq(s, n + 1, Len(s))

OccAt(d, s, i) == /\ i >= 1
                  /\ i + Len(d) - 1 <= Len(s)
                  /\ SubSeq(s, i, i + Len(d) - 1) = d
Occurs(d, s) == \E i \in 1..Len(s) : OccAt(d, s, i)
\* position (1-based) of the first occurrence of d in s, 0 when there is none
FirstOcc(d, s) ==
  IF Occurs(d, s)
  THEN CHOOSE i \in 1..Len(s) : OccAt(d, s, i) /\ \A j \in 1..(i - 1) : ~OccAt(d, s, j)
  ELSE 0

RECURSIVE Flatten(_)
Flatten(cs) == IF cs = <<>> THEN <<>> ELSE Head(cs) \o Flatten(Tail(cs))
=============================================================================
