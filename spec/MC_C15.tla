------------------------------ MODULE MC_C15 ------------------------------
(***************************************************************************)
(* Composition root for property C15 (BlockingPortal).                     *)
(*                                                                         *)
(* AioPortal is the implementation-shaped model; P_Portal (extended by it) *)
(* is the property-level observer carried as ghost state (pst, pbad).      *)
(*                                                                         *)
(* Invariants:                                                             *)
(*  PropertyHolds   no clause of the statement is violated in any          *)
(*                  reachable state, except the clauses of the two known   *)
(*                  model-level findings in exactly the states where the   *)
(*                  model has taken the racy path (ghost flags inert /     *)
(*                  hung); crashed states (FutRace only) are terminal      *)
(*  PropertyHoldsStrict  pbad = {}: holds when the environment acts only   *)
(*                  at quiescent points (QStep), the replay binding        *)
(*  NoCrash         InvalidStateError never escapes _call_func.  FAILS     *)
(*                  with FutRace = TRUE: finding C15-A; the check runs it  *)
(*                  as a witness and expects the violation.                *)
(*  CancelAlwaysLands  FAILS without QStep: finding C15-B (witness).       *)
(*  TypeOK, GroupJoined, NoOrphanFuture, NoHungThread                      *)
(*                  implementation-level sanity                            *)
(* EmitAC prints the history of environment choices at every quiescent     *)
(* point: the maximal histories are the replay scenarios.                  *)
(***************************************************************************)
EXTENDS AioPortal, Json, TLC

\* Finding C15-B: a call accepted concurrently with stop() whose _call_func starts after stop() ran
\* captures event_loop_thread_id = None, so the done-callback of its future never cancels the
\* call's scope: Future.cancel() is accepted but the task runs on.  The model reproduces the code.
\* With ChkRace the same check-then-act window also lets the loop finish between _check_running()
\* and call_soon_threadsafe(): the caller waits for a handle that never runs.
KnownFindingClauses ==
  (IF S.inert # {} THEN {"CancelledTaskEnded"} ELSE {})
  \cup (IF \E i \in Thr : S.thr[i].pc = "hung" THEN {"NothingOrphaned"} ELSE {})
PropertyHolds == ~S.crashed => pbad \subseteq KnownFindingClauses
PropertyHoldsStrict == ~S.crashed => pbad = {}    \* holds when the environment acts at quiescent points
NoCrash == ~S.crashed                             \* fails with FutRace (finding C15-A)
CancelAlwaysLands == "CancelledTaskEnded" \notin pbad   \* fails without QStep (finding C15-B)

TypeOK ==
  /\ S.loop \in {"running", "draining", "stopped", "closed"}
  /\ S.host \in {"sleep", "joining", "ckpt", "done"}
  /\ \A c \in Calls : /\ S.fut[c] \in {"none", "pending", "val", "exc", "cancelled"}
                      /\ S.task[c].st \in {"none", "new", "parked", "epi", "done"}
  /\ Len(S.rq) <= 4 * (NC + 2)

\* the loop does not finish while a task of the group is alive, and a closed loop has no handles
GroupJoined ==
  /\ S.host = "done" => \A c \in Calls : S.task[c].st \in {"none", "done"}
  /\ (S.loop = "closed" /\ ~ChkRace) => \A i \in DOMAIN S.rq : S.rq[i].k = "gset"

\* a future in a caller's hand is pending only while its task exists and has not finished
NoOrphanFuture ==
  \A c \in S.exposed : S.fut[c] = "pending" => S.task[c].st \in {"new", "parked", "epi"}

\* without the check/marshal race no thread waits for a handle that will never run
NoHungThread == ~ChkRace => \A i \in Thr : S.thr[i].pc # "hung"

Final == [left |-> S.left, fut |-> [c \in 1..NC |-> S.fut[c]], loop |-> S.loop]
EmitFinalAC == (qd' /\ ~qd) => PrintT(<<"@@F", ToJson([h |-> hist', fin |-> Final])>>)
EmitAC == EmitFinalAC
=============================================================================
