----------------------------- MODULE AioCache -----------------------------
(***************************************************************************)
(* anyio.functools.AsyncLRUCacheWrapper.__call__ (functools.py:137-216) on *)
(* top of the kernel (Aio) and anyio's Lock (AioLock), as the pinned tree  *)
(* has it - including the defects recorded as finding F3: the eviction     *)
(* pops whatever entry is first (possibly the placeholder of an execution  *)
(* in flight), a failed call leaves its placeholder and its count behind,  *)
(* an expired entry is replaced in place.                                  *)
(*                                                                         *)
(* State of one wrapper on one loop (record C):                            *)
(*   ord   the keys of the OrderedDict in its order                        *)
(*   ent   key -> [v (0 = initial_missing placeholder, else the result),   *)
(*                 lk (lock id, 0 = None), exp (expires_at, INF = None)]   *)
(*   locks lock id -> Lock state (AioLock), nlk = locks created            *)
(*   hits, misses, currsize   the counters behind cache_info()             *)
(*   nx    executions of the wrapped function started so far               *)
(*   gout  execution id -> what the environment decided ("none"/"ok"/      *)
(*         "fail"); xof: task -> the execution it is suspended in (0)      *)
(* Frames: "cache_call" (a = key, b = lock id / the hit value),            *)
(*   labels = the critical sections between the awaits of __call__;        *)
(*   "wrapped" (a = key, b = execution id): the harness' wrapped function: *)
(*   log start, wait on a per-execution gate, return a fresh object        *)
(*   (identified by the execution id) or raise a fresh error.              *)
(* Every step returns [q, c, evs]: kernel, cache, observable events.       *)
(***************************************************************************)
EXTENDS AioLock

CONSTANTS MaxSize,     \* maxsize (NOMAX = None)
          Ttl,         \* ttl (NOTTL = None)
          AlwaysCp,    \* always_checkpoint
          NK,          \* keys 1..NK
          MaxLocks     \* bound on locks created in one behaviour (= bound on calls)

NOMAX == 99
NOTTL == 99
Keys == 1..NK
KEYERROR == 0          \* identity of an exception the wrapped function did not raise

NoEnt == [v |-> 0, lk |-> 0, exp |-> INF]
CacheInit ==
  [ord |-> <<>>, ent |-> [k \in Keys |-> NoEnt],
   locks |-> [i \in 1..MaxLocks |-> LockInit(~AlwaysCp)], nlk |-> 0,
   hits |-> 0, misses |-> 0, currsize |-> 0, nx |-> 0,
   gout |-> [x \in 1..MaxLocks |-> "none"], xof |-> [t \in Task |-> 0]]

(************************** the OrderedDict ********************************)
InDict(c, k) == \E i \in DOMAIN c.ord : c.ord[i] = k
Without(s, k) == SelectSeq(s, LAMBDA x : x # k)
MoveToEnd(c, k) == [c EXCEPT !.ord = Append(Without(@, k), k)]          \* caller checks InDict
SetItem(c, k, r) == IF InDict(c, k) THEN [c EXCEPT !.ent[k] = r]          \* position kept
                    ELSE [c EXCEPT !.ent[k] = r, !.ord = Append(@, k)]
PopFirst(c) == [c EXCEPT !.ord = Tail(@), !.ent[Head(c.ord)] = NoEnt]    \* popitem(last=False)
PopLast(c) == [c EXCEPT !.ord = SubSeq(@, 1, Len(@) - 1), !.ent[c.ord[Len(c.ord)]] = NoEnt]

\* a new placeholder with a new lock for key k (:171-176, :181-186)
NewPlaceholder(c, k) ==
  LET lid == c.nlk + 1 IN
  [c |-> SetItem([c EXCEPT !.nlk = lid], k, [v |-> 0, lk |-> lid, exp |-> INF]), lid |-> lid]

Out(q, c, evs) == [q |-> q, c |-> c, evs |-> evs]
Acquire(q, t, lid) ==        \* "async with lock:" -> lock.acquire()
  Call(SetTop(q, t, [Top(q, t) EXCEPT !.b = lid]), t, "locked", Frame("lock_acq", "start", lid, 0))
Release(q, c, t, lid) ==     \* __aexit__ -> lock.release(); the caller owns the lock here
  LET r == LockRelease(q, c.locks[lid], t) IN [q |-> r.q, c |-> [c EXCEPT !.locks[lid] = r.lk]]

(************************** __call__ ***************************************)
CacheCallEnabled(q, t) == q.run = t /\ q.T[t].stack # <<>> /\ Top(q, t).f = "cache_call"
CacheCallStep(q, c, t) ==
  LET fr == Top(q, t)
      k == fr.a
      r == Reg(q, t)
  IN
  CASE fr.pc = "start" ->
         IF MaxSize = 0                                                      \* :139-142
         THEN Out(Call(q, t, "m0ret", Frame("wrapped", "start", k, 0)), c, <<>>)
         ELSE IF ~InDict(c, k)                                               \* :169-176
         THEN LET n == NewPlaceholder(c, k) IN Out(Acquire(q, t, n.lid), n.c, <<>>)
         ELSE LET e == c.ent[k] IN
              IF e.lk # 0 THEN Out(Acquire(q, t, e.lk), c, <<>>)             \* somebody is computing
              ELSE IF e.exp # INF /\ q.now >= e.exp                          \* :179-186 expired
              THEN LET n == NewPlaceholder([c EXCEPT !.currsize = @ - 1], k) IN
                   Out(Acquire(q, t, n.lid), n.c, <<>>)
              ELSE LET c1 == MoveToEnd([c EXCEPT !.hits = @ + 1], k) IN      \* :188-194 hit
                   IF AlwaysCp
                   THEN Out(Call(SetTop(q, t, [fr EXCEPT !.b = e.v]), t, "hitcp",
                                 Frame("yield", "start", 0, 0)), c1, <<>>)
                   ELSE Out(RetV(q, t, e.v), c1, <<>>)
    [] fr.pc = "hitcp" ->
         IF IsExc(r) THEN Out(Raise(q, t, r), c, <<>>) ELSE Out(RetV(q, t, fr.b), c, <<>>)
    [] fr.pc = "locked" ->                                                   \* :196-203
         IF IsExc(r) THEN Out(Raise(q, t, r), c, <<>>)                       \* acquire() raised
         ELSE IF ~InDict(c, k)                                               \* cache_entry[key]: KeyError
         THEN LET x == Release(q, c, t, fr.b) IN Out(Raise(x.q, t, Err(KEYERROR)), x.c, <<>>)
         ELSE LET e == c.ent[k] IN
              IF e.v = 0
              THEN LET c1 == [c EXCEPT !.misses = @ + 1]
                       c2 == IF MaxSize # NOMAX /\ c1.currsize >= MaxSize
                             THEN PopFirst(c1) ELSE [c1 EXCEPT !.currsize = @ + 1]
                   IN Out(Call(q, t, "computed", Frame("wrapped", "start", k, 0)), c2, <<>>)
              ELSE LET c1 == MoveToEnd([c EXCEPT !.hits = @ + 1], k)         \* :210-214
                       x == Release(q, c1, t, fr.b)
                   IN Out(RetV(x.q, t, e.v), x.c, <<>>)
    [] fr.pc = "computed" ->                                                 \* :205-209
         IF IsExc(r) THEN LET x == Release(q, c, t, fr.b) IN Out(Raise(x.q, t, r), x.c, <<>>)
         ELSE LET c1 == SetItem(c, k, [v |-> r.e, lk |-> 0,
                                       exp |-> IF Ttl = NOTTL THEN INF ELSE q.now + Ttl])
                  x == Release(q, c1, t, fr.b)
              IN Out(RetV(x.q, t, r.e), x.c, <<>>)
    [] fr.pc = "m0ret" ->
         IF IsExc(r) THEN Out(Raise(q, t, r), c, <<>>)
         ELSE Out(RetV(q, t, r.e), [c EXCEPT !.misses = @ + 1], <<>>)

(************************** the wrapped function ***************************)
WrappedEnabled(q, t) == q.run = t /\ q.T[t].stack # <<>> /\ Top(q, t).f = "wrapped"
WrappedStep(q, c, t) ==
  LET fr == Top(q, t)
      r == Reg(q, t)
  IN
  CASE fr.pc = "start" ->
         LET x == c.nx + 1 IN
         Out(SuspendFut(SetTop(q, t, [fr EXCEPT !.b = x]), t, "gate"),
             [c EXCEPT !.nx = x, !.xof[t] = x],
             <<[ev |-> "xstart", c |-> t, k |-> fr.a, x |-> x]>>)
    [] fr.pc = "gate" ->
         LET x == fr.b
             c1 == [c EXCEPT !.xof[t] = 0] IN
         IF IsExc(r) THEN Out(Raise(q, t, r), c1, <<[ev |-> "xend", x |-> x, res |-> "cancelled"]>>)
         ELSE IF c.gout[x] = "fail"
         THEN Out(Raise(q, t, Err(x)), c1, <<[ev |-> "xend", x |-> x, res |-> "fail"]>>)
         ELSE Out(RetV(q, t, x), c1, <<[ev |-> "xend", x |-> x, res |-> "ok"]>>)

\* the environment opens the gate of the execution task t is suspended in
GateOpen(q, c, t, how) == [q |-> FutSetResult(q, t), c |-> [c EXCEPT !.gout[c.xof[t]] = how]]

\* the lock a task is acquiring (frame lock_acq, a = lock id)
LockOfFrame(q, t) == Top(q, t).a

\* results the cache keeps alive: the values stored in the dict
Retained(c) == {c.ent[c.ord[i]].v : i \in DOMAIN c.ord} \ {0}
=============================================================================
