"""Generic driver for the properties decided by  Aio-model + P-observer + replay + trace validation.

For one property the driver
 1. model-checks the implementation-shaped specification (MC_<id>) with TLC: the property-level
    observer is ghost state of that model, so `PropertyHolds` (pbad = {}) is checked in every
    reachable state of every interleaving, together with the implementation-level invariants;
 2. makes TLC print the history of nondeterministic choices on every choice edge of the state graph
    (exhaustively for the small configurations, by -simulate for the large ones) and turns the
    maximal histories into scenarios;
 3. replays every scenario on the real library on the controlled loop and records the
    property-level trace of what the library did;
 4. has TLC validate all recorded traces against the same observer (T_<name>);
 5. compares the final projection of complete scenarios with the model's (drift, never a verdict).
"""

from __future__ import annotations

import json
import random
from dataclasses import dataclass, field
from pathlib import Path
from typing import Any, Callable

from . import core, replay, tlc


@dataclass
class ModelCfg:
    name: str
    constants: dict[str, str]
    tiers: tuple[str, ...] = ("quick", "thorough")
    emit: bool = False                 # exhaustive: print history on every choice edge
    simulate: int = 0                  # number of random behaviours to sample (0 = none)
    sim_depth: int = 400
    check: bool = True                 # exhaustive model check (without emission) of this config
    replay_kw: dict[str, Any] = field(default_factory=dict)
    max_scenarios: int | None = None   # cap on emitted scenarios replayed (sampled by seed)
    timeout: int = 3000
    liveness: dict | None = None       # {"spec": ..., "properties": [...]}: temporal check, no VIEW, no replay


@dataclass
class Family:
    prop: str
    mc_module: str
    t_module: str
    fam_module: str
    invariants: list[str]
    configs: list[ModelCfg]
    nt_of: Callable[[dict[str, str]], int]
    compare_final: Callable[[dict, dict], list[str]] | None = None
    properties: list[str] = field(default_factory=list)
    signature_of: Callable[[dict, dict], str | None] | None = None
    assumptions: list[str] = field(default_factory=list)
    view: str | None = "View"
    emit_ac: str = "EmitAC"
    emit_final_ac: str = "EmitFinalAC"
    scenario_of: Callable[[list, int], dict] | None = None
    extra_traces: Callable[[str, int], list[dict]] | None = None   # e.g. harvested / random programs
    clauses: set[str] | None = None    # clause names that belong to this property (None = all)
    directed: str | None = None        # corpus/<name>.json: directed scenarios beyond the emitted bounds
    eager_pass: bool = True            # thorough tier: replay a sample again with asyncio.eager_task_factory
    uvloop_pass: bool = True           # thorough tier: replay timer-free scenarios on uvloop (cycle ticker)


def _hist_from_counterexample(output: str) -> list[dict] | None:
    """Parse the last `/\\ hist = << [k |-> v, ...], ... >>` block of a TLC error trace."""
    import re
    i = output.rfind("/\\ hist = <<")
    if i < 0:
        return None
    j = output.find(">>", i)
    block = output[i:j]
    hist = []
    for m in re.finditer(r"\[([^\[\]]*)\]", block):
        rec = {}
        for part in m.group(1).split(","):
            if "|->" not in part:
                continue
            k, v = part.split("|->", 1)
            v = v.strip()
            rec[k.strip()] = v[1:-1] if v.startswith('"') else int(v)
        if rec:
            hist.append(rec)
    return hist


def _timer_free(scn: dict) -> bool:
    for ops in scn.get("tasks", {}).values():
        for op in ops:
            if isinstance(op, list):
                if op[0] in ("sleep", "openf", "openm", "dline") or (op[0] == "open" and op[2] < 99):
                    return False
    return True


def run_family(fam: Family, tier: str, seed: int) -> int:
    rep = core.Report(fam.prop, tier, seed)
    run_part(fam, tier, seed, rep)
    return rep.finish()


def run_parts(prop: str, fams: list[Family], tier: str, seed: int) -> int:
    rep = core.Report(prop, tier, seed)
    for f in fams:
        run_part(f, tier, seed, rep)
    return rep.finish()


def run_part(fam: Family, tier: str, seed: int, rep: core.Report) -> None:
    for a in fam.assumptions:
        if a not in rep.assumptions:
            rep.assumptions.append(a)
    rng = random.Random(seed)
    cfgdir = core.OUT / fam.prop
    cfgdir.mkdir(parents=True, exist_ok=True)
    scenarios: list[dict] = []   # {"scn", "kw", "fin" (model's final projection or None), "src"}
    seen: set[str] = set()

    def model_alarm(cfg: ModelCfg, r: Any, mode: str) -> None:
        """The model violated one of its invariants.  Per DESIGN 2.5 the counter-example is replayed on
        the real code before anything is reported: if the real code shows the violation it is reported
        through the ordinary path below (the scenario joins the replay set); otherwise it is a
        MODEL-ALARM (the specification or the observer is imprecise), recorded in the evidence."""
        hist = _hist_from_counterexample(r.output)
        rep.extra.setdefault("model_alarms", []).append(
            {"model": f"{fam.mc_module}/{cfg.name}", "mode": mode, "invariant": r.violated,
             "history": hist})
        print(f"MODEL-ALARM property={fam.prop} model={fam.mc_module}/{cfg.name} invariant={r.violated} "
              f"(counter-example replayed on the real code; a VIOLATION follows only if it reproduces)")
        if hist:
            nt = fam.nt_of(cfg.constants)
            scn = (fam.scenario_of or replay.split_hist)(hist, nt)
            scenarios.append({"scn": scn, "kw": cfg.replay_kw, "fin": None,
                              "src": f"{cfg.name}:model-counterexample"})

    def add_scn(hist: list, cfg: ModelCfg, fin: dict | None, src: str) -> None:
        nt = fam.nt_of(cfg.constants)
        scn = (fam.scenario_of or replay.split_hist)(hist, nt)
        key = json.dumps([scn, cfg.replay_kw], sort_keys=True)
        if key in seen:
            return
        seen.add(key)
        scenarios.append({"scn": scn, "kw": cfg.replay_kw, "fin": fin, "src": src})

    for cfg in fam.configs:
        if tier not in cfg.tiers:
            continue
        if cfg.liveness:
            p = cfgdir / f"{cfg.name}-live.cfg"
            tlc.write_cfg(p, constants=cfg.constants, spec=cfg.liveness["spec"], view=None,
                          properties=cfg.liveness["properties"])
            r = tlc.run_tlc(fam.mc_module, p, workers=8, timeout=cfg.timeout, tag=f"{fam.prop}-{cfg.name}-live")
            if r.violated:
                raise tlc.TLCError(f"model {fam.mc_module}/{cfg.name} violates temporal property {r.violated}\n"
                                   + r.output[-3000:])
            rep.add_model(f"{fam.mc_module}/{cfg.name}", r, mode="liveness under weak fairness",
                          properties=cfg.liveness["properties"], constants=cfg.constants)
            continue
        base = dict(constants=cfg.constants, view=fam.view, invariants=fam.invariants,
                    properties=fam.properties)
        if cfg.check:
            p = cfgdir / f"{cfg.name}.cfg"
            tlc.write_cfg(p, **base)
            r = tlc.run_tlc(fam.mc_module, p, timeout=cfg.timeout, tag=f"{fam.prop}-{cfg.name}")
            if r.violated:
                model_alarm(cfg, r, "exhaustive")
            rep.add_model(f"{fam.mc_module}/{cfg.name}", r, mode="exhaustive", constants=cfg.constants)
        if cfg.emit:
            p = cfgdir / f"{cfg.name}-emit.cfg"
            tlc.write_cfg(p, **base, action_constraints=[fam.emit_ac])
            r = tlc.run_tlc(fam.mc_module, p, workers=1, timeout=cfg.timeout,
                            tag=f"{fam.prop}-{cfg.name}-emit", keep_output=True)
            if r.violated:
                model_alarm(cfg, r, "exhaustive+emit")
            hs = tlc.payloads(r.lines, "@@H")
            fs = tlc.payloads(r.lines, "@@F")
            finals = {json.dumps(f["h"], sort_keys=True): f["fin"] for f in fs}
            lv = replay.leaves(hs + [f["h"] for f in fs])
            # the cap bounds the quick tier; the thorough tier replays three times as many (sampled by seed)
            cap = None if cfg.max_scenarios is None else cfg.max_scenarios * (3 if tier == "thorough" else 1)
            if cap is not None and len(lv) > cap:
                lv = rng.sample(lv, cap)
            for h in lv:
                add_scn(h, cfg, finals.get(json.dumps(h, sort_keys=True)), f"{cfg.name}:graph")
            if not cfg.check:
                rep.add_model(f"{fam.mc_module}/{cfg.name}", r, mode="exhaustive+emit",
                              constants=cfg.constants)
            rep.extra.setdefault("choice_edges_emitted", 0)
            rep.extra["choice_edges_emitted"] += len(hs)
        if cfg.simulate:
            p = cfgdir / f"{cfg.name}-sim.cfg"
            tlc.write_cfg(p, **base, action_constraints=[fam.emit_final_ac])
            r = tlc.run_tlc(fam.mc_module, p, workers=1, timeout=cfg.timeout,
                            simulate=f"num={cfg.simulate}", depth=cfg.sim_depth,
                            seed=seed * 7919 + 17, tag=f"{fam.prop}-{cfg.name}-sim", keep_output=True)
            if r.violated:
                model_alarm(cfg, r, "simulate")
            fs = tlc.payloads(r.lines, "@@F")
            finals = {json.dumps(f["h"], sort_keys=True): f["fin"] for f in fs}
            for h in replay.leaves([f["h"] for f in fs]):
                add_scn(h, cfg, finals.get(json.dumps(h, sort_keys=True)), f"{cfg.name}:simulate")
            rep.models.append({"model": f"{fam.mc_module}/{cfg.name}", "mode": "simulate",
                               "behaviours": cfg.simulate, "complete_histories": len(fs),
                               "wall_s": round(r.wall_s, 1), "constants": cfg.constants})

    if fam.directed:
        path = core.VERIF / "corpus" / fam.directed
        for k, item in enumerate(json.loads(path.read_text())):
            scenarios.append({"scn": item["scn"], "kw": item.get("kw", {}), "fin": None,
                              "src": f"directed:{fam.directed}#{k}"})
        rep.extra["directed_scenarios"] = rep.extra.get("directed_scenarios", 0) + k + 1

    # replay on the real code
    by_kw: dict[str, list[int]] = {}
    for i, s in enumerate(scenarios):
        by_kw.setdefault(json.dumps(s["kw"], sort_keys=True), []).append(i)
    results: list[Any] = [None] * len(scenarios)
    for kwj, idxs in by_kw.items():
        kw = json.loads(kwj)
        res = replay.pmap(fam.fam_module, "run_scenario", [scenarios[i]["scn"] for i in idxs], **kw)
        for i, r in zip(idxs, res):
            results[i] = r
    traces = []
    for i, r in enumerate(results):
        if "machinery_error" in r:
            raise tlc.TLCError("replay failed: " + r["machinery_error"])
        traces.append({"id": i, "events": r["events"], "params": r.get("params")})
    if fam.extra_traces is not None:
        for k, t in enumerate(fam.extra_traces(tier, seed)):
            scenarios.append({"scn": t.get("scn"), "kw": t.get("kw", {}), "fin": None,
                              "src": t.get("src", "extra")})
            results.append({"events": t["events"], "final": None, "flags": t.get("flags", {})})
            traces.append({"id": len(scenarios) - 1, "events": t["events"], "params": t.get("params")})

    if fam.eager_pass and tier == "thorough" and scenarios:
        # the same programs under the eager task factory (tasks created by the harness start eagerly;
        # anyio itself never starts group children eagerly): verdicts only, no conformance comparison
        pick = list(range(len(scenarios)))
        rng.shuffle(pick)
        pick = pick[:4000]
        by_kw2: dict[str, list[int]] = {}
        for i in pick:
            by_kw2.setdefault(json.dumps(scenarios[i]["kw"], sort_keys=True), []).append(i)
        n_eager = 0
        for kwj, idxs in by_kw2.items():
            kw = dict(json.loads(kwj), eager=True)
            res = replay.pmap(fam.fam_module, "run_scenario", [scenarios[i]["scn"] for i in idxs], **kw)
            for i, r in zip(idxs, res):
                if "machinery_error" in r:
                    raise tlc.TLCError("eager replay failed: " + r["machinery_error"])
                scenarios.append({"scn": scenarios[i]["scn"], "kw": kw, "fin": None,
                                  "src": scenarios[i]["src"] + "+eager"})
                results.append(r)
                traces.append({"id": len(scenarios) - 1, "events": r["events"], "params": r.get("params")})
                n_eager += 1
        rep.extra["eager_task_factory_replays"] = rep.extra.get("eager_task_factory_replays", 0) + n_eager

    if fam.uvloop_pass and tier == "thorough" and scenarios:
        # timer-free scenarios once more on uvloop with the cycle ticker (harness/uvrun.py): verdicts only
        base_n = len([s for s in scenarios if "+eager" not in s["src"]])
        pick = [i for i in range(base_n) if _timer_free(scenarios[i]["scn"])]
        rng.shuffle(pick)
        pick = pick[:3000]
        by_kw3: dict[str, list[int]] = {}
        for i in pick:
            by_kw3.setdefault(json.dumps(scenarios[i]["kw"], sort_keys=True), []).append(i)
        n_uv = 0
        for kwj, idxs in by_kw3.items():
            kw = dict(json.loads(kwj), uv=True)
            res = replay.pmap(fam.fam_module, "run_scenario", [scenarios[i]["scn"] for i in idxs], **kw)
            for i, r in zip(idxs, res):
                if "machinery_error" in r:
                    raise tlc.TLCError("uvloop replay failed: " + r["machinery_error"])
                scenarios.append({"scn": scenarios[i]["scn"], "kw": kw, "fin": None,
                                  "src": scenarios[i]["src"] + "+uvloop"})
                results.append(r)
                traces.append({"id": len(scenarios) - 1, "events": r["events"], "params": r.get("params")})
                n_uv += 1
        rep.extra["uvloop_replays"] = rep.extra.get("uvloop_replays", 0) + n_uv

    verdicts = tlc.validate_traces(fam.t_module, traces, tag=f"{fam.prop}-{fam.mc_module}")
    rep.traces += len(verdicts)
    nontrivial = 0
    for v in verdicts:
        i = v["id"]
        s, r = scenarios[i], results[i]
        if v["len"] >= 3:
            nontrivial += 1
        if r["flags"].get("budget"):
            rep.violation("handle budget exceeded: the program never became idle",
                          {"scenario": s["scn"], "kw": s["kw"], "src": s["src"],
                           "family": fam.mc_module}, signature="budget")
            continue
        if v["bad"] and fam.clauses is not None and not (set(v["bad"]) & fam.clauses):
            # the first failing clause belongs to the sibling property decided by the same observer
            rep.extra["violations_of_sibling_property_clauses"] = \
                rep.extra.get("violations_of_sibling_property_clauses", 0) + 1
            continue
        if v["bad"]:
            ev = r["events"][v["at"] - 1] if 0 < v["at"] <= len(r["events"]) else None
            sig = fam.signature_of(s, {"bad": v["bad"], "event": ev, "events": r["events"]}) \
                if fam.signature_of else ",".join(v["bad"])
            rep.violation(f"clause {','.join(v['bad'])} violated at event {v['at']}: {ev}",
                          {"scenario": s["scn"], "kw": s["kw"], "src": s["src"],
                           "family": fam.mc_module, "trace": r["events"], "failing_event_index": v["at"],
                           "clauses": v["bad"]}, signature=sig)
        elif s["fin"] is not None and fam.compare_final is not None and r.get("final") is not None:
            diffs = fam.compare_final(s["fin"], r["final"])
            if diffs:
                rep.drift += 1
                if rep.drift <= 3:
                    print(f"DRIFT property={fam.prop} {diffs} scenario={json.dumps(s['scn'])}")
    for i in range(0, len(scenarios), max(1, len(scenarios) // 4)):
        rep.sample({"scenario": scenarios[i]["scn"], "kw": scenarios[i]["kw"],
                    "source": scenarios[i]["src"], "trace": results[i]["events"][:12]})
    rep.evaluations += len(scenarios)
    rep.distinct += nontrivial
    rep.rule = ("scenarios = maximal histories of nondeterministic choices of the TLA+ model (one per "
                "choice edge of the exhaustive state graph, plus -simulate behaviours of the larger "
                "configuration), deduplicated; non-trivial = recorded trace has at least 3 events")
    rep.extra["scenarios_with_model_final"] = rep.extra.get("scenarios_with_model_final", 0) + \
        sum(1 for s in scenarios if s["fin"] is not None)
    rep.extra["exhaustive"] = False
