"""C16 - buffered and text stream wrappers are transparent to chunking.

Byte part: spec/BufStream.tla (the stream machine), spec/P_ByteWrap.tla (the property as an
observer), spec/MC_C16B.tla (TLC: every transition of the machine satisfies the observer; the whole
state graph is emitted), spec/T_ByteWrap.tla (traces of the real class judged by the same operators).
Text part: spec/TextStream.tla, spec/P_TextWrap.tla, spec/MC_C16T.tla, spec/T_TextWrap.tla.

Binding to the code
 1. every transition of TLC's state graph is performed on a real BufferedByteReceiveStream brought
    to the source state; every text case on real TextReceiveStream / TextSendStream objects with real
    code points.  Agreement with the machine (which TLC proved to satisfy the observer) means the
    clauses hold; a disagreement is handed to TLC (T_* specs): a violated clause is a VIOLATION, a
    difference the property statement does not forbid is counted as drift.
 2. seeded random longer cases are recorded from the real classes and validated by TLC (T_* specs).
"""

from __future__ import annotations

import hashlib
import importlib
import json
import multiprocessing as mp
import random
import time
import traceback
from concurrent.futures import ThreadPoolExecutor, as_completed
from pathlib import Path

from . import c16_bytes, c16_text, core
from .c16_tlc import run_model, validate
from .replay import ensure_repo_on_path

PROP = "C16"

def tiers(tier: str, seed: int) -> dict:
    if tier == "quick":
        # strings / texts of full length: one slice of four, chosen by the seed (seeds 0..3 cover all)
        sl = dict(NSlices=4, Slice=seed % 4)
        return {
            "bytes": [dict(MaxLen=5, MaxN=4, DelimSet=1, FeedSet=1, MaxFeed=1, Kinds='{"byte"}', **sl),
                      dict(MaxLen=5, MaxN=4, DelimSet=1, FeedSet=1, MaxFeed=1, Kinds='{"obj"}', **sl)],
            "text": [dict(EncSet=0, MaxChars=4, MaxCuts=2, MaxSends=3, **sl)],
            "rand_bytes": 3000, "rand_text": 2000, "nvar": 3, "judge_max": 1500, "procs": 6, "vpar": 2,
        }
    al = dict(NSlices=1, Slice=0)
    return {
        "bytes": [dict(MaxLen=6, MaxN=4, DelimSet=2, FeedSet=2, MaxFeed=1, Kinds='{"byte"}', **al),
                  dict(MaxLen=6, MaxN=4, DelimSet=2, FeedSet=2, MaxFeed=1, Kinds='{"obj"}', **al),
                  dict(MaxLen=4, MaxN=5, DelimSet=3, FeedSet=2, MaxFeed=2, Kinds='{"byte", "obj"}', **al)],
        "text": [dict(EncSet=e, MaxChars=4, MaxCuts=3, MaxSends=4, **al) for e in (1, 2, 5)]
        + [dict(EncSet=0, MaxChars=5, MaxCuts=1, MaxSends=2, **al)],
        "rand_bytes": 30000, "rand_text": 16000, "nvar": 5, "judge_max": 6000, "procs": 12, "vpar": 4,
    }


BYTE_INVS = ["PropertyHolds", "ObserverTracks", "TypeOK"]
TEXT_INVS = ["PropertyHolds", "NonEmptyOutputs"]

ASSUME = [
    "the wrapped stream never blocks and never delivers an empty chunk to BufferedByteReceiveStream "
    "(a chunk is available or the stream is at its end); waiting for data is the wrapped stream's business",
    "byte part exhaustive over the alphabet {0,1} and the stated bounds; longer inputs, larger alphabets, "
    "larger n / max_bytes and longer delimiters only by seeded random cases",
    "text part: the abstract character model (id, width) is instantiated with boundary and pool code points "
    "of utf-8, utf-8-sig, utf-16(-le/-be), utf-32(-le/-be), latin-1, cp1252, ascii; errors='strict' only; "
    "texts that end inside a character are not generated",
    "the stdlib codecs (one-shot encoder as reference, incremental codecs inside anyio) are environment",
    "model drift (a result the machine did not predict but no clause forbids) is reported, not failed",
]


def _batches(items: list, size: int) -> list[list]:
    return [items[i:i + size] for i in range(0, len(items), size)]


def _dedupe_count(objs: list) -> int:
    return len({json.dumps(o, sort_keys=True) for o in objs})


# ---------------------------------------------------------------------------------------------------


def _byte_mismatch_trace(m: dict, tid) -> dict:
    t = m["t"]
    return c16_bytes.trace_of(t["kind"], t["cs"], m["calls"], m["events"], tid)


def _text_mismatch_trace(m: dict, tid) -> dict:
    c = m["case"]
    return {"id": tid, "events": m["events"],
            "params": {"mode": c["mode"], "ws": c["ws"], "bw": c["bw"], "lens": c["lens"]}}


def _report(rep: core.Report, seen: dict, verdict: dict, what: str, replay: dict) -> None:
    """At most a few violation files per clause; everything is counted."""
    sig = verdict["bad"][0]
    seen[sig] = seen.get(sig, 0) + 1
    if seen[sig] <= 5:
        rep.violation(f"{'/'.join(verdict['bad'])} at event {verdict['at']}: {what}", replay, signature=sig)


def _pool_init() -> None:
    ensure_repo_on_path()


def _pool_call(args: tuple):
    modname, fn, payload, kw = args
    try:
        return getattr(importlib.import_module(modname), fn)(payload, **kw)
    except BaseException as exc:  # noqa: BLE001 - reported as machinery failure by the parent
        return {"machinery_error": "".join(traceback.format_exception(exc))[-3000:]}


def _get(async_results: list) -> list:
    out = []
    for r in async_results:
        x = r.get(timeout=3000)   # a worker that never comes back is a machinery failure
        if isinstance(x, dict) and "machinery_error" in x:
            raise RuntimeError(x["machinery_error"])
        out.append(x)
    return out


def main(tier: str, seed: int) -> int:
    rep = core.Report(PROP, tier, seed)
    cfg = tiers(tier, seed)
    rng = random.Random(seed)
    big = tier == "thorough"
    rep.assumptions += ASSUME
    seen: dict[str, int] = {}
    t0 = time.time()
    # the worker processes are forked while this process is still small and has no threads
    pool = mp.get_context("fork").Pool(cfg["procs"], initializer=_pool_init)
    try:
        return _run(rep, cfg, rng, big, seed, seen, t0, pool)
    finally:
        pool.terminate()


def _run(rep, cfg, rng, big, seed, seen, t0, pool) -> int:
    tier = rep.tier

    def submit(mod: str, fn: str, payload, **kw):
        return pool.apply_async(_pool_call, ((mod, fn, payload, kw),))

    # -- 1. random longer cases, recorded from the real classes
    bcases = [dict(c16_bytes.random_case(rng, big), id=i) for i in range(cfg["rand_bytes"])]
    tcases = [dict(c16_text.random_case(rng, big), id=i) for i in range(cfg["rand_text"])]
    rb = [submit("harness.c16_bytes", "record_batch", b) for b in _batches(bcases, 500)]
    rt = [submit("harness.c16_text", "record_batch", b) for b in _batches(tcases, 500)]
    btraces = [t for part in _get(rb) for t in part]
    ttraces = [t for part in _get(rt) for t in part]
    t_rec = time.time() - t0

    # -- 2. TLC: model checking + emission of both machines, validation of the recorded traces;
    #       what a model run emitted goes to the worker processes as soon as the run is finished
    jobs = []
    for i, k in enumerate(cfg["bytes"]):
        jobs.append(("mcb", dict(module="MC_C16B", name=f"b{i}-{tier}", constants={**k, "Emit": True},
                                 invariants=BYTE_INVS, marker="@@B")))
    for i, k in enumerate(cfg["text"]):
        jobs.append(("mct", dict(module="MC_C16T", name=f"t{i}-{tier}", constants={**k, "Emit": True},
                                 invariants=TEXT_INVS, marker="@@T")))
    digests: set[bytes] = set()
    bfut, tfut = [], []
    with ThreadPoolExecutor(max_workers=len(jobs) + 2) as ex:
        fb = ex.submit(validate, "T_ByteWrap", btraces, tag="C16-rb", par=cfg["vpar"])
        ft = ex.submit(validate, "T_TextWrap", ttraces, tag="C16-rt", par=cfg["vpar"])
        futs = {ex.submit(run_model, **j): (kind, j) for kind, j in jobs}
        for f in as_completed(futs):
            kind, j = futs[f]
            res, lines = f.result()
            rep.add_model(f'{j["module"]}:{j["name"]}', res, constants=j["constants"], emitted=len(lines))
            if not lines:
                raise RuntimeError(f"TLC emitted nothing for {j['name']}")
            fresh = []
            for ln in lines:   # configurations of a model may overlap: each transition / case once
                dg = hashlib.blake2b(ln.encode(), digest_size=12).digest()
                if dg not in digests:
                    digests.add(dg)
                    fresh.append(ln)
            if kind == "mcb":
                bfut += [submit("harness.c16_bytes", "replay_lines", b) for b in _batches(fresh, 4000)]
            else:
                tfut += [submit("harness.c16_text", "replay_lines", b, nvar=cfg["nvar"], seed=seed)
                         for b in _batches(fresh, 1500)]
            del fresh
            del lines
        bverd = fb.result()
        tverd = ft.result()
    del digests
    t_tlc = time.time() - t0 - t_rec

    # -- 3. verdicts of the random traces
    nb_events = sum(len(t["events"]) for t in btraces)
    nt_events = sum(len(t["events"]) for t in ttraces)
    drift = 0
    for tr, v in zip(btraces, bverd):
        drift += v["drift"]
        if v["bad"]:
            c = tr["case"]
            _report(rep, seen, v, f'kind={c["kind"]} chunks={c["cs"]} event={tr["events"][v["at"] - 1]}',
                    {"part": "bytes", "kind": c["kind"], "cs": c["cs"], "calls": c["calls"]})
    for tr, v in zip(ttraces, tverd):
        drift += v["drift"]
        if v["bad"]:
            c = tr["case"]
            _report(rep, seen, v, f'{c["encoding"]} {c["mode"]} text={c["cps"]} lens={c["lens"]} '
                    f'got={tr["result"]["outs"]!r} {tr["result"].get("err", "")}',
                    {"part": "text", **{k: c[k] for k in ("enc", "encoding", "mode", "ws", "bw", "lens",
                                                          "cps", "transport")}})

    # -- 4. every transition / case of the state graphs on the real classes
    bres = _get(bfut)
    tres = _get(tfut)
    t_replay = time.time() - t0 - t_rec - t_tlc
    kinds: dict[str, int] = {}
    for part in bres:
        for k, n in part["kinds"].items():
            kinds[k] = kinds.get(k, 0) + n
    bmis = [m for part in bres for m in part["mismatch"]]
    tmis = [m for part in tres for m in part["mismatch"]]
    nb = sum(p["n"] for p in bres)
    nt = sum(p["n"] for p in tres)

    # -- 5. disagreements with the machines are judged by TLC with the observers
    jrng = random.Random(seed + 1)
    bj = bmis if len(bmis) <= cfg["judge_max"] else jrng.sample(bmis, cfg["judge_max"])
    tj = tmis if len(tmis) <= cfg["judge_max"] else jrng.sample(tmis, cfg["judge_max"])
    if bj or tj:
        bjv = validate("T_ByteWrap", [_byte_mismatch_trace(m, i) for i, m in enumerate(bj)], tag="C16-jb")
        tjv = validate("T_TextWrap", [_text_mismatch_trace(m, i) for i, m in enumerate(tj)], tag="C16-jt")
        for m, v in zip(bj, bjv):
            if v["bad"]:
                t = m["t"]
                _report(rep, seen, v, f'state kind={t["kind"]} buffer={t["buf"]} chunks={t["cs"]} '
                        f'closed={t["closed"]}; call {t["op"]} n={t["n"]} d={t["d"]}: machine '
                        f'{t["k"]} {t["v"]} buffer {t["nbuf"]} pulled {t["pulled"]}; real {m["events"][-1]}',
                        {"part": "bytes", "kind": t["kind"], "cs": t["cs"], "calls": m["calls"]})
            else:
                drift += 1
        for m, v in zip(tj, tjv):
            if v["bad"]:
                c = m["case"]
                _report(rep, seen, v, f'{m["encoding"]} {c["mode"]} text={m["cps"]} lens={c["lens"]} '
                        f'transport={m["transport"]} got={m["result"]["outs"]!r} {m["result"].get("err", "")}',
                        {"part": "text", **c, "encoding": m["encoding"], "cps": m["cps"],
                         "transport": m["transport"]})
            else:
                drift += 1

    # -- evidence
    rep.drift = drift
    rep.traces = nb + nt + len(btraces) + len(ttraces)
    rep.evaluations = nb + nt + nb_events + nt_events
    nontriv = sum(p["nontrivial"] for p in bres) + sum(p["nontrivial"] for p in tres)
    rb_nt = sum(1 for t in btraces if sum(1 for e in t["events"] if e["pulled"] > 0 and
                                          (e["buf"] or e["k"] != "ok")) >= 2)
    rt_nt = sum(1 for t in ttraces if c16_text.nontrivial(t["case"]))
    rep.distinct = nontriv + rb_nt + rt_nt
    rep.rule = ("exhaustive: every transition of MC_C16B's state graph (state = kind, buffer, remaining chunks, "
                "closed; all data over {0,1} up to MaxLen, all chunkings, all calls) performed once on a real "
                "stream, and every case of MC_C16T (all width assignments, cuts, send partitions) run with "
                f"{cfg['nvar']} instantiations by real code points; all are distinct by construction (quick "
                "tier: all shorter strings / texts, and of those of full length the slice seed mod 4). "
                "Non-trivial byte transition: the call crosses or cuts a chunk, combines buffered with new bytes, "
                "or fails with bytes in hand; non-trivial text case: a cut inside a character / the BOM, or "
                "several sends. Random: seeded cases (alphabet 2..256, up to 45 (thorough 90) bytes and 14 (24) "
                "calls; texts up to 16 (40) characters), non-trivial when at least two calls pulled data while "
                "bytes stayed buffered or failed, resp. a cut inside a character / several sends.")
    rep.extra["byte_transitions_replayed"] = nb
    rep.extra["byte_transition_outcomes"] = dict(sorted(kinds.items()))
    rep.extra["byte_disagreements_with_machine"] = len(bmis)
    rep.extra["text_cases_replayed"] = nt
    rep.extra["text_disagreements_with_machine"] = len(tmis)
    rep.extra["random_byte_traces"] = {"traces": len(btraces), "events": nb_events,
                                       "distinct": _dedupe_count([t["case"] for t in btraces]),
                                       "nontrivial": rb_nt}
    rep.extra["random_text_traces"] = {"traces": len(ttraces), "events": nt_events,
                                       "distinct": _dedupe_count([t["case"] for t in ttraces]),
                                       "nontrivial": rt_nt}
    rep.extra["violations_by_clause"] = seen
    rep.extra["phases_s"] = {"record_random": round(t_rec, 1), "tlc": round(t_tlc, 1),
                             "replay": round(t_replay, 1)}
    for part in bres[:: max(1, len(bres) // 3)][:3]:
        rep.sample({"byte_transition": part["first"]})
    for part in tres[:: max(1, len(tres) // 2)][:2]:
        rep.sample({"text_case": part["first"]})
    if btraces:
        rep.sample({"random_byte_trace": {"params": btraces[0]["params"], "events": btraces[0]["events"][:6]}})
    return rep.finish()


# ---------------------------------------------------------------------------------------------------


def replay(path: str) -> int:
    """Re-execute the case of a violation file on the current code and let TLC judge it again."""
    import anyio

    rp = json.loads(Path(path).read_text())["replay"]
    if rp["part"] == "bytes":
        evs = anyio.run(c16_bytes.run_calls, rp["kind"], rp["cs"], rp["calls"])
        tr = c16_bytes.trace_of(rp["kind"], rp["cs"], rp["calls"], evs, 0)
        v = validate("T_ByteWrap", [tr], tag="C16-replay")[0]
    else:
        r = anyio.run(c16_text.run_text, rp["encoding"], rp["mode"], rp["cps"], rp["lens"], rp["transport"])
        tr = c16_text.trace_of(rp, r, 0)
        v = validate("T_TextWrap", [tr], tag="C16-replay")[0]
    print(json.dumps({"trace": tr["events"], "verdict": v}, indent=1, default=str))
    if v["bad"]:
        print(f"VIOLATION property={PROP} replay={path}")
        return 1
    return 0
