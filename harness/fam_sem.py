"""C10 (Semaphore): replay of MC_C10S scenarios on the real anyio.Semaphore, P_Sem traces."""

from __future__ import annotations

import asyncio
from typing import Any

from . import uvrun, vloop
from .replay import Recorder, ScenarioController, ensure_repo_on_path


def run_scenario(scn: dict, *, fast: bool = False, init: int = 1, maxv: int = 0, retry: bool = False,
                 eager: bool = False, uv: bool = False) -> dict:
    ensure_repo_on_path()
    import anyio

    nt = len(scn["tasks"])
    rec = Recorder()
    state: dict[str, Any] = {}

    def obs() -> dict:
        sem = state["sem"]
        return {"value": sem.value, "waiting": sem.statistics().tasks_waiting}

    def fire(act: dict) -> None:
        t = act["t"]
        if state["tasks"][t].done():
            return
        rec.emit(ev="creq", t=t)
        if act["c"] == "cancel":
            state["scopes"][t].cancel()
        else:
            state["tasks"][t].cancel()

    def proj() -> dict:
        outs, ncs = [], []
        for t in range(1, nt + 1):
            task = state["tasks"][t]
            outs.append("blocked" if not task.done() else "cancelled" if task.cancelled()
                        else "error" if task.exception() is not None else "ok")
            ncs.append(task.cancelling())
        return {"nh": state["loop"].nhandles, "out": outs, "nc": ncs, **obs()}

    def quiescent() -> None:
        state["final"] = proj()
        rec.emit(ev="quiescent", **obs())

    ctl = ScenarioController(scn["env"], fire, quiescent)
    ctl.recorder = rec

    def release(t: int) -> bool:
        sem = state["sem"]
        try:
            sem.release()
        except ValueError:
            rec.emit(ev="rel", t=t, res="error", **obs())
            return False
        rec.emit(ev="rel", t=t, res="ok", **obs())
        return True

    async def client(t: int, script: list[str]) -> None:
        sem = state["sem"]
        held = 0
        ops = iter(script)              # shared by the retries: each operation is performed once
        while True:
            scope = state["scopes"][t]
            with scope:
                try:
                    for op in ops:
                        if op == "acq":
                            rec.emit(ev="start", t=t)
                            try:
                                await sem.acquire()
                            except asyncio.CancelledError:
                                rec.emit(ev="end", t=t, res="cancelled", **obs())
                                raise
                            except Exception:  # noqa: BLE001
                                rec.emit(ev="end", t=t, res="error", **obs())
                            else:
                                held += 1
                                rec.emit(ev="end", t=t, res="ok", **obs())
                        elif op == "nowait":
                            try:
                                sem.acquire_nowait()
                            except anyio.WouldBlock:
                                rec.emit(ev="nowait", t=t, res="wouldblock", **obs())
                            else:
                                held += 1
                                rec.emit(ev="nowait", t=t, res="ok", **obs())
                        elif op == "rel":
                            if release(t) and held > 0:
                                held -= 1
                        elif op == "yield":
                            await anyio.lowlevel.checkpoint()
                        elif op == "end":
                            break
                finally:
                    while held > 0:
                        release(t)
                        held -= 1
            if retry and scope.cancelled_caught:
                # the move_on_after pattern: the scope absorbed its cancellation, the task carries on
                state["scopes"][t] = anyio.CancelScope()
                rec.emit(ev="cdone", t=t)
                continue
            break

    async def main() -> None:
        loop = state["loop"] = uvrun.view(asyncio.get_running_loop())
        state["sem"] = anyio.Semaphore(init, max_value=(maxv or None), fast_acquire=fast)
        state["scopes"] = {t: anyio.CancelScope() for t in range(1, nt + 1)}
        state["tasks"] = {}
        for t in range(1, nt + 1):
            state["tasks"][t] = loop.create_task(client(t, scn["tasks"][str(t)]), name=f"t{t}")
        await asyncio.wait(list(state["tasks"].values()))
        quiescent()

    loop, _res, err = (uvrun.run if uv else vloop.run)(main, ctl, eager=eager, max_handles=20000)
    rec.closed = True
    flags = {"deadlock": isinstance(err, vloop.Deadlock), "budget": loop.budget_exceeded,
             "error": None if err is None or isinstance(err, (vloop.Deadlock, vloop.BudgetExceeded))
             else repr(err)}
    return {"events": rec.events, "final": state.get("final"), "flags": flags,
            "params": {"init": init, "maxv": (maxv if maxv else -1)}}
