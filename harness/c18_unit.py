"""C18, unit level: replay TLC schedules of SockProto on the real StreamProtocol / SocketStream.

The real classes run on a *stepping loop* (one chosen handle at a time) against a scripted transport
that behaves like asyncio's selector transport as far as the stream uses it.  Every schedule is a
history emitted by TLC: calls (rcall / scall / ccall / eofcall), task steps and environment actions
(data, peof, drain, reset, lost, cancel).  What the real code did is recorded as a property-level
trace (events of spec/P_Sock.tla) and the state reached is compared with the model's projection.
"""

from __future__ import annotations

import asyncio
from asyncio import events
from typing import Any

from . import vloop
from .replay import ensure_repo_on_path

SALT = {"A": 0x5A, "B": 0xC3}


_B0 = bytes((i * 167) & 0xFF for i in range(256))
_TABLES = [bytes((x + c) & 0xFF for x in range(256)) for c in range(256)]
_PAT_CACHE: dict[str, bytes] = {}


_B64K = b"".join(_B0.translate(_TABLES[(89 * j) & 0xFF]) for j in range(256))


def pattern_fast(side: str, off: int, n: int) -> bytes:
    """Bytes off..off+n-1 of the stream sent by ``side``: byte p is
    (167*p + 89*(p>>8) + 57*(p>>16) + salt) mod 256, so every byte tells its own offset modulo 256 and
    any shift, gap or repetition shows as a mismatch."""
    need = off + n
    buf = _PAT_CACHE.get(side)
    if buf is None or len(buf) < need:
        size = 1 << (max(need, 1 << 16) - 1).bit_length()
        buf = b"".join(_B64K.translate(_TABLES[(57 * j + SALT[side]) & 0xFF]) for j in range(size >> 16))
        _PAT_CACHE[side] = buf
    return buf[off:off + n]


def locate(side: str, chunk: bytes, expected: int, limit: int) -> tuple[int, int]:
    """Return (offset, match) for a received chunk: where in the stream of ``side`` it sits."""
    n = len(chunk)
    if n == 0:
        return expected, 1
    if pattern_fast(side, expected, n) == chunk:
        return expected, 1
    # it is not the expected continuation: find out where it comes from (diagnosis of loss / dup)
    whole = pattern_fast(side, 0, max(limit, expected + n))
    if n >= 9:
        i = whole.find(chunk)
        if i >= 0:
            return i, 1
    return expected, 0


# ---------------------------------------------------------------------------------------------------


class StepLoop(asyncio.AbstractEventLoop):
    """Just enough of an event loop to run asyncio Tasks one handle at a time."""

    def __init__(self) -> None:
        self.ready: list[asyncio.Handle] = []
        self.errors: list[dict] = []

    def call_soon(self, callback: Any, *args: Any, context: Any = None) -> asyncio.Handle:
        h = asyncio.Handle(callback, args, self, context)
        self.ready.append(h)
        return h

    call_soon_threadsafe = call_soon

    def get_debug(self) -> bool:
        return False

    def create_future(self) -> asyncio.Future:
        return asyncio.Future(loop=self)

    def create_task(self, coro: Any, *, name: str | None = None, context: Any = None) -> asyncio.Task:
        return asyncio.Task(coro, loop=self, name=name, context=context)

    def time(self) -> float:
        return 0.0

    def is_running(self) -> bool:
        return True

    def is_closed(self) -> bool:
        return False

    def call_exception_handler(self, context: dict) -> None:
        self.errors.append(context)

    def call_later(self, delay: float, callback: Any, *args: Any, context: Any = None) -> Any:
        raise RuntimeError("the stepping loop has no timers")

    call_at = call_later

    def handle_of(self, task: asyncio.Task) -> asyncio.Handle | None:
        for h in self.ready:
            if h._cancelled:  # type: ignore[attr-defined]
                continue
            kind, subject = vloop.classify(h)
            if subject is task:
                return h
        return None

    def run_handle(self, h: asyncio.Handle) -> None:
        self.ready.remove(h)
        events._set_running_loop(self)
        try:
            h._run()
        finally:
            events._set_running_loop(None)

    def run_others(self) -> None:
        """Run handles that belong to no task (future callbacks other than wake-ups): none expected."""
        for h in list(self.ready):
            kind, _subject = vloop.classify(h)
            if kind == "other" and not h._cancelled:  # type: ignore[attr-defined]
                self.run_handle(h)


class ScriptedTransport(asyncio.Transport):
    """asyncio's selector socket transport as the stream sees it; kernel and peer are scripted."""

    def __init__(self, proto: Any, kcap: int, paused: bool) -> None:
        super().__init__()
        self.proto = proto
        self.kcap = kcap
        self._paused = paused
        self._closing = False
        self._conn_lost = 0
        self._eof = False
        self.pend: str | None = None
        self.lost = False
        self.eofseen = False
        self.buf = bytearray()
        self.kernel = bytearray()
        self.proto_paused = False
        self.limits: tuple | None = None
        self.calls: list[str] = []

    # -- what SocketStream / StreamProtocol call
    def set_write_buffer_limits(self, high: int | None = None, low: int | None = None) -> None:
        self.limits = (high, low)

    def get_extra_info(self, name: str, default: Any = None) -> Any:
        return default

    def is_closing(self) -> bool:
        return self._closing

    def is_reading(self) -> bool:
        return not self._closing and not self._paused

    def pause_reading(self) -> None:
        if not self.is_reading():
            return
        self._paused = True

    def resume_reading(self) -> None:
        if self._closing or not self._paused:
            return
        self._paused = False

    def write(self, data: bytes) -> None:
        if self._eof:
            raise RuntimeError("Cannot call write() after write_eof()")
        if not data:
            return
        if self._conn_lost:
            self._conn_lost += 1
            return
        data = bytes(data)
        if not self.buf:
            n = min(self.kcap - len(self.kernel), len(data))
            self.kernel += data[:n]
            data = data[n:]
            if not data:
                return
        self.buf += data
        if not self.proto_paused:          # high-water mark 0: any buffered byte pauses the protocol
            self.proto_paused = True
            self.proto.pause_writing()

    def can_write_eof(self) -> bool:
        return True

    def write_eof(self) -> None:
        if self._closing or self._eof:
            return
        self._eof = True

    def close(self) -> None:
        if self._closing:
            return
        self._closing = True
        if not self.buf:
            self._conn_lost += 1
            self.pend = "clean"

    def abort(self) -> None:
        self._force_close(None)

    def _force_close(self, exc: BaseException | None) -> None:
        if self._conn_lost:
            return
        if self.buf:
            self.buf.clear()
        if not self._closing:
            self._closing = True
        self._conn_lost += 1
        self.pend = "err" if exc is not None else "clean"

    # -- the environment
    def env_data(self, data: bytes) -> None:
        self.proto.data_received(data)

    def env_eof(self) -> None:
        self.eofseen = True
        keep = self.proto.eof_received()
        if not keep:
            self.close()

    def env_drain(self, k: int) -> bytes:
        got = bytes(self.kernel[:k])
        del self.kernel[:k]
        if self.buf and self.pend is None and not self.lost:
            m = min(len(self.buf), self.kcap - len(self.kernel))
            self.kernel += self.buf[:m]
            del self.buf[:m]
            if not self.buf:
                if self.proto_paused:
                    self.proto_paused = False
                    self.proto.resume_writing()
                if self._closing:
                    self._conn_lost += 1
                    self.pend = "clean"
        return got

    def env_reset(self) -> None:
        self._force_close(ConnectionResetError(104, "scripted reset"))

    def env_lost(self) -> None:
        exc = ConnectionResetError(104, "scripted reset") if self.pend == "err" else None
        self.pend = None
        self.lost = True
        self.proto.connection_lost(exc)


def classify_exc(exc: BaseException) -> str:
    import anyio

    if isinstance(exc, anyio.BusyResourceError):
        return "busy"
    if isinstance(exc, anyio.ClosedResourceError):
        return "closed"
    if isinstance(exc, anyio.BrokenResourceError):
        return "broken"
    if isinstance(exc, anyio.EndOfStream):
        return "eos"
    if isinstance(exc, asyncio.CancelledError):
        return "cancelled"
    return "error"


class UnitBench:
    def __init__(self, cfg: dict, unit: int) -> None:
        ensure_repo_on_path()
        from anyio._backends._asyncio import SocketStream, StreamProtocol

        self.cfg = cfg
        self.U = unit
        self.nt = cfg["NT"]
        self.loop = StepLoop()
        self.proto = StreamProtocol()
        self.tp = ScriptedTransport(self.proto, cfg["KCap"] * unit, bool(cfg["PausedAtStart"]))
        self.proto.connection_made(self.tp)
        self.stream = SocketStream(self.tp, self.proto)
        self.events: list[dict] = []
        self.tasks: dict[int, asyncio.Task | None] = {t: None for t in range(1, self.nt + 1)}
        self.last: dict[int, dict] = {t: {"r": "none", "off": 0, "len": 0} for t in range(1, self.nt + 1)}
        self.fed = 0          # bytes of stream B handed to the protocol
        self.recvd = 0        # bytes of stream B handed out by receive()
        self.sent = 0         # bytes of stream A claimed by send calls
        self.drained = 0      # bytes of stream A read by the peer
        self.cut = False      # a send ended abnormally: what it wrote is unknown ...
        self.undef = False    # ... and another send was started after it: offsets of stream A unknown
        self.errors: list[str] = []

    def emit(self, **ev: Any) -> None:
        self.events.append(ev)

    # -- client calls (each one is a task of its own)
    async def _recv(self, t: int, mb: int) -> None:
        self.emit(ev="rstart", s="A", t=t, mb=mb)
        try:
            data = await self.stream.receive(mb)
        except BaseException as exc:  # noqa: BLE001
            r = classify_exc(exc)
            if r == "error":
                self.errors.append(repr(exc))
            self.last[t] = {"r": r, "off": 0, "len": 0}
            self.emit(ev="rend", s="A", t=t, res=r, off=0, len=0, match=1)
            return
        off, match = locate("B", data, self.recvd, self.fed)
        if off == self.recvd and match:
            self.recvd += len(data)
        self.last[t] = {"r": "ok", "off": off, "len": len(data)}
        self.emit(ev="rend", s="A", t=t, res="ok", off=off, len=len(data), match=match)

    async def _send(self, t: int, n: int) -> None:
        payload = pattern_fast("A", self.sent, n)
        self.sent += n
        self.undef = self.undef or self.cut
        self.emit(ev="sstart", s="A", t=t, n=n)
        try:
            await self.stream.send(payload)
            r = "ok"
        except BaseException as exc:  # noqa: BLE001
            r = classify_exc(exc)
            if r == "error":
                self.errors.append(repr(exc))
            if r == "busy":
                self.sent -= n
            else:
                self.cut = True
        if r == "ok" and self.stream._closed:
            self.cut = True
        self.last[t] = {"r": r, "off": 0, "len": 0}
        self.emit(ev="send", s="A", t=t, res=r)

    async def _close(self, t: int) -> None:
        self.emit(ev="close", s="A")
        await self.stream.aclose()

    async def _eof(self, t: int) -> None:
        self.emit(ev="eof", s="A")
        await self.stream.send_eof()

    def _call(self, t: int, coro: Any) -> str | None:
        if self.tasks[t] is not None and not self.tasks[t].done():
            coro.close()
            return f"task {t} is still inside a call"
        task = self.loop.create_task(coro, name=f"t{t}")
        self.tasks[t] = task
        return self._step(t)

    def _step(self, t: int) -> str | None:
        task = self.tasks[t]
        if task is None or task.done():
            return f"task {t} has nothing to run"
        h = self.loop.handle_of(task)
        if h is None:
            return f"task {t} is not runnable"
        self.loop.run_handle(h)
        if task.done() and not task.cancelled() and task.exception() is not None:
            self.errors.append(repr(task.exception()))
        return None

    def apply(self, act: dict) -> str | None:
        """Perform one action of a schedule; returns a description when it is not applicable."""
        a, t, k = act["a"], act["t"], act["k"]
        U = self.U
        if a == "rcall":
            self.last[t] = {"r": "none", "off": 0, "len": 0}
            return self._call(t, self._recv(t, k * U))
        if a == "scall":
            self.last[t] = {"r": "none", "off": 0, "len": 0}
            return self._call(t, self._send(t, k * U))
        if a == "ccall":
            self.last[t] = {"r": "none", "off": 0, "len": 0}
            return self._call(t, self._close(t))
        if a == "eofcall":
            self.last[t] = {"r": "none", "off": 0, "len": 0}
            return self._call(t, self._eof(t))
        if a == "step":
            return self._step(t)
        if a == "cancel":
            task = self.tasks[t]
            if task is None or task.done():
                return f"task {t} is not inside a call"
            self.emit(ev="creq", s="A", t=t)
            task.cancel()
            return None
        if a == "data":
            if not self.tp.is_reading():
                return "transport is not reading"
            n = k * U
            self.emit(ev="sstart", s="B", t=0, n=n)
            self.emit(ev="send", s="B", t=0, res="ok")
            self.tp.env_data(pattern_fast("B", self.fed, n))
            self.fed += n
            return None
        if a == "peof":
            if not self.tp.is_reading():
                return "transport is not reading"
            self.emit(ev="eof", s="B")
            self.tp.env_eof()
            return None
        if a == "drain":
            n = k * U
            if len(self.tp.kernel) < n:
                return "kernel holds fewer bytes"
            got = self.tp.env_drain(n)
            off, match = locate("A", got, self.drained, self.sent)
            if self.undef or (off == self.drained and match):
                self.drained += len(got)
            self.emit(ev="rstart", s="B", t=0, mb=n)
            self.emit(ev="rend", s="B", t=0, res="ok", off=off, len=len(got), match=match)
            return None
        if a == "reset":
            if self.tp.is_closing():
                return "transport already closing"
            self.emit(ev="reset")
            self.tp.env_reset()
            return None
        if a == "lost":
            if self.tp.pend is None or self.tp.lost:
                return "no connection_lost pending"
            self.tp.env_lost()
            return None
        return f"unknown action {a}"

    def pc(self, t: int) -> str:
        task = self.tasks[t]
        if task is None or task.done():
            return "idle"
        return "ready" if self.loop.handle_of(task) is not None else "blocked"

    def proj(self) -> dict:
        U = self.U
        offs, rq = self.recvd, []
        for c in self.proto.read_queue:
            rq.append([offs // U if offs % U == 0 else offs / U, len(c) // U if len(c) % U == 0 else len(c) / U])
            offs += len(c)
        return {
            "rq": rq, "rev": self.proto.read_event.is_set(), "wset": self.proto.write_event.is_set(),
            "eof": bool(self.proto.is_at_eof), "exc": self.proto.exception is not None,
            "closed": bool(self.stream._closed), "reading": not self.tp._paused,
            "closing": self.tp.is_closing(), "buf": len(self.tp.buf) / U, "wpaused": self.tp.proto_paused,
            "kroom": (self.tp.kcap - len(self.tp.kernel)) / U, "fed": self.fed / U,
            "rg": 1 if self.stream._receive_guard._guarded else 0,
            "sg": 1 if self.stream._send_guard._guarded else 0,
            "pc": [self.pc(t) for t in range(1, self.nt + 1)],
            "res": [dict(self.last[t]) for t in range(1, self.nt + 1)],
        }

    def stuck(self) -> int:
        """Calls that are blocked although what they wait for has happened already.  Everything that
        could wake them is under the control of this harness, so they are blocked for good: logged as
        timed out."""
        n = 0
        for t, task in self.tasks.items():
            if task is None or task.done() or self.loop.handle_of(task) is not None:
                continue
            name = task.get_coro().__name__
            if name == "_recv" and (self.fed > self.recvd or self.tp.eofseen or self.tp.lost):
                self.emit(ev="rend", s="A", t=t, res="timeout", off=0, len=0, match=1)
                n += 1
            elif name == "_send" and (self.tp.lost or (not self.tp.buf and not self.tp.proto_paused)):
                self.emit(ev="send", s="A", t=t, res="timeout")
                n += 1
        return n

    def epilogue(self) -> int:
        """An eager kernel: keeps delivering while the transport reads although nobody receives."""
        if self.tp.is_closing() or self.tp.eofseen:
            return 0
        for t, task in self.tasks.items():
            if task is not None and not task.done():
                return 0
        n = 0
        chunk = self.cfg["ChunkMax"] * self.U
        while self.tp.is_reading() and n < 2 * (2 + self.cfg["MaxBurst"]):
            self.emit(ev="sstart", s="B", t=0, n=chunk)
            self.emit(ev="send", s="B", t=0, res="ok")
            self.tp.env_data(pattern_fast("B", self.fed, chunk))
            self.fed += chunk
            n += 1
        return n

    def cleanup(self) -> None:
        for task in self.tasks.values():
            if task is not None and not task.done():
                task.cancel()
                for _ in range(4):
                    h = self.loop.handle_of(task)
                    if h is None or task.done():
                        break
                    self.loop.run_handle(h)
                if not task.done():
                    task._log_destroy_pending = False  # type: ignore[attr-defined]


_MODEL_PC = {"idle": "idle", "r_wait": "blocked", "s_wait": "blocked", "r_run": "ready", "r_chk": "ready",
             "s_chk": "ready", "s_run": "ready", "c_chk": "ready", "cancel": "ready"}


def compare(model: dict, real: dict, U: int) -> list[str]:
    diffs = []
    m = dict(model)
    m["pc"] = [_MODEL_PC[x] for x in model["pc"]]
    m["rg"] = 1 if model["rg"] else 0
    m["sg"] = 1 if model["sg"] else 0
    m["res"] = [{"r": r["r"], "off": r["off"] * U, "len": r["len"] * U} for r in model["res"]]
    for k in ("rq", "rev", "wset", "eof", "exc", "closed", "reading", "closing", "buf", "wpaused", "kroom",
              "fed", "rg", "sg", "pc", "res"):
        if m[k] != real[k]:
            diffs.append(f"{k}: model={m[k]} real={real[k]}")
    return diffs


def params(cfg: dict, U: int) -> dict:
    return {"boundA": cfg["KCap"] * U, "boundB": cfg["ChunkMax"] * (1 + cfg["MaxBurst"]) * U,
            "pausedA": 1 if cfg["PausedAtStart"] else 0, "pausedB": 1, "protoA": 1, "protoB": 1,
            "deferA": 0, "deferB": 0}


def run_schedule(item: dict, cfg: dict | None = None, unit: int = 1) -> dict:
    """item = {"h": [actions], "x": model projection or None}.  Returns trace, drift, flags."""
    assert cfg is not None
    b = UnitBench(cfg, unit)
    drift: list[str] = []
    at = -1
    for i, act in enumerate(item["h"]):
        why = b.apply(act)
        b.loop.run_others()
        if why is not None and not drift:
            # not applicable on the real objects: keep going with what is applicable (still a legal
            # environment), the property-level trace is judged on its own
            drift.append(f"action {i} {act}: {why}")
            at = i
    if not drift and item.get("x") is not None:
        drift = compare(item["x"], b.proj(), unit)
    # the real classes left the model: let an eager kernel show the consequences at the property level
    flood = b.epilogue() if drift else 0
    nstuck = b.stuck()
    events = list(b.events)
    b.cleanup()
    return {"events": events, "params": params(cfg, unit), "drift": drift, "at": at, "flood": flood, "stuck": nstuck,
            "errors": b.errors[:3] + [str(e.get("message")) for e in b.loop.errors[:3]]}
