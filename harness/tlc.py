"""Driving TLC: model checking runs, scenario emission, batched trace validation."""

from __future__ import annotations

import json
import os
import re
import shutil
import subprocess
import tempfile
import time
from dataclasses import dataclass, field
from pathlib import Path

VERIF = Path(__file__).resolve().parent.parent
SPEC = VERIF / "spec"
OUT = Path(os.environ.get("VERIF_OUT") or (VERIF / "out"))
JAR = "/opt/veriftools/tla/tla2tools.jar"
COMMUNITY = "/opt/veriftools/tla/CommunityModules-deps.jar"


class TLCError(Exception):
    """The machinery failed (exit 2), as opposed to a property violation."""


@dataclass
class TLCResult:
    ok: bool
    generated: int = 0
    distinct: int = 0
    depth: int = 0
    wall_s: float = 0.0
    violated: str | None = None  # invariant / property name
    output: str = ""
    lines: list[str] = field(default_factory=list)  # PrintT payload lines
    coverage: dict[str, int] = field(default_factory=dict)


def _tlc_cmd() -> list[str]:
    # the same command as the `tlc` wrapper on PATH, plus a large thread stack: the observers are recursive
    # operators over whole traces / texts, and the default 1 MB stack of a TLC worker thread overflowed on
    # a long trace (seen once, C16 with seed 1, in a fresh sandbox)
    deps = str(Path(JAR).with_name("CommunityModules-deps.jar"))
    cp = JAR + (":" + deps if Path(deps).exists() else "")
    return ["java", "-XX:+UseParallelGC", "-Xss256m", "-cp", cp, "tlc2.TLC"]


def write_cfg(path: Path, *, constants: dict[str, str], spec: str = "Spec", view: str | None = "View",
              invariants: list[str] = (), properties: list[str] = (), constraints: list[str] = (),
              action_constraints: list[str] = (), postcondition: str | None = None,
              init_next: tuple[str, str] | None = None) -> None:
    out = ["CONSTANTS"]
    for k, v in constants.items():
        out.append(f"  {k} = {v}")
    if init_next:
        out.append(f"INIT {init_next[0]}")
        out.append(f"NEXT {init_next[1]}")
    else:
        out.append(f"SPECIFICATION {spec}")
    if view:
        out.append(f"VIEW {view}")
    for i in invariants:
        out.append(f"INVARIANT {i}")
    for p in properties:
        out.append(f"PROPERTY {p}")
    for c in constraints:
        out.append(f"CONSTRAINT {c}")
    for c in action_constraints:
        out.append(f"ACTION_CONSTRAINT {c}")
    if postcondition:
        out.append(f"POSTCONDITION {postcondition}")
    out.append("CHECK_DEADLOCK FALSE")
    path.write_text("\n".join(out) + "\n")


_RE_STATES = re.compile(r"(\d+) states generated, (\d+) distinct states found")
_RE_DEPTH = re.compile(r"depth of the complete state graph search is (\d+)")
_RE_INV = re.compile(r"Invariant (\S+) is violated")
_RE_PROP = re.compile(r"(?:Temporal properties were violated|Action property (\S+) is violated|property (\S+) is violated)")


def run_tlc(module: str, cfg: Path, *, workers: int | str = "auto", timeout: int = 3600,
            simulate: str | None = None, depth: int | None = None, seed: int | None = None,
            env: dict[str, str] | None = None, coverage: bool = False, tag: str = "run",
            marker: str = "@@", keep_output: bool = False, dfid: int | None = None) -> TLCResult:
    """Run TLC on spec/<module>.tla with the given config file."""
    meta = Path(tempfile.mkdtemp(prefix=f"tlc-{tag}-", dir=str(_scratch())))
    cmd = _tlc_cmd() + ["-workers", str(workers), "-metadir", str(meta), "-noGenerateSpecTE",
                        "-config", str(cfg)]
    if simulate:
        cmd += ["-simulate", simulate]
    if depth is not None:
        cmd += ["-depth", str(depth)]
    if seed is not None:
        cmd += ["-seed", str(seed)]
    if coverage:
        cmd += ["-coverage", "1"]
    if dfid is not None:
        cmd += ["-dfid", str(dfid)]
    cmd.append(str(SPEC / f"{module}.tla"))
    e = dict(os.environ)
    if env:
        e.update(env)
    t0 = time.time()
    try:
        p = subprocess.run(cmd, cwd=str(SPEC), capture_output=True, text=True, timeout=timeout, env=e)
    except subprocess.TimeoutExpired as exc:
        shutil.rmtree(meta, ignore_errors=True)
        out = (exc.stdout or b"")
        if isinstance(out, bytes):
            out = out.decode("utf-8", "replace")
        if simulate:  # simulation runs are time-boxed on purpose
            res = TLCResult(ok=True, wall_s=time.time() - t0, output=out[-20000:])
            res.lines = [ln for ln in out.splitlines() if marker in ln]
            return res
        raise TLCError(f"TLC timed out after {timeout}s on {module}") from exc
    finally:
        shutil.rmtree(meta, ignore_errors=True)
    wall = time.time() - t0
    out = p.stdout
    res = TLCResult(ok=False, wall_s=wall, output=out if keep_output else out[-60000:])
    for m in _RE_STATES.finditer(out):
        res.generated, res.distinct = int(m.group(1)), int(m.group(2))
    m = _RE_DEPTH.search(out)
    if m:
        res.depth = int(m.group(1))
    res.lines = [ln for ln in out.splitlines() if marker in ln]
    m = _RE_INV.search(out)
    if m:
        res.violated = m.group(1)
    elif "is violated" in out or "violated" in out and "Error:" in out:
        m2 = _RE_PROP.search(out)
        res.violated = (m2.group(1) or m2.group(2) or "temporal") if m2 else "property"
    if coverage:
        for m in re.finditer(r"<(\w+) line \d+, col \d+ to line \d+, col \d+ of module \w+>: (\d+):(\d+)", out):
            res.coverage[m.group(1)] = res.coverage.get(m.group(1), 0) + int(m.group(3))
    finished = ("Model checking completed" in out) or ("The number of states generated" in out) or \
        ("Finished in" in out)
    if res.violated:
        res.ok = False
    elif p.returncode == 0 and finished:
        res.ok = True
    else:
        i = out.find("Error:")
        head = out[i:i + 1500] if i >= 0 else ""
        raise TLCError(f"TLC failed on {module} (exit {p.returncode}):\n{head}\n...\n{out[-2500:]}\n{p.stderr[-2000:]}")
    return res


def _scratch() -> Path:
    d = OUT / "tlc-meta"
    d.mkdir(parents=True, exist_ok=True)
    return d


def payloads(lines: list[str], tag: str) -> list:
    """Extract the JSON payloads of PrintT(<<"@@X", ToJson(...)>>) lines."""
    res = []
    pre = f'<<"{tag}", "'
    for ln in lines:
        i = ln.find(pre)
        if i < 0:
            continue
        body = ln[i + len(pre):]
        j = body.rfind('">>')
        if j < 0:
            continue
        s = body[:j]
        # undo TLA+ string escaping
        s = s.replace('\\"', '"').replace("\\\\", "\\")
        try:
            res.append(json.loads(s))
        except json.JSONDecodeError:
            raise TLCError(f"unparsable TLC payload: {ln[:200]}")
    return res


# ---------------------------------------------------------------------------------------------------
# trace validation


def validate_traces(tmodule: str, traces: list[dict], *, tag: str, chunk: int = 4000,
                    timeout: int = 1800, constants: dict[str, str] | None = None) -> list[dict]:
    """Validate recorded traces with TLC against spec/<tmodule>.tla.

    Each trace is {"id": ..., "events": [...]}.  Returns one verdict per trace:
    {"id", "n" (events consumed), "len", "bad": [clause names], "at": first failing event index}.
    """
    verdicts: list[dict] = []
    d = OUT / "traces"
    d.mkdir(parents=True, exist_ok=True)
    cfg = d / f"{tag}.cfg"
    write_cfg(cfg, constants=constants or {}, spec="TSpec", view=None)
    for i in range(0, len(traces), chunk):
        part = traces[i:i + chunk]
        f = d / f"{tag}-{i}.json"
        f.write_text(json.dumps({"traces": [{"events": t["events"], "params": t.get("params") or {"none": 0}}
                                             for t in part]}))
        r = run_tlc(tmodule, cfg, workers=1, timeout=timeout, env={"TRACE_FILE": str(f)},
                    tag=tag, marker="@@V")
        if r.violated:
            raise TLCError(f"trace spec {tmodule} reported {r.violated}:\n{r.output[-3000:]}")
        got = payloads(r.lines, "@@V")
        byid = {v["tid"]: v for v in got}
        for k, t in enumerate(part, start=1):
            v = byid.get(k)
            if v is None:
                raise TLCError(f"no verdict for trace {k} of batch {f}\n{r.output[-3000:]}")
            verdicts.append({"id": t["id"], "n": v["n"], "len": len(t["events"]),
                             "bad": sorted(v["bad"]), "at": v["at"]})
        f.unlink()
    return verdicts
