"""C11 - Event and Condition: no early, spurious or lost wake-ups."""

from __future__ import annotations

from .family import Family, ModelCfg, run_parts

ENV = '{"cancel", "native"}'
ASSUME = [
    "CPython 3.12 asyncio semantics (FIFO call_soon, C Task) are environment, not verified",
    "exhaustive only within the stated constants (tasks, operations per task, environment actions)",
    "replay on the stock SelectorEventLoop-derived controlled loop; uvloop not covered by replay",
]


def consts(nt, maxops, maxenv, ops, env=ENV, retry=False):
    return {"NT": str(nt), "INF": "99", "Ops": ops, "MaxOps": str(maxops), "MaxEnv": str(maxenv),
            "EnvKinds": env, "Retry": "TRUE" if retry else "FALSE"}


def cmp(keys):
    def f(model: dict, real: dict) -> list[str]:
        return [f"{k}: model={model.get(k)} real={real.get(k)}" for k in keys
                if model.get(k) != real.get(k)]
    return f


EOPS = '{"wait", "set", "yield"}'
EVENT = Family(
    prop="C11", mc_module="MC_C11E", t_module="T_Event", fam_module="harness.fam_event",
    invariants=["PropertyHolds", "TypeOK", "NoPendingWaiterOnSetEvent", "Residue"],
    nt_of=lambda c: int(c["NT"]), compare_final=cmp(("isset", "waiting", "nh", "out", "nc")),
    configs=[
        ModelCfg("e-n2o2e1", consts(2, 2, 1, EOPS), emit=True, check=False),
        ModelCfg("e-n3o2e2", consts(3, 2, 2, EOPS), simulate=800),
        # clients survive the cancellation of their scope (move_on_after pattern) and wait again
        ModelCfg("e-n2o3e2-retry", consts(2, 3, 2, '{"wait", "set"}', env='{"cancel"}', retry=True), emit=True,
                 replay_kw={"retry": True}),
        ModelCfg("e-n4o2e3", consts(4, 2, 3, EOPS), tiers=("thorough",), check=False, simulate=5000),
    ],
    assumptions=ASSUME,
)

COPS = '{"acq", "wait", "rel", "notify1", "notifyall", "yield"}'
COPS2 = '{"acq", "wait", "rel", "notify1", "notify2", "notifyall", "nowait", "yield"}'
COND = Family(
    prop="C11", mc_module="MC_C11C", t_module="T_Cond", fam_module="harness.fam_cond",
    invariants=["PropertyHolds", "TypeOK", "OwnerConsistent", "QueuedEventsUnset",
                "NoLiveWaiterOnFreeLock", "Residue"],
    nt_of=lambda c: int(c["NT"]), compare_final=cmp(("owner", "w", "nh", "out", "nc")),
    configs=[
        ModelCfg("c-n2o3e1", consts(2, 3, 1, COPS), emit=True, check=False, max_scenarios=3000),
        # three waiters and a notifier; one cancellation (pass-on must go to the NEXT waiter)
        ModelCfg("c-n4o2e1-w", consts(4, 2, 1, '{"acq", "wait", "notify1"}'), emit=True, check=False,
                 max_scenarios=4000),
        # clients survive the cancellation of their scope and carry on (wait again, notify, re-acquire)
        ModelCfg("c-n2o4e2-retry", consts(2, 4, 2, '{"acq", "wait", "notify1"}', env='{"cancel"}', retry=True),
                 emit=True, check=False, replay_kw={"retry": True}, max_scenarios=2000),
        ModelCfg("c-n3o4e2-retry", consts(3, 4, 2, COPS, retry=True), simulate=800, check=False,
                 replay_kw={"retry": True}),
        ModelCfg("c-n3o3e1", consts(3, 3, 1, '{"acq", "wait", "notify1", "notifyall"}'),
                 tiers=("quick",), simulate=1500),
        ModelCfg("c-n3o3e2", consts(3, 3, 2, COPS), tiers=("thorough",), simulate=8000),
        ModelCfg("c-n3o4e2", consts(3, 4, 2, COPS2), tiers=("thorough",), check=False, simulate=8000),
        ModelCfg("c-n4o3e2", consts(4, 3, 2, '{"acq", "wait", "notify1", "notify2", "notifyall"}'),
                 tiers=("thorough",), check=False, simulate=8000),
    ],
    assumptions=ASSUME,
)


def main(tier: str, seed: int) -> int:
    return run_parts("C11", [EVENT, COND], tier, seed)
