"""C17 binding: two real anyio TLSStream objects over a transport that the harness controls.

A *schedule* is what TLC prints for one behaviour of spec/TlsPump.tla:
    {"v": 12|13, "cfg": {"sc": {"c": bool, "s": bool}, "big": {"c": bool, "s": bool}},
     "h": [choice, ...], "fin": {...model's projection after the last choice...}}
with choices  {"w": "op", "s": side, "op": "send"|"recv"|"close", "a": units}
                  (send / recv also AFTER a call of the side has raised: the end is observed again)
              {"w": "dl", "s": side, "k": units}        transport hands k cipher units to side
              {"w": "eof", "s": side}                   transport reports end-of-file to side
plus the harness-side concretisation {"conc": {"unit": bytes per plaintext unit, "frag": style,
"seed": n}} (how abstract units become bytes).

Execution is serialised exactly like the model: a side runs only between a choice and its next
rest point (waiting in transport.receive(), waiting for its next call, or finished); the driver
performs one choice, waits for that rest point, performs the next.  Nothing depends on time.

Abstract -> concrete.  Every transport.send() call of a stream during wrap()/aclose() is one
abstract record (a handshake flight, the tickets, the close_notify); during send() every TLS record
(parsed from the 5-byte record headers of the real ciphertext) is one abstract record.  A record's
two units are its bytes before / after a split offset chosen inside it (header, just after the
header, body, last byte, ... by the concretisation seed).  One abstract delivery may be handed over
in several pieces (down to single bytes) as long as the side is bound to stay parked.
"""

from __future__ import annotations

import asyncio
import random
import signal
import ssl
import sys
from typing import Any

from .replay import ensure_repo_on_path

STREAM_LEN = 80 * 16384 + 64
_CTX: dict[Any, Any] = {}
_STREAMS: dict[str, bytes] = {}


def _streams() -> dict[str, bytes]:
    if not _STREAMS:
        _STREAMS["c"] = random.Random(0xC17C).randbytes(STREAM_LEN)   # what the client writes
        _STREAMS["s"] = random.Random(0xC175).randbytes(STREAM_LEN)   # what the server writes
    return _STREAMS


def _contexts(v: int) -> tuple[ssl.SSLContext, ssl.SSLContext]:
    """(client, server) contexts pinned to one protocol version; certificates from trustme."""
    if "ca" not in _CTX:
        import trustme

        _CTX["ca"] = trustme.CA()
        _CTX["cert"] = _CTX["ca"].issue_cert("localhost")
    if v not in _CTX:
        ver = ssl.TLSVersion.TLSv1_2 if v == 12 else ssl.TLSVersion.TLSv1_3
        srv = ssl.SSLContext(ssl.PROTOCOL_TLS_SERVER)
        _CTX["cert"].configure_cert(srv)
        cli = ssl.SSLContext(ssl.PROTOCOL_TLS_CLIENT)
        _CTX["ca"].configure_trust(cli)
        for c in (srv, cli):
            c.minimum_version = ver
            c.maximum_version = ver
            # as TLSStream.wrap does for the contexts it creates itself (tls.py:137-139)
            if hasattr(ssl, "OP_IGNORE_UNEXPECTED_EOF"):
                c.options &= ~ssl.OP_IGNORE_UNEXPECTED_EOF
        _CTX[v] = (cli, srv)
    return _CTX[v]


class Abort(Exception):
    """Raised by the harness transport into a stream that spins (neither OSError nor SSLError)."""


class HangAlarm(BaseException):
    pass


class HarnessStuck(BaseException):
    """Wall-clock limit of one schedule: a failure of the machinery, never a verdict."""


def parse_records(data: bytes) -> list[tuple[int, int, int]] | None:
    """[(start, end, type)] of the TLS records in data, None unless data is whole records."""
    out = []
    i = 0
    while i < len(data):
        if i + 5 > len(data) or data[i] not in (20, 21, 22, 23) or data[i + 1] != 3:
            return None
        ln = int.from_bytes(data[i + 3:i + 5], "big")
        if i + 5 + ln > len(data):
            return None
        out.append((i, i + 5 + ln, data[i]))
        i += 5 + ln
    return out


class Pipe:
    """Bytes in flight to one side."""

    def __init__(self) -> None:
        self.buf = bytearray()      # everything ever handed to the transport for this side
        self.pos = 0                # bytes handed out so far
        self.marks: list[int] = []  # absolute offsets of the abstract unit boundaries beyond pos
        self.recs: list[tuple[int, int, str]] = []   # abstract records (start, end, kind)
        self.parsed = 0             # send(): ciphertext up to here has been cut into records
        self.real_ends: list[int] = []               # absolute ends of the real TLS records
        self.closed = False         # the sender closed its end
        self.eofd = False           # end-of-file was reported to the receiver


class Endpoint:
    """The AnyByteStream a TLSStream is wrapped around (one per side)."""

    def __init__(self, run: "Run", side: "Side") -> None:
        self.run = run
        self.side = side

    @property
    def extra_attributes(self) -> dict:
        return {}

    def extra(self, attribute: Any, default: Any = None) -> Any:
        if default is None:
            from anyio import TypedAttributeLookupError

            raise TypedAttributeLookupError("Attribute not found")
        return default

    async def send(self, item: bytes) -> None:
        self.run.on_tsend(self.side, bytes(item))

    async def receive(self, max_bytes: int = 65536) -> bytes:
        return await self.run.on_trecv(self.side, max_bytes)

    async def send_eof(self) -> None:
        self.run.on_tclose(self.side)

    async def aclose(self) -> None:
        self.run.on_tclose(self.side)


def _outgoing_pending(side: "Side") -> int:
    """Bytes in the outgoing BIO of the side's TLSStream, seen from inside transport.receive()."""
    if side.tls is not None:
        return side.tls._write_bio.pending
    f = sys._getframe(2)
    while f is not None:
        if f.f_code.co_name == "_call_sslobject_method":
            obj = f.f_locals.get("self")
            bio = getattr(obj, "_write_bio", None)
            if bio is not None:
                return bio.pending
        f = f.f_back
    return 0


class Side:
    def __init__(self, name: str, sc: bool, big: bool) -> None:
        self.name = name
        self.sc = sc
        self.big = big
        self.tls: Any = None
        self.state = "new"          # new | run | park | rest | done
        self.op = "new"
        self.recv_fut: asyncio.Future | None = None
        self.op_fut: asyncio.Future | None = None
        self.task: asyncio.Task | None = None
        self.ntsend = 0             # transport.send calls within the current call
        self.sent_off = 0           # plaintext written
        self.got = 0                # plaintext read
        self.eof_reads = 0
        self.max_bytes = 65536
        self.wrap = ""
        self.endr = ""
        self.closer = ""
        self.failed = False
        self.reobserved = False     # complete() has asked for the end once more


def classify(exc: BaseException) -> str:
    from anyio import BrokenResourceError, ClosedResourceError, EndOfStream

    if isinstance(exc, EndOfStream):
        return "eos"
    if isinstance(exc, BrokenResourceError):
        return "broken"
    if isinstance(exc, ClosedResourceError):
        return "closed"
    return "other"


class Run:
    def __init__(self, sched: dict) -> None:
        self.sched = sched
        self.v = sched["v"]
        cfg = sched["cfg"]
        conc = sched.get("conc") or {}
        self.unit = {x: (16384 if cfg["big"][x] else int(conc.get("unit", 7))) for x in "cs"}
        self.frag = conc.get("frag", "whole")
        self.rng = random.Random(conc.get("seed", 0))
        self.sides = {x: Side(x, bool(cfg["sc"][x]), bool(cfg["big"][x])) for x in "cs"}
        self.pipes = {x: Pipe() for x in "cs"}     # pipes[x]: in flight TO x
        self.events: list[dict] = []
        self.signal: asyncio.Future | None = None
        self.flags: dict[str, Any] = {"drift": [], "cuts": [], "pieces": 0}

    # ---- recording
    def emit(self, **ev: Any) -> None:
        self.events.append(ev)

    def peer(self, x: str) -> str:
        return "s" if x == "c" else "c"

    # ---- transport callbacks (called from inside the library's pump)
    def on_tsend(self, side: Side, data: bytes) -> None:
        pipe = self.pipes[self.peer(side.name)]
        base = len(pipe.buf)
        pipe.buf += data
        self.emit(ev="tsend", s=side.name, n=len(data))
        if not data:
            return
        kind = {"wrap": "hs", "close": "cn", "send": "app"}.get(side.op, "x")
        if side.op == "wrap" and self.v == 13 and side.name == "s" and side.ntsend >= 1:
            kind = "tk"
        side.ntsend += 1
        if side.op == "send":
            # every TLS record is one abstract record.  The ciphertext of one send() may reach the
            # transport in several transport.send() calls that split records anywhere (deviation
            # FlushInPieces of TlsPump.tla): cut the byte stream, not the call, into records; an
            # unfinished record waits for its rest
            spans = []
            while pipe.parsed + 5 <= len(pipe.buf):
                a = pipe.parsed
                b = a + 5 + int.from_bytes(pipe.buf[a + 3:a + 5], "big")
                if pipe.buf[a] not in (20, 21, 22, 23) or pipe.buf[a + 1] != 3:
                    spans.append((a, len(pipe.buf)))     # not TLS at all: one opaque record
                    pipe.parsed = len(pipe.buf)
                    break
                if b > len(pipe.buf):
                    break
                spans.append((a, b))
                pipe.real_ends.append(b)
                pipe.parsed = b
        else:
            real = parse_records(data)
            if real is not None:
                pipe.real_ends += [base + e for (_, e, _) in real]
            spans = [(base, base + len(data))]
            pipe.parsed = len(pipe.buf)
        for a, b in spans:
            pipe.recs.append((a, b, kind))
            pipe.marks += [self._split(pipe, a, b), b]

    def _split(self, pipe: Pipe, a: int, b: int) -> int:
        """An offset strictly inside the abstract record [a, b) (or b when it is a single byte)."""
        if b - a < 2:
            return b
        inner = [e for e in pipe.real_ends if a < e < b]
        cands = [a + 1, a + 3, a + 5, a + 6, b - 1, b - 16, (a + b) // 2, self.rng.randrange(a + 1, b)]
        for e in inner:
            cands += [e, e + 1, e + 5, e - 1]
        cands = [c for c in cands if a < c < b]
        return self.rng.choice(cands)

    async def on_trecv(self, side: Side, max_bytes: int) -> bytes:
        from anyio import EndOfStream

        pipe = self.pipes[side.name]
        self.events.append({"ev": "trecv", "s": side.name, "pending": _outgoing_pending(side)})
        self._merge_pieces()
        if pipe.eofd:
            # end-of-file was reported already; a stream that asks again gets it again
            side.eof_reads += 1
            if side.eof_reads > 3:
                raise Abort("transport.receive() called again and again after end-of-file")
            raise EndOfStream
        side.state = "park"
        side.max_bytes = max(1, int(max_bytes))
        side.recv_fut = asyncio.get_running_loop().create_future()
        self._rest()
        try:
            return await side.recv_fut
        finally:
            side.recv_fut = None
            side.state = "run"

    def _merge_pieces(self) -> None:
        """[tdl a, trecv p, tdl b, trecv p] of one side -> [tdl a+b, trecv p]: a delivery handed over in
        pieces, after each of which the stream asked for more, reads like one delivery."""
        ev = self.events
        if len(ev) >= 4 and ev[-4]["ev"] == "tdl" and ev[-2]["ev"] == "tdl" and ev[-3] == ev[-1] \
                and ev[-4]["s"] == ev[-2]["s"] == ev[-1]["s"] and ev[-2].get("piece"):
            ev[-4]["n"] += ev[-2]["n"]
            del ev[-2:]

    def on_tclose(self, side: Side) -> None:
        self.pipes[self.peer(side.name)].closed = True
        self.emit(ev="tclose", s=side.name)

    # ---- rest points
    def _rest(self) -> None:
        if self.signal is not None and not self.signal.done():
            self.signal.set_result(None)

    async def _until_rest(self) -> None:
        await self.signal
        self.signal = None

    def _arm(self) -> None:
        self.signal = asyncio.get_running_loop().create_future()

    # ---- the application on one side
    async def side_main(self, side: Side) -> None:
        try:
            await self._side_main(side)
        except HangAlarm:
            self.emit(ev="hang", s=side.name)
            side.state = "done"
            self._rest()
        except HarnessStuck:
            self.flags["stuck"] = True
            side.state = "done"
            self._rest()

    async def _side_main(self, side: Side) -> None:
        ensure_repo_on_path()
        from anyio.streams.tls import TLSStream

        cli, srv = _contexts(self.v)
        ep = Endpoint(self, side)
        side.state = "run"
        side.op = "wrap"
        side.ntsend = 0
        self.emit(ev="start", s=side.name, op="wrap", n=0)
        try:
            if side.name == "c":
                tls = await TLSStream.wrap(ep, hostname="localhost", ssl_context=cli,
                                           standard_compatible=side.sc)
            else:
                tls = await TLSStream.wrap(ep, server_side=True, ssl_context=srv,
                                           standard_compatible=side.sc)
        except Exception as exc:  # noqa: BLE001
            side.wrap = classify(exc)
            self.emit(ev="end", s=side.name, op="wrap", res=side.wrap, n=0, max=0, match=True,
                      pending=0, exc=type(exc).__name__)
            await ep.aclose()
            side.op = "done"
            side.state = "done"
            self._rest()
            return
        side.tls = tls
        side.wrap = "ok"
        self.emit(ev="end", s=side.name, op="wrap", res="ok", n=0, max=0, match=True,
                  pending=tls._write_bio.pending)
        streams = _streams()
        while True:
            side.op = "idle"
            side.state = "rest"
            side.op_fut = asyncio.get_running_loop().create_future()
            self._rest()
            op = await side.op_fut
            side.op_fut = None
            side.state = "run"
            side.op = op["op"]
            side.ntsend = 0
            if op["op"] == "send":
                n = op["a"] * self.unit[side.name]
                if side.sent_off + n > STREAM_LEN:
                    raise RuntimeError("C17 harness: STREAM_LEN too small for this schedule")
                data = streams[side.name][side.sent_off:side.sent_off + n]
                side.sent_off += n
                self.emit(ev="start", s=side.name, op="send", n=n)
                try:
                    await tls.send(data)
                    res, exc = "ok", ""
                except Exception as e:  # noqa: BLE001
                    res, exc = classify(e), type(e).__name__
                    side.failed = True
                self.emit(ev="end", s=side.name, op="send", res=res, n=n, max=n, match=True,
                          pending=tls._write_bio.pending, exc=exc)
            elif op["op"] == "recv":
                m = op["a"] * self.unit[self.peer(side.name)]
                self.emit(ev="start", s=side.name, op="recv", n=m)
                try:
                    data = await tls.receive(m)
                except Exception as e:  # noqa: BLE001
                    side.endr = classify(e)
                    side.failed = True
                    self.emit(ev="end", s=side.name, op="recv", res=side.endr, n=0, max=m, match=True,
                              pending=tls._write_bio.pending, exc=type(e).__name__)
                else:
                    want = streams[self.peer(side.name)][side.got:side.got + len(data)]
                    self.emit(ev="end", s=side.name, op="recv", res="data", n=len(data), max=m,
                              match=bytes(data) == want, pending=tls._write_bio.pending)
                    side.got += len(data)
            else:
                self.emit(ev="start", s=side.name, op="close", n=0)
                try:
                    await tls.aclose()
                    side.closer, exc = "ok", ""
                except Exception as e:  # noqa: BLE001
                    side.closer, exc = classify(e), type(e).__name__
                self.emit(ev="end", s=side.name, op="close", res=side.closer, n=0, max=0, match=True,
                          pending=0, exc=exc)
                side.op = "done"
                side.state = "done"
                self._rest()
                return

    # ---- driver
    async def _resume(self, fut: asyncio.Future, value: Any = None, exc: BaseException | None = None) -> None:
        self._arm()
        if exc is not None:
            fut.set_exception(exc)
        else:
            fut.set_result(value)
        await self._until_rest()

    def _pieces(self, pipe: Pipe, a: int, b: int) -> list[int]:
        """Ends of the pieces in which bytes [a, b) are handed over.  Up to the byte before the
        first real record end inside (a, b] the receiver cannot complete anything and is bound to
        park again, so that part may be fragmented freely; the rest goes in one piece."""
        if self.frag == "whole" or b - a < 2:
            return [b]
        ends = [e for e in pipe.real_ends if a < e <= b]
        free_to = (ends[0] - 1) if ends else b      # pieces may end anywhere in (a, free_to]
        cuts: list[int] = []
        if free_to > a:
            if self.frag == "byte1":
                span = free_to - a
                if span <= 200:
                    cuts = list(range(a + 1, free_to + 1))
                else:   # single bytes at both ends, coarser in the middle of a big record
                    cuts = list(range(a + 1, a + 65)) + list(range(a + 64 + 997, free_to - 64, 997)) \
                        + list(range(free_to - 64, free_to + 1))
            else:
                n = self.rng.randint(1, 3)
                cuts = sorted({self.rng.randrange(a + 1, free_to + 1) for _ in range(n)})
        cuts = [c for c in cuts if a < c < b]
        return cuts + [b]

    async def deliver(self, x: str, k: int) -> bool:
        side, pipe = self.sides[x], self.pipes[x]
        if side.state != "park" or pipe.eofd:
            self.flags["drift"].append(f"dl {x}: not parked")
            return False
        if not pipe.marks:
            self.flags["drift"].append(f"dl {x}: nothing in flight")
            return False
        if len(pipe.marks) < k:
            self.flags["drift"].append(f"dl {x}: {len(pipe.marks)} units in flight, {k} wanted")
            k = len(pipe.marks)
        while k > 1 and pipe.marks[k - 1] - pipe.pos > side.max_bytes:
            k -= 1          # transport.receive(max_bytes) never returns more (only the completion gets here)
        target = pipe.marks[k - 1]
        del pipe.marks[:k]
        first = True
        ends = self._pieces(pipe, pipe.pos, target)
        while ends:
            end = ends.pop(0)
            if end - pipe.pos > side.max_bytes:      # a transport never returns more than max_bytes
                ends.insert(0, end)
                end = pipe.pos + side.max_bytes
            if side.state != "park":
                self.flags["drift"].append(f"dl {x}: left the transport mid-delivery")
                # what was promised stays in flight
                pipe.marks.insert(0, target)
                return False
            data = bytes(pipe.buf[pipe.pos:end])
            pipe.pos = end
            self.flags["pieces"] += 1
            if first:
                self.emit(ev="tdl", s=x, n=len(data))
            else:
                self.emit(ev="tdl", s=x, n=len(data), piece=1)
            first = False
            await self._resume(side.recv_fut, data)
        return True

    def cut_class(self, x: str) -> str:
        pipe = self.pipes[x]
        if pipe.pos >= len(pipe.buf):
            return "closed" if pipe.closed else "at-end"
        for a, b, kind in pipe.recs:
            if a < pipe.pos < b:
                return f"mid-{kind}"
            if pipe.pos == a:
                return f"before-{kind}"
        return "other"

    async def deliver_eof(self, x: str) -> bool:
        from anyio import EndOfStream

        side, pipe = self.sides[x], self.pipes[x]
        if side.state != "park" or pipe.eofd:
            self.flags["drift"].append(f"eof {x}: not parked")
            return False
        self.flags["cuts"].append(f"{side.op}:{self.cut_class(x)}")
        pipe.eofd = True
        pipe.marks.clear()
        self.emit(ev="teof", s=x)
        await self._resume(side.recv_fut, exc=EndOfStream())
        return True

    async def start_op(self, x: str, op: dict) -> bool:
        side = self.sides[x]
        if side.state != "rest" or side.op_fut is None:
            self.flags["drift"].append(f"op {x} {op['op']}: not idle")
            return False
        await self._resume(side.op_fut, op)
        return True

    async def complete(self) -> None:
        """After the last choice of the schedule: a benign environment finishes the run - hand over
        whatever is in flight, let idle applications close (one whose receive() has raised calls
        receive() once more first: the end is observed at least twice in every run), report
        end-of-file where the peer has closed; when nothing can move any more record the stall and end the transport."""
        for _ in range(200):
            moved = False
            for x in "cs":
                side, pipe = self.sides[x], self.pipes[x]
                if side.state == "park" and not pipe.eofd and pipe.marks:
                    moved = await self.deliver(x, len(pipe.marks))
                    break
                if side.state == "park" and not pipe.eofd and pipe.closed and pipe.pos >= len(pipe.buf):
                    moved = await self.deliver_eof(x)
                    break
            if moved:
                continue
            for x in "cs":
                side = self.sides[x]
                if side.state == "rest" and side.endr and not side.reobserved:
                    # an application that was told the end asks once more before it closes
                    side.reobserved = True
                    moved = await self.start_op(x, {"op": "recv", "a": 1})
                    break
                if side.state == "rest":
                    moved = await self.start_op(x, {"op": "close", "a": 0})
                    break
            if moved:
                continue
            parked = [x for x in "cs" if self.sides[x].state == "park" and not self.pipes[x].eofd]
            if not parked:
                return
            self.emit(ev="stall")
            await self.deliver_eof(parked[0])
        self.flags["drift"].append("completion did not terminate")

    def projection(self) -> dict:
        out = {}
        for x, sd in self.sides.items():
            pc = sd.op if sd.state != "rest" else "idle"
            got = sd.got // self.unit[self.peer(x)] if sd.got % self.unit[self.peer(x)] == 0 else -1
            out[x] = {"pc": pc, "st": "park" if sd.state == "park" else "rest", "wrap": sd.wrap,
                      "got": got, "endr": sd.endr, "closer": sd.closer,
                      "closed": self.pipes[self.peer(x)].closed}
        return out

    async def main(self) -> dict:
        loop = asyncio.get_running_loop()
        try:
            for x in "cs":
                self._arm()
                self.sides[x].task = loop.create_task(self.side_main(self.sides[x]))
                await self._until_rest()
            for ch in self.sched["h"]:
                if ch["w"] == "op":
                    await self.start_op(ch["s"], ch)
                elif ch["w"] == "dl":
                    await self.deliver(ch["s"], ch["k"])
                else:
                    await self.deliver_eof(ch["s"])
            final = self.projection()
            await self.complete()
        except HangAlarm:
            final = None
            self.emit(ev="hang", s="c")
        finally:
            for sd in self.sides.values():
                if sd.task is not None and not sd.task.done():
                    sd.task.cancel()
            for sd in self.sides.values():
                if sd.task is not None:
                    try:
                        await sd.task
                    except BaseException:  # noqa: BLE001
                        pass
        return {"events": self.events, "final": final, "flags": self.flags,
                "params": {"scc": self.sides["c"].sc, "scs": self.sides["s"].sc}}


def _alarm(signum: int, frame: Any) -> None:
    raise HangAlarm()


def _stuck(signum: int, frame: Any) -> None:
    raise HarnessStuck()


def run_schedule(sched: dict, cpu_budget_s: float = 10.0, wall_budget_s: float = 600.0) -> dict:
    """Execute one schedule against the library at $VERIF_REPO; returns the recorded trace.

    A stream that spins (burns `cpu_budget_s` of CPU time of this process - the budget is CPU time so
    that a busy machine cannot fake it) is recorded as the event "hang"."""
    ensure_repo_on_path()
    import anyio

    _contexts(sched["v"])
    _streams()
    run = Run(sched)
    old = signal.signal(signal.SIGPROF, _alarm)
    old2 = signal.signal(signal.SIGALRM, _stuck)
    signal.setitimer(signal.ITIMER_PROF, cpu_budget_s)
    signal.setitimer(signal.ITIMER_REAL, wall_budget_s)
    try:
        try:
            res = anyio.run(run.main)
            if run.flags.get("stuck"):
                raise HarnessStuck()
            return res
        except HarnessStuck:
            raise RuntimeError(f"C17 harness: schedule not finished within {wall_budget_s} s of wall-clock "
                               "time without burning CPU (machinery, not a verdict)") from None
        except HangAlarm:
            run.events.append({"ev": "hang", "s": "c"})
            return {"events": run.events, "final": None, "flags": run.flags,
                    "params": {"scc": run.sides["c"].sc, "scs": run.sides["s"].sc}}
    finally:
        signal.setitimer(signal.ITIMER_PROF, 0)
        signal.setitimer(signal.ITIMER_REAL, 0)
        signal.signal(signal.SIGPROF, old)
        signal.signal(signal.SIGALRM, old2)
