"""C14 - to_thread.run_sync: faithful results, bounded threads, cancellation handled.

1. TLC checks spec/MC_C14.tla (AioThreads + the observer P_ThreadPool as ghost state) with the
   environment acting at ANY point: PropertyHolds (no clause violated) and the implementation-level
   invariants, over all configurations of the calls.
2. TLC generates scenarios from the same model with the environment restricted to quiescent points
   (QEnv = TRUE): exhaustively for 2 calls, by -simulate for 3 calls.
3. Every scenario is replayed on the real library with real worker threads (harness/c14_run.py), on
   the stock asyncio loop and on uvloop; TLC validates every recorded trace against the observer
   (spec/T_ThreadPool.tla).  The model's prediction of the outcome is compared as well (drift).
"""

from __future__ import annotations

import json
import random
from concurrent.futures import ThreadPoolExecutor
from pathlib import Path

from . import core, replay as rp, tlc

PROP = "C14"
MC = "MC_C14"
ALLK = '{"ret", "raise", "rsync", "rasync", "cc"}'
BOTH = "{TRUE, FALSE}"
NO = "{FALSE}"
BACKENDS = ("asyncio", "uvloop")
INVARIANTS = ["PropertyHolds", "ImplInvariants"]
PROBES = ["WorkerSkipsCancelledItem", "TokenHandedToCancelledWaiter", "CancelAfterReportKeepsResult",
          "DeferredCancellation", "CallbackCoroutineCancelled", "CheckCancelledSaw",
          "AbandonedWhileRunning", "TwoIdleWorkers", "WorkerReused", "QueuedForToken",
          "CancelledInQueue"]

ASSUME = [
    "quiescent-step binding: the real threads are stepped only at points where nothing moves (after each "
    "gate opening / cancellation the harness waits until the system is quiet); interleavings INSIDE one "
    "step (a report racing a cancellation, a worker taking an item racing a cancellation) are covered "
    "by the TLC run of the model only, not by replay",
    "the model checks all interleavings of loop handles, thread steps and environment actions for <= 3 "
    "calls, limiter totals {1, 2}; the 3-call runs are split by kinds of thread function",
    "CPython 3.12 asyncio / uvloop, threading and contextvars are environment, not verified",
    "MAX_IDLE_TIME pruning of idle workers is not modelled (no time passes in a scenario)",
    "quiescence of the real system is detected by polling (harness counters, limiter.borrowed_tokens, "
    "event log stable over several loop round trips), bounded by time-outs that are recorded",
]


def consts(nc: int, total: int, kinds: str, ab: str, pre: str, maxc: int, qenv: bool) -> dict[str, str]:
    # the shield of the cancelled scope O_c does not change the model's behaviour: the exhaustive
    # verification runs fix it, the scenario-generating runs (qenv) vary it for the replay on the real code
    return {"NC": str(nc), "Total": str(total), "AbSet": ab, "Kinds": kinds, "PreSet": pre,
            "MaxCancel": str(maxc), "QEnv": "TRUE" if qenv else "FALSE", "ShSet": BOTH if qenv else NO}


# exhaustive verification runs (environment acts anywhere): name -> constants
CHECKS = {
    "quick": {
        "v-n2t1-all": consts(2, 1, ALLK, BOTH, BOTH, 2, False),
        "v-n3t1-ret": consts(3, 1, '{"ret"}', BOTH, NO, 2, False),
    },
    "thorough": {
        "v-n2t1-all": consts(2, 1, ALLK, BOTH, BOTH, 2, False),
        "v-n2t2-all": consts(2, 2, ALLK, BOTH, BOTH, 2, False),
        "v-n3t1-ret-raise": consts(3, 1, '{"ret", "raise"}', BOTH, BOTH, 2, False),
        "v-n3t2-ret-cc": consts(3, 2, '{"ret", "cc"}', BOTH, NO, 2, False),
        "v-n3t1-rasync-cc": consts(3, 1, '{"rasync", "cc"}', BOTH, NO, 2, False),
        "v-n3t2-rsync-rasync": consts(3, 2, '{"rsync", "rasync"}', BOTH, NO, 2, False),
        "v-n3t2-ret-c3": consts(3, 2, '{"ret"}', BOTH, BOTH, 3, False),
        "v-n3t1-ret-c3": consts(3, 1, '{"ret"}', BOTH, BOTH, 3, False),
        "v-n3t1-rsync-raise": consts(3, 1, '{"rsync", "raise"}', BOTH, NO, 2, False),
    },
}
# exhaustive scenario emission (quiescent-step environment): name -> (constants, cap per tier)
EMITS = {
    "quick": {},
    "thorough": {"s-n2t1": (consts(2, 1, ALLK, BOTH, BOTH, 2, True), None),
                 "s-n2t2": (consts(2, 2, ALLK, BOTH, BOTH, 2, True), 1500)},
}
# sampled scenarios (-simulate): name -> (constants, number of behaviours)
SIMS = {
    "quick": {"s-n2t1": (consts(2, 1, ALLK, BOTH, BOTH, 2, True), 110),
              "s-n3t1": (consts(3, 1, ALLK, BOTH, BOTH, 3, True), 110),
              "s-n3t2": (consts(3, 2, ALLK, BOTH, BOTH, 3, True), 110)},
    "thorough": {"s-n3t1": (consts(3, 1, ALLK, BOTH, BOTH, 3, True), 1500),
                 "s-n3t2": (consts(3, 2, ALLK, BOTH, BOTH, 3, True), 1500)},
}


def _scn(p: dict) -> dict:
    return {"total": p["total"], "cfg": p["cfg"], "steps": p["h"]}


def _key(scn: dict) -> str:
    return json.dumps(scn, sort_keys=True)


def _final_diff(model: list, real: dict) -> list[str]:
    out = []
    for i, m in enumerate(model, start=1):
        r = real.get(str(i), {})
        for k in ("out", "fs", "fout", "fval"):
            if m.get(k) != r.get(k):
                out.append(f"call {i} {k}: model={m.get(k)} real={r.get(k)}")
    return out


def _probe(name: str, cfgdir: Path) -> tuple[str, bool, tlc.TLCResult]:
    p = cfgdir / f"probe-{name}.cfg"
    tlc.write_cfg(p, constants=consts(2, 1, ALLK, BOTH, BOTH, 2, False), invariants=[f"NoProbe_{name}"])
    r = tlc.run_tlc(MC, p, workers=2, timeout=900, tag=f"{PROP}-probe")
    return name, r.violated == f"NoProbe_{name}", r


def generate(tier: str, seed: int, rep: core.Report, cfgdir: Path) -> list[dict]:
    """Model runs of this tier (run concurrently); returns the scenarios {"scn", "fin", "src"}."""
    rng = random.Random(seed)
    heavy = 6 if tier == "quick" else 8

    def check(name: str, c: dict) -> tlc.TLCResult:
        p = cfgdir / f"{name}.cfg"
        tlc.write_cfg(p, constants=c, invariants=INVARIANTS)
        return tlc.run_tlc(MC, p, workers=heavy, timeout=3000, tag=f"{PROP}-{name}")

    def emit(name: str, c: dict) -> tlc.TLCResult:
        p = cfgdir / f"{name}-emit.cfg"
        tlc.write_cfg(p, constants=c, view=None, invariants=["PropertyHolds"],
                      action_constraints=["EmitFinalAC"])
        return tlc.run_tlc(MC, p, workers=1, timeout=3000, tag=f"{PROP}-{name}", keep_output=True,
                           marker="@@F")

    def sim(name: str, c: dict, num: int) -> tlc.TLCResult:
        p = cfgdir / f"{name}-sim.cfg"
        tlc.write_cfg(p, constants=c, view=None, invariants=["PropertyHolds"],
                      action_constraints=["EmitFinalAC"])
        return tlc.run_tlc(MC, p, workers=1, timeout=3000, simulate=f"num={num}", depth=400,
                           seed=seed * 7919 + 17, tag=f"{PROP}-{name}", keep_output=True, marker="@@F")

    jobs: list[tuple[str, str, object]] = []
    for name, c in CHECKS[tier].items():
        jobs.append(("check", name, (lambda n=name, c=c: check(n, c))))
    for name, (c, _cap) in EMITS[tier].items():
        jobs.append(("emit", name, (lambda n=name, c=c: emit(n, c))))
    for name, (c, num) in SIMS[tier].items():
        jobs.append(("sim", name, (lambda n=name, c=c, k=num: sim(n, c, k))))
    if tier == "thorough":
        for name in PROBES:
            jobs.append(("probe", name, (lambda n=name: _probe(n, cfgdir))))
    with ThreadPoolExecutor(4 if tier == "quick" else 3) as ex:
        futs = [ex.submit(j[2]) for j in jobs]  # type: ignore[arg-type]
        done = [f.result() for f in futs]

    scns: list[dict] = []
    seen: set[str] = set()

    def add(ps: list[dict], src: str, cap: int | None) -> int:
        fresh = []
        for p in ps:
            s = _scn(p)
            k = _key(s)
            if k not in seen:
                seen.add(k)
                fresh.append({"scn": s, "fin": p["fin"], "src": src})
        if cap is not None and len(fresh) > cap:
            fresh = rng.sample(fresh, cap)
        scns.extend(fresh)
        return len(fresh)

    missed = []
    nprobe = 0
    for (kind, name, _), r in zip(jobs, done):
        if kind == "probe":
            nprobe += 1
            if not r[1]:
                missed.append(name)
            continue
        if r.violated:
            # the committed model satisfies its invariants; a failure here is not a verdict on the code
            raise tlc.TLCError(f"model {MC}/{name} violates {r.violated}\n{r.output[-3000:]}")
        if kind == "check":
            rep.add_model(f"{MC}/{name}", r, mode="exhaustive, environment at any point",
                          constants=CHECKS[tier][name])
        elif kind == "emit":
            c, cap = EMITS[tier][name]
            ps = tlc.payloads(r.lines, "@@F")
            used = add(ps, f"{name}:graph", cap)
            rep.add_model(f"{MC}/{name}", r, constants=c, scenarios=len(ps), replayed=used,
                          mode="exhaustive, quiescent-step environment, scenarios emitted")
        else:
            c, num = SIMS[tier][name]
            ps = tlc.payloads(r.lines, "@@F")
            used = add(ps, f"{name}:simulate", None)
            rep.models.append({"model": f"{MC}/{name}", "mode": "simulate, quiescent-step environment",
                               "behaviours": num, "complete_scenarios": len(ps), "new": used,
                               "wall_s": round(r.wall_s, 1), "constants": c})
    if nprobe:
        rep.extra["vacuity_probes"] = {"reached": nprobe - len(missed), "of": nprobe}
        if missed:
            raise tlc.TLCError(f"vacuity probes not reachable in {MC}: {missed}")
    return scns


def judge(items: list[dict], results: list[dict], tag: str) -> list[dict]:
    traces = []
    for i, r in enumerate(results):
        if "machinery_error" in r:
            raise tlc.TLCError("replay failed: " + r["machinery_error"])
        traces.append({"id": i, "events": r["events"], "params": r["params"]})
    return tlc.validate_traces("T_ThreadPool", traces, tag=tag)


def main(tier: str, seed: int) -> int:
    rep = core.Report(PROP, tier, seed)
    rep.assumptions.extend(ASSUME)
    cfgdir = core.OUT / PROP
    cfgdir.mkdir(parents=True, exist_ok=True)
    scns = generate(tier, seed, rep, cfgdir)
    items = [{"scn": s["scn"], "backend": b} for s in scns for b in BACKENDS]
    results = rp.pmap("harness.c14_run", "run_item", items, chunk=12)
    verdicts = judge(items, results, f"{PROP}-{MC}")
    rep.traces += len(verdicts)
    nontrivial: set[str] = set()
    timeouts = {"soft": 0, "hard": 0}
    for v in verdicts:
        i = v["id"]
        it, r, s = items[i], results[i], scns[i // len(BACKENDS)]
        evs = r["events"]
        if sum(1 for e in evs if e["ev"] == "fstart") >= 1 and len(evs) >= 8:
            nontrivial.add(_key(it))
        timeouts["soft"] += r["flags"].get("soft_timeout", 0)
        timeouts["hard"] += r["flags"].get("hard_timeout", 0)
        if v["bad"]:
            ev = evs[v["at"] - 1] if 0 < v["at"] <= len(evs) else None
            rep.violation(f"clause {','.join(v['bad'])} violated at event {v['at']} ({it['backend']}): {ev}",
                          {"scenario": it["scn"], "backend": it["backend"], "src": s["src"],
                           "trace": evs, "failing_event_index": v["at"], "clauses": v["bad"],
                           "flags": r["flags"]},
                          signature=",".join(v["bad"]))
        else:
            d = _final_diff(s["fin"], r["final"])
            if d:
                rep.drift += 1
                if rep.drift <= 3:
                    print(f"DRIFT property={PROP} {d} backend={it['backend']} scenario={json.dumps(it['scn'])}")
    for i in range(0, len(items), max(1, len(items) // 5)):
        rep.sample({"scenario": items[i]["scn"], "backend": items[i]["backend"],
                    "source": scns[i // len(BACKENDS)]["src"], "trace": results[i]["events"][:14]})
    rep.evaluations = len(items)
    rep.distinct = len(nontrivial)
    rep.rule = ("scenario = (limiter total, per call: abandon_on_cancel / kind of thread function / cancelled "
                "before the call, order of gate openings and scope cancellations) generated by TLC from "
                "MC_C14 with the quiescent-step environment: every complete behaviour for 2 calls "
                "(sampled by seed in the quick tier), -simulate behaviours for 3 calls; each replayed on "
                "asyncio and on uvloop; non-trivial = at least one thread function ran and the trace has "
                ">= 8 events; distinct = distinct (scenario, backend)")
    rep.extra["quiescence_timeouts"] = timeouts
    rep.extra["backends"] = list(BACKENDS)
    rep.extra["binding"] = "quiescent-step replay (coarser than handle-exact)"
    return rep.finish()


def replay(path: str) -> int:
    from . import c14_run

    data = json.loads(Path(path).read_text())
    r0 = data["replay"]
    bad_any = False
    for attempt in range(3):
        r = c14_run.run_scenario(r0["scenario"], backend=r0.get("backend", "asyncio"))
        v = tlc.validate_traces("T_ThreadPool", [{"id": 0, "events": r["events"], "params": r["params"]}],
                                tag=f"{PROP}-replay")[0]
        print(json.dumps({"attempt": attempt, "verdict": v, "flags": r["flags"], "trace": r["events"]}))
        if v["bad"]:
            bad_any = True
            break
    if bad_any:
        print(f"VIOLATION property={PROP} replay={path}")
        return 1
    return 0
