"""C06 - deadlines fire exactly when due; timeout helpers report them faithfully."""

from __future__ import annotations

from .family import ModelCfg, run_family
from .scopes import consts, family

OPS = '{"open", "openf", "openm", "close", "sleep", "yield", "dline", "probe", "cancel"}'
FAMILY = family("C06", [
    ModelCfg("c06-n1o4e0", consts(1, 4, 0, '{"open", "openf", "openm", "close", "sleep", "dline", "probe"}',
                                  deadlines="{0, 1, 2, 99}", delays="{1, 2}", env="{}", via_setter="{0, 1}"),
             emit=True, check=False, max_scenarios=6000),
    ModelCfg("c06-n1o5e1", consts(1, 5, 1, OPS, deadlines="{0, 1, 2, 3, 99}", delays="{1, 2}"),
             tiers=("quick",), check=False, simulate=2000),
    ModelCfg("c06-n2o4e1", consts(2, 4, 1, OPS, deadlines="{0, 1, 2, 99}", delays="{1, 2}"),
             tiers=("thorough",), check=False, simulate=10000),
    ModelCfg("c06-n1o6e1", consts(1, 6, 1, OPS, depth=4, deadlines="{0, 1, 2, 3, 99}", delays="{1, 2, 3}"),
             tiers=("thorough",), check=False, simulate=10000, sim_depth=600),
    ModelCfg("c06-n1o4e1x", consts(1, 4, 1, OPS, deadlines="{0, 1, 2, 99}", delays="{1, 2}"),
             tiers=("thorough",), simulate=3000),
])


def main(tier: str, seed: int) -> int:
    return run_family(FAMILY, tier, seed)
