"""C19, tee part: replay of TLC-chosen consumer schedules on the real anyio.itertools.tee.

A scenario is {"sched": [consumer ids...], "nc": n, "src": [values], "d": source delay, "sync": bool}.
Every consumer is an asyncio task running ``async for v in its_tee_iterator``.  The loop below runs ONE
ready handle at a time and lets the schedule decide which consumer's handle that is (spec/AioTee.tla:
one model step = one task step of one consumer).  A schedule entry naming a consumer that is not
runnable is skipped and counted as drift; when the schedule is exhausted the remaining handles run in
FIFO order.  What the source and the consumers observe is recorded as a P_Tee trace; the verdict
comes from TLC validating that trace (T_Tee), never from the schedule being followed.
"""

from __future__ import annotations

import asyncio
from typing import Any

from . import vloop

MAX_STEPS = 20000


class SchedLoop(asyncio.SelectorEventLoop):
    """asyncio loop that runs one ready handle per iteration, chosen by a consumer schedule."""

    def __init__(self, sched: list[int]) -> None:
        super().__init__()
        self.sched = list(sched)
        self.cid: dict[Any, int] = {}        # consumer task -> consumer id
        self.followed = 0
        self.drift = 0
        self.steps = 0
        self.deadlocked = False
        self.budget = False
        self.on_deadlock = None
        self.order: list[int] = []           # consumer steps actually taken

    def _run_once(self) -> None:
        self._process_events(self._selector.select(0))
        # timers are not expected (sleep(0) and futures only); run any that exist immediately
        while self._scheduled:
            import heapq

            h = heapq.heappop(self._scheduled)
            h._scheduled = False
            if not h._cancelled:
                self._ready.append(h)
        ready = [h for h in self._ready if not h._cancelled]
        if not ready:
            self._ready.clear()
            if self._stopping:
                return
            if self.deadlocked or self.on_deadlock is None:
                self.stop()
                return
            self.deadlocked = True
            self.on_deadlock()
            return
        pick = None
        by_cons: dict[int, Any] = {}
        for h in ready:
            kind, subject = vloop.classify(h)
            c = self.cid.get(subject) if kind in ("step", "wake") else None
            if c is None:
                pick = h            # the harness' own handles run at once, in FIFO order
                break
            by_cons.setdefault(c, h)
        if pick is None:
            while self.sched and self.sched[0] not in by_cons:
                self.sched.pop(0)
                self.drift += 1
            if self.sched:
                c = self.sched.pop(0)
                self.followed += 1
            else:
                c = next(iter(by_cons))  # FIFO
            pick = by_cons[c]
            self.order.append(c)
        self._ready.remove(pick)
        self.steps += 1
        if self.steps > MAX_STEPS:
            self.budget = True
            self.stop()
            return
        pick._run()
        pick = None


def run_scenario(scn: dict) -> dict:
    from .replay import ensure_repo_on_path

    ensure_repo_on_path()
    from anyio.itertools import tee

    nc, src, d, sync = scn["nc"], list(scn["src"]), scn.get("d", 1), scn.get("sync", False)
    events: list[dict] = []
    rec = events.append

    class ASrcIt:
        def __init__(self) -> None:
            self.k = 0

        async def __anext__(self):
            rec({"ev": "pull"})
            for _ in range(d):
                await asyncio.sleep(0)
            self.k += 1
            if self.k <= len(src):
                rec({"ev": "pulled", "k": self.k, "v": src[self.k - 1]})
                return src[self.k - 1]
            rec({"ev": "pulled", "k": self.k, "v": 0})
            raise StopAsyncIteration

    class ASrc:          # AsyncIterable only, so that tee has to call __aiter__
        def __aiter__(self):
            rec({"ev": "iter"})
            return ASrcIt()

    class SSrcIt:
        def __init__(self) -> None:
            self.k = 0

        def __iter__(self):
            return self

        def __next__(self):
            rec({"ev": "pull"})
            self.k += 1
            if self.k <= len(src):
                rec({"ev": "pulled", "k": self.k, "v": src[self.k - 1]})
                return src[self.k - 1]
            rec({"ev": "pulled", "k": self.k, "v": 0})
            raise StopIteration

    class SSrc:
        def __iter__(self):
            rec({"ev": "iter"})
            return SSrcIt()

    async def consumer(c: int, it: Any) -> None:
        try:
            async for v in it:
                rec({"ev": "ret", "c": c, "v": v})
            rec({"ev": "stop", "c": c})
        except BaseException as exc:  # noqa: BLE001 - observed, then the task ends
            rec({"ev": "exc", "c": c, "cls": type(exc).__name__})

    loop = SchedLoop(scn["sched"])
    tasks: list[asyncio.Task] = []

    def on_deadlock() -> None:
        rec({"ev": "deadlock"})
        for t in tasks:
            t.cancel()

    loop.on_deadlock = on_deadlock

    async def main() -> None:
        its = tee(SSrc() if sync else ASrc(), nc)
        for i, it in enumerate(its, start=1):
            t = loop.create_task(consumer(i, it))
            loop.cid[t] = i
            tasks.append(t)
        await asyncio.wait(tasks)

    asyncio.set_event_loop(None)
    error = None
    try:
        loop.run_until_complete(main())
    except BaseException as exc:  # noqa: BLE001
        error = repr(exc)
    finally:
        for t in asyncio.all_tasks(loop):
            t._log_destroy_pending = False  # type: ignore[attr-defined]
        loop.on_deadlock = None
        try:
            loop.run_until_complete(loop.shutdown_asyncgens())
        except BaseException:  # noqa: BLE001
            pass
        loop.close()
    events.append({"ev": "end"})
    pulls = sum(1 for e in events if e["ev"] == "pulled")
    return {"events": events, "params": {"src": src, "nc": nc},
            "flags": {"budget": loop.budget, "deadlock": loop.deadlocked, "error": error},
            "final": {"pulls": pulls, "drift": loop.drift, "followed": loop.followed,
                      "order": loop.order}}
