"""C03 - level-triggered cancellation: nothing stays blocked in a cancelled scope."""

from __future__ import annotations

import dataclasses

from . import tgroups
from .family import ModelCfg, run_family, run_parts
from .scopes import CLAUSES, consts, family

OPS = '{"open", "close", "yield", "wait", "sleep", "cancel", "shield"}'
OPSR = '{"open", "yield", "cancel", "close"}'
LIVE = dict(consts(2, 3, 1, '{"open", "yield", "wait", "cancel", "shield", "close"}', env='{"cancel"}'))
LIVE["RecordHist"] = "FALSE"
LIVEQ = dict(consts(2, 2, 1, '{"open", "yield", "wait", "cancel", "shield"}', env='{"cancel"}'))
LIVEQ["RecordHist"] = "FALSE"
FAMILY = family("C03", [
    # the temporal form of the property: Stuck(t) ~> ~Stuck(t) under weak fairness of loop and tasks
    ModelCfg("c03-live-n2o2", LIVEQ, tiers=("quick",), check=False,
             liveness={"spec": "FairSpec", "properties": ["NothingStaysStuck"]}),
    ModelCfg("c03-live-n2o3", LIVE, tiers=("thorough",), check=False,
             liveness={"spec": "FairSpec", "properties": ["NothingStaysStuck"]}),
    # a runnable task inside nested scopes that are cancelled in the same step by a sibling, and that
    # catches the cancellation and waits again (cleanup kind 2): must be interrupted again
    ModelCfg("c03-n2o4e0-rewait", consts(2, 4, 0, OPSR, cleanups="{0, 2}", shields="{0}", env="{}"),
             emit=True, check=False, max_scenarios=6000),
    ModelCfg("c03-n1o4e2", consts(1, 4, 2, OPS, cleanups="{0, 1}", pres="{0, 1}"), emit=True, check=False,
             max_scenarios=4000),
    ModelCfg("c03-n2o3e1", consts(2, 3, 1, OPS, cleanups="{0, 1}"), tiers=("quick",), check=False,
             simulate=2500),
    ModelCfg("c03-n2o3e2", consts(2, 3, 2, OPS, cleanups="{0, 1}", pres="{0, 1}"), tiers=("thorough",),
             check=False, simulate=10000),
    ModelCfg("c03-n2o3e1x", consts(2, 3, 1, '{"open", "close", "yield", "wait", "cancel", "shield"}',
                                   cleanups="{0, 1}"), tiers=("thorough",), simulate=4000),
    ModelCfg("c03-n3o3e2", consts(3, 3, 2, '{"open", "close", "yield", "wait", "cancel"}', depth=2),
             tiers=("thorough",), check=False, simulate=10000),
    ModelCfg("c03-n2o5e2", consts(2, 5, 2, OPS, depth=4, cleanups="{0, 1}", pres="{0, 1}"),
             tiers=("thorough",), check=False, simulate=10000, sim_depth=600),
])


# the same clauses where the cancelled scope spans several tasks (a task group): the group's scope is cancelled
# (by the host itself, or by a child that sits in a shielded clean-up) while a child's handle scope holds no
# reachable task; the host - a direct member - swallows the first cancellation and waits again (cleanup kind 2)
# and must be interrupted again: the re-delivery must be kept alive by ANY member, not by the last scope visited
TG_OPS = '{"tgopen", "spawn", "open", "cancel", "wait", "yield"}'
TGPART = dataclasses.replace(
    tgroups.family("C01", [
        ModelCfg("c03-tg-n2o4e0-rewait", tgroups.consts(2, 4, 0, '{"tgopen", "spawn", "open", "cancel", "wait"}',
                                                        shields="{0, 1}", cleanups="{0, 2}", env="{}"),
                 emit=True, check=False, max_scenarios=2500),
        ModelCfg("c03-tg-n2o5e0-self", tgroups.consts(2, 5, 0, TG_OPS, shields="{0, 1}", env="{}"),
                 tiers=("quick",), check=False, simulate=1500),
        ModelCfg("c03-tg-n3o4e1", tgroups.consts(3, 4, 1, TG_OPS, shields="{0, 1}", cleanups="{0, 2}"),
                 tiers=("thorough",), check=False, simulate=8000, sim_depth=700),
    ]),
    prop="C03", clauses=CLAUSES["C03"], directed="C03.json")


def main(tier: str, seed: int) -> int:
    return run_parts("C03", [FAMILY, TGPART], tier, seed)
