"""C04 - cancellation containment: shields hold and the right scope absorbs."""

from __future__ import annotations

from .family import ModelCfg, run_family
from .scopes import consts, family

OPS = '{"open", "close", "yield", "wait", "cancel", "shield", "raise"}'
OPSD = '{"open", "yield", "cancel", "close"}'
OPSG = '{"open", "close", "yield", "cancel", "raise", "raisegrp"}'
FAMILY = family("C04", [
    # deep trees on one task: cancelled > shielded > plain > cancelled (shield not adjacent)
    ModelCfg("c04-n1o6e1-deep", consts(1, 6, 1, OPSD, depth=4, env='{"cancel"}'), emit=True, check=False,
             max_scenarios=6000),
    ModelCfg("c04-n1o4e1-grp", consts(1, 4, 1, OPSG, pres="{0, 1}", env='{"cancel"}'), emit=True,
             check=False, max_scenarios=3000),
    ModelCfg("c04-n1o4e2", consts(1, 4, 2, OPS, cleanups="{0, 1}", pres="{0, 1}"), emit=True, check=False,
             max_scenarios=5000),
    ModelCfg("c04-n2o3e1", consts(2, 3, 1, OPS, cleanups="{0, 1}", pres="{0, 1}"), tiers=("quick",),
             check=False, simulate=2500),
    ModelCfg("c04-n2o3e1x", consts(2, 3, 1, OPS, cleanups="{0, 1}", pres="{0, 1}"), tiers=("thorough",),
             simulate=10000),
    ModelCfg("c04-n2o4e2", consts(2, 4, 2, OPS, depth=4, cleanups="{0, 1}", pres="{0, 1}"),
             tiers=("thorough",), check=False, simulate=10000),
    ModelCfg("c04-n3o3e2", consts(3, 3, 2, '{"open", "close", "yield", "wait", "cancel", "shield"}'),
             tiers=("thorough",), check=False, simulate=8000),
])


def main(tier: str, seed: int) -> int:
    return run_family(FAMILY, tier, seed)
