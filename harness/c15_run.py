"""C15 - executes one BlockingPortal scenario on the real library (quiescent-step replay).

A scenario is the sequence of environment steps of one behaviour of spec/AioPortal.tla:
  {"a": "issue", "t": thread, "c": call id, "k": kind} | {"a": "cancel", "c": id}
  | {"a": "release", "c": gate} | {"a": "exit", "c": 0/1 (leave with an exception)}
It is performed on a real portal started with ``anyio.from_thread.start_blocking_portal``; after
every step the harness waits until the system is quiescent (caller threads back, every future
either done or its callable parked on a gate, the loop idle; a caller thread may still be inside
start_task() only while its "stw" callable waits at a gate the environment has not opened), then
reports the futures that have become done and a "quiescent" event.  All events get their order
under one lock.  The recorded trace is judged by TLC (spec/T_Portal.tla = spec/P_Portal.tla + trace binding), not here.

This is a coarser binding than the handle-exact replay of the asyncio-only checks: real threads
cannot be stepped, so the interleavings INSIDE a step are whatever the machine does.
"""

from __future__ import annotations

import queue
import random
import threading
import time
from concurrent.futures import CancelledError as FutCancelled
from concurrent.futures import Future
from typing import Any

SOON = {"sync", "ret", "fail", "block", "stop0", "stop1", "stop01"}
START = {"st", "stw", "stfail"}
GATED = {"block", "st", "stw"}
NTHREADS = 4            # one more than the model's caller threads (NT <= 3): a "stw" call keeps its
                        # thread inside start_task(); Future.cancel() still needs a free thread
STEP_TIMEOUT = 8.0      # a step that should complete (call returns, cancel returns) - else "stuck"
SETTLE_TIMEOUT = 6.0    # a future that should become done / the portal exit that should complete
PING_HOPS = 8


class Boom(Exception):
    def __init__(self, tag: int) -> None:
        super().__init__(tag)
        self.tag = tag


class _LeaveWithError(Exception):
    pass


def val(c: int) -> int:
    return 100 + c


def sval(c: int) -> int:
    return 200 + c


def tag(c: int) -> int:
    return 300 + c


class Rec:
    def __init__(self) -> None:
        self.lock = threading.Lock()
        self.events: list[dict] = []

    def emit(self, **ev: Any) -> None:
        with self.lock:
            self.events.append(ev)

    def n(self) -> int:
        with self.lock:
            return len(self.events)


class Caller(threading.Thread):
    """A foreign thread that performs the commands handed to it, one at a time."""

    def __init__(self, idx: int) -> None:
        super().__init__(daemon=True, name=f"c15-caller-{idx}")
        self.idx = idx
        self.q: queue.Queue = queue.Queue()
        self.busy = threading.Event()
        self.stw: int | None = None     # the "stw" call this thread is performing start_task() for

    def run(self) -> None:
        while True:
            fn = self.q.get()
            if fn is None:
                return
            try:
                fn()
            finally:
                self.stw = None
                self.busy.clear()

    def do(self, fn: Any, stw: int | None = None) -> None:
        self.stw = stw
        self.busy.set()
        self.q.put(fn)

    def wait_idle(self, timeout: float, excused: Any = None) -> bool:
        """Wait until the thread is back, or ``excused(thread)`` says that it is legitimately blocked."""
        end = time.monotonic() + timeout
        while self.busy.is_set():
            if excused is not None and excused(self):
                return True
            if time.monotonic() > end:
                return False
            time.sleep(0.0003)
        return True


class Run:
    def __init__(self, steps: list[dict], backend_options: dict | None, seed: int) -> None:
        self.steps = steps
        self.backend_options = backend_options or {}
        self.rng = random.Random(seed)
        self.rec = Rec()
        self.futs: dict[int, Future] = {}
        self.observed: dict[int, tuple] = {}
        self.kinds: dict[int, str] = {}
        self.released: set[int] = set()
        self.exit_cmd = threading.Event()
        self.exit_exc = False
        self.exit_begun = False
        self.exited = threading.Event()
        self.portal: Any = None
        self.portal_q: queue.Queue = queue.Queue()
        self.loop: Any = None
        self.portal_thread: threading.Thread | None = None
        self.gates: dict[int, Any] = {}
        self.flags: dict[str, Any] = {}
        self.callers: list[Caller] = []
        self.cancelled_in_scenario = {s["c"] for s in steps if s["a"] == "cancel"}

    # ---------------------------------------------------------------- the owner of the portal
    def owner(self) -> None:
        from anyio.from_thread import start_blocking_portal

        try:
            with start_blocking_portal("asyncio", self.backend_options or None) as portal:
                self.portal_q.put(portal)
                self.exit_cmd.wait()
                if self.exit_exc:
                    raise _LeaveWithError
        except _LeaveWithError:
            pass
        except BaseException as exc:  # noqa: BLE001
            self.flags["owner_error"] = repr(exc)
            self.portal_q.put(None)
        finally:
            alive = 1 if (self.portal_thread is not None and self.portal_thread.is_alive()) else 0
            if self.exit_begun:
                self.rec.emit(ev="exited", c=1, alive=alive)
            self.exited.set()

    # ---------------------------------------------------------------- the callables
    def make(self, c: int, kind: str) -> Any:
        rec, gates, portal = self.rec, self.gates, self.portal

        def sync_fn() -> int:
            rec.emit(ev="exec", c=c)
            rec.emit(ev="bend", c=c, how="ret")
            return val(c)

        async def ret_fn() -> int:
            rec.emit(ev="exec", c=c)
            rec.emit(ev="bend", c=c, how="ret")
            return val(c)

        async def fail_fn(**kw: Any) -> int:
            rec.emit(ev="exec", c=c)
            rec.emit(ev="bend", c=c, how="raise")
            raise Boom(tag(c))

        async def block_fn(*, task_status: Any = None) -> int:
            from anyio import get_cancelled_exc_class

            rec.emit(ev="exec", c=c)
            if task_status is not None:
                task_status.started(sval(c))
            try:
                await gates[c].wait()
            except get_cancelled_exc_class():
                rec.emit(ev="bend", c=c, how="cancelled")
                raise
            except BaseException:
                rec.emit(ev="bend", c=c, how="raise")
                raise
            rec.emit(ev="bend", c=c, how="ret")
            return val(c)

        async def stw_fn(*, task_status: Any) -> int:
            from anyio import get_cancelled_exc_class

            rec.emit(ev="exec", c=c)
            try:
                await gates[c].wait()           # blocks BEFORE started(): the caller is inside start_task()
            except get_cancelled_exc_class():
                rec.emit(ev="bend", c=c, how="cancelled")
                raise
            except BaseException:
                rec.emit(ev="bend", c=c, how="raise")
                raise
            task_status.started(sval(c))
            rec.emit(ev="bend", c=c, how="ret")
            return val(c)

        async def stop_fn() -> None:
            rec.emit(ev="exec", c=c)
            if kind == "stop01":                # graceful stop, then forced stop (no checkpoint between)
                await portal.stop()
                await portal.stop(cancel_remaining=True)
            else:
                await portal.stop(kind == "stop1")
            rec.emit(ev="bend", c=c, how="ret")

        return {"sync": sync_fn, "ret": ret_fn, "fail": fail_fn, "stfail": fail_fn, "block": block_fn,
                "st": block_fn, "stw": stw_fn, "stop0": stop_fn, "stop1": stop_fn,
                "stop01": stop_fn}[kind]

    # ---------------------------------------------------------------- steps
    def issue(self, t: int, c: int, kind: str, via_call: bool) -> None:
        rec, portal = self.rec, self.portal
        fn = self.make(c, kind)
        rec.emit(ev="issue", c=c, t=t, kind=kind)
        try:
            if kind in START:
                try:
                    f, v = portal.start_task(fn)
                except Boom as exc:
                    rec.emit(ev="startfail", c=c, res="exc", v=exc.tag)
                    return
                except FutCancelled:
                    rec.emit(ev="startfail", c=c, res="cancelled", v=0)
                    return
                self.futs[c] = f
                rec.emit(ev="started", c=c, v=v if isinstance(v, int) else 999)
            elif via_call:
                # portal.call(): the future is never in the caller's hand; report it as returned + done
                try:
                    r = portal.call(fn)
                    out = ("val", 0 if r is None else r if isinstance(r, int) else 999)
                except Boom as exc:
                    out = ("exc", exc.tag)
                except FutCancelled:
                    out = ("cancelled", 0)
                with rec.lock:
                    rec.events.append({"ev": "returned", "c": c})
                    rec.events.append({"ev": "done", "c": c, "res": out[0], "v": out[1]})
                self.observed[c] = out
            else:
                f = portal.start_task_soon(fn)
                self.futs[c] = f
                rec.emit(ev="returned", c=c)
        except RuntimeError as exc:
            if "started()" in str(exc):
                rec.emit(ev="startfail", c=c, res="other", v=0)
            else:
                rec.emit(ev="refused", c=c)
        except BaseException as exc:  # noqa: BLE001
            self.flags.setdefault("issue_error", repr(exc))
            if kind in START:
                rec.emit(ev="startfail", c=c, res="other", v=0)
            else:
                with rec.lock:
                    rec.events.append({"ev": "returned", "c": c})
                    rec.events.append({"ev": "done", "c": c, "res": "other", "v": 0})

    def cancel(self, c: int) -> None:
        self.rec.emit(ev="cancelcall", c=c)
        ok = self.futs[c].cancel()
        self.rec.emit(ev="cancel", c=c, ok=1 if ok else 0)

    def release(self, g: int) -> None:
        self.rec.emit(ev="release", c=g, g=g)
        self.released.add(g)
        try:
            self.loop.call_soon_threadsafe(self.gates[g].set)
        except RuntimeError:
            pass  # loop closed

    # ---------------------------------------------------------------- quiescence
    def running_bodies(self) -> set[int]:
        with self.rec.lock:
            started = {e["c"] for e in self.rec.events if e["ev"] == "exec"}
            ended = {e["c"] for e in self.rec.events if e["ev"] == "bend"}
        return started - ended

    def ping(self, timeout: float) -> bool:
        """True when a chain of PING_HOPS call_soon hops went through the loop (or the loop is gone)."""
        if self.portal_thread is None or not self.portal_thread.is_alive():
            return True
        done = threading.Event()
        loop = self.loop

        def hop(n: int) -> None:
            if n == 0:
                done.set()
            else:
                loop.call_soon(hop, n - 1)

        try:
            loop.call_soon_threadsafe(hop, PING_HOPS)
        except RuntimeError:
            return True
        end = time.monotonic() + timeout
        while not done.is_set():
            if not self.portal_thread.is_alive():
                return True
            if time.monotonic() > end:
                return False
            time.sleep(0.0002)
        return True

    def excused(self, th: Caller) -> bool:
        """The busy thread is inside start_task() of a "stw" call whose body runs (it has not ended)
        and waits at a gate the environment has not opened: it stays there until the environment acts.
        In every other case a busy thread is expected to come back on its own."""
        c = th.stw
        return c is not None and c not in self.released and c in self.running_bodies()

    def settled(self) -> bool:
        """Nothing is expected to happen any more without the environment."""
        running = self.running_bodies()
        for th in self.callers:
            if th.busy.is_set() and not self.excused(th):
                return False            # a caller that should have been answered is still inside its call
        for c, f in list(self.futs.items()):
            if not f.done() and c not in running:
                return False            # accepted, not running (not yet / no longer), not answered
        if self.exit_begun and not self.exited.is_set():
            if not running:
                return False            # nothing holds the portal: the exit must complete
            # the owner thread must have got as far as its portal.call(portal.stop, ...): that call has
            # run (or was refused) once the portal no longer accepts calls / its stop event is set.
            # Read-only peek at private attributes; without them (renamed) this degrades to the
            # time-based settling of the ping.
            stop_event = getattr(self.portal, "_stop_event", None)
            if (getattr(self.portal, "_event_loop_thread_id", None) is not None
                    and stop_event is not None and not stop_event.is_set()):
                return False
        return True

    def quiesce(self, callers: list[Caller]) -> None:
        # generous time-outs until something has failed to settle once (the trace then already shows a
        # violation); short ones afterwards so that a broken library does not cost minutes
        failed = "stuck_thread" in self.flags or "unsettled" in self.flags
        t_step = time.monotonic() + (0.3 if failed else STEP_TIMEOUT)
        for th in callers:
            # a thread inside start_task() of a waiting "stw" callable is excused (settled() looks at it
            # again after every ping: it must come back once the body has ended or the gate is open)
            if not th.wait_idle(max(0.0, t_step - time.monotonic()), self.excused):
                self.flags["stuck_thread"] = th.idx
        failed = "stuck_thread" in self.flags or "unsettled" in self.flags
        t_settle = time.monotonic() + (0.3 if failed else SETTLE_TIMEOUT)

        def snap() -> tuple:
            return (tuple(f.done() for f in list(self.futs.values())),
                    tuple(th.busy.is_set() for th in callers))

        while True:
            n0 = self.rec.n()
            states0 = snap()
            ok = self.ping(1.0)
            stable = ok and n0 == self.rec.n() and states0 == snap()
            if stable and self.settled():
                break
            if time.monotonic() > t_settle:
                self.flags["unsettled"] = self.flags.get("unsettled", 0) + 1
                break
            time.sleep(0.0005)
        self.observe()
        self.rec.emit(ev="quiescent", c=1)

    @staticmethod
    def outcome(f: Future) -> tuple:
        if f.cancelled():
            return ("cancelled", 0)
        exc = f.exception()
        if exc is None:
            r = f.result()
            return ("val", 0 if r is None else r if isinstance(r, int) else 999)
        if isinstance(exc, Boom):
            return ("exc", exc.tag)
        return ("exc", 999)

    def observe(self) -> None:
        for c, f in sorted(self.futs.items()):
            if c not in self.observed and f.done():
                out = self.outcome(f)
                self.observed[c] = out
                self.rec.emit(ev="done", c=c, res=out[0], v=out[1])

    # ---------------------------------------------------------------- the whole scenario
    def run(self) -> dict:
        import asyncio

        import anyio

        owner = threading.Thread(target=self.owner, daemon=True, name="c15-owner")
        owner.start()
        try:
            self.portal = self.portal_q.get(timeout=120)
        except queue.Empty:
            import sys
            import traceback
            names = {t.ident: t.name for t in threading.enumerate()}
            dump = "".join(f"--- {names.get(i, i)}\n" + "".join(traceback.format_stack(fr)[-6:])
                           for i, fr in sys._current_frames().items())
            raise RuntimeError("portal did not start within 120 s\n" + dump) from None
        if self.portal is None:
            raise RuntimeError("portal did not start: " + str(self.flags))
        portal = self.portal
        self.loop = portal.call(asyncio.get_running_loop)
        self.portal_thread = portal.call(threading.current_thread)
        self.flags["loop"] = type(self.loop).__module__.split(".")[0]
        ids = sorted({s["c"] for s in self.steps if s["a"] == "issue"})
        self.gates = portal.call(lambda: {c: anyio.Event() for c in ids})
        callers = self.callers = [Caller(i + 1) for i in range(NTHREADS)]
        for th in callers:
            th.start()
        helper = callers[0]
        try:
            for s in self.steps:
                self.step(s, callers)
            # tail: a legal continuation of the environment that lets everything finish
            for c in ids:
                if self.kinds.get(c) in GATED and c not in self.released:
                    self.step({"a": "release", "c": c}, callers)
            if not self.exit_begun:
                self.step({"a": "exit", "c": 0}, callers)
            for c in sorted(self.observed):
                if c in self.futs:
                    out = self.outcome(self.futs[c])
                    self.rec.emit(ev="final", c=c, res=out[0], v=out[1])
            self.rec.emit(ev="quiescent", c=1)
        finally:
            self.cleanup(callers)
        del helper
        return {"events": self.rec.events, "flags": self.flags, "params": {"none": 0}}

    def step(self, s: dict, callers: list[Caller]) -> None:
        a = s["a"]
        if a == "issue":
            c, kind = s["c"], s["k"]
            self.kinds[c] = kind
            t = self.rng.randrange(NTHREADS)
            free = [th for th in callers if not th.busy.is_set()]
            if not free:
                self.flags["no_free_thread"] = True
                return
            th = callers[t] if callers[t] in free else free[0]
            via_call = (kind in SOON and kind != "block" and c not in self.cancelled_in_scenario
                        and self.rng.random() < 0.4)
            th.do(lambda: self.issue(th.idx, c, kind, via_call), stw=c if kind == "stw" else None)
        elif a == "cancel":
            c = s["c"]
            if c not in self.futs:
                return
            free = [th for th in callers if not th.busy.is_set()]
            if not free:
                return
            free[self.rng.randrange(len(free))].do(lambda: self.cancel(c))
        elif a == "release":
            if s["c"] not in self.gates or s["c"] in self.released:
                return
            self.release(s["c"])
        elif a == "exit":
            if self.exit_begun:
                return
            self.exit_begun = True
            self.exit_exc = bool(s["c"])
            self.rec.emit(ev="exit", c=1, exc=1 if s["c"] else 0)
            self.exit_cmd.set()
        self.quiesce(callers)

    def cleanup(self, callers: list[Caller]) -> None:
        """No portal thread may survive a scenario, whatever the library did."""
        for g, ev in self.gates.items():
            try:
                self.loop.call_soon_threadsafe(ev.set)
            except RuntimeError:
                break
        self.exit_cmd.set()
        if not self.exited.wait(2.0) or (self.portal_thread and self.portal_thread.is_alive()):
            self.flags["leaked_portal_thread"] = True
            try:
                def kill() -> None:
                    import asyncio
                    for t in asyncio.all_tasks(self.loop):
                        t.cancel()
                self.loop.call_soon_threadsafe(kill)
            except RuntimeError:
                pass
            self.exited.wait(1.0)
        for th in callers:
            th.q.put(None)


def preload() -> None:
    """Import the library and both loops in the calling thread (not lazily in a portal thread)."""
    from .replay import ensure_repo_on_path

    ensure_repo_on_path()
    import anyio  # noqa: F401
    import anyio._backends._asyncio  # noqa: F401
    import anyio.from_thread  # noqa: F401
    import uvloop  # noqa: F401


def run_scenario(item: dict, **kw: Any) -> dict:
    """pmap entry point: item = {"steps": [...], "uvloop": bool, "seed": int}."""
    from .replay import ensure_repo_on_path

    ensure_repo_on_path()
    preload()
    opts = {"use_uvloop": True} if item.get("uvloop") else {}
    r = Run(item["steps"], opts, item.get("seed", 0)).run()
    r["item"] = item
    return r
