"""C20: replay of MC_C20 scenarios on the real anyio.functools.lru_cache, recording P_Cache traces.

A scenario is the environment's choices of one TLC behaviour: ``{"env": [{"c": act, "t": slot,
"k": key | execution, "at": visible handles run so far}, ...]}`` with act in call / ok / fail /
cancel / native / tick.  Callers are asyncio tasks, each inside its own anyio.CancelScope; the
wrapped function logs its executions, waits on a per-execution anyio.Event and returns a fresh
object whose lifetime is followed with a weak reference.
"""

from __future__ import annotations

import asyncio
import gc
import weakref
from typing import Any

from . import vloop
from .replay import Recorder, ScenarioController, ensure_repo_on_path

NOMAX = 99
NOTTL = 99


class Value:
    __slots__ = ("x", "__weakref__")

    def __init__(self, x: int) -> None:
        self.x = x


class ExecError(Exception):
    def __init__(self, x: int) -> None:
        super().__init__(x)
        self.x = x


def _arg(k: int, mode: str, n: int) -> Any:
    """The argument that stands for model key k."""
    if mode == "typed":      # typed=True: 1 and 1.0 are different keys
        return {1: 1, 2: 1.0, 3: 2}[k]
    if mode == "mixed":      # typed=False: k and float(k) are equal arguments
        return float(k) if n % 2 else k
    return k


def _key_of(arg: Any, mode: str) -> int:
    if mode == "typed":
        return 2 if isinstance(arg, float) else (1 if arg == 1 else 3)
    return int(arg)


_FROZEN = False


def _freeze_once() -> None:
    """Move everything that exists so far out of the collector's reach: the full collections made
    at every retention probe then only look at what the scenario created (0.5 ms instead of 15).
    No collection first: traversing the heap inherited from the parent would copy all its pages."""
    global _FROZEN
    if not _FROZEN:
        gc.freeze()
        _FROZEN = True


def run_item(item: dict) -> dict:
    """pmap entry point: one scenario together with its wrapper configuration."""
    return run_scenario(item["scn"], **item["kw"])


def run_scenario(scn: dict, *, maxsize: int = NOMAX, ttl: int = NOTTL, always_cp: bool = False,
                 argmode: str = "plain", eager: bool = False) -> dict:
    ensure_repo_on_path()
    import anyio
    from anyio.functools import lru_cache

    _freeze_once()
    rec = Recorder()
    st: dict[str, Any] = {"nx": 0, "gates": {}, "outcome": {}, "refs": {}, "scopes": {}, "tasks": {},
                          "slot_of": {}, "ncalls": 0, "internal": [], "skipped": 0, "final": None}

    @lru_cache(maxsize=None if maxsize == NOMAX else maxsize, typed=(argmode == "typed"),
               always_checkpoint=always_cp, ttl=None if ttl == NOTTL else ttl)
    async def func(arg: Any) -> Value:
        st["nx"] += 1
        x = st["nx"]
        gate = st["gates"][x] = anyio.Event()
        rec.emit(ev="xstart", c=st["slot_of"].get(id(asyncio.current_task()), 0),
                 k=_key_of(arg, argmode), x=x)
        try:
            await gate.wait()
        except asyncio.CancelledError:
            rec.emit(ev="xend", x=x, res="cancelled")
            raise
        if st["outcome"].get(x) == "fail":
            rec.emit(ev="xend", x=x, res="fail")
            raise ExecError(x)
        v = Value(x)
        st["refs"][x] = weakref.ref(v)
        rec.emit(ev="xend", x=x, res="ok")
        return v

    async def caller(t: int, k: int, arg: Any) -> None:
        with st["scopes"][t]:
            rec.emit(ev="call", c=t, k=k)
            try:
                r = await func(arg)
            except ExecError as exc:
                rec.emit(ev="ret", c=t, res="err", v=exc.x)
            except asyncio.CancelledError:
                rec.emit(ev="ret", c=t, res="cancelled", v=0)
                raise
            except BaseException as exc:  # noqa: BLE001 - an error the wrapped function never raised
                st["internal"].append(repr(exc))
                rec.emit(ev="ret", c=t, res="internal", v=0)
            else:
                vid = r.x if isinstance(r, Value) else 0
                del r
                rec.emit(ev="ret", c=t, res="ok", v=vid)

    def busy(t: int) -> bool:
        task = st["tasks"].get(t)
        return task is not None and not task.done()

    def fire(act: dict) -> None:
        c, t, k = act["c"], act["t"], act["k"]
        loop = asyncio.get_running_loop()
        if c == "call":
            if t <= 0 or busy(t):   # random history / the run has drifted from the model: a free slot, or skip
                free = [s for s in range(1, 5) if not busy(s)]
                if not free:
                    st["skipped"] += 1
                    return
                t = free[0]
            st["ncalls"] += 1
            st["scopes"][t] = anyio.CancelScope()
            task = loop.create_task(caller(t, k, _arg(k, argmode, st["ncalls"])), name=f"c{t}")
            st["tasks"][t] = task
            st["slot_of"][id(task)] = t
        elif c in ("ok", "fail"):
            if k <= 0:   # symbolic: the n-th open gate
                opened = sorted(x for x, g in st["gates"].items() if not g.is_set())
                k = opened[(-k) % len(opened)] if opened else 0
            gate = st["gates"].get(k)
            if gate is None or gate.is_set():
                st["skipped"] += 1
                return
            st["outcome"][k] = c
            gate.set()
        elif c in ("cancel", "native"):
            if t <= 0:   # symbolic: the n-th caller in progress
                inprog = [s for s in range(1, 5) if busy(s)]
                t = inprog[(-t) % len(inprog)] if inprog else 0
            if not busy(t):
                st["skipped"] += 1
                return
            rec.emit(ev="creq", c=t)
            if c == "cancel":
                st["scopes"][t].cancel()
            else:
                st["tasks"][t].cancel()
        elif c == "tick":
            loop.advance(loop.time() + 1)  # type: ignore[attr-defined]
            rec.emit(ev="tick", now=int(loop.time()))
        else:  # pragma: no cover
            raise ValueError(act)

    def alive() -> list[int]:
        gc.collect()
        return sorted(x for x, r in st["refs"].items() if r() is not None)

    def proj() -> dict:
        info = func.cache_info()
        order = None
        try:  # private detail, used for the drift comparison with the model only
            from anyio.functools import lru_cache_items
            order = [_key_of(key[0], argmode) for key in lru_cache_items.get()[func]]
        except Exception:  # noqa: BLE001
            if info.misses == 0 or maxsize == 0:
                order = []
        loop = asyncio.get_running_loop()
        return {"hits": info.hits, "misses": info.misses, "currsize": info.currsize, "ord": order,
                "nh": loop.nhandles, "nx": st["nx"]}  # type: ignore[attr-defined]

    def quiescent() -> None:
        st["final"] = proj()
        rec.emit(ev="quiescent", alive=alive())

    ctl = ScenarioController(scn["env"], fire, quiescent)
    ctl.recorder = rec

    async def main() -> None:
        await asyncio.get_running_loop().create_future()   # the environment does everything

    loop, _res, err = vloop.run(main, ctl, eager=eager, max_handles=20000)
    rec.closed = True
    events = rec.events + [{"ev": "fin"}]
    flags = {"deadlock": isinstance(err, vloop.Deadlock), "budget": loop.budget_exceeded,
             "skipped": st["skipped"], "internal": st["internal"][:3],
             "error": None if err is None or isinstance(err, (vloop.Deadlock, vloop.BudgetExceeded))
             else repr(err)}
    st["gates"].clear()
    return {"events": events, "final": st["final"], "flags": flags,
            "params": {"maxsize": maxsize, "ttl": ttl}}
