"""C12 / C13: replay of MC_C12 scenarios on real anyio memory object streams, P_Chan traces."""

from __future__ import annotations

import asyncio
import math

from .fam_common import Bench

INF = 99


def run_scenario(scn: dict, *, maxbuf: int = 0, ns: int = 1, nr: int = 1, wrap: bool = False, retry: bool = False, eager: bool = False, uv: bool = False) -> dict:
    from .replay import ensure_repo_on_path
    ensure_repo_on_path()
    import anyio

    st: dict = {"S": {}, "R": {}, "esent": 0}

    def obs() -> dict:
        s = st["S"][1].statistics()
        return {"buf": s.current_buffer_used, "os": s.open_send_streams, "or": s.open_receive_streams,
                "ws": s.tasks_waiting_send, "wr": s.tasks_waiting_receive}

    b = Bench(scn, obs)

    def res_of(exc: BaseException) -> str:
        if isinstance(exc, anyio.WouldBlock):
            return "wouldblock"
        if isinstance(exc, anyio.ClosedResourceError):
            return "closed"
        if isinstance(exc, anyio.BrokenResourceError):
            return "broken"
        if isinstance(exc, anyio.EndOfStream):
            return "eos"
        return "error"

    def send_nowait(t: int, h: int, item: int) -> None:
        try:
            st["S"][h].send_nowait(item)
        except Exception as exc:  # noqa: BLE001
            b.rec.emit(ev="nowait", t=t, op="send", h=h, res=res_of(exc), item=item, **obs())
        else:
            b.rec.emit(ev="nowait", t=t, op="send", h=h, res="ok", item=item, **obs())

    def recv_nowait(t: int, h: int) -> None:
        try:
            item = st["R"][h].receive_nowait()
        except Exception as exc:  # noqa: BLE001
            b.rec.emit(ev="nowait", t=t, op="recv", h=h, res=res_of(exc), item=0, **obs())
        else:
            b.rec.emit(ev="nowait", t=t, op="recv", h=h, res="ok", item=item, **obs())

    def extra_fire(act: dict) -> bool:
        if act["c"] == "esend":
            st["esent"] += 1
            send_nowait(0, 1, st["esent"])
            return True
        if act["c"] == "erecv":
            recv_nowait(0, 1)
            return True
        if act["c"] == "eclose":
            st["S"][1].close()
            b.rec.emit(ev="close", side="S", h=1, nh=0, res="ok", **obs())
            return True
        if act["c"] in ("cancel", "native"):
            t = act["t"]
            if t in b.tasks and b.tasks[t].done():
                return True
            if act["c"] == "native" or not wrap:       # wrapped: the scope cancellation is shielded off
                b.rec.emit(ev="creq", t=t, kind="scope" if act["c"] == "cancel" else "native")
            if act["c"] == "cancel":
                b.scopes[t].cancel()
            else:
                b.tasks[t].cancel()
            return True
        return False

    b.extra_fire = extra_fire

    def setup() -> None:
        s, r = anyio.create_memory_object_stream(math.inf if maxbuf >= INF else maxbuf)
        st["S"][1], st["R"][1] = s, r
        for h in range(2, ns + 1):
            st["S"][h] = s.clone()
        for h in range(2, nr + 1):
            st["R"][h] = r.clone()

    async def client(t: int, script: list) -> None:
        if wrap:
            with anyio.CancelScope(shield=True), anyio.CancelScope():
                await body(t, script)
        else:
            await body(t, script)

    sent: dict[int, int] = {}           # items sent so far per task (survives a retry)

    async def body(t: int, script: list) -> None:
        k = sent.get(t, 0)
        for op in script:
            if op == "end":
                break
            if op == "yield":
                await anyio.lowlevel.checkpoint()
                continue
            base, h = op[:-1], int(op[-1])
            if base == "send":
                k += 1
                sent[t] = k
                item = 10 * t + k
                b.rec.emit(ev="start", t=t, op="send", h=h, item=item)
                try:
                    await st["S"][h].send(item)
                except asyncio.CancelledError:
                    b.rec.emit(ev="end", t=t, op="send", h=h, res="cancelled", item=0, **obs())
                    raise
                except Exception as exc:  # noqa: BLE001
                    b.rec.emit(ev="end", t=t, op="send", h=h, res=res_of(exc), item=0, **obs())
                else:
                    b.rec.emit(ev="end", t=t, op="send", h=h, res="ok", item=0, **obs())
            elif base == "recv":
                b.rec.emit(ev="start", t=t, op="recv", h=h, item=0)
                try:
                    item = await st["R"][h].receive()
                except asyncio.CancelledError:
                    b.rec.emit(ev="end", t=t, op="recv", h=h, res="cancelled", item=0, **obs())
                    raise
                except Exception as exc:  # noqa: BLE001
                    b.rec.emit(ev="end", t=t, op="recv", h=h, res=res_of(exc), item=0, **obs())
                else:
                    b.rec.emit(ev="end", t=t, op="recv", h=h, res="ok", item=item, **obs())
            elif base == "snw":
                k += 1
                sent[t] = k
                send_nowait(t, h, 10 * t + k)
            elif base == "rnw":
                recv_nowait(t, h)
            elif base in ("clS", "clR"):
                side = base[-1]
                st[side][h].close()
                b.rec.emit(ev="close", side=side, h=h, nh=0, res="ok", **obs())
            elif base in ("cloneS", "cloneR"):
                side = base[-1]
                nh = min(x for x in range(1, 5) if x not in st[side]) if len(st[side]) < 4 else 0
                if not nh:
                    continue
                try:
                    new = st[side][h].clone()
                except anyio.ClosedResourceError:
                    b.rec.emit(ev="clone", side=side, h=h, nh=nh, res="closed", **obs())
                else:
                    st[side][nh] = new
                    b.rec.emit(ev="clone", side=side, h=h, nh=nh, res="ok", **obs())
            else:  # pragma: no cover
                raise ValueError(op)

    import warnings
    with warnings.catch_warnings():
        warnings.simplefilter("ignore", ResourceWarning)
        out = b.run(setup, client, eager=eager, uv=uv, retry=retry, params={"maxbuf": maxbuf, "ns": ns, "nr": nr, "wrap": wrap})
        st["S"].clear()
        st["R"].clear()
    return out
