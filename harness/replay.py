"""Shared replay machinery: scenario controller, recorder, worker pool.

A *scenario* is what TLC's history variable describes: per task the sequence of operations it
chooses, and environment actions with the position (number of visible handles run so far) at which
they are injected.  Scenarios are executed through anyio's public API on the controlled loop
(harness.vloop); what the library did is recorded as a property-level trace.
"""

from __future__ import annotations

import asyncio
import multiprocessing as mp
import os
import sys
import traceback
from typing import Any, Callable

from . import vloop


def repo_src() -> str:
    return os.path.join(os.environ.get("VERIF_REPO", "/repo"), "src")


def ensure_repo_on_path() -> None:
    src = repo_src()
    if sys.path[0] != src:
        sys.path.insert(0, src)
    mod = sys.modules.get("anyio")
    if mod is not None and not os.path.abspath(mod.__file__ or "").startswith(os.path.abspath(src)):
        raise RuntimeError(f"anyio imported from {mod.__file__}, expected under {src}")


class Recorder:
    def __init__(self) -> None:
        self.events: list[dict] = []
        self.closed = False

    def emit(self, **ev: Any) -> None:
        if not self.closed:
            self.events.append(ev)


class ScenarioController(vloop.Controller):
    """Fires environment actions at their recorded position; hides the harness' own handles."""

    def __init__(self, env: list[dict], fire: Callable[[dict], None],
                 on_quiescent: Callable[[], None] | None = None) -> None:
        self.env = list(env)
        self.fire = fire
        self.on_quiescent = on_quiescent
        self.hidden_tasks: set[asyncio.Task] = set()
        self.handle_log: list[tuple[int, str]] = []
        self.quiescent_at = -1
        self.recorder: Recorder | None = None

    def on_stop(self) -> None:
        if self.recorder is not None:
            self.recorder.closed = True

    def visible(self, kind: str, subject: Any) -> bool:
        if kind == "other":
            return False
        if kind in ("step", "wake") and subject in self.hidden_tasks:
            return False
        return True

    def _fire_due(self, idx: int) -> bool:
        fired = False
        while self.env and self.env[0]["at"] <= idx:
            act = self.env.pop(0)
            self.fire(act)
            fired = True
        return fired

    def before_handle(self, loop: vloop.VLoop, idx: int, kind: str, subject: Any) -> None:
        self._fire_due(idx)

    def on_idle(self, loop: vloop.VLoop) -> bool:
        if self.on_quiescent is not None and self.quiescent_at != loop.nhandles:
            self.quiescent_at = loop.nhandles
            self.on_quiescent()
        # an environment action scheduled for "now"; if the run has drifted from the model and the
        # position will never come, the next action is fired anyway (still a legal environment)
        if self.env:
            return self._fire_due(max(loop.nhandles, self.env[0]["at"]))
        return False


def split_hist(hist: list[dict], nt: int) -> dict:
    """TLC history -> scenario {tasks: {t: [ops]}, env: [...]}."""
    tasks: dict[int, list] = {t: [] for t in range(1, nt + 1)}
    env = []
    for h in hist:
        if h["w"] == "t":
            tasks[h["t"]].append(h["c"])
        else:
            env.append({k: v for k, v in h.items() if k != "w"})
    env.sort(key=lambda a: a["at"])  # stable: same position keeps history order
    return {"tasks": {str(k): v for k, v in tasks.items()}, "env": env}


def leaves(hists: list[list[dict]]) -> list[list[dict]]:
    """Keep the maximal histories (those that are not a proper prefix of another)."""
    import json

    keys = [tuple(json.dumps(h, sort_keys=True) for h in hist) for hist in hists]
    prefixes: set[tuple] = set()
    seen: set[tuple] = set()
    for k in keys:
        for i in range(len(k)):
            prefixes.add(k[:i])
    out = []
    for hist, k in zip(hists, keys):
        if k in prefixes or k in seen:
            continue
        seen.add(k)
        out.append(hist)
    return out


# ---------------------------------------------------------------------------------------------------
# process pool


def _worker(args: tuple) -> list:
    modname, fn, chunk, kw = args
    ensure_repo_on_path()
    import importlib

    mod = importlib.import_module(modname)
    f = getattr(mod, fn)
    out = []
    for item in chunk:
        try:
            out.append(f(item, **kw))
        except BaseException as exc:  # noqa: BLE001 - machinery failure is reported, not hidden
            out.append({"machinery_error": "".join(traceback.format_exception(exc))[-3000:],
                        "item": item})
    return out


def pmap(modname: str, fn: str, items: list, *, procs: int = 16, chunk: int = 50, **kw: Any) -> list:
    """Run ``modname.fn(item, **kw)`` over items in a process pool (order preserved)."""
    if not items:
        return []
    chunks = [items[i:i + chunk] for i in range(0, len(items), chunk)]
    args = [(modname, fn, c, kw) for c in chunks]
    if procs <= 1 or len(chunks) == 1:
        res = [_worker(a) for a in args]
    else:
        ctx = mp.get_context("fork")
        with ctx.Pool(min(procs, len(chunks))) as pool:
            res = pool.map(_worker, args)
    return [x for part in res for x in part]
