"""Boilerplate shared by the replay families of the synchronisation primitives."""

from __future__ import annotations

import asyncio
from typing import Any, Awaitable, Callable

from . import uvrun, vloop
from .replay import Recorder, ScenarioController, ensure_repo_on_path


class Bench:
    """One scenario run: tasks 1..nt, each inside its own CancelScope, environment cancels."""

    def __init__(self, scn: dict, obs: Callable[[], dict]) -> None:
        ensure_repo_on_path()
        self.scn = scn
        self.nt = len(scn["tasks"])
        self.rec = Recorder()
        self.obs = obs
        self.scopes: dict[int, Any] = {}
        self.tasks: dict[int, asyncio.Task] = {}
        self.ids: dict[int, int] = {}
        self.loop: vloop.VLoop | None = None
        self.final: dict | None = None
        self.extra_fire: Callable[[dict], bool] | None = None
        self.ctl = ScenarioController(scn["env"], self._fire, self._quiescent)
        self.ctl.recorder = self.rec

    def _fire(self, act: dict) -> None:
        if self.extra_fire is not None and self.extra_fire(act):
            return
        t = act["t"]
        if t in self.tasks and self.tasks[t].done():
            return          # (drifted run) nothing to cancel any more
        self.rec.emit(ev="creq", t=t, kind="scope" if act["c"] == "cancel" else "native")
        if act["c"] == "cancel":
            self.scopes[t].cancel()
        elif act["c"] == "native":
            self.tasks[t].cancel()
        else:  # pragma: no cover
            raise ValueError(act)

    def proj(self) -> dict:
        outs, ncs = [], []
        for t in range(1, self.nt + 1):
            task = self.tasks[t]
            outs.append("blocked" if not task.done() else "cancelled" if task.cancelled()
                        else "error" if task.exception() is not None else "ok")
            ncs.append(task.cancelling())
        assert self.loop is not None
        return {"nh": self.loop.nhandles, "out": outs, "nc": ncs, **self.obs()}

    def _quiescent(self) -> None:
        self.final = self.proj()
        self.rec.emit(ev="quiescent", **self.obs())

    def run(self, setup: Callable[[], None], client: Callable[[int, list], Awaitable[None]],
            *, eager: bool = False, params: dict | None = None,
            uv: bool = False, retry: bool = False) -> dict:
        import anyio

        async def wrapped(t: int, script: list) -> None:
            self.ids[id(asyncio.current_task())] = t
            ops = iter(script)          # shared by the retries: each operation is performed once
            while True:
                scope = self.scopes[t]
                with scope:
                    await client(t, ops)
                if retry and scope.cancelled_caught:
                    # the move_on_after pattern: the scope absorbed its cancellation, the task carries on
                    self.scopes[t] = anyio.CancelScope()
                    self.rec.emit(ev="cdone", t=t)
                    continue
                break

        async def main() -> None:
            self.loop = uvrun.view(asyncio.get_running_loop())  # type: ignore[assignment]
            setup()
            self.scopes = {t: anyio.CancelScope() for t in range(1, self.nt + 1)}
            for t in range(1, self.nt + 1):
                task = self.loop.create_task(wrapped(t, self.scn["tasks"][str(t)]), name=f"t{t}")
                self.tasks[t] = task
                self.ids[id(task)] = t
            await asyncio.wait(list(self.tasks.values()))
            self._quiescent()

        loop, _res, err = (uvrun.run if uv else vloop.run)(main, self.ctl, eager=eager, max_handles=20000)
        self.rec.closed = True
        flags = {"deadlock": isinstance(err, vloop.Deadlock), "budget": loop.budget_exceeded,
                 "error": None if err is None or isinstance(err, (vloop.Deadlock, vloop.BudgetExceeded))
                 else repr(err)}
        return {"events": self.rec.events, "final": self.final, "flags": flags, "params": params}
