"""C08 - checkpoint discipline: blocking primitives always check cancellation and yield.

 1. spec/CheckpointSpec.tla writes every operation of the statement's table as its sequence of
    segments (checkpoint_if_cancelled / checkpoint / cancel_shielded_checkpoint / effect ...) for the
    states in which it completes without waiting, and crosses the table with the scope
    configurations (calling task, stack of entered scopes: cancelled? shielded?, how they were
    cancelled).  TLC walks every CELL through its segments, checks the clauses of the property as
    invariants of the table, and prints the cell with the outcome the table implies.  (The matrix is
    split over a few TLC processes; deliberately wrong tables must be rejected by the invariants.)
 2. harness/c08_run.py executes EVERY cell on the real library through the public API, each as its
    own program: on the controlled loop (stock and with the eager task factory), with anyio.run on
    plain asyncio, and on uvloop (there the programs of a batch share one loop), observing exactly
    what the property names: did a callback queued right before the call run before it returned, which
    exception, the public projection of the object before / after.
 3. The recorded cells are judged by TLC: spec/T_Checkpoint.tla (generated) runs the observer
    spec/P_Checkpoint.tla (Checkpointed, PreCancelledRaises, PreCancelledNoEffect,
    OnlyDocumentedExemption) over every recorded observation.  A failed clause is a VIOLATION; a
    difference from what the table predicted (number of yields, effect of a successful call) that no
    clause forbids is model DRIFT (recorded, exit 0).
"""

from __future__ import annotations

import json
import os
import random
import time
from concurrent.futures import ThreadPoolExecutor
from pathlib import Path

from . import core, tlc
from . import replay as rpl

PROP = "C08"
MAX_VIOLATION_FILES = 25

INVARIANTS = ["InvCheckpointed", "InvPreCancelled", "InvOnlyExemption", "InvShieldedIsClean", "InvCompletes",
              "InvObserver"]

OP_GROUPS_QUICK = [
    ["lim_acquire", "sem_acquire", "lock_acquire", "cond_acquire", "cond_wait", "sleep", "sleep_until"],
    ["send", "receive", "run_sync", "handle_wait", "handle_await", "future_wait", "future_await", "reduce",
     "event_wait", "tg_exit", "checkpoint"],
]
FN_GROUPS_QUICK = [
    ["islice", "tee", "compress", "accumulate", "batched", "groupby", "cycle", "starmap", "pairwise", "count", "repeat",
     "product", "permutations", "dropwhile", "filterfalse", "takewhile", "zip_longest", "chain_from_iterable",
     "combinations", "chain", "combinations_with_replacement"],
]
OP_GROUPS_THOROUGH = [
    ["lim_acquire"], ["sem_acquire"], ["lock_acquire", "cond_acquire", "cond_wait"],
    ["send", "receive"], ["run_sync", "sleep", "sleep_until", "checkpoint"],
    ["handle_wait", "handle_await", "future_wait", "future_await", "event_wait", "tg_exit", "reduce"],
]
FN_GROUPS_THOROUGH = [
    ["islice"], ["product"], ["tee", "starmap", "count", "repeat"], ["compress", "pairwise", "cycle"],
    ["permutations", "combinations", "combinations_with_replacement"],
    ["dropwhile", "filterfalse", "takewhile", "groupby"], ["zip_longest", "chain", "chain_from_iterable"],
    ["accumulate", "batched"],
]
# deliberately wrong tables and the part of the matrix that shows it
SANITY = [
    ("send_effect_first", ["send"], []),
    ("tail_lost", [], ["filterfalse"]),
    ("event_set_returns", ["event_wait"], []),
    ("lock_take_first", ["lock_acquire"], []),
    ("limiter_fast", ["lim_acquire"], []),
]

ASSUME = [
    "asyncio backend, CPython 3.12; the controlled loop (harness/vloop.py) runs handles in asyncio's FIFO order",
    "'already effectively cancelled' is produced through cancel scopes only (cancel() before the call, before "
    "entering, a past deadline, an earlier swallowed cancellation, a peer task, a cancelled task group / task "
    "handle); native Task.cancel() is not a scope cancellation and is covered by C03",
    "'no effect' is judged on the public projection: locked()/statistics()/value/borrowed_tokens, what blocked "
    "peers received, what a final drain of the stream returns, whether the thread function ran (3 ms grace)",
    "calls whose regular completion is an exception (EndOfStream, BrokenResourceError, ClosedResourceError, "
    "TaskFailed, FutureFailed ...), prefixes of infinite iterators and traversals in cancelled scopes are "
    "executed and compared with the model, but no clause is enforced on them: the statement is silent",
    "the empty task group is held to 'passes a checkpoint' (yields) only; the statement's table does not list it",
    "user callbacks (predicates, keys, reduce function) and asynchronous sources never yield themselves",
]


def _set(xs: list[str]) -> str:
    return "{" + ", ".join(f'"{x}"' for x in xs) + "}"


def _run_model(d: Path, tier: str, table: str, ops: list[str], fns: list[str], name: str) -> tlc.TLCResult:
    cfg = d / f"{name}.cfg"
    tlc.write_cfg(cfg, constants={"Tier": f'"{tier}"', "Table": f'"{table}"', "Ops": _set(ops), "Fns": _set(fns)},
                  view=None, invariants=INVARIANTS)
    return tlc.run_tlc("CheckpointSpec", cfg, workers=1, timeout=3000, tag=f"{PROP}-{name}", marker="@@X")


def _partitions(tier: str) -> list[tuple[str, list[str], list[str]]]:
    og, fg = (OP_GROUPS_QUICK, FN_GROUPS_QUICK) if tier == "quick" else (OP_GROUPS_THOROUGH, FN_GROUPS_THOROUGH)
    parts = [(f"ops{i}", g, []) for i, g in enumerate(og)] + [(f"fns{i}", [], g) for i, g in enumerate(fg)]
    return parts


def slim(cell: dict) -> dict:
    """What the observer needs of a cell (the rest identifies the program the harness runs)."""
    return {k: cell[k] for k in ("op", "q", "fast", "enforce", "host", "how", "stack")}


def obs_event(ev: dict) -> dict:
    return {k: ev[k] for k in ("cfg", "outcome", "yielded", "before", "after")}


def _label(cell: dict) -> str:
    a = {k: v for k, v in cell["a"].items() if k not in ("z", "emp")}
    st = "".join("[" + ("C" if s["c"] else "-") + ("S" if s["s"] else "-") + "]" for s in cell["stack"]) or "[]"
    return (f"{cell['op']}/{cell['q']}{' fast' if cell['fast'] else ''} {json.dumps(a, separators=(',', ':'))} "
            f"host={cell['host']} stack={st} how={cell['how']}")


def _drift_of(exp: dict, ev: dict) -> list[str]:
    out = []
    if ev["outcome"] != exp["outcome"]:
        out.append("outcome")
    if ev["yielded"] != exp["yielded"]:
        out.append("yielded")
    if ev["ny"] != -1 and exp["ny"] != -1 and ev["ny"] != exp["ny"]:
        out.append("ny")
    if ("none" if ev["before"] == ev["after"] else "done") != exp["effect"]:
        out.append("effect")
    return out


def _validate(traces: list[dict], tier: str) -> list[dict]:
    nparts = 3 if tier == "quick" else 12
    size = max(1, (len(traces) + nparts - 1) // nparts)
    parts = [traces[i:i + size] for i in range(0, len(traces), size)]
    with ThreadPoolExecutor(max_workers=6) as ex:
        vparts = list(ex.map(lambda kp: tlc.validate_traces("T_Checkpoint", kp[1], tag=f"{PROP}-t{kp[0]}",
                                                            chunk=len(kp[1]) + 1), enumerate(parts)))
    return [v for part in vparts for v in part]


def main(tier: str, seed: int) -> int:
    os.environ.setdefault("JAVA_TOOL_OPTIONS", "-XX:ParallelGCThreads=2 -XX:CICompilerCount=2 -Xmx3g")
    rep = core.Report(PROP, tier, seed)
    rep.assumptions += ASSUME
    d = core.OUT / PROP
    d.mkdir(parents=True, exist_ok=True)
    t0 = time.time()
    phases: dict = {}
    rep.extra["phase_wall_s"] = phases

    # 1. the table: enumerate the matrix, check the clauses on it, get the cells
    parts = _partitions(tier)
    sanity = SANITY[:2] if tier == "quick" else SANITY
    with ThreadPoolExecutor(max_workers=8) as ex:
        f_parts = [ex.submit(_run_model, d, tier, "pinned", ops, fns, name) for name, ops, fns in parts]
        f_san = [ex.submit(_run_model, d, tier, table, ops, fns, f"broken-{table}") for table, ops, fns in sanity]
        r_parts = [f.result() for f in f_parts]
        r_san = [f.result() for f in f_san]
    cells: list[dict] = []
    for (name, ops, fns), r in zip(parts, r_parts):
        if r.violated:
            raise tlc.TLCError(f"the table of CheckpointSpec ({name}) violates {r.violated}:\n{r.output[-3000:]}")
        got = tlc.payloads(r.lines, "@@X")
        if not got:
            raise tlc.TLCError(f"CheckpointSpec/{name} printed no cells")
        rep.add_model(f"CheckpointSpec/{name}", r, mode="exhaustive+emit", cells=len(got), ops=ops, fns=fns)
        cells += got
    rejected = {}
    for (table, _ops, _fns), r in zip(sanity, r_san):
        if not r.violated:
            raise tlc.TLCError(f"the invariants of CheckpointSpec accept the wrong table {table!r}")
        rejected[table] = r.violated
        rep.add_model(f"CheckpointSpec/broken-{table}", r, mode="must be rejected", rejected_by=r.violated)
    rep.extra["wrong_tables_rejected_by"] = rejected
    phases["tlc_matrix"] = round(time.time() - t0, 1)

    # 2. every cell on the real library
    configs = ["vstock", "veager", "asyncio", "uvloop"]
    items = [{"i": i, "c": p["c"]} for i, p in enumerate(cells)]
    # thread cells are slow (real threads): spread them evenly
    rng = random.Random(seed)
    rng.shuffle(items)
    bsize = 120
    batches = [{"cells": items[i:i + bsize]} for i in range(0, len(items), bsize)]
    res = rpl.pmap("harness.c08_run", "run_batch", batches, chunk=1, configs=configs)
    events: dict[int, list[dict]] = {}
    for o in res:
        if "machinery_error" in o:
            raise tlc.TLCError("cell execution failed: " + o["machinery_error"])
        for r in o["results"]:
            events[r["i"]] = r["events"]
    phases["execute_cells"] = round(time.time() - t0 - sum(phases.values()), 1)

    # 3. TLC judges what was recorded
    traces = [{"id": i, "events": [obs_event(e) for e in events[i]], "params": {"cell": slim(cells[i]["c"])}}
              for i in range(len(cells))]
    verdicts = _validate(traces, tier)
    phases["tlc_validate"] = round(time.time() - t0 - sum(phases.values()), 1)
    rep.traces += len(verdicts)
    rep.evaluations = sum(len(e) for e in events.values())
    rep.distinct = sum(1 for p in cells if p["c"]["enforce"] != "none")

    nviol = 0
    by_clause: dict[str, int] = {}
    for v in verdicts:
        if not v["bad"]:
            continue
        c, exp = cells[v["id"]]["c"], cells[v["id"]]["exp"]
        ev = events[v["id"]][v["at"] - 1]
        nviol += 1
        for cl in v["bad"]:
            by_clause[f"{cl}:{c['op']}"] = by_clause.get(f"{cl}:{c['op']}", 0) + 1
        if len(rep.violations) < MAX_VIOLATION_FILES:
            rep.violation(f"{','.join(v['bad'])}: {_label(c)} on {ev['cfg']}: outcome={ev['outcome']}"
                          f"{'(' + ev['exc'] + ')' if ev['exc'] else ''} yielded={ev['yielded']} "
                          f"before={json.dumps(ev['before'])} after={json.dumps(ev['after'])}",
                          {"cell": c, "config": ev["cfg"], "observed": ev, "clauses": v["bad"], "model_expected": exp},
                          signature=f"{v['bad'][0]}:{c['op']}")
    if nviol:
        rep.extra["violating_cells"] = nviol
        rep.extra["violations_by_clause_and_op"] = by_clause

    # model conformance (never a verdict)
    drift_kinds: dict[str, int] = {}
    for i, p in enumerate(cells):
        for ev in events[i]:
            dr = _drift_of(p["exp"], ev)
            if dr:
                rep.drift += 1
                k = f"{p['c']['op']}/{p['c']['q']}:{'+'.join(dr)}"
                drift_kinds[k] = drift_kinds.get(k, 0) + 1
                if rep.drift <= 3:
                    print(f"DRIFT property={PROP} {_label(p['c'])} on {ev['cfg']}: model {p['exp']} "
                          f"observed outcome={ev['outcome']} yielded={ev['yielded']} ny={ev['ny']}")
    if drift_kinds:
        rep.extra["drift_by_kind"] = drift_kinds

    # what was covered
    ops = sorted({p["c"]["op"] for p in cells})
    rep.extra["matrix"] = {
        "cells": len(cells),
        "cells_by_op": {o: sum(1 for p in cells if p["c"]["op"] == o) for o in ops},
        "itertools_functions": sorted({p["c"]["q"] for p in cells if p["c"]["op"] == "iter"}),
        "scope_configurations": len({json.dumps([p["c"]["host"], p["c"]["how"], p["c"]["stack"]]) for p in cells}),
        "effectively_cancelled_cells": sum(1 for p in cells if p["exp"]["outcome"] == "cancelled"),
        "exempt_fast_acquire_cells": sum(1 for p in cells if p["c"]["fast"]),
        "cells_with_both_clauses": sum(1 for p in cells if p["c"]["enforce"] == "both"),
        "cells_yield_only": sum(1 for p in cells if p["c"]["enforce"] == "yield"),
        "cells_recorded_only": sum(1 for p in cells if p["c"]["enforce"] == "none"),
        "loop_configurations": configs,
    }
    rep.extra["exhaustive"] = True
    for k in (0, len(cells) // 3, 2 * len(cells) // 3, len(cells) - 1):
        rep.sample({"cell": _label(cells[k]["c"]), "model": cells[k]["exp"],
                    "observed": [{x: e[x] for x in ("cfg", "outcome", "yielded", "ny")} for e in events[k]]})
    rep.rule = ("cells = {row of the operation table (operation, state in which it completes without waiting, "
                "variant)} x {scope configuration (calling task, stack of scopes cancelled?/shielded?, how "
                "cancelled)} as enumerated by TLC from spec/CheckpointSpec.tla; every cell is executed once per "
                "loop configuration. evaluations = executions on the real library; non-trivial = cell on which at "
                "least one clause is enforced (enforce != none)")
    return rep.finish()


def replay(path: str) -> int:
    from . import c08_run

    data = json.loads(Path(path).read_text())
    rp = data["replay"]
    cell, config = rp["cell"], rp["config"]
    o = rpl.pmap("harness.c08_run", "run_batch", [{"cells": [{"i": 0, "c": cell}]}], procs=1, configs=[config])[0]
    if "machinery_error" in o:
        raise tlc.TLCError(o["machinery_error"])
    ev = o["results"][0]["events"][0]
    v = tlc.validate_traces("T_Checkpoint", [{"id": 0, "events": [obs_event(ev)], "params": {"cell": slim(cell)}}],
                            tag=f"{PROP}-replay")[0]
    print(json.dumps({"cell": _label(cell), "observed": ev, "verdict": v}, indent=1))
    if v["bad"]:
        print(f"VIOLATION property={PROP} replay={path}")
        return 1
    return 0
