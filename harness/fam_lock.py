"""C09: replay of MC_C09 scenarios on the real anyio.Lock and recording of P_Lock traces."""

from __future__ import annotations

import asyncio
from typing import Any

from . import uvrun, vloop
from .replay import Recorder, ScenarioController, ensure_repo_on_path


def _by_name(name: str) -> int:
    # with the eager task factory a task runs before the harness has registered its id
    return int(name[1:]) if name and name[0] == "t" and name[1:].isdigit() else -1


def run_scenario(scn: dict, *, fast: bool = False, retry: bool = False, cleanup: bool = False, eager: bool = False, uv: bool = False) -> dict:
    """Execute one scenario; returns {"events": [...], "final": {...}, "flags": {...}}."""
    ensure_repo_on_path()
    import anyio

    nt = len(scn["tasks"])
    rec = Recorder()
    state: dict[str, Any] = {}

    def obs() -> dict:
        lock = state["lock"]
        st = lock.statistics()
        owner = 0
        if st.owner is not None:
            owner = state["ids"].get(st.owner.id) or _by_name(st.owner.name)
        return {"owner": owner, "waiting": st.tasks_waiting}

    def fire(act: dict) -> None:
        t = act["t"]
        if state["tasks"][t].done():
            return          # (drifted run) nothing to cancel any more
        rec.emit(ev="creq", t=t)
        if act["c"] == "cancel":
            state["scopes"][t].cancel()
        elif act["c"] == "native":
            state["tasks"][t].cancel()
        else:  # pragma: no cover
            raise ValueError(act)

    def proj() -> dict:
        outs, ncs = [], []
        for t in range(1, nt + 1):
            task = state["tasks"][t]
            if not task.done():
                outs.append("blocked")
            elif task.cancelled():
                outs.append("cancelled")
            elif task.exception() is not None:
                outs.append("error")
            else:
                outs.append("ok")
            ncs.append(task.cancelling())
        return {"nh": state["loop"].nhandles, "out": outs, "nc": ncs, **obs()}

    def quiescent() -> None:
        state["final"] = proj()
        rec.emit(ev="quiescent", **obs())

    ctl = ScenarioController(scn["env"], fire, quiescent)
    ctl.recorder = rec

    async def client(t: int, script: list[str]) -> None:
        state["ids"][id(asyncio.current_task())] = t     # (under the eager factory we run before main registers us)
        lock = state["lock"]
        held = {"v": False}
        ops = iter(script)

        async def run_ops() -> None:
            for op in ops:
                if op == "acq":
                    rec.emit(ev="start", t=t, op="acq")
                    try:
                        await lock.acquire()
                    except asyncio.CancelledError:
                        rec.emit(ev="end", t=t, op="acq", res="cancelled", **obs())
                        raise
                    except RuntimeError:
                        rec.emit(ev="end", t=t, op="acq", res="error", **obs())
                    else:
                        held["v"] = True
                        rec.emit(ev="end", t=t, op="acq", res="ok", **obs())
                elif op == "nowait":
                    try:
                        lock.acquire_nowait()
                    except anyio.WouldBlock:
                        rec.emit(ev="nowait", t=t, res="wouldblock", **obs())
                    except RuntimeError:
                        rec.emit(ev="nowait", t=t, res="error", **obs())
                    else:
                        held["v"] = True
                        rec.emit(ev="nowait", t=t, res="ok", **obs())
                elif op == "rel":
                    try:
                        lock.release()
                    except RuntimeError:
                        rec.emit(ev="rel", t=t, res="error", **obs())
                    else:
                        held["v"] = False
                        rec.emit(ev="rel", t=t, res="ok", **obs())
                elif op == "yield":
                    await anyio.lowlevel.checkpoint()
                elif op == "end":
                    break
                else:  # pragma: no cover
                    raise ValueError(op)

        while True:
            scope = state["scopes"][t]
            with scope:
                try:
                    try:
                        await run_ops()
                    except asyncio.CancelledError:
                        if not cleanup:
                            raise
                        # clean-up behind a shield: the remaining operations, then re-raise
                        with anyio.CancelScope(shield=True):
                            await run_ops()
                        raise
                finally:
                    if held["v"]:
                        held["v"] = False
                        try:
                            lock.release()
                        except RuntimeError:
                            rec.emit(ev="rel", t=t, res="error", **obs())
                        else:
                            rec.emit(ev="rel", t=t, res="ok", **obs())
            if retry and scope.cancelled_caught:
                state["scopes"][t] = anyio.CancelScope()
                rec.emit(ev="cdone", t=t)
                continue
            break

    async def main() -> None:
        loop = state["loop"] = uvrun.view(asyncio.get_running_loop())
        ctl.hidden_tasks.add(asyncio.current_task())
        state["lock"] = anyio.Lock(fast_acquire=fast)
        state["scopes"] = {t: anyio.CancelScope() for t in range(1, nt + 1)}
        state["tasks"] = {}
        state["ids"] = {}
        for t in range(1, nt + 1):
            task = loop.create_task(client(t, scn["tasks"][str(t)]), name=f"t{t}")
            state["tasks"][t] = task
            state["ids"][id(task)] = t
        await asyncio.wait(list(state["tasks"].values()))
        quiescent()

    loop, _res, err = (uvrun.run if uv else vloop.run)(main, ctl, eager=eager, max_handles=20000)
    rec.closed = True
    final = state.get("final")
    flags = {"deadlock": isinstance(err, vloop.Deadlock), "budget": loop.budget_exceeded,
             "error": None if err is None or isinstance(err, (vloop.Deadlock, vloop.BudgetExceeded))
             else repr(err)}
    return {"events": rec.events, "final": final, "flags": flags}
