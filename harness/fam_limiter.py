"""C10 (CapacityLimiter): replay of MC_C10L scenarios on the real anyio.CapacityLimiter."""

from __future__ import annotations

import asyncio
import math
from typing import Any

from . import uvrun, vloop
from .replay import Recorder, ScenarioController, ensure_repo_on_path

INF = 99


def _tot(v: float) -> int:
    return INF if v == math.inf else int(v)


class _Borrower:
    def __init__(self, n: int) -> None:
        self.n = n


def run_scenario(scn: dict, *, total: int = 1, retry: bool = False, eager: bool = False, uv: bool = False) -> dict:
    ensure_repo_on_path()
    import anyio

    nt = len(scn["tasks"])
    rec = Recorder()
    state: dict[str, Any] = {}

    def obs() -> dict:
        lim = state["lim"]
        st = lim.statistics()
        return {"borrowed": lim.borrowed_tokens, "total": _tot(lim.total_tokens),
                "waiting": st.tasks_waiting}

    def fire(act: dict) -> None:
        t = act["t"]
        if state["tasks"][t].done():
            return
        rec.emit(ev="creq", t=t)
        if act["c"] == "cancel":
            state["scopes"][t].cancel()
        else:
            state["tasks"][t].cancel()

    def proj() -> dict:
        outs, ncs = [], []
        for t in range(1, nt + 1):
            task = state["tasks"][t]
            outs.append("blocked" if not task.done() else "cancelled" if task.cancelled()
                        else "error" if task.exception() is not None else "ok")
            ncs.append(task.cancelling())
        return {"nh": state["loop"].nhandles, "out": outs, "nc": ncs, **obs()}

    def quiescent() -> None:
        state["final"] = proj()
        rec.emit(ev="quiescent", **obs())

    ctl = ScenarioController(scn["env"], fire, quiescent)
    ctl.recorder = rec

    async def client(t: int, script: list[str]) -> None:
        lim = state["lim"]
        foreign = state["foreign"][t]
        held = {"self": False, "foreign": False}

        def release(which: str) -> None:
            b = t if which == "self" else 10 + t
            try:
                if which == "self":
                    lim.release()
                else:
                    lim.release_on_behalf_of(foreign)
            except RuntimeError:
                rec.emit(ev="rel", t=t, b=b, res="error", **obs())
            else:
                held[which] = False
                rec.emit(ev="rel", t=t, b=b, res="ok", **obs())

        ops = iter(script)              # shared by the retries: each operation is performed once
        while True:
            scope = state["scopes"][t]
            with scope:
                try:
                    for op in ops:
                        if op in ("acq", "acqf"):
                            which = "self" if op == "acq" else "foreign"
                            b = t if op == "acq" else 10 + t
                            rec.emit(ev="start", t=t, b=b)
                            try:
                                if op == "acq":
                                    await lim.acquire()
                                else:
                                    await lim.acquire_on_behalf_of(foreign)
                            except asyncio.CancelledError:
                                rec.emit(ev="end", t=t, b=b, res="cancelled", **obs())
                                raise
                            except RuntimeError:
                                rec.emit(ev="end", t=t, b=b, res="error", **obs())
                            else:
                                held[which] = True
                                rec.emit(ev="end", t=t, b=b, res="ok", **obs())
                        elif op == "nowait":
                            try:
                                lim.acquire_nowait()
                            except anyio.WouldBlock:
                                rec.emit(ev="nowait", t=t, b=t, res="wouldblock", **obs())
                            except RuntimeError:
                                rec.emit(ev="nowait", t=t, b=t, res="error", **obs())
                            else:
                                held["self"] = True
                                rec.emit(ev="nowait", t=t, b=t, res="ok", **obs())
                        elif op == "rel":
                            release("self")
                        elif op == "relf":
                            release("foreign")
                        elif op.startswith("set"):
                            v = op[3:]
                            lim.total_tokens = math.inf if v == "inf" else int(v)
                            rec.emit(ev="settotal", v=(INF if v == "inf" else int(v)), **obs())
                        elif op == "yield":
                            await anyio.lowlevel.checkpoint()
                        elif op == "end":
                            break
                finally:
                    if held["self"]:
                        release("self")
                    if held["foreign"]:
                        release("foreign")
            if retry and scope.cancelled_caught:
                # the move_on_after pattern: the scope absorbed its cancellation, the task carries on
                state["scopes"][t] = anyio.CancelScope()
                rec.emit(ev="cdone", t=t)
                continue
            break

    async def main() -> None:
        loop = state["loop"] = uvrun.view(asyncio.get_running_loop())
        state["lim"] = anyio.CapacityLimiter(math.inf if total >= INF else total)
        state["scopes"] = {t: anyio.CancelScope() for t in range(1, nt + 1)}
        state["foreign"] = {t: _Borrower(10 + t) for t in range(1, nt + 1)}
        state["tasks"] = {}
        for t in range(1, nt + 1):
            state["tasks"][t] = loop.create_task(client(t, scn["tasks"][str(t)]), name=f"t{t}")
        await asyncio.wait(list(state["tasks"].values()))
        quiescent()

    loop, _res, err = (uvrun.run if uv else vloop.run)(main, ctl, eager=eager, max_handles=20000)
    rec.closed = True
    flags = {"deadlock": isinstance(err, vloop.Deadlock), "budget": loop.budget_exceeded,
             "error": None if err is None or isinstance(err, (vloop.Deadlock, vloop.BudgetExceeded))
             else repr(err)}
    return {"events": rec.events, "final": state.get("final"), "flags": flags,
            "params": {"total": total}}
