"""C02 - task group errors: siblings cancelled, every exception surfaces exactly once."""

from __future__ import annotations

from .family import ModelCfg, run_family
from .tgroups import consts, family

OPS = '{"tgopen", "close", "spawn", "yield", "wait", "raise"}'
OPSS = '{"tgopen", "close", "spawn", "start", "started", "yield", "wait", "raise"}'
OPSX = '{"tgopen", "close", "spawn", "yield", "wait", "raise", "open", "cancel"}'
FAMILY = family("C02", [
    # a sibling that sits in shielded clean-up when the group is cancelled must still be cancelled afterwards
    ModelCfg("c02-n2o4e0-shield", consts(2, 4, 0, '{"tgopen", "spawn", "raise", "open", "cancel", "yield", "wait"}',
                                         shields="{0, 1}", env="{}"), emit=True, check=False, max_scenarios=8000),
    # start() racing with a failing sibling (exception handed over through the start future)
    ModelCfg("c02-n3o3e0-start", consts(3, 3, 0, '{"tgopen", "spawn", "start", "yield", "raise"}', env="{}"),
             emit=True, check=False, max_scenarios=8000),
    ModelCfg("c02-n2o3e1", consts(2, 3, 1, OPS), emit=True, check=False, max_scenarios=4000),
    ModelCfg("c02-n3o3e1", consts(3, 3, 1, OPS), tiers=("quick",), check=False, simulate=1500),
    ModelCfg("c02-n3o3e1s", consts(3, 3, 1, OPSS), tiers=("quick",), check=False, simulate=1500),
    ModelCfg("c02-n3o3e1x", consts(3, 3, 1, OPS), tiers=("thorough",), simulate=5000),
    ModelCfg("c02-n3o4e2s", consts(3, 4, 2, OPSS), tiers=("thorough",), check=False, simulate=12000,
             sim_depth=700),
    ModelCfg("c02-n3o4e1x", consts(3, 4, 1, OPSX, cleanups="{0, 1}", shields="{0, 1}"),
             tiers=("thorough",), check=False, simulate=10000, sim_depth=700),
    ModelCfg("c02-n4o3e2", consts(4, 3, 2, OPS), tiers=("thorough",), check=False, simulate=10000,
             sim_depth=700),
    # both iteration orders of the scopes' task / child-scope sets (Python sets), model check only
    ModelCfg("c02-n3o3e1-orders", consts(3, 3, 1, '{"tgopen", "close", "spawn", "yield", "wait", "raise"}', orders="{FALSE, TRUE}"),
             tiers=("thorough",)),
])


def main(tier: str, seed: int) -> int:
    return run_family(FAMILY, tier, seed)
