"""C16, byte part: executing calls on a real BufferedByteReceiveStream and recording them.

The wrapped streams are part of the environment: they never block (a chunk is available or the
stream is at its end) and count the bytes they hand over (`pulled`).
"""

from __future__ import annotations

import contextlib
import random
import signal
import threading
from typing import Any

from .replay import ensure_repo_on_path



class CallDidNotReturn(Exception):
    pass


_HANDLER_INSTALLED = False


def _on_alarm(signum, frame):
    raise CallDidNotReturn("the call did not return")


@contextlib.contextmanager
def guard(cpu_seconds: float = 5.0):
    """A call on the streams under test takes microseconds (the wrapped streams never block); one that
    spins is interrupted after cpu_seconds of CPU time of this process (a loaded machine cannot trigger
    that) and recorded as outcome "error" instead of hanging the check."""
    global _HANDLER_INSTALLED
    if threading.current_thread() is not threading.main_thread():
        yield
        return
    if not _HANDLER_INSTALLED:
        signal.signal(signal.SIGVTALRM, _on_alarm)
        _HANDLER_INSTALLED = True
    signal.setitimer(signal.ITIMER_VIRTUAL, cpu_seconds)
    try:
        yield
    finally:
        signal.setitimer(signal.ITIMER_VIRTUAL, 0)


# ---------------------------------------------------------------------------------------------------
# wrapped streams (created lazily: anyio must come from $VERIF_REPO)

_CLASSES: dict[str, Any] = {}


def _classes() -> dict[str, Any]:
    if _CLASSES:
        return _CLASSES
    ensure_repo_on_path()
    import anyio
    from anyio.abc import ByteReceiveStream, ObjectReceiveStream

    class FakeByteStream(ByteReceiveStream):
        """A byte stream that honours max_bytes: hands over at most that much of its next chunk."""

        def __init__(self, chunks: list[bytes]) -> None:
            self.chunks = [bytes(c) for c in chunks]
            self.pulled = 0
            self.closed = False

        async def receive(self, max_bytes: int = 65536) -> bytes:
            if max_bytes < 1:
                raise ValueError("max_bytes must be a positive integer")
            if self.closed:
                raise anyio.ClosedResourceError
            if not self.chunks:
                raise anyio.EndOfStream
            head = self.chunks[0]
            out, rest = head[:max_bytes], head[max_bytes:]
            if rest:
                self.chunks[0] = rest
            else:
                self.chunks.pop(0)
            self.pulled += len(out)
            return out

        async def aclose(self) -> None:
            self.closed = True

    class FakeObjStream(ObjectReceiveStream[bytes]):
        """An object stream of bytes: always hands over one whole chunk."""

        def __init__(self, chunks: list[bytes]) -> None:
            self.chunks = [bytes(c) for c in chunks]
            self.pulled = 0
            self.closed = False

        async def receive(self) -> bytes:
            if self.closed:
                raise anyio.ClosedResourceError
            if not self.chunks:
                raise anyio.EndOfStream
            out = self.chunks.pop(0)
            self.pulled += len(out)
            return out

        async def aclose(self) -> None:
            self.closed = True

    class MemObjStream:
        """A real anyio memory object stream, preloaded and closed on the sending side."""

        def __init__(self, chunks: list[bytes]) -> None:
            self.lens = [len(c) for c in chunks]
            self.send, self.stream = anyio.create_memory_object_stream[bytes](max(len(chunks), 1))
            for c in chunks:
                self.send.send_nowait(bytes(c))
            self.send.close()
            self.total = len(chunks)

        @property
        def pulled(self) -> int:
            try:
                left = self.stream.statistics().current_buffer_used
            except Exception:  # noqa: BLE001 - closed stream: nothing more can be taken
                left = self._left
            self._left = left
            return sum(self.lens[: self.total - left])

    _CLASSES.update(anyio=anyio, byte=FakeByteStream, obj=FakeObjStream, mem=MemObjStream)
    return _CLASSES


def make_stream(kind: str, chunks: list[list[int]]):
    """-> (BufferedByteReceiveStream over a fresh wrapped stream, object with .pulled)."""
    cl = _classes()
    from anyio.streams.buffered import BufferedByteReceiveStream

    if kind in ("mem", "duplex"):
        w = cl["mem"]([bytes(c) for c in chunks])
        w.pulled  # noqa: B018 - initialises the counter
        if kind == "duplex":     # the full-duplex subclass over a stapled memory stream
            from anyio.streams.buffered import BufferedByteStream
            from anyio.streams.stapled import StapledObjectStream

            return BufferedByteStream(StapledObjectStream(w.send, w.stream)), w
        return BufferedByteReceiveStream(w.stream), w
    w = cl[kind]([bytes(c) for c in chunks])
    return BufferedByteReceiveStream(w), w


async def do_call(stream, w, c: dict) -> dict:
    """Perform one call on the real stream; the observable event of P_ByteWrap."""
    anyio = _classes()["anyio"]
    before = w.pulled
    op, n, d = c["op"], c["n"], c["d"]
    v: Any = b""
    try:
        with guard():
            if op == "rx":
                v = await stream.receive(n)
            elif op == "rex":
                v = await stream.receive_exactly(n)
            elif op == "ru":
                v = await stream.receive_until(bytes(d), n)
            elif op == "feed":
                stream.feed_data(bytes(d))
            elif op == "close":
                await stream.aclose()
            else:
                raise ValueError(op)
        k = "ok"
    except anyio.IncompleteRead:
        k = "incomplete"
    except anyio.DelimiterNotFound:
        k = "notfound"
    except anyio.EndOfStream:
        k = "eos"
    except anyio.ClosedResourceError:
        k = "closed"
    except Exception as exc:  # noqa: BLE001 - any other outcome is an observation, not a crash
        k = "error"
        v = b""
        err = repr(exc)[:200]
    ev = {"op": op, "n": n, "d": list(d), "k": k, "v": list(v) if k == "ok" else [],
          "buf": list(stream.buffer), "pulled": w.pulled - before}
    if k == "error":
        ev["err"] = err
    return ev


async def run_calls(kind: str, chunks: list[list[int]], calls: list[dict]) -> list[dict]:
    stream, w = make_stream(kind, chunks)
    return [await do_call(stream, w, c) for c in calls]


def model_kind(kind: str) -> str:
    return "obj" if kind in ("mem", "duplex") else kind


def trace_of(kind: str, chunks: list[list[int]], calls: list[dict], events: list[dict], tid: Any) -> dict:
    """The trace T_ByteWrap validates (the stream starts open with an empty buffer)."""
    evs = [{k: e[k] for k in ("op", "n", "d", "k", "v", "buf", "pulled")} for e in events]
    return {"id": tid, "events": evs,
            "params": {"kind": model_kind(kind), "buf": [], "cs": chunks, "closed": False}}


# ---------------------------------------------------------------------------------------------------
# exhaustive part: one transition of TLC's state graph = one call on a real stream in that state


def setup_calls(t: dict) -> list[dict]:
    """Calls that bring a fresh stream into the source state of transition t."""
    pre = []
    if t["buf"]:
        pre.append({"op": "feed", "n": 0, "d": t["buf"]})
    if t["closed"]:
        pre.append({"op": "close", "n": 0, "d": []})
    return pre


def nontrivial(t: dict) -> bool:
    """The call had to cross a chunk boundary of the wrapped stream, cut a chunk, combine buffered
    bytes with new ones, or failed while bytes were in hand."""
    touched, left = 0, t["pulled"]
    for c in t["cs"]:
        if left <= 0:
            break
        touched += 1
        left -= len(c)
    return (touched >= 2 or left < 0 or (t["pulled"] > 0 and (t["buf"] or t["nbuf"]))
            or (t["k"] in ("incomplete", "notfound") and bool(t["nbuf"])))


def replay_batch(batch: list[dict]) -> dict:
    """Worker: replay a batch of TLC transitions; returns counts and the disagreeing ones."""
    anyio = _classes()["anyio"]
    out = {"n": 0, "agree": 0, "nontrivial": 0, "kinds": {}, "mismatch": []}

    async def go() -> None:
        for t in batch:
            calls = setup_calls(t) + [{"op": t["op"], "n": t["n"], "d": t["d"]}]
            evs = await run_calls(t["kind"], t["cs"], calls)
            e = evs[-1]
            out["n"] += 1
            key = f'{t["op"]}:{t["k"]}'
            out["kinds"][key] = out["kinds"].get(key, 0) + 1
            if nontrivial(t):
                out["nontrivial"] += 1
            ok_setup = all(x["k"] == "ok" for x in evs[:-1]) and \
                (len(evs) == 1 or evs[-2]["buf"] == t["buf"])
            if ok_setup and e["k"] == t["k"] and e["v"] == t["v"] and e["buf"] == t["nbuf"] \
                    and e["pulled"] == t["pulled"]:
                out["agree"] += 1
            else:
                out["mismatch"].append({"t": t, "calls": calls, "events": evs})

    anyio.run(go)
    out["first"] = batch[0] if batch else None
    return out


def replay_lines(lines: list[str]) -> dict:
    """Worker entry: raw @@B lines of TLC -> replay_batch."""
    from . import tlc

    return replay_batch(tlc.payloads(lines, "@@B"))


# ---------------------------------------------------------------------------------------------------
# random longer cases


def random_case(rng: random.Random, big: bool) -> dict:
    alpha = rng.choice([2, 2, 3, 4, 256])
    n = rng.randint(0, 90 if big else 45)
    data = [rng.randrange(alpha) for _ in range(n)]
    chunks, i = [], 0
    maxc = rng.choice([1, 2, 3, 5, 9, 16])
    while i < n:
        k = rng.randint(1, maxc)
        chunks.append(data[i:i + k])
        i += k
    kind = rng.choice(["byte", "byte", "obj", "obj", "mem", "duplex"])
    calls = []
    fed: list[int] = []
    ncalls = rng.randint(3, 24 if big else 14)
    close_at = rng.randrange(ncalls // 2, ncalls) if rng.random() < 0.12 else -1
    for ci in range(ncalls):
        x = rng.random() * 0.98
        if ci == close_at:
            calls.append({"op": "close", "n": 0, "d": []})
        elif x < 0.25:
            calls.append({"op": "rx", "n": rng.choice([1, 1, 2, 3, 4, 7, 100]), "d": []})
        elif x < 0.5:
            calls.append({"op": "rex", "n": rng.choice([1, 2, 3, 4, 5, 8, 13]), "d": []})
        elif x < 0.9:
            src = data + fed
            ln = rng.choice([1, 1, 2, 2, 3, 4])
            if src and rng.random() < 0.75:
                j = rng.randrange(len(src))
                d = (src + src)[j:j + ln]
            else:
                d = [rng.randrange(alpha) for _ in range(ln)]
            calls.append({"op": "ru", "n": rng.choice([1, 2, 3, 4, 6, 9, 15, 1000]), "d": d})
        else:
            d = [rng.randrange(alpha) for _ in range(rng.randint(1, 4))]
            fed += d
            calls.append({"op": "feed", "n": 0, "d": d})
    return {"kind": kind, "cs": chunks, "calls": calls}


def record_batch(batch: list[dict]) -> list[dict]:
    """Worker: run random cases on the real stream, return their traces."""
    anyio = _classes()["anyio"]
    out: list[dict] = []

    async def go() -> None:
        for case in batch:
            evs = await run_calls(case["kind"], case["cs"], case["calls"])
            tr = trace_of(case["kind"], case["cs"], case["calls"], evs, case["id"])
            tr["case"] = case
            out.append(tr)

    anyio.run(go)
    return out
