"""C19: running one specification case (spec/SeqFns.tla, `Eval`) on CPython's standard library and on
anyio.itertools / anyio.functools.reduce.

A case is ``{"fn": name, "a": {argument record}}`` exactly as TLC prints it (spec/MC_C19.tla) or as
the random generator below builds it.  An outcome is ``[out, err]``: the list of yielded values
(tuples as lists, None as -99) and the exception class name ("" = finished normally).

The callback tables PRED / KEY / BIN / NARY are the Python twins of Pred / Key / Bin / ApplyN of the
specification.
"""

from __future__ import annotations

import functools
import itertools
import json
import random
from typing import Any

NONE = -99
LIMIT = 20000          # no case of the domain yields that many values: a longer output is an overrun

PRED = {"pos": lambda x: x > 0, "even": lambda x: x % 2 == 0, "odd": lambda x: x % 2,
        "lt2": lambda x: x < 2, "true": lambda x: True, "false": lambda x: False}
KEY = {"none": None, "mod2": lambda x: x % 2, "half": lambda x: x // 2, "const": lambda x: 7}
BIN = {"add": lambda a, b: a + b, "sub": lambda a, b: a - b, "nc": lambda a, b: (2 * a + b) % 100003}


def _nc(*a):
    return functools.reduce(BIN["nc"], a, 1)


NARY = {"sum": lambda *a: sum(a), "nc": _nc, "add2": lambda a, b: a + b}

MODES = ("list", "gen", "agen", "aiter")   # how the element sequences are handed to anyio


def enc(x: Any) -> Any:
    if x is None:
        return NONE
    if isinstance(x, bool) or not isinstance(x, (int, tuple, list)):
        raise TypeError(f"unexpected value in a result: {x!r}")
    if isinstance(x, int):
        return x
    return [enc(y) for y in x]


def canon(outcome: list) -> str:
    """The text TLC's ToJson produces for the same outcome."""
    return json.dumps(outcome, separators=(",", ":"))


def opt(o: list) -> Any:
    """Optional integer argument: [] -> None, [n] -> n, [0, 0] -> (illegal) None."""
    return o[0] if len(o) == 1 else None


def kw_opt(name: str, o: list) -> dict:
    """Keyword argument: omitted when [], else the integer or an explicit None."""
    return {} if not o else {name: opt(o)}


# ---------------------------------------------------------------------------------------------------
# standard library


def _batched_strict(s, n):
    # documented semantics of batched(strict=True) (Python 3.13 docs; 3.12 has no `strict`)
    if n < 1:
        raise ValueError("n must be at least one")
    it = iter(s)
    while batch := tuple(itertools.islice(it, n)):
        if len(batch) != n:
            raise ValueError("batched(): incomplete batch")
        yield batch


def _std(fn: str, a: dict):
    """Return (iterator, prefix length or None).  May raise (argument errors)."""
    if fn == "accumulate":
        f = [] if a["f"] == "default" else [BIN[a["f"]]]
        return itertools.accumulate(a["s"], *f, initial=opt(a["init"])), None
    if fn == "batched":
        n = opt(a["n"])
        if a["strict"]:
            if n is None:
                raise TypeError("n must be an integer")
            return _batched_strict(a["s"], n), None
        return itertools.batched(a["s"], n), None
    if fn == "chain":
        return itertools.chain(*a["ss"]), None
    if fn == "chain_from_iterable":
        return itertools.chain.from_iterable(a["ss"]), None
    if fn == "combinations":
        return itertools.combinations(a["s"], opt(a["r"])), None
    if fn == "combinations_with_replacement":
        return itertools.combinations_with_replacement(a["s"], opt(a["r"])), None
    if fn == "compress":
        return itertools.compress(a["s"], a["sel"]), None
    if fn == "count":
        return itertools.count(**kw_opt("start", a["start"]), **kw_opt("step", a["step"])), a["k"]
    if fn == "cycle":
        return itertools.cycle(a["s"]), a["k"]
    if fn == "dropwhile":
        return itertools.dropwhile(PRED[a["p"]], a["s"]), None
    if fn == "takewhile":
        return itertools.takewhile(PRED[a["p"]], a["s"]), None
    if fn == "filterfalse":
        return itertools.filterfalse(PRED[a["p"]], a["s"]), None
    if fn == "groupby":
        return ((k, list(g)) for k, g in itertools.groupby(a["s"], KEY[a["key"]])), None
    if fn == "islice":
        return itertools.islice(a["s"], *[opt(x) for x in a["args"]]), None
    if fn == "pairwise":
        return itertools.pairwise(a["s"]), None
    if fn == "permutations":
        return itertools.permutations(a["s"], opt(a["r"])), None
    if fn == "product":
        return itertools.product(*a["ss"], **kw_opt("repeat", a["rep"])), None
    if fn == "repeat":
        if not a["times"]:
            return itertools.repeat(a["x"]), a["k"]
        return itertools.repeat(a["x"], opt(a["times"])), None
    if fn == "starmap":
        return itertools.starmap(NARY[a["f"]], a["ss"]), None
    if fn == "tee":
        ts = itertools.tee(a["s"], *([opt(a["n"])] if a["n"] else []))
        return (list(t) for t in ts), None
    if fn == "zip_longest":
        return itertools.zip_longest(*a["ss"], **kw_opt("fillvalue", a["fill"])), None
    if fn == "reduce":
        return iter([functools.reduce(BIN[a["f"]], a["s"], *a["init"])]), None
    raise KeyError(fn)


def std_outcome(c: dict) -> list:
    out: list = []
    err = ""
    try:
        it, k = _std(c["fn"], c["a"])
        if k is not None:
            it = itertools.islice(it, k)
        for x in it:
            out.append(x)
            if len(out) > LIMIT:
                err = "Overrun"
                break
    except Exception as exc:  # noqa: BLE001 - the class of the error is the observation
        err = type(exc).__name__
    return [enc(out), err]


# ---------------------------------------------------------------------------------------------------
# anyio


class _AIterable:
    """An AsyncIterable that is not an AsyncIterator (second branch of anyio.itertools._iterate)."""

    def __init__(self, items):
        self.items = items

    def __aiter__(self):
        return _AIterator(iter(self.items))


class _AIterator:
    def __init__(self, it):
        self.it = it

    def __aiter__(self):
        return self

    async def __anext__(self):
        try:
            return next(self.it)
        except StopIteration:
            raise StopAsyncIteration from None


def _src(items: list, mode: str, pos: int = 0, deep: bool = False):
    """The element sequence as the kind of iterable `mode` names ("mixed" alternates by position)."""
    if deep:  # an iterable of iterables (chain.from_iterable, starmap)
        items = [_src(x, mode, i + 1) for i, x in enumerate(items)]
    if mode == "mixed":
        mode = MODES[pos % len(MODES)]
    if mode == "list":
        return list(items)
    if mode == "gen":
        return (x for x in items)
    if mode == "agen":
        async def agen():
            from anyio.lowlevel import checkpoint
            for x in items:
                await checkpoint()
                yield x
        return agen()
    if mode == "aiter":
        return _AIterable(items)
    raise KeyError(mode)


def _acb(f, mode: str):
    """The synchronous callback as a coroutine function (with a checkpoint in the async modes)."""
    if f is None:
        return None
    if mode in ("list", "gen"):
        async def g(*a):
            return f(*a)
    else:
        async def g(*a):
            from anyio.lowlevel import checkpoint
            await checkpoint()
            return f(*a)
    return g


def _aio(fn: str, a: dict, mode: str):
    """Return (async iterator, prefix length or None).  May raise."""
    import anyio.functools as afn
    import anyio.itertools as ait

    S = lambda s, pos=0: _src(s, mode, pos)  # noqa: E731
    if fn == "accumulate":
        f = [] if a["f"] == "default" else [_acb(BIN[a["f"]], mode)]
        return ait.accumulate(S(a["s"]), *f, initial=opt(a["init"])), None
    if fn == "batched":
        kw = {"strict": True} if a["strict"] else {}
        return ait.batched(S(a["s"]), opt(a["n"]), **kw), None
    if fn == "chain":
        return ait.chain(*[S(s, i) for i, s in enumerate(a["ss"])]), None
    if fn == "chain_from_iterable":
        return ait.chain.from_iterable(_src(a["ss"], mode, 0, deep=True)), None
    if fn == "combinations":
        return ait.combinations(S(a["s"]), opt(a["r"])), None
    if fn == "combinations_with_replacement":
        return ait.combinations_with_replacement(S(a["s"]), opt(a["r"])), None
    if fn == "compress":
        return ait.compress(S(a["s"]), S(a["sel"], 1)), None
    if fn == "count":
        return ait.count(**kw_opt("start", a["start"]), **kw_opt("step", a["step"])), a["k"]
    if fn == "cycle":
        return ait.cycle(S(a["s"])), a["k"]
    if fn == "dropwhile":
        return ait.dropwhile(_acb(PRED[a["p"]], mode), S(a["s"])), None
    if fn == "takewhile":
        return ait.takewhile(_acb(PRED[a["p"]], mode), S(a["s"])), None
    if fn == "filterfalse":
        return ait.filterfalse(_acb(PRED[a["p"]], mode), S(a["s"])), None
    if fn == "groupby":
        key = _acb(KEY[a["key"]], mode)
        return (ait.groupby(S(a["s"])) if key is None else ait.groupby(S(a["s"]), key)), None
    if fn == "islice":
        return ait.islice(S(a["s"]), *[opt(x) for x in a["args"]]), None
    if fn == "pairwise":
        return ait.pairwise(S(a["s"])), None
    if fn == "permutations":
        # r omitted: alternate between leaving it out and passing the documented default None
        if not a["r"] and mode in ("list", "agen"):
            return ait.permutations(S(a["s"])), None
        return ait.permutations(S(a["s"]), opt(a["r"])), None
    if fn == "product":
        return ait.product(*[S(s, i) for i, s in enumerate(a["ss"])], **kw_opt("repeat", a["rep"])), None
    if fn == "repeat":
        if not a["times"]:
            return (ait.repeat(a["x"]) if mode in ("list", "agen") else ait.repeat(a["x"], None)), a["k"]
        return ait.repeat(a["x"], opt(a["times"])), None
    if fn == "starmap":
        return ait.starmap(_acb(NARY[a["f"]], mode), _src(a["ss"], mode, 0, deep=True)), None
    if fn == "tee":
        ts = ait.tee(S(a["s"]), *([opt(a["n"])] if a["n"] else []))
        return _tee_lists(ts, round_robin=mode in ("gen", "aiter", "mixed")), None
    if fn == "zip_longest":
        return ait.zip_longest(*[S(s, i) for i, s in enumerate(a["ss"])],
                               **kw_opt("fillvalue", a["fill"])), None
    if fn == "reduce":
        async def one():
            yield await afn.reduce(_acb(BIN[a["f"]], mode), S(a["s"]), *a["init"])
        return one(), None
    raise KeyError(fn)


async def _tee_lists(ts, round_robin: bool):
    """What each of the tee iterators sees: consumed one after the other, or one element in turn."""
    if not round_robin:
        for t in ts:
            yield [x async for x in t]
        return
    outs: list[list] = [[] for _ in ts]
    active = list(range(len(ts)))
    while active:
        for i in list(active):
            try:
                outs[i].append(await anext(ts[i]))
            except StopAsyncIteration:
                active.remove(i)
            if len(outs[i]) > LIMIT:
                raise OverflowError("tee overrun")
    for o in outs:
        yield o


async def aio_outcome(c: dict, mode: str) -> list:
    out: list = []
    err = ""
    it = None
    try:
        it, k = _aio(c["fn"], c["a"], mode)
        bound = LIMIT if k is None else k
        if bound > 0:
            async for x in it:
                out.append(x)
                if len(out) >= bound:
                    if k is None:
                        err = "Overrun"
                    break
    except Exception as exc:  # noqa: BLE001
        err = type(exc).__name__
    finally:
        aclose = getattr(it, "aclose", None)
        if aclose is not None:
            try:
                await aclose()
            except Exception:  # noqa: BLE001
                pass
    return [enc(out), err]


# ---------------------------------------------------------------------------------------------------
# batches (process-pool work items)


def run_batch(batch: dict, *, modes: list[str], backend_options: dict | None = None) -> dict:
    """batch = {"cases": [{"c": case, "r": expected outcome or None}, ...], "record": bool}.

    Runs every case on the stdlib and on anyio with each source mode.  With expectations (the cases
    TLC emitted) returns the mismatches; with record=True returns the canonical outcome strings so
    that TLC can judge them (trace validation).
    """
    import anyio

    cases = batch["cases"]
    record = batch.get("record", False)

    async def main() -> list:
        res = []
        for item in cases:
            res.append({m: await aio_outcome(item["c"], m) for m in modes})
        return res

    aio_res = anyio.run(main, backend="asyncio", backend_options=backend_options or {})
    mismatches = []
    recorded = []
    nontrivial = 0
    for item, ar in zip(cases, aio_res):
        c = item["c"]
        so = std_outcome(c)
        if so[0] or so[1]:
            nontrivial += 1
        if record:
            recorded.append({"c": c, "events": [{"who": "stdlib", "res": canon(so)}] +
                             [{"who": "anyio:" + m, "res": canon(ar[m])} for m in modes]})
            continue
        exp = item["r"]
        if so != exp:
            mismatches.append({"c": c, "who": "stdlib", "exp": exp, "got": so})
            continue
        for m in modes:
            if ar[m] != exp:
                mismatches.append({"c": c, "who": "anyio:" + m, "exp": exp, "got": ar[m], "std": so})
                break
    return {"n": len(cases), "evals": len(cases) * (1 + len(modes)), "nontrivial": nontrivial,
            "mismatches": mismatches, "recorded": recorded}


def run_single(c: dict, modes: list[str]) -> dict:
    """One case, for --replay: {"stdlib": outcome, "anyio:<mode>": outcome, ...}."""
    import anyio

    async def main() -> dict:
        return {"anyio:" + m: await aio_outcome(c, m) for m in modes}

    res = anyio.run(main, backend="asyncio")
    res["stdlib"] = std_outcome(c)
    return res


# ---------------------------------------------------------------------------------------------------
# random longer cases (validated by TLC through T_SeqFns)


def random_case(rng: random.Random) -> dict:
    def seq(lo=5, hi=12, alpha=5):
        return [rng.randint(0, alpha) for _ in range(rng.randint(lo, hi))]

    def o(lo, hi, p_none=0.15):
        return [] if rng.random() < p_none else [rng.randint(lo, hi)]

    fn = rng.choice(FUNCTIONS)
    if fn == "accumulate":
        a = {"s": seq(), "f": rng.choice(["default", "add", "sub", "nc"]), "init": o(0, 9, 0.4)}
    elif fn == "batched":
        a = {"s": seq(), "n": [rng.randint(-1, 7)], "strict": rng.random() < 0.5}
    elif fn in ("chain", "chain_from_iterable"):
        a = {"ss": [seq(0, 6) for _ in range(rng.randint(0, 5))]}
    elif fn == "combinations":
        a = {"s": seq(3, 7), "r": [rng.randint(-1, 4)]}
    elif fn == "combinations_with_replacement":
        a = {"s": seq(2, 5), "r": [rng.randint(-1, 3)]}
    elif fn == "permutations":
        s = seq(2, 5)
        a = {"s": s, "r": o(-1, 4, 0.2)}
    elif fn == "compress":
        a = {"s": seq(), "sel": [rng.choice([0, 0, 1, 2]) for _ in range(rng.randint(3, 14))]}
    elif fn == "count":
        a = {"start": o(-50, 50), "step": o(-9, 9), "k": rng.randint(1, 15)}
    elif fn == "cycle":
        a = {"s": seq(0, 7), "k": rng.randint(0, 25)}
    elif fn in ("dropwhile", "takewhile", "filterfalse"):
        a = {"p": rng.choice(sorted(PRED)), "s": seq()}
    elif fn == "groupby":
        a = {"s": seq(4, 16, 3), "key": rng.choice(sorted(KEY))}
    elif fn == "islice":
        a = {"s": seq(4, 16), "args": [o(-1, 14) for _ in range(rng.choice([1, 2, 2, 3, 3, 3]))]}
    elif fn == "pairwise":
        a = {"s": seq(0, 16)}
    elif fn == "product":
        a = {"ss": [seq(0, 3) for _ in range(rng.randint(0, 3))], "rep": o(-1, 2, 0.3)}
    elif fn == "repeat":
        a = {"x": rng.randint(0, 9), "times": o(-2, 20), "k": rng.randint(1, 20)}
    elif fn == "starmap":
        f = rng.choice(sorted(NARY))
        a = {"f": f, "ss": [seq(2, 2) if f == "add2" and rng.random() < 0.9 else seq(0, 4)
                            for _ in range(rng.randint(0, 8))]}
    elif fn == "tee":
        a = {"s": seq(0, 10), "n": o(-1, 5)}
    elif fn == "zip_longest":
        a = {"ss": [seq(0, 8) for _ in range(rng.randint(0, 4))], "fill": o(6, 9, 0.4)}
    elif fn == "reduce":
        a = {"f": rng.choice(["add", "sub", "nc"]), "s": seq(0, 14), "init": o(0, 9, 0.4)}
    else:
        raise KeyError(fn)
    return {"fn": fn, "a": a}


FUNCTIONS = ["accumulate", "batched", "chain", "chain_from_iterable", "combinations",
             "combinations_with_replacement", "compress", "count", "cycle", "dropwhile", "filterfalse",
             "groupby", "islice", "pairwise", "permutations", "product", "repeat", "starmap",
             "takewhile", "tee", "zip_longest", "reduce"]
