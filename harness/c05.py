"""C05 - leaving a cancel scope leaves no residue in the task or the loop."""

from __future__ import annotations

import dataclasses

from . import tgroups
from .family import ModelCfg, run_family, run_parts
from .scopes import consts, family

OPS = '{"open", "close", "yield", "wait", "cancel", "shield", "probe"}'
OPSD = '{"open", "openm", "close", "yield", "sleep", "cancel", "dline", "probe"}'
FAMILY = family("C05", [
    ModelCfg("c05-n1o5e2", consts(1, 5, 2, '{"open", "close", "yield", "cancel", "probe"}',
                                  cleanups="{0, 1}", pres="{0, 1}"), emit=True, check=False,
             max_scenarios=4000),
    ModelCfg("c05-n2o3e2", consts(2, 3, 2, OPS, cleanups="{0, 1}"), tiers=("quick",), check=False,
             simulate=2000),
    ModelCfg("c05-n1o4e1-dl", consts(1, 4, 1, OPSD, deadlines="{1, 99}", delays="{1, 2}",
                                     via_setter="{0, 1}"),
             tiers=("quick",), check=False, simulate=1500),
    # a deadline assigned before entering / a sleep that outlives the scope: timers must not leak
    ModelCfg("c05-n1o3e0-setter", consts(1, 3, 0, '{"open", "close", "sleep", "yield"}',
                                         deadlines="{1, 2, 99}", delays="{1, 2}", env="{}",
                                         via_setter="{0, 1}"), emit=True, check=False, max_scenarios=3000),
    ModelCfg("c05-n2o4e2", consts(2, 4, 2, OPS, depth=4, cleanups="{0, 1}", pres="{0, 1}"),
             tiers=("thorough",), check=False, simulate=12000, sim_depth=600),
    ModelCfg("c05-n2o3e2x", consts(2, 3, 2, OPS, cleanups="{0, 1}"), tiers=("thorough",), simulate=4000),
    ModelCfg("c05-n2o4e1-dl", consts(2, 4, 1, OPSD, deadlines="{1, 2, 99}", delays="{1, 2}"),
             tiers=("thorough",), check=False, simulate=8000),
])


# the same clause (NoResidue) on task groups: cancellations delivered to children must not be
# "uncancelled" on the host (F11)
TG_OPS = '{"tgopen", "close", "spawn", "raise", "yield"}'
TGPART = dataclasses.replace(
    tgroups.family("C01", [
        ModelCfg("c05-tg-n3o3e1", tgroups.consts(3, 3, 1, TG_OPS, env='{"native"}'), emit=True, check=False,
                 max_scenarios=5000),
        ModelCfg("c05-tg-n3o4e2", tgroups.consts(3, 4, 2, TG_OPS), tiers=("thorough",), check=False,
                 simulate=8000, sim_depth=700),
    ]),
    prop="C05", clauses={"NoResidue"})


def main(tier: str, seed: int) -> int:
    return run_parts("C05", [FAMILY, TGPART], tier, seed)
