"""C16: TLC plumbing - emission runs of the MC modules, batched trace validation with drift."""

from __future__ import annotations

import json
from concurrent.futures import ThreadPoolExecutor
from pathlib import Path

from . import core, tlc

PROP = "C16"
# many single-threaded TLC processes run side by side: keep their GC from fighting for the cores
JVM_ENV = {"JAVA_TOOL_OPTIONS": "-XX:ParallelGCThreads=2 -Xss64m"}


def outdir() -> Path:
    d = core.OUT / PROP
    d.mkdir(parents=True, exist_ok=True)
    return d


def _fmt(v) -> str:
    if isinstance(v, bool):
        return "TRUE" if v else "FALSE"
    return str(v)


def run_model(module: str, name: str, constants: dict, invariants: list[str], marker: str,
              timeout: int = 3000) -> tuple[tlc.TLCResult, list[str]]:
    """Model check spec/<module>.tla with emission on; returns (result, emitted raw lines)."""
    cfg = outdir() / f"{name}.cfg"
    tlc.write_cfg(cfg, constants={k: _fmt(v) for k, v in constants.items()}, view=None,
                  invariants=invariants)
    res = tlc.run_tlc(module, cfg, workers=1, timeout=timeout, tag=f"{PROP}-{name}", marker=marker,
                      keep_output=False, env=JVM_ENV)
    if res.violated or not res.ok:
        raise tlc.TLCError(f"{module}/{name}: the specification itself fails TLC "
                           f"({res.violated}):\n{res.output[-3000:]}")
    return res, res.lines


def validate(tmodule: str, traces: list[dict], *, tag: str, chunk: int = 2000,
             timeout: int = 1800, par: int = 4) -> list[dict]:
    """Validate recorded traces with TLC against spec/<tmodule>.tla (T_ByteWrap / T_TextWrap).

    Each trace is {"id", "events", "params"}; the verdict per trace is
    {"id", "n", "len", "bad": [clause names], "at", "drift"}.  Batches run side by side.
    """
    if not traces:
        return []
    d = core.OUT / "traces"
    d.mkdir(parents=True, exist_ok=True)
    cfg = d / f"{tag}.cfg"
    tlc.write_cfg(cfg, constants={}, spec="TSpec", view=None)
    parts = [traces[i:i + chunk] for i in range(0, len(traces), chunk)]

    def one(idx_part):
        idx, part = idx_part
        f = d / f"{tag}-{idx}.json"
        f.write_text(json.dumps({"traces": [{"events": t["events"], "params": t["params"]}
                                             for t in part]}))
        r = tlc.run_tlc(tmodule, cfg, workers=1, timeout=timeout, env={"TRACE_FILE": str(f), **JVM_ENV},
                        tag=tag, marker="@@V")
        if r.violated:
            raise tlc.TLCError(f"trace spec {tmodule} reported {r.violated}:\n{r.output[-3000:]}")
        byid = {v["tid"]: v for v in tlc.payloads(r.lines, "@@V")}
        out = []
        for k, t in enumerate(part, start=1):
            v = byid.get(k)
            if v is None:
                raise tlc.TLCError(f"no verdict for trace {k} of batch {f}\n{r.output[-3000:]}")
            out.append({"id": t["id"], "n": v["n"], "len": len(t["events"]), "bad": sorted(v["bad"]),
                        "at": v["at"], "drift": v["drift"]})
        f.unlink()
        return out

    with ThreadPoolExecutor(max_workers=min(par, len(parts))) as ex:
        res = list(ex.map(one, enumerate(parts)))
    return [v for part in res for v in part]
