"""Replay on uvloop (no virtual clock, no handle hook): a loop-agnostic *cycle ticker*.

uvloop cannot be stepped handle by handle, so timer-free scenarios are replayed with a `call_soon`
callback that re-arms itself once per loop iteration: environment actions fire in the iteration the
model recorded for them (`cyc`), and the loop counts as idle when a few consecutive iterations pass
without any recorded event (then the controller's `on_idle` runs: quiescent observation, remaining
environment actions, or the end of the run).  Only property-level verdicts are taken from these runs;
no conformance comparison (positions inside an iteration are not controlled).
"""

from __future__ import annotations

import asyncio
from typing import Any, Callable

from . import vloop

IDLE_TICKS = 6


class UVView:
    """What the replay families need from a loop: cycle, nhandles, time(), live_timers()."""

    def __init__(self, loop: asyncio.AbstractEventLoop) -> None:
        self._loop = loop
        self.cycle = 0
        self.nhandles = 0
        self.budget_exceeded = False
        self.deadlocked = False

    def time(self) -> float:
        return 0.0          # timer-free scenarios only

    def live_timers(self) -> int:
        return 0

    def __getattr__(self, name: str) -> Any:
        return getattr(self._loop, name)


_views: dict[int, UVView] = {}


def view(loop: asyncio.AbstractEventLoop) -> Any:
    return loop if isinstance(loop, vloop.VLoop) else _views.get(id(loop), loop)


def run(main: Callable[[], Any], controller: Any, *, eager: bool = False, max_handles: int = 20000,
        **_: Any) -> tuple[UVView, Any, BaseException | None]:
    import uvloop

    loop = uvloop.new_event_loop()
    v = UVView(loop)
    _views[id(loop)] = v
    state = {"last": -1, "idle": 0, "stop": False}
    rec = getattr(controller, "recorder", None)
    error: BaseException | None = None
    result = None

    def tick() -> None:
        if state["stop"]:
            return
        v.cycle += 1
        v.nhandles = v.cycle
        env = getattr(controller, "env", None)
        while env and env[0].get("cyc", 0) + 1 <= v.cycle:
            act = env.pop(0)
            controller.fire(act)
        n = len(rec.events) if rec is not None else 0
        if n == state["last"]:
            state["idle"] += 1
        else:
            state["idle"] = 0
            state["last"] = n
        if state["idle"] >= IDLE_TICKS:
            state["idle"] = 0
            if not controller.on_idle(v):
                v.deadlocked = True
                state["stop"] = True
                task.cancel()
                return
            state["last"] = -1
        if v.cycle > max_handles:
            v.budget_exceeded = True
            state["stop"] = True
            task.cancel()
            return
        loop.call_soon(tick)

    try:
        asyncio.set_event_loop(None)
        task = loop.create_task(main())
        hidden = getattr(controller, "hidden_tasks", None)
        if hidden is not None:
            hidden.add(task)
        loop.call_soon(tick)
        try:
            loop.run_until_complete(task)
            result = task.result() if not task.cancelled() else None
        except asyncio.CancelledError:
            error = vloop.Deadlock() if v.deadlocked else vloop.BudgetExceeded()
        except BaseException as exc:  # noqa: BLE001
            error = exc
    finally:
        state["stop"] = True
        stop = getattr(controller, "on_stop", None)
        if stop is not None:
            stop()
        try:
            pending = [t for t in asyncio.all_tasks(loop) if not t.done()]
            for _i in range(50):
                if not pending:
                    break
                for t in pending:
                    t.cancel()
                try:
                    loop.run_until_complete(asyncio.wait(pending, timeout=1))
                except BaseException:  # noqa: BLE001
                    pass
                pending = [t for t in pending if not t.done()]
        finally:
            _views.pop(id(loop), None)
            loop.close()
    return v, result, error
