"""C01 / C02 / C07: replay of MC_TG scenarios on real anyio task groups, recording P_TG traces.

Task 1 is a natively created root task inside its own CancelScope; tasks 2..NT are spawned on demand
as task-group children (start_soon / start) and run their own scripts.  See spec/MC_TG.tla for the
alphabet.  All observation goes through the public API except the look-up of a child's own TaskHandle
(the `self` of the wrapper coroutine), which is only used to report the handle scope's cancel flag.
"""

from __future__ import annotations

import asyncio
from typing import Any

from . import uvrun, vloop
from .fam_scope import INF, _dl, scenario_of  # noqa: F401  (scenario_of is re-exported)
from .replay import Recorder, ScenarioController, ensure_repo_on_path


class _ClientError(Exception):
    def __init__(self, ident: str) -> None:
        super().__init__(ident)
        self.ident = ident


def run_scenario(scn: dict, *, eager: bool = False, uv: bool = False) -> dict:
    ensure_repo_on_path()
    import anyio
    from anyio.lowlevel import cancel_shielded_checkpoint, checkpoint

    nt = len(scn["tasks"])
    rec = Recorder()
    st: dict[str, Any] = {"stk": {t: [] for t in range(1, nt + 1)}, "inop": set(), "groups": {},
                          "gk": {t: 0 for t in range(1, nt + 1)}, "gscope": {}, "handles": {},
                          "members": {}, "tasks": {}, "spawned": [1], "ndone": 0, "lastdone": 0}

    def stamp() -> dict:
        loop = st["loop"]
        return {"now": int(loop.time()), "cyc": loop.cycle}

    def emit(**ev: Any) -> None:
        rec.emit(**ev, **stamp())

    def is_anyio_cancel(exc: BaseException) -> bool:
        return bool(exc.args) and isinstance(exc.args[0], str) and \
            exc.args[0].startswith("Cancelled via cancel scope")

    def exc_name(exc: BaseException | None) -> str:
        if exc is None:
            return "none"
        if isinstance(exc, asyncio.CancelledError):
            return "cancel" if is_anyio_cancel(exc) else "native"
        return "err"

    def res_name(exc: BaseException | None) -> str:
        return {"none": "ok", "cancel": "cancelled", "native": "native", "err": "err"}[exc_name(exc)]

    def raised_name(exc: BaseException | None) -> str:
        if exc is None:
            return "none"
        if isinstance(exc, asyncio.CancelledError):
            return "cancel" if is_anyio_cancel(exc) else "native"
        return "group" if isinstance(exc, BaseExceptionGroup) else "err"

    def leaves(exc: BaseException | None) -> list[str]:
        if exc is None or isinstance(exc, asyncio.CancelledError):
            return []
        if isinstance(exc, BaseExceptionGroup):
            out: list[str] = []
            for e in exc.exceptions:
                out.extend(["CANCEL"] if isinstance(e, asyncio.CancelledError) else leaves(e))
            return out
        if isinstance(exc, _ClientError):
            return [exc.ident]
        return [type(exc).__name__]

    def cc(t: int) -> list[int]:
        out = []
        for (s, _n, kind) in st["stk"][t]:
            if kind == "handle":
                h = s
                out.append(-1 if h is None else (1 if h.status.name in ("CANCELLING", "CANCELLED") else 0))
            elif kind == "group":
                out.append(1 if s.cancel_scope.cancel_called else 0)
            else:
                out.append(1 if s.cancel_called else 0)
        return out

    def gc() -> list[dict]:
        # the library-cancelled scopes whose cancel flag the public API shows: active groups' scopes and
        # the handle scopes of the running children (TaskHandle.status)
        out = [{"t": u, "n": st["gscope"][u], "c": 1 if tg.cancel_scope.cancel_called else 0}
               for u, tg in sorted(st["groups"].items())]
        for c in sorted(st["stk"]):
            stk = st["stk"][c]
            if stk and stk[0][2] == "handle" and stk[0][0] is not None:
                out.append({"t": c, "n": stk[0][1],
                            "c": 1 if stk[0][0].status.name in ("CANCELLING", "CANCELLED") else 0})
        return out

    def gid(u: int) -> int:
        return 10 * u + st["gk"][u]

    def fire(act: dict) -> None:
        t = act["t"]
        if act["c"] == "cancel":
            if st["tasks"][1].done():
                return      # (drifted run) nothing to cancel any more
            if st["stk"][1]:
                emit(ev="cancel", t=1, n=1)
            st["rootscope"].cancel()
        elif act["c"] == "native":
            task = st["tasks"].get(t)
            if task is not None and not task.done():
                emit(ev="native", t=t)
                task.cancel()
        else:  # pragma: no cover
            raise ValueError(act)

    def task_out(t: int) -> str:
        task = st["tasks"].get(t)
        if t not in st["spawned"]:
            return "unspawned"
        if task is None or not task.done():
            return "blocked"
        if task.cancelled():
            try:
                task.result()
            except asyncio.CancelledError as exc:
                return "cancelled" if is_anyio_cancel(exc) else "native"
        return "err" if task.exception() is not None else "ok"

    def quiescent() -> None:
        loop = st["loop"]
        alldone = all(task_out(t) not in ("blocked",) for t in st["spawned"])
        emit(ev="quiescent", blocked=sorted(st["inop"]), timers=loop.live_timers() if not alldone else 0,
             alldone=1 if alldone else 0, tail=0, late=0)
        if alldone and not st["fut"].done():
            st["final"] = {"nh": loop.nhandles, "out": [task_out(t) for t in range(1, nt + 1)],
                           "nc": [st["tasks"][t].cancelling() if t in st["tasks"] else 0
                                  for t in range(1, nt + 1)]}
            st["fut"].set_result(None)

    class Ctl(ScenarioController):
        def on_idle(self, loop: vloop.VLoop) -> bool:
            alldone = all(task_out(t) != "blocked" for t in st["spawned"])
            if self.quiescent_at != loop.nhandles or alldone:
                self.quiescent_at = loop.nhandles
                quiescent()
                if alldone:
                    return True
            if self.env:
                return self._fire_due(max(loop.nhandles, self.env[0]["at"]))
            return False

    ctl = Ctl(scn["env"], fire, None)
    ctl.recorder = rec

    async def run_script(t: int, task_status: Any = None) -> int:
        """The user-level coroutine of task t: executes its script; returns 200 + t."""
        task = asyncio.current_task()
        assert task is not None
        script = scn["tasks"][str(t)]
        pos = [0]
        stk = st["stk"][t]
        nsc = [1]            # scope n = 1 is the task / handle scope
        nerr = [0]
        nstarted = [0]

        async def aop(name: str, coro: Any) -> None:
            emit(ev="opstart", t=t, op=name)
            st["inop"].add(t)
            try:
                await coro
            except BaseException as exc:
                st["inop"].discard(t)
                emit(ev="opend", t=t, op=name, res=res_name(exc), cc=cc(t), gc=gc())
                raise
            st["inop"].discard(t)
            emit(ev="opend", t=t, op=name, res="ok", cc=cc(t), gc=gc())

        def caller_pending(c: int) -> int:
            u = st.get("starter", {}).get(c)
            tu = st["tasks"].get(u) if u else None
            if tu is None or tu.done():
                return 0
            for info in anyio.get_running_tasks():
                if info.id == id(tu):
                    return 1 if info.has_pending_cancellation() else 0
            return 0

        def next_child() -> int | None:
            for c in range(2, nt + 1):
                if c not in st["spawned"]:
                    return c
            return None

        async def block() -> bool:
            while pos[0] < len(script):
                c, a, b, d = script[pos[0]]
                pos[0] += 1
                if c == "end":
                    pos[0] = len(script)
                    return True
                if c == "close":
                    if len(stk) <= 1:
                        continue
                    return False
                if c == "open":
                    if await scope_block(a, d):
                        return True
                elif c == "tgopen":
                    if await group_block():
                        return True
                elif c == "spawn":
                    tg = st["groups"].get(a)
                    ch = next_child()
                    if tg is None or ch is None:
                        continue
                    st["spawned"].append(ch)
                    st["members"].setdefault(gid(a), []).append(ch)
                    emit(ev="spawn", g=gid(a), c=ch, via="soon", by=t)
                    st["handles"][ch] = tg.start_soon(child_main, ch, name=f"t{ch}")
                elif c == "start":
                    tg = st["groups"].get(a)
                    ch = next_child()
                    if tg is None or ch is None:
                        continue
                    st["spawned"].append(ch)
                    g = gid(a)
                    st["members"].setdefault(g, []).append(ch)
                    st.setdefault("starter", {})[ch] = t
                    emit(ev="spawn", g=g, c=ch, via="start", by=t)
                    try:
                        handle = await tg.start(child_main, ch, name=f"t{ch}", return_handle=True)
                    except BaseException as exc:  # noqa: BLE001
                        task_c = st["tasks"].get(ch)
                        emit(ev="startret", t=t, c=ch, res=res_name(exc), val=0, leaves=leaves(exc),
                             cdone=1 if (task_c is not None and task_c.done()) else 0,
                             gcalled=1 if tg.cancel_scope.cancel_called else 0)
                        raise
                    st["handles"][ch] = handle
                    task_c = st["tasks"].get(ch)
                    emit(ev="startret", t=t, c=ch, res="ok", val=handle.start_value, leaves=[],
                         cdone=1 if (task_c is not None and task_c.done()) else 0,
                         gcalled=1 if tg.cancel_scope.cancel_called else 0)
                elif c == "started":
                    if task_status is None or nstarted[0] >= 2:
                        continue
                    nstarted[0] += 1
                    cpc = caller_pending(t)
                    try:
                        task_status.started(100 + t)
                    except RuntimeError:
                        emit(ev="started", c=t, v=100 + t, res="err", cpc=cpc)
                        raise
                    emit(ev="started", c=t, v=100 + t, res="ok", cpc=cpc)
                elif c == "hcancel":
                    h = st["handles"].get(a) or st.get("ownhandle", {}).get(a)
                    if h is not None:
                        if a in st["tasks"]:
                            emit(ev="cancel", t=a, n=1)
                        h.cancel()
                elif c == "yield":
                    await aop("yield", checkpoint())
                elif c == "wait":
                    await aop("wait", st["event"].wait())
                elif c == "set":
                    st["event"].set()
                elif c == "cancel":
                    target = st["stk"][a]
                    if b <= len(target):
                        s, n, kind = target[b - 1]
                        if kind in ("task", "plain", "group"):
                            emit(ev="cancel", t=a, n=n)
                            (s.cancel_scope if kind == "group" else s).cancel()
                elif c == "shield":
                    if a <= len(stk) and stk[a - 1][2] == "plain":
                        s, n, _k = stk[a - 1]
                        emit(ev="setshield", t=t, n=n, v=b)
                        s.shield = bool(b)
                elif c == "raise":
                    ident = f"E{10 * t + nerr[0]}"
                    nerr[0] += 1
                    raise _ClientError(ident)
                else:  # pragma: no cover
                    raise ValueError(c)
            return True

        async def scope_block(a: int, d: int) -> bool:
            nsc[0] += 1
            n = nsc[0]
            pre, cl = d % 2, d // 2
            scope = anyio.CancelScope(shield=bool(a))
            if pre:
                scope.cancel()
            nc0 = task.cancelling()
            scope.__enter__()
            stk.append((scope, n, "plain"))
            emit(ev="enter", t=t, n=n, shield=a, dl=INF, called=pre, kind="plain", nc=nc0)
            exc: BaseException | None = None
            ended = False
            try:
                ended = await block()
            except BaseException as e:  # noqa: BLE001
                exc = e
            if cl and isinstance(exc, asyncio.CancelledError):
                try:
                    await cancel_shielded_checkpoint()
                except BaseException as e2:  # noqa: BLE001
                    exc = e2
            called = scope.cancel_called
            out: BaseException | None = exc
            try:
                if scope.__exit__(type(exc) if exc else None, exc, exc.__traceback__ if exc else None):
                    out = None
            except BaseException as e3:  # noqa: BLE001
                out = e3
            stk.pop()
            emit(ev="exit", t=t, n=n, ein=exc_name(exc), eout=exc_name(out),
                 caught=1 if scope.cancelled_caught else 0, called=1 if called else 0,
                 nc=task.cancelling(), timeout=0, gc=gc())
            if out is not None:
                raise out
            return ended

        async def group_block() -> bool:
            if t in st["groups"]:
                return False
            nsc[0] += 1
            n = nsc[0]
            st["gk"][t] += 1
            g = gid(t)
            tg = anyio.create_task_group()
            nc0 = task.cancelling()
            await tg.__aenter__()
            st["groups"][t] = tg
            st["gscope"][t] = n
            st["members"].setdefault(g, [])
            stk.append((tg, n, "group"))
            emit(ev="tgenter", t=t, g=g, n=n, nc=nc0)
            exc: BaseException | None = None
            ended = False
            try:
                ended = await block()
            except BaseException as e:  # noqa: BLE001
                exc = e
            if exc is not None:
                emit(ev="bodyexc", g=g, how=exc_name(exc), leaves=leaves(exc))
            out: BaseException | None = exc
            try:
                if await tg.__aexit__(type(exc) if exc else None, exc, exc.__traceback__ if exc else None):
                    out = None
            except BaseException as e3:  # noqa: BLE001
                out = e3
            stk.pop()
            del st["groups"][t]
            hs = []
            for ch in st["members"][g]:
                h = st["handles"].get(ch)
                if h is None:
                    continue
                status = h.status.name.lower()
                rec_h = {"c": ch, "status": status, "val": 0, "exc": []}
                if status == "finished":
                    rec_h["val"] = h.return_value
                elif status == "failed":
                    rec_h["exc"] = leaves(h.exception)
                hs.append(rec_h)
            emit(ev="tgexit", t=t, g=g, raised=raised_name(out), leaves=leaves(out), handles=hs, gc=gc(),
                 cc=cc(t))
            if out is not None:
                raise out
            return ended

        await block()
        return 200 + t

    async def child_main(c: int, *, task_status: Any = None) -> int:
        task = asyncio.current_task()
        assert task is not None
        st["tasks"][c] = task
        own = None
        try:  # the TaskHandle of this child: `self` of the wrapper coroutine TaskHandle._run_coro
            own = task.get_coro().cr_frame.f_locals.get("self")  # type: ignore[union-attr]
            if type(own).__name__ != "TaskHandle":
                own = None
        except Exception:  # noqa: BLE001
            own = None
        st.setdefault("ownhandle", {})[c] = own
        host = next(u for u, tg in st["groups"].items()
                    if c in st["members"].get(10 * u + st["gk"][u], []))
        emit(ev="root", t=c, rt=host, rn=st["gscope"][host])
        st["stk"][c].append((own, 1, "handle"))
        emit(ev="enter", t=c, n=1, shield=0, dl=INF,
             called=1 if (own is not None and own.status.name == "CANCELLING") else 0,
             kind="handle", nc=task.cancelling())
        try:
            val = await run_script(c, task_status)
        except BaseException as exc:
            emit(ev="taskend", c=c, how=res_name(exc), leaves=leaves(exc), val=0)
            raise
        emit(ev="taskend", c=c, how="ok", leaves=[], val=val)
        return val

    def child_done(c: int, task: asyncio.Task) -> None:
        pass

    async def root_main() -> None:
        task = asyncio.current_task()
        assert task is not None
        scope = st["rootscope"]
        nc0 = task.cancelling()
        pre = 1 if scope.cancel_called else 0
        exc: BaseException | None = None
        scope.__enter__()
        st["stk"][1].append((scope, 1, "task"))
        emit(ev="enter", t=1, n=1, shield=0, dl=INF, called=pre, kind="task", nc=nc0)
        try:
            await run_script(1)
        except BaseException as e:  # noqa: BLE001
            exc = e
        called = scope.cancel_called
        out: BaseException | None = exc
        try:
            if scope.__exit__(type(exc) if exc else None, exc, exc.__traceback__ if exc else None):
                out = None
        except BaseException as e3:  # noqa: BLE001
            out = e3
        st["stk"][1].pop()
        emit(ev="exit", t=1, n=1, ein=exc_name(exc), eout=exc_name(out),
             caught=1 if scope.cancelled_caught else 0, called=1 if called else 0,
             nc=task.cancelling(), timeout=0, gc=gc())
        if out is not None:
            raise out

    async def main() -> None:
        loop = st["loop"] = uvrun.view(asyncio.get_running_loop())
        st["event"] = anyio.Event()
        st["rootscope"] = anyio.CancelScope()
        st["fut"] = loop.create_future()
        task = loop.create_task(root_main(), name="t1")
        task.add_done_callback(lambda f: f.exception() if not f.cancelled() else None)
        st["tasks"][1] = task
        await st["fut"]

    loop, _res, err = (uvrun.run if uv else vloop.run)(main, ctl, eager=eager, max_handles=5000)
    rec.closed = True
    flags = {"deadlock": isinstance(err, vloop.Deadlock), "budget": loop.budget_exceeded,
             "error": None if err is None or isinstance(err, (vloop.Deadlock, vloop.BudgetExceeded))
             else repr(err)}
    return {"events": rec.events, "final": st.get("final"), "flags": flags, "params": {"nt": nt}}
