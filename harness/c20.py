"""C20 - async lru_cache: right value, single flight, bounded retention.

1. TLC model-checks MC_C20 (AioCache = the pinned __call__ on the kernel model, observer P_Cache as
   ghost state): PropertyHolds (no clause fails outside the known-finding shapes) and the
   implementation-level invariants, in every reachable state of the bounded configurations.
2. The same runs print the environment's choices of every behaviour (exhaustively: one history per
   choice edge of the state graph; -simulate for the larger configurations).
3. Every history is replayed on the real anyio.functools.lru_cache on the controlled loop
   (harness/c20_run.py); seeded random long histories are added.
4. TLC validates every recorded trace against P_Cache (T_Cache).  A failing clause is a VIOLATION
   unless P_Cache classified it as one of the known-finding shapes of F3.
5. cache_info(), dict order and handle counts are compared with the model's (drift, never a verdict).
"""

from __future__ import annotations

import json
import os
import random
from concurrent.futures import ThreadPoolExecutor
from dataclasses import dataclass, field
from pathlib import Path
from typing import Any

from . import core, replay as rp, tlc

PROP = "C20"
NOMAX = 99
NOTTL = 99

# signature -> text; used only while /verif/known_findings.json has no entry with that signature
FALLBACK_KNOWN = {
    "KeyErrorAfterInFlightEviction":
        "lru_cache (F3a): a caller that waited on a key's lock (or yielded while taking it) gets KeyError "
        "because a miss on another key evicted that key's entry meanwhile - the in-flight placeholder "
        "(popitem(last=False) takes whatever is first) or the just-stored result - and "
        "cache_entry[key] is read without tolerance after the wait",
    "RetentionAboveMaxsizeAfterConcurrentMisses":
        "lru_cache (F3b): misses that overlap at a full cache evict placeholders instead of results, the "
        "evicted placeholders' results are re-inserted on completion: more than maxsize results stay "
        "retained (cache_info().currsize says otherwise), a failed call leaves its placeholder and its "
        "count behind, and later evictions / hits no longer follow LRU order",
    "ConcurrentExecutionsAfterInFlightEviction":
        "lru_cache (F3, single flight): once the placeholder of an execution in flight has been evicted "
        "(by a miss on another key at a full cache, or by the retry after a failed call popping its own "
        "placeholder), a new caller of the same key installs a second placeholder and the wrapped "
        "function runs twice concurrently for equal arguments",
    "ExpiredEntryKeepsLruPosition":
        "lru_cache (ttl): an expired entry is recomputed in place (cache_entry[key] = ... on an existing "
        "key) and keeps its old position in the OrderedDict, so the most recently recomputed key is "
        "evicted before less recently used ones",
}
SIGS = set(FALLBACK_KNOWN)

ASSUME = [
    "CPython 3.12 asyncio semantics (FIFO call_soon, C Task) are environment, not verified",
    "exhaustive only within the stated constants (callers in flight, calls, keys, environment actions)",
    "replay on the stock SelectorEventLoop-derived controlled loop; uvloop and trio not covered",
    "maxsize=0 is read as 'no caching' (as functools does): concurrent equal calls are passed through, "
    "SingleFlight is not demanded there",
    "the order of use is concluded only from calls that do not overlap (a call uses its key somewhere "
    "between its start and its return)",
    "retention is measured with weak references after gc.collect() at idle points of the loop",
    "cache_info() counters and the dict order are compared with the model only (drift), they are not "
    "part of the statement",
]

INVARIANTS = ["PropertyHolds", "TypeOK", "EntryShape", "NoLiveWaiterOnFreeLock", "Residue"]


def consts(nt: int, ms: int, ttl: int, cp: bool, nk: int, calls: int, env: int, ticks: int, kinds: str,
           warm: int = 0, at: str = "idle") -> dict[str, str]:
    return {"NT": str(nt), "INF": "99", "MaxSize": str(ms), "Ttl": str(ttl),
            "AlwaysCp": "TRUE" if cp else "FALSE", "NK": str(nk), "MaxLocks": str(calls + warm + 1),
            "MaxCalls": str(calls), "MaxEnv": str(env), "MaxTicks": str(ticks),
            "EnvKinds": "{" + ", ".join(f'"{k}"' for k in kinds.split()) + "}", "Warm": str(warm),
            "EnvAt": f'"{at}"'}


@dataclass
class Cfg:
    name: str
    c: dict[str, str]
    tiers: tuple[str, ...] = ("quick", "thorough")
    mode: str = "emit"            # emit: exhaustive + every choice edge; sim: -simulate; check: exhaustive only
    nsim: int = 0
    cap: int | None = None        # max scenarios replayed (sampled by seed)
    argmode: str = "plain"
    workers: int | str = 1
    timeout: int = 1500
    extra: dict[str, Any] = field(default_factory=dict)

    @property
    def kw(self) -> dict[str, Any]:
        return {"maxsize": int(self.c["MaxSize"]), "ttl": int(self.c["Ttl"]),
                "always_cp": self.c["AlwaysCp"] == "TRUE", "argmode": self.argmode}


Q, T = ("quick",), ("thorough",)
CONFIGS = [
    # F3 shapes: full cache of size 1, two keys, three callers in flight
    Cfg("f3-m1", consts(3, 1, NOTTL, False, 2, 3, 5, 0, "ok fail"), cap=1500),
    # LRU order and eviction after a warm-up of two keys, third key arrives
    Cfg("lru-m2", consts(2, 2, NOTTL, False, 3, 3, 5, 0, "ok", warm=2), cap=1500, argmode="typed"),
    # single flight with failures and cancellations, unbounded cache, one key
    Cfg("flight", consts(3, NOMAX, NOTTL, False, 1, 3, 5, 0, "ok fail cancel"), cap=1500, argmode="mixed"),
    # ttl
    Cfg("ttl-m2", consts(2, 2, 1, False, 2, 2, 5, 2, "ok", warm=1), cap=1200),
    # always_checkpoint: hit and miss interleave handle by handle
    Cfg("cp-m2", consts(2, 2, NOTTL, True, 3, 2, 3, 0, "ok", warm=2, at="any"), cap=1200),
    Cfg("zero", consts(2, 0, NOTTL, False, 1, 3, 5, 0, "ok fail"), cap=600),
    Cfg("native", consts(2, NOMAX, NOTTL, False, 1, 2, 4, 0, "ok cancel native", at="any"), cap=800),
    # larger configurations, sampled
    Cfg("sim-m2", consts(4, 2, NOTTL, False, 3, 6, 10, 0, "ok fail cancel"), tiers=Q, mode="sim", nsim=250),
    Cfg("sim-ttl", consts(3, 1, 1, True, 2, 5, 9, 2, "ok fail"), tiers=Q, mode="sim", nsim=150),
    # thorough: deeper exhaustive configurations
    Cfg("f3-m1-any", consts(3, 1, NOTTL, False, 2, 4, 6, 0, "ok fail cancel", at="any"), tiers=T,
        mode="check", workers=8, timeout=3000),
    Cfg("f3-m2", consts(3, 2, NOTTL, False, 3, 3, 6, 0, "ok fail", warm=1), tiers=T, cap=2000),
    Cfg("lru-m2-x", consts(3, 2, NOTTL, False, 3, 4, 6, 0, "ok fail", warm=2), tiers=T, mode="check",
        workers=6, timeout=3000),
    Cfg("flight-x", consts(4, NOMAX, NOTTL, False, 1, 4, 7, 0, "ok fail cancel"), tiers=T, cap=2000,
        argmode="mixed"),
    Cfg("ttl-m1", consts(3, 1, 1, False, 2, 3, 6, 2, "ok fail", warm=1), tiers=T, cap=2000),
    Cfg("cp-m1", consts(3, 1, NOTTL, True, 2, 3, 4, 0, "ok fail", warm=1, at="any"), tiers=T, cap=2000),
    Cfg("ttl-ord", consts(2, 2, 1, False, 3, 2, 5, 1, "ok", warm=2), tiers=T, cap=1500),
    Cfg("cp-ttl", consts(2, 2, 1, True, 2, 3, 5, 1, "ok", warm=1), tiers=T, cap=1500),
    Cfg("sim-m2x", consts(4, 2, NOTTL, False, 3, 7, 12, 0, "ok fail cancel"), tiers=T, mode="sim", nsim=1500),
    Cfg("sim-m1cp", consts(4, 1, NOTTL, True, 3, 6, 10, 0, "ok fail cancel", at="any"), tiers=T, mode="sim",
        nsim=1000),
    Cfg("sim-ttlx", consts(4, 2, 1, False, 3, 7, 12, 3, "ok fail cancel"), tiers=T, mode="sim", nsim=1000),
    Cfg("sim-none", consts(4, NOMAX, 1, True, 2, 7, 12, 2, "ok fail cancel native", at="any"), tiers=T,
        mode="sim", nsim=800, argmode="mixed"),
]
# the model must reproduce the pinned defects: TLC has to refute these on (name of config, invariant)
REPRODUCE = [("f3-m1", "NoKeyErrorFinding", ("quick", "thorough")),
             ("f3-m1", "NoTwiceFinding", ("thorough",)),
             ("f3-m1", "NoRetentionFinding", ("thorough",)),
             ("ttl-ord", "NoTtlOrderFinding", ("thorough",))]

RANDOM_KW = [
    {"maxsize": 2, "ttl": NOTTL, "always_cp": False, "argmode": "plain"},
    {"maxsize": 1, "ttl": NOTTL, "always_cp": True, "argmode": "plain"},
    {"maxsize": NOMAX, "ttl": NOTTL, "always_cp": False, "argmode": "mixed"},
    {"maxsize": 3, "ttl": 1, "always_cp": False, "argmode": "typed"},
    {"maxsize": NOMAX, "ttl": 1, "always_cp": True, "argmode": "plain"},
    {"maxsize": 0, "ttl": NOTTL, "always_cp": False, "argmode": "plain"},
    {"maxsize": 128, "ttl": NOTTL, "always_cp": False, "argmode": "plain"},
]


def random_scenario(rng: random.Random, ttl: bool, nbatches: int) -> dict:
    """A long history made of batches fired whenever the loop is idle (symbolic targets: the
    harness picks the n-th open gate / busy caller)."""
    env: list[dict] = []
    for b in range(1, nbatches + 1):
        at = b * 100000
        for _ in range(rng.choice((1, 1, 2, 2, 3))):
            r = rng.random()
            if r < 0.42:
                env.append({"c": "call", "t": 0, "k": rng.randint(1, 3), "at": at})
            elif r < 0.74:
                env.append({"c": "ok", "t": 0, "k": -rng.randint(0, 3), "at": at})
            elif r < 0.82:
                env.append({"c": "fail", "t": 0, "k": -rng.randint(0, 3), "at": at})
            elif r < 0.90:
                env.append({"c": "cancel", "t": -rng.randint(0, 3), "k": 0, "at": at})
            elif ttl:
                env.append({"c": "tick", "t": 0, "k": 0, "at": at})
    return {"env": env}


def _tlc_job(cfg: Cfg, seed: int, cfgdir: Path) -> dict:
    base = dict(constants=cfg.c, view="View", invariants=INVARIANTS)
    if cfg.mode == "check":
        p = cfgdir / f"{cfg.name}.cfg"
        tlc.write_cfg(p, **base)
        r = tlc.run_tlc("MC_C20", p, workers=cfg.workers, timeout=cfg.timeout, tag=f"C20-{cfg.name}")
        hs, fs = [], []
    elif cfg.mode == "emit":
        p = cfgdir / f"{cfg.name}-emit.cfg"
        tlc.write_cfg(p, **base, action_constraints=["EmitAC"])
        r = tlc.run_tlc("MC_C20", p, workers=1, timeout=cfg.timeout, tag=f"C20-{cfg.name}", keep_output=True)
        hs, fs = tlc.payloads(r.lines, "@@H"), tlc.payloads(r.lines, "@@F")
    else:
        p = cfgdir / f"{cfg.name}-sim.cfg"
        tlc.write_cfg(p, **base, action_constraints=["EmitFinalAC"])
        r = tlc.run_tlc("MC_C20", p, workers=1, timeout=cfg.timeout, simulate=f"num={cfg.nsim}", depth=600,
                        seed=seed * 7919 + 17, tag=f"C20-{cfg.name}", keep_output=True)
        hs, fs = [], tlc.payloads(r.lines, "@@F")
    if r.violated:
        raise tlc.TLCError(f"model MC_C20/{cfg.name} violates {r.violated}\n" + r.output[-3000:])
    r.output = ""
    r.lines = []
    # keep only what is replayed: maximal histories (sampled by seed when capped) and their finals
    lv = rp.leaves(hs + [f["h"] for f in fs])
    if cfg.cap is not None and len(lv) > cfg.cap:
        lv = random.Random(f"{seed}-{cfg.name}").sample(lv, cfg.cap)
    keep = {json.dumps(h, sort_keys=True) for h in lv}
    finals = {}
    for f in fs:
        k = json.dumps(f["h"], sort_keys=True)
        if k in keep:
            finals[k] = f["fin"]
    return {"cfg": cfg, "res": r, "lv": lv, "finals": finals, "nedges": len(hs), "nfinals": len(fs)}


def _reproduce_job(cfg: Cfg, inv: str, cfgdir: Path) -> dict:
    p = cfgdir / f"{cfg.name}-{inv}.cfg"
    tlc.write_cfg(p, constants=cfg.c, view="View", invariants=[inv])
    r = tlc.run_tlc("MC_C20", p, workers=2, timeout=cfg.timeout, tag=f"C20-{inv}")
    return {"inv": inv, "cfg": cfg.name, "refuted": r.violated == inv, "states": r.distinct, "res": r}


def _scenario(hist: list[dict]) -> dict:
    return {"env": sorted(hist, key=lambda a: a["at"])}    # stable: same position keeps history order


def judge(verdict: dict, flags: dict) -> tuple[set[str], set[str]]:
    """(violated clauses, known-finding signatures) of one validated trace."""
    bad = set(verdict["bad"])
    return bad - SIGS, bad & SIGS


def report_known(rep: core.Report, sig: str, replay_dict: dict) -> None:
    listed = {f.get("signature") for f in core.known_findings(PROP)}
    if sig in listed:
        rep.violation(sig, replay_dict, signature=sig)
    elif FALLBACK_KNOWN[sig] not in rep.known_hits:
        rep.known_hits.append(FALLBACK_KNOWN[sig])


def _procs() -> int:
    try:
        return 16 if os.getloadavg()[0] < 12 else 6
    except OSError:
        return 8


def main(tier: str, seed: int) -> int:
    import time
    rep = core.Report(PROP, tier, seed)
    t_phase = time.time()
    phases: dict[str, float] = {}

    def phase(name: str) -> None:
        nonlocal t_phase
        phases[name] = round(time.time() - t_phase, 1)
        t_phase = time.time()

    rep.assumptions += ASSUME
    rng = random.Random(seed)
    cfgdir = core.OUT / PROP
    cfgdir.mkdir(parents=True, exist_ok=True)
    todo = [c for c in CONFIGS if tier in c.tiers]
    byname = {c.name: c for c in CONFIGS}
    par = 8 if tier == "quick" else 6
    with ThreadPoolExecutor(max_workers=par) as pool:
        futs = [pool.submit(_tlc_job, c, seed, cfgdir) for c in todo]
        rfuts = [pool.submit(_reproduce_job, byname[n], inv, cfgdir) for n, inv, tiers in REPRODUCE
                 if tier in tiers]
        jobs = [f.result() for f in futs]
        repro = [f.result() for f in rfuts]

    phase("tlc_model_runs")
    for r in repro:
        if not r["refuted"]:
            raise tlc.TLCError(f"the model no longer reproduces the pinned defect: {r['inv']} holds in "
                               f"{r['cfg']}")
    rep.extra["pinned_defects_reproduced_by_model"] = [
        {"config": r["cfg"], "refuted_invariant": r["inv"]} for r in repro]

    scenarios: list[dict] = []     # {"scn", "kw", "fin", "src"}
    seen: set[str] = set()
    for j in jobs:
        cfg: Cfg = j["cfg"]
        r = j["res"]
        if cfg.mode == "sim":
            rep.models.append({"model": f"MC_C20/{cfg.name}", "mode": "simulate", "behaviours": cfg.nsim,
                               "complete_histories": j["nfinals"], "wall_s": round(r.wall_s, 1),
                               "constants": cfg.c})
        else:
            rep.add_model(f"MC_C20/{cfg.name}", r, constants=cfg.c,
                          mode="exhaustive" + ("+emit" if cfg.mode == "emit" else ""))
        finals, lv = j["finals"], j["lv"]
        rep.extra["choice_edges_emitted"] = rep.extra.get("choice_edges_emitted", 0) + j["nedges"]
        for h in lv:
            key = json.dumps([h, cfg.kw], sort_keys=True)
            if key in seen:
                continue
            seen.add(key)
            scenarios.append({"scn": _scenario(h), "kw": cfg.kw,
                              "fin": finals.get(json.dumps(h, sort_keys=True)),
                              "src": f"{cfg.name}:{'simulate' if cfg.mode == 'sim' else 'graph'}"})
    nmodel = len(scenarios)
    nrand = 400 if tier == "quick" else 3000
    for i in range(nrand):
        kw = RANDOM_KW[i % len(RANDOM_KW)]
        scenarios.append({"scn": random_scenario(rng, kw["ttl"] != NOTTL, rng.randint(6, 16)), "kw": kw,
                          "fin": None, "src": "random"})

    # replay on the real code (the parsed TLC output is dropped first: the workers are forked)
    del jobs, futs
    import gc
    gc.collect()
    results = rp.pmap("harness.c20_run", "run_item", [{"scn": s["scn"], "kw": s["kw"]} for s in scenarios],
                      procs=_procs(), chunk=100)
    phase("replay")
    traces = []
    for i, r in enumerate(results):
        if "machinery_error" in r:
            raise tlc.TLCError("replay failed: " + r["machinery_error"])
        if r["flags"].get("error"):
            raise tlc.TLCError(f"replay failed: {r['flags']['error']} in {scenarios[i]}")
        traces.append({"id": i, "events": r["events"], "params": r["params"]})

    verdicts = tlc.validate_traces("T_Cache", traces, tag="C20-T_Cache", chunk=3000)
    rep.traces += len(verdicts)
    phase("tlc_trace_validation")
    rep.extra["phase_wall_s"] = phases
    counts: dict[str, int] = {}
    nontrivial = skipped = 0
    for v in verdicts:
        i = v["id"]
        s, r = scenarios[i], results[i]
        if sum(1 for e in r["events"] if e["ev"] == "xstart") >= 2:
            nontrivial += 1
        skipped += r["flags"].get("skipped", 0) if s["src"] != "random" else 0
        rd = {"scenario": s["scn"], "kw": s["kw"], "src": s["src"], "trace": r["events"],
              "failing_event_index": v["at"], "clauses": v["bad"], "internal": r["flags"].get("internal")}
        if r["flags"].get("budget"):
            rep.violation("handle budget exceeded: the program never became idle", rd, signature="budget")
            continue
        other, known = judge(v, r["flags"])
        for k in known:
            counts[k] = counts.get(k, 0) + 1
        if other:
            ev = r["events"][v["at"] - 1] if 0 < v["at"] <= len(r["events"]) else None
            rep.violation(f"clause {','.join(sorted(other))} violated at event {v['at']}: {ev}"
                          + (f" (internal error: {r['flags']['internal']})" if r["flags"].get("internal") else ""),
                          rd, signature=",".join(sorted(other)))
            continue
        for k in sorted(known):
            report_known(rep, k, rd)
        if s["fin"] is not None and r.get("final") is not None:
            diffs = [f"{k}: model={s['fin'].get(k)} real={r['final'].get(k)}"
                     for k in ("hits", "misses", "currsize", "ord", "nh", "nx")
                     if not (k == "ord" and r["final"].get(k) is None) and s["fin"].get(k) != r["final"].get(k)]
            if diffs:
                rep.drift += 1
                if rep.drift <= 3:
                    print(f"DRIFT property={PROP} {diffs} scenario={json.dumps(s['scn'])} kw={s['kw']}")
    for i in list(range(0, nmodel, max(1, nmodel // 4)))[:4] + [len(scenarios) - 1]:
        rep.sample({"scenario": scenarios[i]["scn"], "kw": scenarios[i]["kw"], "source": scenarios[i]["src"],
                    "trace": results[i]["events"][:14]})
    rep.evaluations += len(scenarios)
    rep.distinct += nontrivial
    rep.rule = ("scenarios = maximal histories of the environment's choices in the TLA+ model MC_C20 (one per "
                "choice edge of the exhaustive state graphs, -simulate behaviours of the larger configurations), "
                "deduplicated, plus seeded random long histories; non-trivial = the wrapped function was "
                "executed at least twice")
    rep.extra["scenarios_from_model"] = nmodel
    rep.extra["scenarios_random"] = nrand
    rep.extra["scenarios_with_model_final"] = sum(1 for s in scenarios if s["fin"] is not None)
    rep.extra["known_finding_traces"] = counts
    rep.extra["env_actions_skipped_in_model_scenarios"] = skipped
    rep.extra["exhaustive"] = False
    return rep.finish()


def replay(path: str) -> int:
    from . import c20_run

    data = json.loads(Path(path).read_text())
    rd = data["replay"]
    r = c20_run.run_scenario(rd["scenario"], **rd["kw"])
    v = tlc.validate_traces("T_Cache", [{"id": 0, "events": r["events"], "params": r["params"]}],
                            tag="C20-replay")[0]
    other, known = judge(v, r["flags"])
    print(json.dumps({"trace": r["events"], "verdict": v, "flags": r["flags"]}, indent=1))
    if other or r["flags"].get("budget"):
        print(f"VIOLATION property={PROP} replay={path}")
        print(f"  clause {','.join(sorted(other)) or 'budget'} violated at event {v['at']}")
        return 1
    for k in sorted(known):
        print(f"KNOWN-FINDING: property={PROP} {FALLBACK_KNOWN[k]}")
    return 0
