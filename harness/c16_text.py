"""C16, text part: running abstract text cases on the real TextReceiveStream / TextSendStream.

An abstract case (from MC_C16T or from the random generator) is
  {"enc": shape name, "mode": "recv" | "rt", "ws": widths, "bw": BOM width, "lens": lengths}
It is instantiated with a real encoding of that shape and real code points of those widths.
"""

from __future__ import annotations

import random
from typing import Any

from .c16_bytes import _classes, guard

# shape name -> real encodings whose encoded form has exactly this shape
ENCODINGS = {
    "u8": ["utf-8"],
    "u8sig": ["utf-8-sig"],
    "u16": ["utf-16"],
    "u16x": ["utf-16-le", "utf-16-be"],
    "u32": ["utf-32"],
    "u32x": ["utf-32-le", "utf-32-be"],
    "l1": ["latin-1", "cp1252", "ascii"],
}
SHAPES = {"u8": ([1, 2, 3, 4], 0), "u8sig": ([1, 2, 3, 4], 3), "u16": ([2, 4], 2), "u16x": ([2, 4], 0),
          "u32": ([4], 4), "u32x": ([4], 0), "l1": ([1], 0)}

_BMP = [0x61, 0x00, 0x7F, 0x80, 0xE9, 0x7FF, 0x800, 0x20AC, 0xD7FF, 0xE000, 0xFEFF, 0xFFFE, 0xFFFD, 0xFFFF]
_ASTRAL = [0x10000, 0x1F600, 0x10FFFF]
# per family and width: code points of that width; the first two are the boundaries of the range
POOLS = {
    "utf-8": {1: [0x00, 0x7F, 0x61, 0x0A, 0x41], 2: [0x80, 0x7FF, 0xE9, 0xDF, 0x3B1],
              3: [0x800, 0xFFFF, 0xFEFF, 0x20AC, 0xD7FF, 0xE000, 0xFFFD, 0xFFFE],
              4: [0x10000, 0x10FFFF, 0x1F600, 0xFFFFF]},
    "utf-16": {2: _BMP, 4: _ASTRAL},
    "utf-32": {4: _BMP + _ASTRAL},
    "latin-1": {1: [0x00, 0xFF, 0x61, 0x7F, 0x80, 0xE9]},
    "cp1252": {1: [0x00, 0xFF, 0x61, 0x7F, 0x20AC, 0xE9]},
    "ascii": {1: [0x00, 0x7F, 0x61, 0x0A]},
}


def pool(enc: str, w: int) -> list[int]:
    fam = "utf-8" if enc.startswith("utf-8") else "utf-16" if enc.startswith("utf-16") else \
        "utf-32" if enc.startswith("utf-32") else enc
    return POOLS[fam][w]


def instantiate(enc: str, ws: list[int], variant: int, rng: random.Random) -> list[int]:
    """Code points for the abstract characters: variant 0 = lower boundary of every width, 1 = upper
    boundary, 2.. = drawn from the pool (all deterministic in the seed)."""
    out = []
    for w in ws:
        p = pool(enc, w)
        out.append(p[variant] if variant < 2 else rng.choice(p))
    return out


def to_ids(text: str, outs: list[str]) -> list[list[int]]:
    """Real strings -> character ids of P_TextWrap: a character that continues the text gets its
    position, anything else the foreign id 0 (and nothing after it can continue the text)."""
    pos, res = 0, []
    for s in outs:
        ids = []
        for ch in s:
            if 0 <= pos < len(text) and text[pos] == ch:
                pos += 1
                ids.append(pos)
            else:
                pos = -1
                ids.append(0)
        res.append(ids)
    return res


async def run_text(enc: str, mode: str, cps: list[int], lens: list[int], transport: str) -> dict:
    """One experiment on the real classes -> {"outs": [str], "k": "eos" | "error", ...}."""
    cl = _classes()
    anyio = cl["anyio"]
    from anyio.streams.stapled import StapledObjectStream
    from anyio.streams.text import TextReceiveStream, TextSendStream, TextStream

    text = "".join(map(chr, cps))
    info: dict[str, Any] = {}
    if mode == "recv":
        data = text.encode(enc)           # the reference encoder: stdlib one-shot
        chunks, i = [], 0
        for ln in lens:
            chunks.append(data[i:i + ln])
            i += ln
        if i != len(data):
            raise RuntimeError(f"chunk lengths {lens} do not cover {len(data)} bytes ({enc})")
        if transport == "mem":
            w = cl["mem"](chunks).stream
        else:
            w = cl[transport](chunks)
        rx = TextReceiveStream(w, encoding=enc)
    else:
        send, recv = anyio.create_memory_object_stream[bytes](len(lens) + 1)
        strs, i = [], 0
        for ln in lens:
            strs.append(text[i:i + ln])
            i += ln
        if transport == "duplex":
            tx = rx = TextStream(StapledObjectStream(send, recv), encoding=enc)
        else:
            tx = TextSendStream(send, encoding=enc)
            rx = TextReceiveStream(recv, encoding=enc)
        with guard():
            for s in strs:
                await tx.send(s)
            if transport == "duplex":
                await tx.send_eof()
            else:
                await tx.aclose()
        info["wire"] = recv.statistics().current_buffer_used
    outs: list[str] = []
    k = "eos"
    try:
        with guard():
            for _ in range(len(text) + len(lens) + 4):
                outs.append(await rx.receive())
            else:
                k = "error"
                info["err"] = "receive() keeps returning"
    except anyio.EndOfStream:
        pass
    except Exception as exc:  # noqa: BLE001 - an observation (e.g. UnicodeDecodeError on a split)
        k = "error"
        info["err"] = repr(exc)[:200]
    return {"outs": outs, "k": k, **info}


def events_of(text: str, r: dict) -> list[dict]:
    evs = [{"k": "ok", "out": ids} for ids in to_ids(text, r["outs"])]
    evs.append({"k": r["k"], "out": []})
    return evs


def variants_of(case: dict, nvar: int) -> list[tuple[str, int, str]]:
    """(encoding, variant, transport) combinations an abstract case is run with."""
    encs = ENCODINGS[case["enc"]]
    tr = ["obj", "byte", "mem"] if case["mode"] == "recv" else ["simplex", "duplex"]
    h = sum(case["ws"]) + 3 * len(case["lens"]) + sum(case["lens"][:1])   # rotate over the cases
    return [(encs[(v + h) % len(encs)], v, tr[(v + h // len(encs)) % len(tr)]) for v in range(nvar)]


def replay_batch(batch: list[dict], nvar: int = 3, seed: int = 0) -> dict:
    """Worker: run abstract cases (with the machine's predicted outputs) on the real classes."""
    anyio = _classes()["anyio"]
    out = {"n": 0, "agree": 0, "nontrivial": 0, "mismatch": []}

    async def go() -> None:
        for case in batch:
            rng = random.Random(f'{seed}-{case["enc"]}-{case["mode"]}-{case["ws"]}-{case["lens"]}')
            for enc, variant, transport in variants_of(case, nvar):
                cps = instantiate(enc, case["ws"], variant, rng)
                text = "".join(map(chr, cps))
                r = await run_text(enc, case["mode"], cps, case["lens"], transport)
                want = ["".join(text[i - 1] for i in o) for o in case["outs"]]
                out["n"] += 1
                if nontrivial(case):
                    out["nontrivial"] += 1
                if r["k"] == "eos" and r["outs"] == want:
                    out["agree"] += 1
                else:
                    out["mismatch"].append({"case": {k: case[k] for k in ("enc", "mode", "ws", "bw", "lens")},
                                            "encoding": enc, "cps": cps, "transport": transport,
                                            "result": r, "events": events_of(text, r)})

    anyio.run(go)
    out["first"] = batch[0] if batch else None
    return out


def replay_lines(lines: list[str], nvar: int = 3, seed: int = 0) -> dict:
    """Worker entry: raw @@T lines of TLC -> replay_batch."""
    from . import tlc

    return replay_batch(tlc.payloads(lines, "@@T"), nvar=nvar, seed=seed)


def nontrivial(case: dict) -> bool:
    """recv: some cut falls inside a character or inside the BOM; rt: more than one non-empty send
    or a BOM to be written once."""
    if case["mode"] == "rt":
        return sum(1 for x in case["lens"] if x) >= 2 or (case["bw"] > 0 and len(case["lens"]) >= 2)
    bounds, p = {0}, case["bw"]
    bounds.add(p)
    for w in case["ws"]:
        p += w
        bounds.add(p)
    c, cut_inside = 0, False
    for ln in case["lens"][:-1]:
        c += ln
        if c not in bounds:
            cut_inside = True
    return cut_inside


# ---------------------------------------------------------------------------------------------------
# random longer cases


def random_case(rng: random.Random, big: bool) -> dict:
    enc_shape = rng.choice(list(SHAPES))
    widths, bw = SHAPES[enc_shape]
    n = rng.randint(1, 40 if big else 16)
    ws = [rng.choice(widths) for _ in range(n)]
    mode = rng.choice(["recv", "recv", "rt"])
    if mode == "recv":
        total = bw + sum(ws)
        lens, left = [], total
        maxc = rng.choice([1, 2, 3, 5, 8, 13])
        while left > 0:
            k = min(left, rng.randint(0 if rng.random() < 0.1 else 1, maxc))
            lens.append(k)
            left -= k
        if rng.random() < 0.1:
            lens.append(0)
        transport = rng.choice(["obj", "byte", "mem"])
    else:
        lens, left = [], n
        while left > 0:
            k = min(left, rng.randint(0 if rng.random() < 0.15 else 1, 5))
            lens.append(k)
            left -= k
        if rng.random() < 0.15:
            lens.insert(0, 0)
        transport = rng.choice(["simplex", "duplex"])
    enc = rng.choice(ENCODINGS[enc_shape])
    cps = [rng.choice(pool(enc, w)) for w in ws]
    return {"enc": enc_shape, "mode": mode, "ws": ws, "bw": bw, "lens": lens, "encoding": enc,
            "cps": cps, "transport": transport}


def trace_of(case: dict, r: dict, tid: Any) -> dict:
    text = "".join(map(chr, case["cps"]))
    return {"id": tid, "events": events_of(text, r),
            "params": {"mode": case["mode"], "ws": case["ws"], "bw": case["bw"], "lens": case["lens"]}}


def record_batch(batch: list[dict]) -> list[dict]:
    anyio = _classes()["anyio"]
    out: list[dict] = []

    async def go() -> None:
        for case in batch:
            r = await run_text(case["encoding"], case["mode"], case["cps"], case["lens"], case["transport"])
            tr = trace_of(case, r, case["id"])
            tr["case"] = case
            tr["result"] = r
            out.append(tr)

    anyio.run(go)
    return out
