"""C18, real sockets: drive connected anyio socket streams along TLC behaviours of SockProto.

A scenario is a behaviour of the model (calls of the tasks of endpoint A, task steps, environment
actions) plus concrete choices made from the seed (transport kind, event loop, which role endpoint A
plays, socket buffer sizes, bytes per model unit, max_bytes values, pacing).  The *director* walks
the behaviour in order: calls of A's tasks are started as tasks on the real stream A; the
environment is played by the peer stream B, which is an anyio stream as well (data(k) = B sends k
units, drain(k) = B receives, peof = B.send_eof(), reset = B.aclose()).  Nothing of the model is used
as an oracle here: every call on either stream is logged (payload bytes encode their own stream
offset) and the log is judged by TLC against spec/P_Sock.tla.
"""

from __future__ import annotations

import errno
import os
import random
import socket
import time
from typing import Any

from .c18_unit import classify_exc, locate, pattern_fast
from .replay import ensure_repo_on_path

KINDS = ("tcp", "unix", "wrapunix", "wraptcp")
BIG = 1 << 28
_COUNTER = [0]


def make_scenario(hist: list[dict], rng: random.Random, idx: int, *, kinds: tuple = KINDS) -> dict:
    kind = rng.choice(kinds)        # (drawn, not derived from idx: idx is correlated with the script source)
    loop = rng.choice(["asyncio", "uvloop"])
    bufsize = rng.choice([4096, 8192, 16384, 65536, 0])        # 0: kernel defaults (autotuning)
    base = bufsize or 65536
    unit = min(65536, rng.choice([1, 3, 257, 4096, base // 2, base, 2 * base, 4 * base]))
    mbs = [max(1, int(unit * f)) for f in rng.choice([(1, 2, 3), (0.5, 1, 4), (1, 1, 1)])]
    if rng.random() < 0.4:
        mbs = [rng.choice([1, 2, 7, 100, 4096, 65536, 1 << 20]) for _ in range(3)]
    return {"id": idx, "kind": kind, "loop": loop, "arole": rng.choice(["connect", "accept"]),
            "bufsize": bufsize, "unit": unit, "mb": mbs, "pace": rng.choice([0, 0, 1, 3]),
            "rdelay": rng.choice([0, 0, 0.0005, 0.002]), "settle_calls": rng.random() < 0.5, "script": hist}


# ---------------------------------------------------------------------------------------------------


def _scratch_dir() -> str:
    from .core import OUT
    d = OUT / "C18" / "s"
    d.mkdir(parents=True, exist_ok=True)
    return str(d)


def _tcp_pair_raw(bufsize: int) -> tuple[socket.socket, socket.socket]:
    for attempt in range(8):
        lst = socket.socket(socket.AF_INET, socket.SOCK_STREAM)
        try:
            _setbuf(lst, bufsize)
            lst.bind(("127.0.0.1", 0))
            lst.listen(1)
            c = socket.socket(socket.AF_INET, socket.SOCK_STREAM)
            _setbuf(c, bufsize)
            try:
                c.connect(lst.getsockname())
            except OSError as exc:
                c.close()
                if exc.errno in (errno.EADDRINUSE, errno.EADDRNOTAVAIL, errno.ECONNREFUSED) and attempt < 7:
                    time.sleep(0.01 * (attempt + 1))
                    continue
                raise
            s, _ = lst.accept()
            _setbuf(s, bufsize)
            for x in (c, s):
                x.setsockopt(socket.IPPROTO_TCP, socket.TCP_NODELAY, 1)
            return c, s
        except OSError as exc:
            if exc.errno in (errno.EADDRINUSE, errno.EADDRNOTAVAIL) and attempt < 7:
                time.sleep(0.01 * (attempt + 1))
                continue
            raise
        finally:
            lst.close()
    raise OSError("no loopback port")


def _setbuf(sock: socket.socket, bufsize: int) -> None:
    if bufsize:
        sock.setsockopt(socket.SOL_SOCKET, socket.SO_SNDBUF, bufsize)
        sock.setsockopt(socket.SOL_SOCKET, socket.SO_RCVBUF, bufsize)


def _bufs(sock: socket.socket) -> tuple[int, int]:
    return (sock.getsockopt(socket.SOL_SOCKET, socket.SO_SNDBUF),
            sock.getsockopt(socket.SOL_SOCKET, socket.SO_RCVBUF))


SLACK = 256 * 1024


def _bound(snd: int, rcv: int, auto: bool) -> int:
    """Bytes a correct pair of streams can hold between a returned send() and receive():
    kernel send buffer + kernel receive buffer + what the protocol may have read in one resume
    window (at most two reads of at most 256 KiB, each at most a full receive buffer) + slack."""
    if auto:
        return BIG
    return snd + rcv + 2 * min(256 * 1024, rcv) + SLACK


class Bench:
    def __init__(self, scn: dict) -> None:
        self.scn = scn
        self.events: list[dict] = []
        self.open = True
        self.claimed = {"A": 0, "B": 0}
        self.recvd = {"A": 0, "B": 0}       # bytes of the stream SENT by that side handed out so far
        self.st: dict[str, Any] = {}
        self.closed = {"A": False, "B": False}
        self.eofd = {"A": False, "B": False}
        self.cut = {"A": False, "B": False}   # a send ended abnormally: offsets after it are undefined
        self.undef = {"A": False, "B": False}
        self.inprog: dict[tuple, Any] = {}   # (side, op, t) -> cancel scope
        self.timed_out: set[tuple] = set()
        self.maxunread = {"A": 0, "B": 0}
        self.accepted = {"A": 0, "B": 0}
        self.notes: list[str] = []

    def emit(self, **ev: Any) -> None:
        if self.open:
            self.events.append(ev)

    # -- logged calls ---------------------------------------------------------------------------
    async def recv(self, s: str, t: int, mb: int) -> str:
        import anyio

        w = "B" if s == "A" else "A"
        key = (s, "recv", t)
        with anyio.CancelScope() as scope:
            self.inprog[key] = scope
            self.emit(ev="rstart", s=s, t=t, mb=mb)
            try:
                data = await self.st[s].receive(mb)
            except BaseException as exc:  # noqa: BLE001
                r = classify_exc(exc)
                if r == "cancelled" and key in self.timed_out:
                    r = "timeout"
                if r == "error":
                    self.notes.append(f"recv {s}{t}: {exc!r}")
                self.emit(ev="rend", s=s, t=t, res=r, off=0, len=0, match=1)
                del self.inprog[key]
                if r in ("cancelled", "timeout"):
                    raise
                return r
            off, match = locate(w, data, self.recvd[w], self.claimed[w])
            if self.undef[w] or (off == self.recvd[w] and match):
                self.recvd[w] += len(data)
            self.emit(ev="rend", s=s, t=t, res="ok", off=off, len=len(data), match=match)
            del self.inprog[key]
            return "ok"
        self.inprog.pop(key, None)
        return "cancelled"

    async def send(self, s: str, t: int, n: int) -> str:
        import anyio

        key = (s, "send", t)
        with anyio.CancelScope() as scope:
            self.inprog[key] = scope
            payload = pattern_fast(s, self.claimed[s], n)
            self.claimed[s] += n
            self.undef[s] = self.undef[s] or self.cut[s]
            self.emit(ev="sstart", s=s, t=t, n=n)
            try:
                await self.st[s].send(payload)
                r = "ok"
            except BaseException as exc:  # noqa: BLE001
                r = classify_exc(exc)
                if r == "cancelled" and key in self.timed_out:
                    r = "timeout"
                if r == "error":
                    self.notes.append(f"send {s}{t}: {exc!r}")
                if r == "busy":
                    self.claimed[s] -= n
                else:
                    self.cut[s] = True
                self.emit(ev="send", s=s, t=t, res=r)
                del self.inprog[key]
                if r in ("cancelled", "timeout"):
                    raise
                return r
            if not self.closed[s]:
                self.accepted[s] += n
                if not self.closed["B" if s == "A" else "A"]:
                    self.maxunread[s] = max(self.maxunread[s], self.accepted[s] - self.recvd[s])
            else:
                self.cut[s] = True
            self.emit(ev="send", s=s, t=t, res="ok")
            del self.inprog[key]
            return "ok"
        self.inprog.pop(key, None)
        return "cancelled"

    async def close(self, s: str) -> None:
        self.closed[s] = True
        self.emit(ev="close", s=s)
        try:
            await self.st[s].aclose()
        except Exception as exc:  # noqa: BLE001
            # seen: AttributeError out of transport.abort() when the write buffer of a send that is
            # still in progress (or was cancelled) drains between close() and abort() - see finding note
            self.notes.append(f"aclose {s}: {exc!r}")

    async def eof(self, s: str) -> None:
        import anyio

        if self.closed[s] or self.eofd[s]:
            return
        self.emit(ev="eof", s=s)
        try:
            await self.st[s].send_eof()
            self.eofd[s] = True
        except anyio.BusyResourceError:
            pass
        except Exception as exc:  # noqa: BLE001 - e.g. uvloop: RuntimeError on a transport already closed
            self.eofd[s] = True
            if not isinstance(exc, (anyio.ClosedResourceError, anyio.BrokenResourceError, OSError)):
                self.notes.append(f"send_eof {s}: {exc!r}")

    def busy(self, s: str, op: str, t: int | None = None) -> int:
        return sum(1 for k in self.inprog if k[0] == s and k[1] == op and (t is None or k[2] == t))


async def _connect(scn: dict, b: Bench) -> dict:
    """Create the connected pair; returns the parameters of the observer."""
    import anyio
    from anyio.abc import SocketAttribute

    kind, bufsize = scn["kind"], scn["bufsize"]
    role = {"A": scn["arole"], "B": "accept" if scn["arole"] == "connect" else "connect"}
    by_role: dict[str, Any] = {}
    proto = 1
    paused = {"connect": 1, "accept": 0}
    if kind == "tcp":
        for attempt in range(6):
            ml = await anyio.create_tcp_listener(local_host="127.0.0.1", local_port=0)
            lst = ml.listeners[0]
            try:
                _setbuf(lst.extra(SocketAttribute.raw_socket), bufsize)
                port = lst.extra(SocketAttribute.local_port)
                try:
                    async with anyio.create_task_group() as tg:
                        async def acc() -> None:
                            by_role["accept"] = await lst.accept()
                        tg.start_soon(acc)
                        try:
                            by_role["connect"] = await anyio.connect_tcp("127.0.0.1", port)
                        except BaseException:
                            tg.cancel_scope.cancel()
                            raise
                    break
                except (OSError, BaseExceptionGroup):
                    if attempt == 5:
                        raise
                    await anyio.sleep(0.01 * (attempt + 1))
            finally:
                await ml.aclose()
    elif kind == "unix":
        proto = 0
        paused = {"connect": 1, "accept": 1}
        _COUNTER[0] += 1
        path = os.path.join(_scratch_dir(), f"{os.getpid()}_{_COUNTER[0]}")
        if os.path.exists(path):
            os.unlink(path)
        lst = await anyio.create_unix_listener(path)
        try:
            async with anyio.create_task_group() as tg:
                async def acc2() -> None:
                    by_role["accept"] = await lst.accept()
                tg.start_soon(acc2)
                by_role["connect"] = await anyio.connect_unix(path)
        finally:
            await lst.aclose()
            try:
                os.unlink(path)
            except OSError:
                pass
    else:
        paused = {"connect": 0, "accept": 0}
        if kind == "wrapunix":
            c, s = socket.socketpair()
        else:
            c, s = _tcp_pair_raw(bufsize)
        by_role["connect"] = await anyio.abc.SocketStream.from_socket(c)
        by_role["accept"] = await anyio.abc.SocketStream.from_socket(s)
    for r, stream in by_role.items():
        _setbuf(stream.extra(SocketAttribute.raw_socket), bufsize)
    b.st = {"A": by_role[role["A"]], "B": by_role[role["B"]]}
    bufs = {s: _bufs(b.st[s].extra(SocketAttribute.raw_socket)) for s in "AB"}
    auto = bufsize == 0
    par = {"boundA": _bound(bufs["A"][0], bufs["B"][1], auto), "boundB": _bound(bufs["B"][0], bufs["A"][1], auto),
           "pausedA": paused[role["A"]], "pausedB": paused[role["B"]], "protoA": proto, "protoB": proto}
    # uvloop keeps a socket object open while it is registered with add_reader / add_writer (F16)
    par["deferA"] = par["deferB"] = 1 if kind == "unix" and scn["loop"] == "uvloop" else 0
    return par


async def _main(scn: dict) -> dict:
    import anyio

    b = Bench(scn)
    par = await _connect(scn, b)
    unit, mbs, pace = scn["unit"], scn["mb"], scn["pace"]
    send_a, recv_a = anyio.create_memory_object_stream(1000), anyio.create_memory_object_stream(1000)
    state = {"script_done": False}
    deadline = scn.get("deadline", 10.0)

    async def yield_n(n: int) -> None:
        for _ in range(n):
            await anyio.sleep(0)

    async def b_sender(rx: Any) -> None:
        async for what, k in rx:
            if b.closed["B"]:
                continue
            if what == "data":
                if b.eofd["B"] or b.cut["B"]:
                    continue
                r = await b.send("B", 1, k * unit)
                if r != "ok":
                    break
            elif what == "peof":
                await b.eof("B")
        await b.eof("B")

    async def b_reader(rx: Any) -> None:
        dead = False
        async for k in rx:
            if b.closed["B"] or dead:
                continue
            if scn["rdelay"]:
                await anyio.sleep(scn["rdelay"])
            r = await b.recv("B", 2, max(1, k * unit))
            dead = r != "ok"
        while not dead and not b.closed["B"]:
            r = await b.recv("B", 2, 65536)
            dead = r != "ok"

    async def a_drainer(tg_ops: Any) -> None:
        while any(k[0] == "A" and k[1] == "recv" for k in b.inprog):
            await anyio.sleep(0.0005)
        while not b.closed["A"]:
            r = await b.recv("A", 8, 65536)
            if r != "ok":
                break

    async def a_finisher() -> None:
        while any(k[0] == "A" and k[1] == "send" for k in b.inprog):
            await anyio.sleep(0.0005)
        await b.eof("A")

    async def a_call(t: int, what: str, arg: int) -> None:
        if what == "recv":
            await b.recv("A", t, arg)
        elif what == "send":
            await b.send("A", t, arg)
        elif what == "close":
            await b.close("A")
        elif what == "eof":
            await b.eof("A")

    a_task_busy: dict[int, bool] = {}

    async def a_wrapped(t: int, what: str, arg: int) -> None:
        a_task_busy[t] = True
        try:
            await a_call(t, what, arg)
        finally:
            a_task_busy[t] = False

    async def wait_free(t: int) -> bool:
        for _ in range(40):
            if not a_task_busy.get(t):
                return True
            await anyio.sleep(0.00025)
        return not a_task_busy.get(t)

    done = {"bs": anyio.Event(), "br": anyio.Event()}

    async def worker(fn: Any, rx: Any, ev: Any) -> None:
        try:
            await fn(rx)
        finally:
            ev.set()

    async with anyio.create_task_group() as tg:
        async def watchdog() -> None:
            await anyio.sleep(deadline)
            state["timed_out"] = True
            for key, scope in list(b.inprog.items()):
                b.timed_out.add(key)
                scope.cancel()
            await yield_n(6)
            tg.cancel_scope.cancel()

        tg.start_soon(watchdog)
        tg.start_soon(worker, b_sender, send_a[1], done["bs"])
        tg.start_soon(worker, b_reader, recv_a[1], done["br"])
        async with anyio.create_task_group() as ops:
            for act in scn["script"]:
                a, t, k = act["a"], act["t"], act["k"]
                if a == "rcall":
                    if await wait_free(t):
                        ops.start_soon(a_wrapped, t, "recv", mbs[(k - 1) % 3])
                        await yield_n(1)
                elif a == "scall":
                    if await wait_free(t) and not b.eofd["A"] and not b.cut["A"] and b.busy("A", "send") < 2:
                        ops.start_soon(a_wrapped, t, "send", k * unit)
                        await yield_n(1)
                elif a == "ccall":
                    if await wait_free(t):
                        ops.start_soon(a_wrapped, t, "close", 0)
                        await yield_n(1)
                elif a == "eofcall":
                    if await wait_free(t) and not b.busy("A", "send"):
                        ops.start_soon(a_wrapped, t, "eof", 0)
                        await yield_n(1)
                elif a == "cancel":
                    keys = [kk for kk in b.inprog if kk[0] == "A" and kk[2] == t]
                    if keys:
                        b.emit(ev="creq", s="A", t=t)
                        b.inprog[keys[0]].cancel()
                        await yield_n(1)
                elif a == "data":
                    send_a[0].send_nowait(("data", k))
                elif a == "peof":
                    send_a[0].send_nowait(("peof", 0))
                elif a == "drain":
                    recv_a[0].send_nowait(k)
                elif a == "reset":
                    if not b.closed["B"]:
                        ops.start_soon(b.close, "B")
                        await yield_n(1)
                else:   # step / lost: give every task a few cycles
                    await yield_n(3)
                    b.emit(ev="settle")
                if scn.get("settle_calls") and a in ("rcall", "scall"):
                    await yield_n(3)
                    b.emit(ev="settle")
                if pace:
                    await yield_n(pace)
            # wind-down: both writers finish their streams, both readers read to the end
            send_a[0].close()
            recv_a[0].close()
            ops.start_soon(a_drainer, ops)
            ops.start_soon(a_finisher)
        await done["bs"].wait()
        await done["br"].wait()
        tg.cancel_scope.cancel()
    timed_out = bool(state.get("timed_out"))
    if not timed_out:
        b.emit(ev="end")
    elif b.inprog:
        b.notes.append(f"calls neither finished nor cancellable: {sorted(b.inprog)}")
    b.open = False
    for s in "AB":
        try:
            await b.st[s].aclose()
        except BaseException:  # noqa: BLE001
            pass
    return {"events": b.events, "params": par, "maxunread": b.maxunread, "accepted": b.accepted,
            "recvd": b.recvd, "notes": b.notes[:5], "timed_out": timed_out}


def run_real(scn: dict) -> dict:
    ensure_repo_on_path()
    import anyio

    t0 = time.time()
    res = anyio.run(_main, scn, backend="asyncio", backend_options={"use_uvloop": scn["loop"] == "uvloop"})
    res["wall"] = round(time.time() - t0, 4)
    res["id"] = scn["id"]
    return res
