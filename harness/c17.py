"""C17 - TLS streams: faithful transport over any fragmentation, truncation detected.

 1. TLC model-checks spec/TlsPump.tla (the pump loop of TLSStream against an abstract SSL engine and
    a fully nondeterministic transport) exhaustively for several constant sets: the property-level
    observer P_Tls is ghost state of the model, so its clauses hold in every reachable state,
    together with PendingOutputFlushed, StallOk, NoInputAfterEOF, Conservation.
 2. TLC prints the history of choices on every edge of the small state graphs and for -simulate
    behaviours of the larger ones; the maximal histories are the schedules.
 3. Every schedule is executed on two real TLSStream objects (harness.c17_run) and the recorded
    trace is validated by TLC against the same observer (spec/T_Tls.tla).
 4. The model's projection after the last choice is compared with the real one (drift; this
    validates the abstract engine against OpenSSL and is never a verdict).
"""

from __future__ import annotations

import json
import random
from collections import Counter
from pathlib import Path

from . import core, tlc
from .replay import pmap
from .c17_run import run_schedule

PROP = "C17"
INVARIANTS = ["PropertyHolds", "PendingOutputFlushed", "StallOk", "NoInputAfterEOF", "Conservation",
              "TypeOK"]
UNITS = [1, 7, 100, 1300, 5461]
FRAGS = ["whole", "whole", "rand", "byte1"]


def consts(v, scc="{TRUE, FALSE}", scs="{TRUE, FALSE}", big="{FALSE}", send="{0, 1, 2}",
           recv="{1, 2}", maxsend=1, maxrecv=2, maxcut=1, cutfrom="{0}", maxafter=2) -> dict[str, str]:
    return {"V": str(v), "SCC": scc, "SCS": scs, "BIG": big, "SendSizes": send, "RecvSizes": recv,
            "MaxSend": str(maxsend), "MaxRecv": str(maxrecv), "MaxCut": str(maxcut), "CutFrom": cutfrom,
            "MaxAfter": str(maxafter)}


BIGSIM = dict(big="{TRUE, FALSE}", send="{0, 1, 2, 3}", recv="{1, 2, 3}", maxsend=3, maxrecv=4,
              cutfrom="{0, 3, 5, 7, 9, 11, 13, 16, 20, 99}")

# several TLS records per send(): 5 and 13 full records = 81920 and 212992 bytes of plaintext, i.e. more
# than 64 KiB of ciphertext produced by ONE engine call, in both directions, followed by whatever the
# random walk chooses (close, the peer's reply, a truncation ...)
HUGESIM = dict(big="{TRUE}", send="{0, 2, 5, 13}", recv="{1, 2, 3}", maxsend=2, maxrecv=6,
               cutfrom="{0, 5, 9, 13, 20, 30, 99}")
HUGECHECK = dict(big="{TRUE}", send="{5}", recv="{1}", maxsend=1, maxrecv=3)     # MaxAfter = 2
TLC_WORKER_BUDGET = 6       # TLC workers running at any one time (shared machine)

# (name, constants, mode, number of schedules to take (None = all), TLC workers)
#   mode "check": exhaustive, invariants only;  "emit": exhaustive + history on every edge;
#   "sim": random behaviours of a configuration too large to enumerate in the time of the tier
QUICK = [
    ("q12-check", consts(12, send="{0, 2}", recv="{1, 2}", maxsend=2, maxrecv=2, scs="{TRUE}", maxafter=1),
     "check", None, 2),
    ("q13-check", consts(13, send="{0, 2}", recv="{1, 2}", maxsend=2, maxrecv=2, scc="{TRUE}", maxafter=1),
     "check", None, 2),
    ("q12-graph", consts(12, scs="{TRUE}", maxafter=1), "emit", 300, 1),
    ("q13-graph", consts(13, scc="{TRUE}", send="{0, 2}", maxafter=1), "emit", 300, 1),
    ("q12-sim", consts(12, **BIGSIM), "sim", 250, 1),
    ("q13-sim", consts(13, **BIGSIM), "sim", 250, 1),
    ("q12-hugesim", consts(12, **HUGESIM), "sim", 80, 1),
    ("q13-hugesim", consts(13, **HUGESIM), "sim", 80, 1),
    ("q12-hugecheck", consts(12, scs="{TRUE}", **HUGECHECK), "check", None, 2),
    ("q13-hugecheck", consts(13, scc="{TRUE}", **HUGECHECK), "check", None, 2),
]
THOROUGH = [
    ("t12-check", consts(12, send="{0, 1, 3}", recv="{1, 3}", maxsend=2, maxrecv=3, maxafter=1), "check", None, 2),
    ("t13-check", consts(13, send="{0, 1, 3}", recv="{1, 3}", maxsend=2, maxrecv=3, maxafter=1), "check", None, 2),
    ("t13-check3", consts(13, scc="{TRUE}", scs="{TRUE}", send="{1, 3}", recv="{1, 2}", maxsend=3, maxrecv=3, maxafter=1),
     "check", None, 2),
    ("t12-checkbig", consts(12, scc="{TRUE}", big="{TRUE}", send="{0, 2}", recv="{1, 2}", maxsend=2, maxrecv=3,
                            maxcut=2, maxafter=1), "check", None, 2),
    ("t12-graph", consts(12, maxafter=1), "emit", 5000, 1),
    ("t13-graph", consts(13, maxafter=1), "emit", 5000, 1),
    ("t12-sim", consts(12, **BIGSIM), "sim", 5000, 1),
    ("t13-sim", consts(13, **BIGSIM), "sim", 5000, 1),
    ("t12-hugesim", consts(12, **HUGESIM), "sim", 600, 1),
    ("t13-hugesim", consts(13, **HUGESIM), "sim", 600, 1),
    ("t12-hugecheck", consts(12, **HUGECHECK), "check", None, 2),
    ("t13-hugecheck", consts(13, **HUGECHECK), "check", None, 2),
]

ASSUMPTIONS = [
    "OpenSSL (ssl.SSLObject, MemoryBIO) is environment: assumed to implement TLS 1.2 / 1.3; the abstract "
    "engine of TlsPump.tla is compared with it on every schedule (drift), not verified",
    "SSL contexts with OP_IGNORE_UNEXPECTED_EOF cleared, as TLSStream.wrap does for the contexts it creates",
    "the transport only re-chunks, delays and truncates; it never corrupts, reorders or fails a send",
    "one application task per stream (no concurrent send/receive on one TLSStream), asyncio backend",
    "exhaustive only within the stated constants; abstract units are instantiated with a few byte sizes "
    "(1..5461 bytes per unit, 16384-byte full records; one send() is at most 13 full records = 212992 "
    "bytes) and split offsets chosen by the seed",
    "the end of a stream is observed at most MaxAfter + 1 times by receive()/send() before aclose(); nothing "
    "is called after aclose(); the result of aclose() after a reported truncation is not judged "
    "(notes/finding_C17.md)",
]


def _cfgfile(name: str, c: dict[str, str], **kw) -> Path:
    d = core.OUT / PROP
    d.mkdir(parents=True, exist_ok=True)
    p = d / f"{name}.cfg"
    tlc.write_cfg(p, constants=c, view="View", invariants=INVARIANTS, **kw)
    return p


def _model_fail(name: str, r: tlc.TLCResult) -> None:
    raise tlc.TLCError(f"model TlsPump/{name} violates {r.violated}\n{r.output[-3000:]}")


def _decode(pl: dict) -> dict:
    """Compact TLC payload -> schedule (see FinOf / Payload in TlsPump.tla)."""
    c = pl["cfg"]
    h = []
    for x in pl["h"]:
        if x[0] == "o":
            h.append({"w": "op", "s": x[1], "op": x[2], "a": x[3]})
        elif x[0] == "d":
            h.append({"w": "dl", "s": x[1], "k": x[2]})
        else:
            h.append({"w": "eof", "s": x[1]})
    keys = ("pc", "st", "wrap", "got", "endr", "closer", "closed")
    return {"v": pl["v"], "cfg": {"sc": {"c": c[0], "s": c[1]}, "big": {"c": c[2], "s": c[3]}}, "h": h,
            "fin": {x: dict(zip(keys, pl["fin"][x])) for x in "cs"}}


class _Budget:
    """At most TLC_WORKER_BUDGET TLC workers at a time."""

    def __init__(self, n: int) -> None:
        import threading

        self.free = n
        self.cv = threading.Condition()

    def run(self, n: int, fn):
        with self.cv:
            self.cv.wait_for(lambda: self.free >= n)
            self.free -= n
        try:
            return fn()
        finally:
            with self.cv:
                self.free += n
                self.cv.notify_all()


def _tlc_job(job: tuple, seed: int) -> tuple:
    name, c, mode, take, workers = job
    if mode == "check":
        r = tlc.run_tlc("TlsPump", _cfgfile(name, c), workers=workers, timeout=3000, tag=f"{PROP}-{name}")
    elif mode == "emit":
        r = tlc.run_tlc("TlsPump", _cfgfile(name, c, action_constraints=["EmitAC"]), workers=1,
                        timeout=3000, tag=f"{PROP}-{name}", keep_output=True, marker="@@H")
    else:
        n = int(take * 1.25) + 20
        r = tlc.run_tlc("TlsPump", _cfgfile(name, c, action_constraints=["EmitFinalAC"]), workers=1,
                        timeout=3000, simulate=f"num={n}", depth=150, seed=seed * 7919 + 17,
                        tag=f"{PROP}-{name}", keep_output=True, marker="@@F")
    if r.violated:
        # the committed model satisfies its invariants; a failure means the specification was changed
        raise tlc.TLCError(f"model TlsPump/{name} violates {r.violated}\n{r.output[-3000:]}")
    return job, r


def generate(tier: str, seed: int, rep: core.Report) -> list[dict]:
    from concurrent.futures import ThreadPoolExecutor

    rng = random.Random(seed)
    scheds: list[dict] = []
    seen: set[str] = set()

    def add(pl: dict, src: str) -> None:
        s = _decode(pl)
        key = json.dumps([s["v"], s["cfg"], s["h"]], sort_keys=True)
        if key in seen:
            return
        seen.add(key)
        s["src"] = src
        scheds.append(s)

    jobs = QUICK if tier == "quick" else THOROUGH
    budget = _Budget(TLC_WORKER_BUDGET)
    with ThreadPoolExecutor(max_workers=len(jobs)) as ex:      # TLC runs side by side within the budget
        done = list(ex.map(lambda j: budget.run(j[4], lambda: _tlc_job(j, seed)), jobs))
    for (name, c, mode, take, _w), r in done:
        if mode == "check":
            rep.add_model(f"TlsPump/{name}", r, mode="exhaustive", constants=c)
        elif mode == "emit":
            rep.add_model(f"TlsPump/{name}", r, mode="exhaustive+emit", constants=c)
            pls = tlc.payloads(r.lines, "@@H")
            rep.extra["choice_edges_emitted"] = rep.extra.get("choice_edges_emitted", 0) + len(pls)
            # maximal histories: an edge history that is a proper prefix of another adds nothing
            keys = [(json.dumps(p["cfg"]), tuple(json.dumps(h) for h in p["h"])) for p in pls]
            prefixes = {(k, h[:i]) for k, h in keys for i in range(len(h))}
            lv = [p for p, k in zip(pls, keys) if k not in prefixes]
            rep.extra["maximal_histories"] = rep.extra.get("maximal_histories", 0) + len(lv)
            if take is not None and len(lv) > take:
                lv = rng.sample(lv, take)
            for p in lv:
                add(p, f"{name}:graph")
        else:
            pls = tlc.payloads(r.lines, "@@F")
            before = len(scheds)
            for p in pls:
                if len(scheds) - before >= take:
                    break
                add(p, f"{name}:simulate")
            rep.models.append({"model": f"TlsPump/{name}", "mode": "simulate",
                               "complete_histories": len(pls), "distinct_taken": len(scheds) - before,
                               "wall_s": round(r.wall_s, 1), "constants": c})
    for i, s in enumerate(scheds):
        s["conc"] = {"unit": rng.choice(UNITS), "frag": rng.choice(FRAGS), "seed": seed * 100003 + i}
    return scheds


def run_one(sched: dict) -> dict:
    return run_schedule(sched)


def compare_final(model: dict, real: dict | None) -> list[str]:
    if real is None:
        return ["run did not finish"]
    out = []
    for x in "cs":
        for k in ("pc", "st", "wrap", "got", "endr", "closer", "closed"):
            if model[x][k] != real[x][k]:
                out.append(f"{x}.{k}: model={model[x][k]} real={real[x][k]}")
    return out


def judge(scheds: list[dict], results: list[dict], rep: core.Report, tag: str) -> None:
    traces = []
    for i, r in enumerate(results):
        if "machinery_error" in r:
            raise tlc.TLCError("replay failed: " + r["machinery_error"])
        evs = [{k: v for k, v in e.items() if k not in ("exc", "piece")} for e in r["events"]]
        traces.append({"id": i, "events": evs, "params": r["params"]})
    # TLC validates the traces in batches, a few batches side by side
    from concurrent.futures import ThreadPoolExecutor

    size = min(1500, max(250, -(-len(traces) // 4)))
    parts = [traces[i:i + size] for i in range(0, len(traces), size)]
    with ThreadPoolExecutor(max_workers=4) as ex:
        got = list(ex.map(lambda jp: tlc.validate_traces("T_Tls", jp[1], tag=f"{tag}-{jp[0]}", chunk=size),
                          enumerate(parts)))
    verdicts = [v for g in got for v in g]
    rep.traces += len(verdicts)
    cuts: Counter = Counter()
    ends: Counter = Counter()
    again: Counter = Counter()
    nontrivial = 0
    for v in verdicts:
        i = v["id"]
        s, r = scheds[i], results[i]
        for c in r["flags"]["cuts"]:
            cuts[c] += 1
        data = sum(1 for e in r["events"] if e["ev"] == "end" and e.get("res") == "data")
        raised: set[str] = set()
        for e in r["events"]:
            if e["ev"] == "end" and e["op"] in ("wrap", "recv") and e["res"] not in ("ok", "data"):
                ends[f"{e['op']}:{e['res']}"] += 1
            if e["ev"] == "end" and e["op"] in ("send", "recv") and e["s"] in raised:
                again[f"{e['op']}:{e['res']}"] += 1      # the end observed once more
            if e["ev"] == "end" and e["op"] in ("send", "recv") and e["res"] not in ("ok", "data"):
                raised.add(e["s"])
            if e["ev"] == "start" and e["op"] == "send" and e["n"] > 65536:
                rep.extra["sends_over_64KiB"] = rep.extra.get("sends_over_64KiB", 0) + 1
        if data or r["flags"]["cuts"]:
            nontrivial += 1
        if v["bad"]:
            ev = r["events"][v["at"] - 1] if 0 < v["at"] <= len(r["events"]) else None
            rep.violation(f"clause {','.join(v['bad'])} violated at event {v['at']}: {ev}",
                          {"schedule": {k: s[k] for k in ("v", "cfg", "h", "conc")}, "src": s["src"],
                           "trace": r["events"], "failing_event_index": v["at"], "clauses": v["bad"]},
                          signature=",".join(v["bad"]))
            continue
        diffs = compare_final(s["fin"], r["final"]) + r["flags"]["drift"]
        if diffs:
            rep.drift += 1
            if rep.drift <= 3:
                print(f"DRIFT property={PROP} {diffs[:4]} schedule={json.dumps({k: s[k] for k in ('v', 'cfg', 'h', 'conc')})}")
    rep.distinct += nontrivial
    for k, n in cuts.items():
        rep.extra.setdefault("eof_positions", {})[k] = rep.extra.get("eof_positions", {}).get(k, 0) + n
    for k, n in ends.items():
        rep.extra.setdefault("ends", {})[k] = rep.extra.get("ends", {}).get(k, 0) + n
    for k, n in again.items():
        rep.extra.setdefault("calls_after_the_end", {})[k] = rep.extra.get("calls_after_the_end", {}).get(k, 0) + n


def main(tier: str, seed: int) -> int:
    rep = core.Report(PROP, tier, seed)
    rep.assumptions += ASSUMPTIONS
    scheds = generate(tier, seed, rep)
    results = pmap("harness.c17", "run_one", scheds, procs=16, chunk=25)
    judge(scheds, results, rep, tag=f"{PROP}-T_Tls")
    rep.evaluations += len(scheds)
    rep.extra["schedules_by_source"] = dict(Counter(s["src"] for s in scheds))
    rep.extra["schedules_by_version"] = dict(Counter(s["v"] for s in scheds))
    rep.extra["schedules_by_fragmentation"] = dict(Counter(s["conc"]["frag"] for s in scheds))
    rep.extra["transport_pieces_delivered"] = sum(r["flags"]["pieces"] for r in results)
    rep.extra["exhaustive"] = False
    for i in range(0, len(scheds), max(1, len(scheds) // 5)):
        rep.sample({"schedule": {k: scheds[i][k] for k in ("v", "cfg", "h", "conc")},
                    "source": scheds[i]["src"],
                    "trace": [e for e in results[i]["events"] if e["ev"] in ("end", "teof", "stall")][:12]})
    rep.rule = ("schedules = maximal histories of choices (application calls, units handed over per "
                "transport.receive, end-of-file positions) of TlsPump.tla: one per edge of the exhaustive "
                "state graph of the small configurations (sampled by the seed when more than the tier "
                "takes) plus -simulate behaviours of the large ones (up to 13 full records per send; receive / "
                "send called again after the end was reported), deduplicated, each instantiated with "
                "a byte size per unit, split offsets and a fragmentation style by the seed; "
                "non-trivial = at least one receive returned data or the transport was cut / ended")
    return rep.finish()


def replay(path: str) -> int:
    data = json.loads(Path(path).read_text())
    rp = data["replay"]
    r = run_schedule(rp["schedule"])
    evs = [{k: v for k, v in e.items() if k not in ("exc", "piece")} for e in r["events"]]
    v = tlc.validate_traces("T_Tls", [{"id": 0, "events": evs, "params": r["params"]}],
                            tag=f"{PROP}-replay")[0]
    print(json.dumps({"verdict": v, "flags": r["flags"],
                      "trace": [e for e in r["events"] if e["ev"] != "trecv" or e["pending"]][-25:]}, indent=1))
    if v["bad"]:
        print(f"VIOLATION property={PROP} replay={path}")
        return 1
    return 0


