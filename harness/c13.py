"""C13 - memory object streams: closing wakes everyone and errors tell the truth."""

from __future__ import annotations

from .c12 import FAMILY13 as FAMILY
from .family import run_family


def main(tier: str, seed: int) -> int:
    return run_family(FAMILY, tier, seed)
