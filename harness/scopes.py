"""C03-C06: cancel scopes.  One model (MC_Scope), one reference semantics (P_Scope), four clause sets."""

from __future__ import annotations

import dataclasses

from . import fam_scope
from .family import Family, ModelCfg

ASSUME = [
    "CPython 3.12 asyncio semantics (FIFO call_soon, C Task, uncancel not clearing must_cancel) are environment",
    "exhaustive only within the stated constants (tasks, operations per task, nesting depth, environment actions)",
    "replay on the controlled virtual-time loop (stock SelectorEventLoop subclass); uvloop is not covered by replay",
    "bounded latency is judged with LATENCY = 4 loop cycles (the pinned code needs at most 2)",
]

CLAUSES = {
    "C03": {"InterruptedWithinBoundedCycles", "EveryCheckpointRaises", "NothingBlockedInCancelledScope"},
    "C04": {"CancelOnlyIfEffective", "AbsorbIff", "CaughtIff", "ErrorsPass", "NativeCancelPasses",
            "NothingInvented", "NativeOnlyIfRequested", "TopOfStack", "UnknownEvent"},
    "C05": {"NoResidue", "NoLiveTimerAfterEnd", "LoopIdleAfterEnd", "budget"},
    "C06": {"NotEarly", "NotMissed", "NotAfterExit", "TimeoutErrorIff", "EffectiveDeadline"},
}

INV = ["PropertyHolds", "TypeOK", "QuiescentNotStuck", "NoTimerOfDeadTask", "Residue"]


def consts(nt, maxops, maxenv, ops, *, depth=3, shields="{0, 1}", deadlines="{99}", delays="{1}",
           cleanups="{0}", pres="{0}", env='{"cancel", "native"}', via_setter="{0}"):
    return {"NT": str(nt), "INF": "99", "Ops": ops, "MaxOps": str(maxops), "MaxEnv": str(maxenv),
            "EnvKinds": env, "MaxDepth": str(depth), "Shields": shields, "Deadlines": deadlines,
            "Delays": delays, "Cleanups": cleanups, "Pres": pres, "ViaSetter": via_setter,
            "RecordHist": "TRUE"}


def cmp(model: dict, real: dict) -> list[str]:
    return [f"{k}: model={model.get(k)} real={real.get(k)}" for k in ("nh", "now", "out", "nc")
            if model.get(k) != real.get(k)]


def family(prop: str, configs: list[ModelCfg]) -> Family:
    return Family(
        prop=prop, mc_module="MC_Scope", t_module="T_Scope", fam_module="harness.fam_scope",
        invariants=INV, nt_of=lambda c: int(c["NT"]), compare_final=cmp, configs=configs,
        assumptions=ASSUME, clauses=CLAUSES[prop], scenario_of=fam_scope.scenario_of,
    )
