"""C03-C06: replay of MC_Scope scenarios on real anyio cancel scopes, recording P_Scope traces.

The per-task script is a flat list of operations [c, a, b, d] chosen by the TLA+ client; `open*`
operations start a nested block that ends at the matching `close`, at the end of the script, or when
an exception propagates out of it (exactly like the Python `with` statement it is executed with).
"""

from __future__ import annotations

import asyncio
import math
from typing import Any

from . import uvrun, vloop
from .replay import Recorder, ScenarioController, ensure_repo_on_path

INF = 99


def scenario_of(hist: list, nt: int) -> dict:
    tasks: dict[str, list] = {str(t): [] for t in range(1, nt + 1)}
    env = []
    for h in hist:
        if h["w"] == "t":
            tasks[str(h["t"])].append([h["c"], h["a"], h["b"], h["d"]])
        else:
            env.append({"t": h["t"], "c": h["c"], "at": h["at"], "cyc": h.get("cyc", 0)})
    env.sort(key=lambda a: a["at"])
    return {"tasks": tasks, "env": env}


class _ClientError(Exception):
    pass


def _dl(v: float) -> int:
    if v == math.inf:
        return INF
    if v == -math.inf:
        return -1
    return int(v)


def run_scenario(scn: dict, *, eager: bool = False, uv: bool = False) -> dict:
    ensure_repo_on_path()
    import anyio
    from anyio.lowlevel import cancel_shielded_checkpoint, checkpoint

    nt = len(scn["tasks"])
    rec = Recorder()
    st: dict[str, Any] = {"stk": {t: [] for t in range(1, nt + 1)}, "inop": set(), "exited": [],
                          "ndone": 0, "lastdone": 0, "timers_at_end": 0, "ns": {}}

    def stamp() -> dict:
        loop = st["loop"]
        return {"now": int(loop.time()), "cyc": loop.cycle}

    def emit(**ev: Any) -> None:
        rec.emit(**ev, **stamp())

    def cc(t: int) -> list[int]:
        return [1 if s.cancel_called else 0 for (s, _n, _k) in st["stk"][t]]

    def exc_name(exc: BaseException | None) -> str:
        if exc is None:
            return "none"
        if isinstance(exc, asyncio.CancelledError):
            if exc.args and isinstance(exc.args[0], str) and exc.args[0].startswith("Cancelled via cancel scope"):
                return "cancel"
            return "native"
        return "err"

    def res_name(exc: BaseException | None) -> str:
        return {"none": "ok", "cancel": "cancelled", "native": "native", "err": "err"}[exc_name(exc)]

    def fire(act: dict) -> None:
        t = act["t"]
        if st["tasks"][t].done():
            return          # (drifted run) nothing to cancel any more
        if act["c"] == "cancel":
            if st["stk"][t]:
                emit(ev="cancel", t=t, n=1)
            st["scopes"][t].cancel()
        elif act["c"] == "native":
            emit(ev="native", t=t)
            st["tasks"][t].cancel()
        else:  # pragma: no cover
            raise ValueError(act)

    def quiescent() -> None:
        alldone = st["ndone"] == nt
        late = sum(1 for (s, c) in st["exited"] if s.cancel_called and not c)
        loop = st["loop"]
        emit(ev="quiescent", blocked=sorted(st["inop"]), timers=(st["timers_at_end"] if alldone else loop.live_timers()),
             alldone=1 if alldone else 0,
             tail=(loop.cycle - st["lastdone"]) if alldone and not isinstance(loop, uvrun.UVView) else 0,
             late=late)
        if alldone and not st["fut"].done():
            st["final"] = {"nh": loop.nhandles, "now": int(loop.time()),
                           "out": [("blocked" if not x.done() else "cancelled" if x.cancelled() and _was_anyio(x)
                                    else "native" if x.cancelled() else "err" if x.exception() else "ok")
                                   for x in (st["tasks"][t] for t in range(1, nt + 1))],
                           "nc": [st["tasks"][t].cancelling() for t in range(1, nt + 1)]}
            st["fut"].set_result(None)

    def _was_anyio(task: asyncio.Task) -> bool:
        try:
            task.result()
        except asyncio.CancelledError as exc:
            return exc_name(exc) == "cancel"
        except BaseException:  # noqa: BLE001
            return False
        return False

    class Ctl(ScenarioController):
        def on_idle(self, loop: vloop.VLoop) -> bool:
            if self.quiescent_at != loop.nhandles or st["ndone"] == nt:
                self.quiescent_at = loop.nhandles
                quiescent()
                if st["ndone"] == nt:
                    return True
            if self.env:
                return self._fire_due(max(loop.nhandles, self.env[0]["at"]))
            return False

    ctl = Ctl(scn["env"], fire, None)
    ctl.recorder = rec

    async def client(t: int, script: list) -> None:
        task = asyncio.current_task()
        assert task is not None
        pos = [0]
        stk = st["stk"][t]
        nsc = [0]

        async def aop(name: str, coro: Any) -> None:
            emit(ev="opstart", t=t, op=name)
            st["inop"].add(t)
            try:
                await coro
            except BaseException as exc:
                st["inop"].discard(t)
                emit(ev="opend", t=t, op=name, res=res_name(exc), cc=cc(t), gc=[])
                raise
            st["inop"].discard(t)
            emit(ev="opend", t=t, op=name, res="ok", cc=cc(t), gc=[])

        async def block() -> bool:
            """Run operations until the matching close (False) or the end of the script (True)."""
            while pos[0] < len(script):
                c, a, b, d = script[pos[0]]
                pos[0] += 1
                if c == "end":
                    pos[0] = len(script)
                    return True
                if c == "close":
                    if len(stk) <= 1:
                        continue      # unmatched close: the run has drifted from the model
                    return False
                if c in ("open", "openf", "openm"):
                    ended = await with_block(c, a, b, d)
                    if ended:
                        return True
                elif c == "yield":
                    await aop("yield", checkpoint())
                elif c == "sleep":
                    await aop("sleep", anyio.sleep(a))
                elif c == "wait":
                    await aop("wait", st["event"].wait())
                elif c == "set":
                    st["event"].set()
                elif c == "cancel":
                    target = st["stk"][a]
                    if b <= len(target):
                        s, n, _k = target[b - 1]
                        emit(ev="cancel", t=a, n=n)
                        s.cancel()
                elif c == "shield":
                    if a <= len(stk):
                        s, n, _k = stk[a - 1]
                        emit(ev="setshield", t=t, n=n, v=b)
                        s.shield = bool(b)
                elif c == "dline":
                    if a <= len(stk):
                        s, n, _k = stk[a - 1]
                        emit(ev="setdl", t=t, n=n, dl=b)
                        s.deadline = math.inf if b >= INF else b
                elif c == "raise":
                    raise _ClientError()
                elif c == "raisegrp":
                    raise BaseExceptionGroup("g", [asyncio.CancelledError()])
                elif c == "probe":
                    emit(ev="probe", t=t, nc=task.cancelling(), effdl=_dl(anyio.current_effective_deadline()),
                         cc=cc(t))
                else:  # pragma: no cover
                    raise ValueError(c)
            return True

        async def with_block(c: str, a: int, b: int, d: int) -> bool:
            nsc[0] += 1
            n = nsc[0] + 1          # the task's own scope is n = 1
            kind = {"open": "plain", "openf": "fail", "openm": "move"}[c]
            pre, cl, via_setter = d % 2, (d // 2) % 4, d // 8
            cm = None
            if c == "open" and via_setter:
                scope = anyio.CancelScope(shield=bool(a))
                scope.deadline = math.inf if b >= INF else b      # assigned before the scope is entered
                if pre:
                    scope.cancel()
            elif c == "open":
                scope = anyio.CancelScope(shield=bool(a), deadline=math.inf if b >= INF else b)
                if pre:
                    scope.cancel()
            elif c == "openm":
                scope = anyio.move_on_after(b, shield=bool(a))
            else:
                cm = anyio.fail_after(b, shield=bool(a))
            nc0 = task.cancelling()
            if cm is not None:
                scope = cm.__enter__()
            else:
                scope.__enter__()
            stk.append((scope, n, kind))
            emit(ev="enter", t=t, n=n, shield=a, dl=_dl(scope.deadline), called=pre, kind=kind, nc=nc0)
            exc: BaseException | None = None
            ended = False
            try:
                ended = await block()
            except BaseException as e:  # noqa: BLE001
                exc = e
            if cl == 1 and isinstance(exc, asyncio.CancelledError):
                try:
                    await cancel_shielded_checkpoint()
                except BaseException as e2:  # noqa: BLE001
                    exc = e2
            elif cl == 2 and isinstance(exc, asyncio.CancelledError):
                # catch the cancellation and wait again WITHOUT a shield: must be interrupted again
                try:
                    await aop("rewait", st["event"].wait())
                except asyncio.CancelledError as e2:
                    if exc_name(e2) != "cancel":
                        exc = e2
                except BaseException as e2:  # noqa: BLE001
                    exc = e2
            called = scope.cancel_called
            timeout = 0
            out: BaseException | None = exc
            try:
                if cm is not None:
                    swallowed = cm.__exit__(type(exc) if exc else None, exc, exc.__traceback__ if exc else None)
                else:
                    swallowed = scope.__exit__(type(exc) if exc else None, exc, exc.__traceback__ if exc else None)
                if swallowed:
                    out = None
            except TimeoutError as te:
                timeout = 1
                out = te
            except BaseException as e3:  # noqa: BLE001  (exception group remainder re-raised by the scope)
                out = e3
            stk.pop()
            st["exited"].append((scope, scope.cancel_called))
            emit(ev="exit", t=t, n=n, ein=exc_name(exc), eout=("none" if timeout else exc_name(out)),
                 caught=1 if scope.cancelled_caught else 0, called=1 if called else 0,
                 nc=task.cancelling(), timeout=timeout)
            if out is not None:
                raise out
            return ended

        # the task's own scope (n = 1), created up front so that the environment can cancel it early
        scope = st["scopes"][t]
        nc0 = task.cancelling()
        pre = 1 if scope.cancel_called else 0
        exc: BaseException | None = None
        try:
            scope.__enter__()
            stk.append((scope, 1, "task"))
            emit(ev="enter", t=t, n=1, shield=0, dl=INF, called=pre, kind="task", nc=nc0)
            try:
                await block()
            except BaseException as e:  # noqa: BLE001
                exc = e
            called = scope.cancel_called
            out: BaseException | None = exc
            try:
                if scope.__exit__(type(exc) if exc else None, exc, exc.__traceback__ if exc else None):
                    out = None
            except BaseException as e3:  # noqa: BLE001
                out = e3
            stk.pop()
            st["exited"].append((scope, scope.cancel_called))
            emit(ev="exit", t=t, n=1, ein=exc_name(exc), eout=exc_name(out),
                 caught=1 if scope.cancelled_caught else 0, called=1 if called else 0,
                 nc=task.cancelling(), timeout=0)
            if out is not None:
                raise out
        finally:
            st["ndone"] += 1
            st["lastdone"] = st["loop"].cycle
            if st["ndone"] == nt:
                st["timers_at_end"] = st["loop"].live_timers()

    async def main() -> None:
        loop = st["loop"] = uvrun.view(asyncio.get_running_loop())
        st["event"] = anyio.Event()
        st["scopes"] = {t: anyio.CancelScope() for t in range(1, nt + 1)}
        st["tasks"] = {}
        st["fut"] = loop.create_future()
        for t in range(1, nt + 1):
            task = loop.create_task(client(t, scn["tasks"][str(t)]), name=f"t{t}")
            task.add_done_callback(lambda f: f.exception() if not f.cancelled() else None)
            st["tasks"][t] = task
        await st["fut"]

    loop, _res, err = (uvrun.run if uv else vloop.run)(main, ctl, eager=eager, max_handles=5000)
    rec.closed = True
    flags = {"deadlock": isinstance(err, vloop.Deadlock), "budget": loop.budget_exceeded,
             "error": None if err is None or isinstance(err, (vloop.Deadlock, vloop.BudgetExceeded))
             else repr(err)}
    return {"events": rec.events, "final": st.get("final"), "flags": flags, "params": {"nt": nt}}
