"""C12 / C13 - memory object streams (one model, one observer, two clause sets)."""

from __future__ import annotations

import dataclasses

from .family import Family, ModelCfg, run_family

ASSUME = [
    "CPython 3.12 asyncio semantics (FIFO call_soon, C Task) are environment, not verified",
    "exhaustive only within the stated constants (tasks, operations per task, handles, environment actions)",
    "replay on the stock SelectorEventLoop-derived controlled loop; uvloop not covered by replay",
    "an item whose send was interrupted may or may not be delivered (at most once); FIFO-service clauses "
    "apply only to parties that were blocked across an idle point and when nothing can be in transit",
]

C12_CLAUSES = {"NoInvention", "NoDuplicate", "PerSenderOrder", "ReceiversServedInOrder",
               "SendersServedInOrder", "Bounded", "NothingLost", "NothingInvented",
               "ItemLostOnNativeCancelOfReceiver", "CancelWasRequested", "BrokenItemNotDelivered",
               "NoReceiverAsleepWithItemAvailable", "NoSenderAsleepWithRoom",
               "WouldBlockOnlyWhenNothingAvailable", "UnknownEvent"}
C13_CLAUSES = {"ClosedHandleRefused", "ClosedOnlyOnClosedHandle", "BrokenOnlyWhenAllReceiversClosed",
               "BrokenWhenAllReceiversClosed", "EndOfStreamOnlyWhenAllSendersClosed",
               "EndOfStreamOnlyWhenDrained", "EndOfStreamWhenAllSendersClosed", "OpenSendCountTrue",
               "OpenReceiveCountTrue", "WaitingCountsTrue", "ReceiversWokenWhenSendersClosed",
               "SendersWokenWhenReceiversClosed", "UnexpectedSendOutcome", "UnexpectedReceiveOutcome",
               "UnknownEvent"}

ENV = '{"cancel", "native", "esend", "erecv"}'


def consts(nt, maxops, maxenv, ops, maxbuf, ns=1, nr=1, env=ENV, wrap=False, retry=False):
    return {"NT": str(nt), "INF": "99", "Ops": ops, "MaxOps": str(maxops), "MaxEnv": str(maxenv),
            "EnvKinds": env, "MaxBuf": str(maxbuf), "NS0": str(ns), "NR0": str(nr),
            "Wrap": "TRUE" if wrap else "FALSE", "Retry": "TRUE" if retry else "FALSE"}


def kw(maxbuf, ns=1, nr=1, wrap=False, retry=False):
    return {"maxbuf": maxbuf, "ns": ns, "nr": nr, **({"wrap": True} if wrap else {}),
            **({"retry": True} if retry else {})}


def cmp(model: dict, real: dict) -> list[str]:
    return [f"{k}: model={model.get(k)} real={real.get(k)}"
            for k in ("buf", "os", "or", "ws", "wr", "nh", "out", "nc") if model.get(k) != real.get(k)]


OPS1 = '{"send1", "recv1", "snw1", "rnw1", "clS1", "clR1", "yield"}'
OPS_DATA = '{"send1", "recv1", "snw1", "rnw1"}'
OPS_CLOSE = '{"send1", "send2", "recv1", "recv2", "clS1", "clS2", "clR1", "clR2", "cloneS1", "cloneR1"}'

CONFIGS = [
    # two (three) blocked receivers, cancellations and sends from a callback in the same cycle
    ModelCfg("m-n2o1e3-rr", consts(2, 1, 3, '{"recv1"}', 0, env='{"cancel", "native", "esend"}'), emit=True,
             check=False, replay_kw=kw(0)),
    ModelCfg("m-n3o1e3-rr", consts(3, 1, 3, '{"recv1"}', 1, env='{"cancel", "esend"}'), emit=True,
             check=False, replay_kw=kw(1), max_scenarios=2500),
    ModelCfg("m-n2o1e3-ss", consts(2, 1, 3, '{"send1"}', 0, env='{"cancel", "erecv"}'), emit=True,
             check=False, replay_kw=kw(0)),
    # operations inside a shielded scope nested in the scope the environment cancels: the cancellation
    # must stay invisible to has_pending_cancellation (receivers keep being served, in order)
    ModelCfg("m-n2o1e3-wrap", consts(2, 1, 3, '{"recv1"}', 1, env='{"cancel", "esend"}', wrap=True), emit=True,
             replay_kw=kw(1, wrap=True)),
    ModelCfg("m-n2o2e2-wrap", consts(2, 2, 2, OPS_DATA, 0, env='{"cancel", "native", "esend", "erecv"}', wrap=True),
             emit=True, check=False, replay_kw=kw(0, wrap=True), max_scenarios=2000),
    # clients survive the cancellation of their scope (move_on_after pattern) and send / receive again
    ModelCfg("m-n2o3e2-retry", consts(2, 3, 2, '{"send1", "recv1"}', 0, env='{"cancel", "esend"}', retry=True),
             emit=True, check=False, replay_kw=kw(0, retry=True), max_scenarios=1500),
    ModelCfg("m-n3o3e2-retry", consts(3, 3, 2, OPS_DATA, 1, retry=True), simulate=600, check=False,
             replay_kw=kw(1, retry=True)),
    # two blocked receivers; a callback sends, cancels (scope / native) and closes the only send handle:
    # end of stream must not be reported to a receiver while an item is buffered or in transit
    ModelCfg("m-n2o1e3-rrc", consts(2, 1, 3, '{"recv1"}', 1, env='{"cancel", "native", "esend", "eclose"}'),
             emit=True, check=False, replay_kw=kw(1)),
    ModelCfg("m-n2o2e1-b0", consts(2, 2, 1, OPS1, 0), emit=True, check=False, replay_kw=kw(0),
             max_scenarios=2500),
    ModelCfg("m-n2o2e1-b1", consts(2, 2, 1, OPS1, 1), emit=True, check=False, replay_kw=kw(1),
             max_scenarios=2500),
    ModelCfg("m-n3o2e2-b0", consts(3, 2, 2, OPS_DATA, 0), tiers=("quick",), check=False, simulate=1200,
             replay_kw=kw(0)),
    ModelCfg("m-n2o3e1-close", consts(2, 3, 1, OPS_CLOSE, 1, 2, 2, '{"cancel", "esend", "erecv"}'),
             tiers=("quick",), check=False, simulate=1200, replay_kw=kw(1, 2, 2)),
    ModelCfg("m-n3o3e2-b1", consts(3, 3, 2, OPS1, 1), tiers=("thorough",), check=False, simulate=8000,
             replay_kw=kw(1)),
    ModelCfg("m-n3o3e2-binf", consts(3, 3, 2, OPS1, 99), tiers=("thorough",), check=False, simulate=5000,
             replay_kw=kw(99)),
    ModelCfg("m-n3o2e2-b0x", consts(3, 2, 2, OPS1, 0), tiers=("thorough",), simulate=6000,
             replay_kw=kw(0)),
    ModelCfg("m-n3o3e2-close", consts(3, 3, 2, OPS_CLOSE, 1, 2, 2), tiers=("thorough",), check=False,
             simulate=8000, replay_kw=kw(1, 2, 2)),
    ModelCfg("m-n4o2e2-b2", consts(4, 2, 2, OPS_DATA, 2), tiers=("thorough",), check=False, simulate=6000,
             replay_kw=kw(2)),
]

BASE = Family(
    prop="C12", mc_module="MC_C12", t_module="T_Chan", fam_module="harness.fam_mem",
    invariants=["PropertyHolds", "TypeOK", "NoReceiverWaitingWithBufferedItem", "NoSenderWaitingWithRoom",
                "CountersMatchHandles", "Residue"],
    nt_of=lambda c: int(c["NT"]), compare_final=cmp, configs=CONFIGS, assumptions=ASSUME,
    clauses=C12_CLAUSES,
)
FAMILY = BASE
FAMILY13 = dataclasses.replace(BASE, prop="C13", clauses=C13_CLAUSES)


def main(tier: str, seed: int) -> int:
    return run_family(FAMILY, tier, seed)
