"""C10 - Semaphore and CapacityLimiter: permits are conserved and never over-granted."""

from __future__ import annotations

from .family import Family, ModelCfg, run_parts

OPS = '{"acq", "nowait", "rel", "yield"}'
ENV = '{"cancel", "native"}'


def sconsts(nt, maxops, maxenv, fast, init, maxv, ops=OPS, env=ENV, retry=False):
    return {"NT": str(nt), "INF": "99", "Ops": ops, "MaxOps": str(maxops), "MaxEnv": str(maxenv),
            "Fast": "TRUE" if fast else "FALSE", "EnvKinds": env, "InitV": str(init), "MaxV": str(maxv),
            "Retry": "TRUE" if retry else "FALSE"}


def skw(fast, init, maxv):
    return {"fast": fast, "init": init, "maxv": maxv}


def cmp_sem(model: dict, real: dict) -> list[str]:
    return [f"{k}: model={model.get(k)} real={real.get(k)}"
            for k in ("value", "waiting", "nh", "out", "nc") if model.get(k) != real.get(k)]


SEM = Family(
    prop="C10", mc_module="MC_C10S", t_module="T_Sem", fam_module="harness.fam_sem",
    invariants=["PropertyHolds", "TypeOK", "NoLiveWaiterWhenPermitFree", "NoDuplicateWaiters",
                "NoDeadWaiters", "Residue"],
    nt_of=lambda c: int(c["NT"]), compare_final=cmp_sem,
    configs=[
        ModelCfg("s-n2o2e1-i1", sconsts(2, 2, 1, False, 1, 0), emit=True, check=False,
                 replay_kw=skw(False, 1, 0)),
        ModelCfg("s-n2o2e1-i0", sconsts(2, 2, 1, False, 0, 0), emit=True, check=False,
                 replay_kw=skw(False, 0, 0)),
        ModelCfg("s-n2o2e1-i1m1f", sconsts(2, 2, 1, True, 1, 1), emit=True, check=False,
                 replay_kw=skw(True, 1, 1)),
        ModelCfg("s-n2o3e2-i1m2", sconsts(2, 3, 2, False, 1, 2), emit=True, check=False,
                 replay_kw=skw(False, 1, 2), max_scenarios=2500),
        ModelCfg("s-n3o2e1-ar", sconsts(3, 2, 1, False, 0, 0, ops='{"acq", "rel"}'), emit=True, check=False,
                 replay_kw=skw(False, 0, 0)),
        # clients survive the cancellation of their scope (move_on_after pattern) and carry on
        ModelCfg("s-n2o3e2-retry", sconsts(2, 3, 2, False, 1, 0, ops='{"acq", "rel"}', env='{"cancel"}', retry=True),
                 emit=True, replay_kw={**skw(False, 1, 0), "retry": True}, max_scenarios=1500),
        ModelCfg("s-n3o3e2-retry", sconsts(3, 3, 2, False, 1, 2, retry=True), simulate=600, check=False,
                 replay_kw={**skw(False, 1, 2), "retry": True}),
        ModelCfg("s-n3o2e2-i1", sconsts(3, 2, 2, False, 1, 0), tiers=("quick",), simulate=1000,
                 replay_kw=skw(False, 1, 0)),
        ModelCfg("s-n3o3e2-i2", sconsts(3, 3, 2, False, 2, 0), tiers=("thorough",), simulate=6000,
                 replay_kw=skw(False, 2, 0)),
        ModelCfg("s-n3o3e2-i1m1", sconsts(3, 3, 2, False, 1, 1), tiers=("thorough",), simulate=6000,
                 replay_kw=skw(False, 1, 1)),
        ModelCfg("s-n4o2e3-i2", sconsts(4, 2, 3, False, 2, 0), tiers=("thorough",), check=False,
                 simulate=6000, replay_kw=skw(False, 2, 0)),
    ],
    assumptions=[
        "CPython 3.12 asyncio semantics (FIFO call_soon, C Task) are environment, not verified",
        "exhaustive only within the stated constants (tasks, operations per task, environment actions)",
        "replay on the stock SelectorEventLoop-derived controlled loop; uvloop not covered by replay",
    ],
)


LOPS = '{"acq", "acqf", "nowait", "rel", "relf", "set", "yield"}'


def lconsts(nt, maxops, maxenv, total0, totals, ops=LOPS, env=ENV, retry=False):
    return {"NT": str(nt), "INF": "99", "Ops": ops, "MaxOps": str(maxops), "MaxEnv": str(maxenv),
            "EnvKinds": env, "Total0": str(total0), "Totals": totals,
            "Retry": "TRUE" if retry else "FALSE"}


def cmp_lim(model: dict, real: dict) -> list[str]:
    return [f"{k}: model={model.get(k)} real={real.get(k)}"
            for k in ("borrowed", "total", "waiting", "nh", "out", "nc") if model.get(k) != real.get(k)]


LIM = Family(
    prop="C10", mc_module="MC_C10L", t_module="T_Limiter", fam_module="harness.fam_limiter",
    invariants=["PropertyHolds", "TypeOK", "NoWaiterWhenTokenFree", "QueueEntriesLive",
                "NoDuplicateBorrowersQueued", "Residue"],
    nt_of=lambda c: int(c["NT"]), compare_final=cmp_lim,
    configs=[
        ModelCfg("l-n2o2e1-t1", lconsts(2, 2, 1, 1, "{0, 2}"), emit=True, check=False,
                 replay_kw={"total": 1}),
        ModelCfg("l-n2o3e1-t1", lconsts(2, 3, 1, 1, "{0, 1}", ops='{"acq", "rel", "set", "nowait"}'),
                 emit=True, check=False, replay_kw={"total": 1}, max_scenarios=2500),
        ModelCfg("l-n2o3e2-retry", lconsts(2, 3, 2, 1, "{0, 2}", ops='{"acq", "rel", "set"}', env='{"cancel"}',
                                           retry=True),
                 emit=True, replay_kw={"total": 1, "retry": True}, max_scenarios=1500),
        ModelCfg("l-n3o3e2-retry", lconsts(3, 3, 2, 1, "{0, 2}", retry=True), simulate=600, check=False,
                 replay_kw={"total": 1, "retry": True}),
        ModelCfg("l-n3o2e1-t2", lconsts(3, 2, 1, 2, "{0, 1, 3}", ops='{"acq", "acqf", "rel", "set"}'),
                 tiers=("quick",), simulate=1500, replay_kw={"total": 2}),
        ModelCfg("l-n3o3e2-t1", lconsts(3, 3, 2, 1, "{0, 2, 99}"), tiers=("thorough",), check=False,
                 simulate=8000, replay_kw={"total": 1}),
        ModelCfg("l-n3o3e1-t2x", lconsts(3, 3, 1, 2, "{0, 1, 3}", ops='{"acq", "rel", "set"}'),
                 tiers=("thorough",), simulate=6000, replay_kw={"total": 2}),
        ModelCfg("l-n4o2e2-t2", lconsts(4, 2, 2, 2, "{0, 1, 3}"), tiers=("thorough",), check=False,
                 simulate=8000, replay_kw={"total": 2}),
    ],
    assumptions=SEM.assumptions,
)


def main(tier: str, seed: int) -> int:
    return run_parts("C10", [SEM, LIM], tier, seed)
