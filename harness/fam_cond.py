"""C11 (Condition): replay of MC_C11C scenarios on the real anyio.Condition."""

from __future__ import annotations

import asyncio

from .fam_common import Bench


def run_scenario(scn: dict, *, retry: bool = False, eager: bool = False, uv: bool = False) -> dict:
    from .replay import ensure_repo_on_path
    ensure_repo_on_path()
    import anyio

    st: dict = {}

    def obs() -> dict:
        cs = st["cond"].statistics()
        owner = 0
        if cs.lock_statistics.owner is not None:
            o = cs.lock_statistics.owner
            owner = b.ids.get(o.id) or (int(o.name[1:]) if o.name[:1] == "t" and o.name[1:].isdigit() else -1)
        return {"owner": owner, "w": cs.tasks_waiting}

    b = Bench(scn, obs)

    def setup() -> None:
        st["cond"] = anyio.Condition()

    async def client(t: int, script: list) -> None:
        cond = st["cond"]
        holding = False

        def emit(ev: str, op: str, res: str, n: int = 0) -> None:
            b.rec.emit(ev=ev, t=t, op=op, res=res, n=n, **obs())

        try:
            for op in script:
                if op == "acq":
                    emit("start", "acq", "")
                    try:
                        await cond.acquire()
                    except asyncio.CancelledError:
                        emit("end", "acq", "cancelled")
                        raise
                    except RuntimeError:
                        emit("end", "acq", "error")
                    else:
                        holding = True
                        emit("end", "acq", "ok")
                elif op == "wait":
                    emit("start", "wait", "")
                    try:
                        await cond.wait()
                    except asyncio.CancelledError:
                        holding = obs()["owner"] == t
                        emit("end", "wait", "cancelled")
                        raise
                    except RuntimeError:
                        holding = obs()["owner"] == t
                        emit("end", "wait", "error")
                    else:
                        holding = True
                        emit("end", "wait", "ok")
                elif op == "nowait":
                    try:
                        cond.acquire_nowait()
                    except anyio.WouldBlock:
                        emit("nowait", "nowait", "wouldblock")
                    except RuntimeError:
                        emit("nowait", "nowait", "error")
                    else:
                        holding = True
                        emit("nowait", "nowait", "ok")
                elif op == "rel":
                    try:
                        cond.release()
                    except RuntimeError:
                        emit("rel", "rel", "error")
                    else:
                        holding = False
                        emit("rel", "rel", "ok")
                elif op in ("notify1", "notify2", "notifyall"):
                    n = {"notify1": 1, "notify2": 2, "notifyall": -1}[op]
                    try:
                        if n < 0:
                            cond.notify_all()
                        else:
                            cond.notify(n)
                    except RuntimeError:
                        emit("notify", "notify", "error", n)
                    else:
                        emit("notify", "notify", "ok", n)
                elif op == "yield":
                    await anyio.lowlevel.checkpoint()
                elif op == "end":
                    break
        finally:
            if holding:
                try:
                    cond.release()
                except RuntimeError:
                    emit("rel", "rel", "error")
                else:
                    emit("rel", "rel", "ok")

    return b.run(setup, client, eager=eager, uv=uv, retry=retry)
