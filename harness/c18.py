"""C18 - socket streams deliver the byte stream intact, with back-pressure and EOF.

1. TLC checks spec/SockProto.tla (StreamProtocol + SocketStream as a state machine, kernel and peer
   as environment) and spec/SockRaw.tla (the raw-socket loops of UNIXSocketStream) exhaustively for
   several small configurations: every clause of the observer P_Sock on every behaviour, plus the
   machines' own invariants and liveness under a fair kernel.
2. Unit level: every transition TLC explored in SockProto is emitted with a history leading to it and
   replayed on the real StreamProtocol / SocketStream with a scripted transport on a stepping loop
   (harness/c18_unit.py); the state reached is compared with the model.  A replay that agrees with
   the model has produced the model's own event trace (already judged by TLC, invariant
   PropertyHolds); traces of replays that leave the model (drift), traces on which the model shows
   a known finding, and a sample of the agreeing ones are judged by TLC again (T_Sock).
3. Real sockets: behaviours from `tlc -simulate` drive connected pairs of anyio streams over TCP
   loopback, UNIX sockets and from_socket() pairs, on asyncio and uvloop (harness/c18_real.py); the
   recorded traces are judged by T_Sock.
Known findings: F10 (no back-pressure while nobody receives), F16 (UNIX stream not closed on uvloop).
"""

from __future__ import annotations

import json
import random
import time
from concurrent.futures import ThreadPoolExecutor
from pathlib import Path

from . import core, tlc
from .replay import leaves, pmap

PROP = "C18"
KNOWN = "UnboundedBufferingWhileNotReceiving"          # F10
KNOWN_F16 = "ClosedUnixStreamStaysOpenOnUvloop"         # F16
INVARIANTS = ["TypeOK", "PropertyHolds", "GuardsExact", "QueueContiguous", "QueuedImpliesEvent",
              "WaitersCanBeWoken", "NeverWaitsOnceClosed", "ReadingOnlyInsideReceive", "BackPressure",
              "WriteGateShutWhileBuffered"]
TIMING_CLAUSES = {"NoDeadlock", "ReceiveNeverBlocksWhenClosed", "SendNeverBlocksWhenClosed"}


def S(xs) -> str:
    return "{" + ", ".join(f'"{x}"' if isinstance(x, str) else str(x) for x in xs) + "}"


def consts(*, nt=2, ops=((), (), ()), maxops=3, total=3, chunk=2, mbs=(1, 2), sizes=(1, 3), kcap=2,
           paused=True, env=(), maxenv=1, burst=1, emit=False) -> dict:
    o = list(ops) + [()] * (3 - len(ops))
    return {"NT": nt, "Ops1": S(o[0]), "Ops2": S(o[1]), "Ops3": S(o[2]), "MaxOps": maxops, "Total": total,
            "ChunkMax": chunk, "MaxBytesSet": S(mbs), "SendSizes": S(sizes), "KCap": kcap,
            "PausedAtStart": "TRUE" if paused else "FALSE", "EnvKinds": S(env), "MaxEnv": maxenv,
            "MaxBurst": burst, "Emit": "TRUE" if emit else "FALSE"}


def pycfg(c: dict) -> dict:
    return {"NT": c["NT"], "KCap": c["KCap"], "ChunkMax": c["ChunkMax"], "MaxBurst": c["MaxBurst"],
            "PausedAtStart": c["PausedAtStart"] == "TRUE"}


R, SN, CL, EO = "recv", "send", "close", "eof"

# exhaustive configurations that are also emitted transition by transition and replayed
EMIT = {
    "quick": [
        ("rx-paused", consts(ops=((R,), (R, CL)), maxops=3, total=3, env=("data", "peof", "reset"), emit=True)),
        ("rx-unpaused-cancel", consts(ops=((R,), (CL,)), maxops=3, total=4, paused=False, burst=0,
                                      env=("data", "peof", "cancel"), emit=True)),
        ("tx", consts(ops=((SN,), (SN, CL)), maxops=3, total=0, env=("drain", "cancel"), emit=True)),
        ("duplex", consts(nt=3, ops=((R,), (SN,), (CL, EO)), maxops=3, total=2, sizes=(3,), mbs=(1,),
                          env=("data", "peof", "drain"), emit=True)),
    ],
    "thorough": [
        ("rx-paused", consts(ops=((R,), (R, CL)), maxops=4, total=4, env=("data", "peof", "reset"), emit=True)),
        ("rx-unpaused-cancel", consts(ops=((R,), (R, CL)), maxops=3, total=4, paused=False, burst=0,
                                      env=("data", "peof", "reset", "cancel"), emit=True)),
        ("rx-burst2", consts(ops=((R,), (CL,)), maxops=3, total=6, chunk=3, mbs=(1, 2, 4), burst=2,
                             env=("data", "peof", "cancel"), emit=True)),
        ("tx", consts(ops=((SN,), (SN, CL)), maxops=4, total=0, env=("drain", "reset", "cancel"), emit=True)),
        ("tx-eof", consts(ops=((SN, EO), (SN, CL)), maxops=3, total=0, kcap=3, sizes=(2, 4),
                          env=("drain", "reset"), emit=True)),
        ("duplex", consts(nt=3, ops=((R,), (SN,), (CL, EO)), maxops=3, total=3,
                          env=("data", "peof", "drain", "reset"), emit=True)),
    ],
}
# exhaustive only
CHECK = {
    "quick": [],
    "thorough": [
        ("duplex-cancel", consts(nt=3, ops=((R,), (SN,), (CL,)), maxops=4, total=3,
                                 env=("data", "peof", "drain", "reset", "cancel"))),
        ("rx3", consts(nt=3, ops=((R,), (R,), (R, CL)), maxops=4, total=4, paused=False,
                       env=("data", "peof", "reset", "cancel"))),
    ],
}
LIVE = {
    "quick": ("live", consts(nt=2, ops=((R, CL), (SN,)), maxops=2, total=2, sizes=(3,), mbs=(1,),
                             env=("data", "peof", "drain", "reset", "cancel"))),
    "thorough": ("live", consts(nt=3, ops=((R,), (SN,), (CL,)), maxops=3, total=3,
                                env=("data", "peof", "drain", "reset", "cancel"))),
}
# the model reproduces finding F10: with a transport that is not paused at creation the strict bound fails
F10 = ("f10-unpaused", consts(nt=1, ops=((R,),), maxops=3, total=8, paused=False, env=("data", "peof"), maxenv=0))
F10C = ("f10-cancel", consts(nt=1, ops=((R,),), maxops=3, total=8, paused=True, env=("data", "peof", "cancel")))
SIM = {
    "paused": consts(nt=3, ops=((R, SN), (SN, R), (R, SN, CL, EO)), maxops=14, total=16, chunk=4, mbs=(1, 2, 3),
                     sizes=(1, 2, 4), kcap=3, paused=True, env=("data", "peof", "drain", "reset", "cancel"),
                     maxenv=2, emit=True),
    "unpaused": consts(nt=3, ops=((R, SN), (SN, R), (R, SN, CL, EO)), maxops=14, total=16, chunk=4, mbs=(1, 2, 3),
                       sizes=(1, 2, 4), kcap=3, paused=False, env=("data", "peof", "drain", "reset", "cancel"),
                       maxenv=2, emit=True),
    "flood": consts(nt=2, ops=((R,), (SN,)), maxops=10, total=24, chunk=4, mbs=(1, 2, 3),
                    sizes=(2, 4), kcap=3, paused=False, env=("data", "peof", "drain"), maxenv=0, emit=True),
}
SIM_DEPTH = 45
# the raw-socket loops of UNIXSocketStream (spec/SockRaw.tla)
RAW_INV = ["PropertyHolds", "GuardsExact", "WaitersCanBeWoken", "KernelBounded"]


def rconsts(*, nt=2, ops=((), (), ()), maxops=3, total=2, mbs=(1, 2), sizes=(1, 3), kcap=2, kin=2,
            env=("data", "peof", "drain", "reset", "cancel"), maxenv=1, defer=False) -> dict:
    o = list(ops) + [()] * (3 - len(ops))
    return {"NT": nt, "Ops1": S(o[0]), "Ops2": S(o[1]), "Ops3": S(o[2]), "MaxOps": maxops, "Total": total,
            "MaxBytesSet": S(mbs), "SendSizes": S(sizes), "KCap": kcap, "KIn": kin, "EnvKinds": S(env),
            "MaxEnv": maxenv, "DeferClose": "TRUE" if defer else "FALSE"}


RAW = {
    "quick": [("raw", rconsts(ops=((R, SN), (R, CL)), maxops=3, env=("data", "peof", "drain")), "inv")],
    "thorough": [("raw", rconsts(nt=3, ops=((R, SN), (R, SN), (CL, EO)), maxops=3, total=3), "inv"),
                 ("raw-4ops", rconsts(ops=((R, SN), (R, SN, CL, EO)), maxops=4, total=3), "inv"),
                 ("raw-live", rconsts(ops=((R, SN), (R, SN, CL)), maxops=3), "live"),
                 # uvloop's deferred close: every clause holds except the known finding F16 ...
                 ("raw-defer", rconsts(nt=3, ops=((R,), (SN,), (CL, R, SN)), maxops=4, total=3, defer=True), "inv"),
                 # ... and the model does reproduce F16 (strict form violated)
                 ("raw-defer-strict", rconsts(nt=3, ops=((R,), (SN,), (CL, R, SN)), maxops=4, total=3, defer=True),
                  "f11")],
}


def _out() -> Path:
    d = core.OUT / PROP
    d.mkdir(parents=True, exist_ok=True)
    return d


def _cfg(name: str, c: dict, **kw) -> Path:
    p = _out() / f"{name}.cfg"
    tlc.write_cfg(p, constants={k: str(v) for k, v in c.items()}, **kw)
    return p


def _run_emit(name: str, c: dict, workers: int):
    cfg = _cfg("emit-" + name, c, spec="Spec", view="View", invariants=INVARIANTS, action_constraints=["EmitAC"])
    r = tlc.run_tlc("MC_C18", cfg, workers=workers, timeout=3000, tag="c18e", marker="@@E", keep_output=False)
    if r.violated:
        raise tlc.TLCError(f"SockProto configuration {name} violates {r.violated}:\n{r.output[-3000:]}")
    items = tlc.payloads(r.lines, "@@E")
    if len(items) != r.generated - 1:
        raise tlc.TLCError(f"{name}: {len(items)} transitions emitted, {r.generated - 1} explored")
    r.lines = []
    return name, c, r, items


def _run_check(name: str, c: dict, workers: int):
    cfg = _cfg("check-" + name, c, spec="Spec", view="View", invariants=INVARIANTS)
    r = tlc.run_tlc("MC_C18", cfg, workers=workers, timeout=3000, tag="c18c")
    if r.violated:
        raise tlc.TLCError(f"SockProto configuration {name} violates {r.violated}:\n{r.output[-3000:]}")
    return name, c, r


def _run_live(name: str, c: dict, workers: int):
    cfg = _cfg("live-" + name, c, spec="FairSpec", view=None, properties=["Live"])
    r = tlc.run_tlc("MC_C18", cfg, workers=workers, timeout=3000, tag="c18l")
    if r.violated:
        raise tlc.TLCError(f"SockProto liveness ({name}) violated: {r.violated}\n{r.output[-3000:]}")
    return name, c, r


def _run_raw(name: str, c: dict, what: str):
    if what == "live":
        cfg = _cfg("raw-" + name, c, spec="FairSpec", view=None, properties=["Live"])
    elif what == "f11":
        cfg = _cfg("raw-" + name, c, spec="Spec", view=None, invariants=["PropertyHoldsStrict"])
        r = tlc.run_tlc("SockRaw", cfg, workers=2, timeout=3000, tag="c18w")
        if r.violated != "PropertyHoldsStrict":
            raise tlc.TLCError(f"{name}: expected SockRaw to reproduce F16, got {r.violated}\n{r.output[-2000:]}")
        return name, c, r, what
    else:
        cfg = _cfg("raw-" + name, c, spec="Spec", view=None, invariants=RAW_INV)
    r = tlc.run_tlc("SockRaw", cfg, workers=4, timeout=3000, tag="c18w")
    if r.violated:
        raise tlc.TLCError(f"SockRaw configuration {name} violates {r.violated}:\n{r.output[-3000:]}")
    return name, c, r, what


def _run_f10(name: str, c: dict):
    cfg = _cfg(name, c, spec="Spec", view="View", invariants=["PropertyHolds", "BackPressure", "BackPressureStrict"])
    r = tlc.run_tlc("MC_C18", cfg, workers=1, timeout=600, tag="c18f")
    return name, c, r


def _run_sim(name: str, c: dict, num: int, seed: int):
    cfg = _cfg("sim-" + name, c, spec="Spec", view=None, action_constraints=["EmitSim"])
    r = tlc.run_tlc("MC_C18", cfg, workers=2, timeout=600, simulate=f"num={num}", depth=SIM_DEPTH, seed=seed,
                    tag="c18s", marker="@@S", keep_output=False)
    hists = tlc.payloads(r.lines, "@@S")
    r.lines = []
    return name, c, r, hists


# ---------------------------------------------------------------------------------------------------


def _key(tr: dict) -> str:
    return json.dumps([tr["events"], tr["params"]], sort_keys=True)


def _validate(reps: list[dict], tag: str, par: int = 4) -> list[dict]:
    """T_Sock validation, split over a few TLC processes."""
    if not reps:
        return []
    n = max(1, min(par, len(reps) // 100))
    size = (len(reps) + n - 1) // n
    parts = [reps[i:i + size] for i in range(0, len(reps), size)]
    with ThreadPoolExecutor(max_workers=n) as ex:
        futs = [ex.submit(tlc.validate_traces, "T_Sock", p, tag=f"{tag}{j}", chunk=4000) for j, p in enumerate(parts)]
        return [v for f in futs for v in f.result()]


def _judge(traces: list[dict], tag: str):
    """Validate traces (deduplicated) with TLC; traces that only show the known finding are judged a
    second time with the back-pressure bound lifted, so that nothing hides behind it."""
    uniq: dict[str, int] = {}
    reps: list[dict] = []
    for tr in traces:
        k = _key(tr)
        if k not in uniq:
            uniq[k] = len(reps)
            reps.append({"id": len(reps), "events": tr["events"], "params": tr["params"]})
    verdicts = _validate(reps, tag)
    for v in verdicts:
        if v["bad"] == [KNOWN_F16]:
            v["known_only"] = KNOWN_F16
    again = [i for i, v in enumerate(verdicts) if v["bad"] == [KNOWN]]
    if again:
        second = [{"id": i, "events": reps[i]["events"],
                   "params": dict(reps[i]["params"], boundA=1 << 29, boundB=1 << 29)} for i in again]
        for i, v in zip(again, _validate(second, tag + "b", par=1)):
            if v["bad"]:
                verdicts[i] = dict(v, bad=sorted(set(v["bad"])), behind_known=True)
            else:
                verdicts[i]["known_only"] = KNOWN
    out = []
    for tr in traces:
        out.append(dict(verdicts[uniq[_key(tr)]]))
    return out, len(reps)


def _signature(bad: list[str]) -> str:
    return "+".join(sorted(bad))


def _tlc_phase(tier: str, seed: int, quick: bool, nsim: int) -> list:
    jobs = []
    with ThreadPoolExecutor(max_workers=12) as ex:
        for name, c in EMIT[tier]:
            jobs.append(("emit", ex.submit(_run_emit, name, c, 3 if quick else 6)))
        for name, c in CHECK[tier]:
            jobs.append(("check", ex.submit(_run_check, name, c, 4)))
        jobs.append(("live", ex.submit(_run_live, *LIVE[tier], 4)))
        for name, c, what in RAW[tier]:
            jobs.append(("raw", ex.submit(_run_raw, name, c, what)))
        if not quick:   # quick: the emitted unpaused / cancel configuration shows the same (x.bad)
            jobs.append(("f10", ex.submit(_run_f10, *F10)))
            jobs.append(("f10", ex.submit(_run_f10, *F10C)))
        for i, (name, c) in enumerate(SIM.items()):
            if quick and name == "paused":
                continue
            jobs.append(("sim", ex.submit(_run_sim, name, c, nsim if name != "flood" else nsim // 2,
                                          seed * 7 + i + 1)))
        results = [(kind, f.result()) for kind, f in jobs]
    return results


def main(tier: str, seed: int) -> int:
    rep = core.Report(PROP, tier, seed)
    rng = random.Random(seed)
    quick = tier == "quick"
    t0 = time.time()

    # ---- 1. TLC: exhaustive checks, emission, liveness, simulation -- all started together
    nsim = 70 if quick else 1200
    # development aid, off by default: TLC's output does not depend on the library, so it can be reused
    # across runs against patched trees (VERIF_C18_TLC_CACHE=<file>); never used by ./check itself
    import os
    import pickle
    cache = os.environ.get("VERIF_C18_TLC_CACHE")
    if cache and os.path.exists(cache):
        results = pickle.load(open(cache, "rb"))
    else:
        results = _tlc_phase(tier, seed, quick, nsim)
        if cache:
            pickle.dump(results, open(cache, "wb"))
    emitted, sims = [], []
    for kind, res in results:
        if kind == "emit":
            name, c, r, items = res
            rep.add_model(f"SockProto/{name}", r, invariants=INVARIANTS, constants=c, transitions_emitted=len(items))
            emitted.append((name, c, items))
        elif kind == "check":
            name, c, r = res
            rep.add_model(f"SockProto/{name}", r, invariants=INVARIANTS, constants=c)
        elif kind == "live":
            name, c, r = res
            rep.add_model(f"SockProto/{name}", r, properties=["Live (FairSpec)"], constants=c)
        elif kind == "raw":
            name, c, r, what = res
            if what == "f11":
                rep.extra["model_reproduces_F16"] = {"config": name, "violated": r.violated}
                continue
            rep.add_model(f"SockRaw/{name}", r, constants=c,
                          **({"properties": ["Live (FairSpec)"]} if what == "live" else {"invariants": RAW_INV}))
        elif kind == "f10":
            name, c, r = res
            if r.violated != "BackPressureStrict":
                raise tlc.TLCError(f"{name}: expected the model to reproduce F10 (BackPressureStrict violated), "
                                   f"got {r.violated}\n{r.output[-2000:]}")
            rep.extra.setdefault("model_reproduces_F10", []).append(
                {"config": name, "violated": r.violated, "holds": ["PropertyHolds (F10 clause allowed)", "BackPressure"]})
        else:
            name, c, r, hists = res
            sims.append((name, c, hists))
            rep.extra.setdefault("simulation", []).append({"config": name, "histories": len(hists),
                                                           "wall_s": round(r.wall_s, 1)})
    t_tlc = time.time() - t0

    # ---- 2. unit level: replay every emitted transition on the real classes
    # A replay that agrees with the model at every step (all prefixes of a history are histories too)
    # has produced exactly the model's event trace, which TLC has judged already (PropertyHolds is an
    # invariant of every configuration).  TLC judges again: every trace of a replay that left the
    # model (drift; minimal ones, i.e. whose parent history still agreed), the traces on which the
    # model itself shows the known finding, and a sample of the agreeing ones as a cross-check.
    from .replay import ensure_repo_on_path
    ensure_repo_on_path()
    import anyio  # noqa: F401 - imported before the worker processes are forked
    import anyio._backends._asyncio  # noqa: F401
    import uvloop  # noqa: F401
    from . import c18_unit
    for side in "AB":
        c18_unit.pattern_fast(side, 0, 1 << 21)
    units = [1, 3] if quick else [1, 3, 1000]
    cap_drift, cap_ok, cap_known = (1200, 300, 60) if quick else (6000, 3000, 300)
    to_judge, src_judge = [], []
    ndrift, drift_samples, nagree = 0, [], 0
    for name, c, items in emitted:
        pc = pycfg(c)
        keys = [json.dumps(it["h"]) for it in items]
        for U in units:
            # in this process: a replay takes well under 0.1 ms, shipping it to a pool costs more
            res = [c18_unit.run_schedule(it, cfg=pc, unit=U) for it in items]
            drifted = {k for k, r in zip(keys, res) if r["drift"]}
            picks = {"drift": [], "ok": [], "known": []}
            for it, k, r in zip(items, keys, res):
                rep.evaluations += 1
                if r["drift"]:
                    ndrift += 1
                    if json.dumps(it["h"][:-1]) in drifted:
                        continue
                    if len(drift_samples) < 5:
                        drift_samples.append({"config": name, "unit": U, "schedule": it["h"], "drift": r["drift"][:3]})
                    picks["drift"].append((it, r))
                else:
                    nagree += 1
                    picks["known" if it["x"]["bad"] else "ok"].append((it, r))
            rng.shuffle(picks["ok"])
            rng.shuffle(picks["known"])
            picks["drift"].sort(key=lambda p: len(p[0]["h"]))
            n_cfg = max(1, len(emitted) * len(units))
            for kind, cap in (("drift", cap_drift), ("ok", cap_ok), ("known", cap_known)):
                for it, r in picks[kind][: max(1, cap // n_cfg)]:
                    to_judge.append({"events": r["events"], "params": r["params"]})
                    src_judge.append({"mode": "unit", "config": name, "cfg": pc, "unit": U, "item": it, "pick": kind})
    nmodel_known = sum(1 for _n, _c, items in emitted for it in items if KNOWN in it["x"]["bad"])
    rep.extra["model_transitions_showing_F10"] = nmodel_known
    rep.drift = ndrift
    if drift_samples:
        rep.extra["drift_samples"] = drift_samples
    verdicts, nuniq_unit = _judge(to_judge, "C18u")
    rep.traces += nagree
    seen_sig: set = set()
    nviol_unit = 0
    for v, src in zip(verdicts, src_judge):
        if not v["bad"]:
            continue
        if v.get("known_only"):
            rep.violation("known finding (unit level)", src, signature=v["known_only"])
            continue
        sig = _signature(v["bad"])
        nviol_unit += 1
        if (sig, src["config"]) in seen_sig:
            continue
        seen_sig.add((sig, src["config"]))
        rep.violation(f"unit replay ({src['config']}, unit {src['unit']}): clause {sig} violated at event {v['at']} "
                      f"of the trace recorded from StreamProtocol/SocketStream; schedule {json.dumps(src['item']['h'])}",
                      src, signature=sig)
    t_unit = time.time() - t0 - t_tlc
    del emitted, verdicts
    import gc
    gc.collect()

    # ---- 3. real sockets
    from . import c18_real

    nreal = 200 if quick else 3000
    scripts = []
    for name, c, hists in sims:
        lv = [h for h in leaves(hists) if len(h) >= 8]
        rng.shuffle(lv)
        scripts.append(lv)
    scns, i = [], 0
    while len(scns) < nreal and any(scripts):
        for lv in scripts:
            if lv and len(scns) < nreal:
                scns.append(c18_real.make_scenario(lv.pop(), rng, len(scns)))
        i += 1
    real = pmap("harness.c18_real", "run_real", scns, procs=8, chunk=max(1, len(scns) // 32))
    for r in real:
        if "machinery_error" in r:
            raise tlc.TLCError("real-socket run failed: " + r["machinery_error"])
    rverd, nuniq_real = _judge([{"events": r["events"], "params": r["params"]} for r in real], "C18r")
    rep.traces += nuniq_real
    rep.evaluations += len(real)
    nontrivial = 0
    bytes_moved = 0
    kinds: dict[str, int] = {}
    margin = 0.0
    for scn, r, v in zip(scns, real, rverd):
        moved = r["recvd"]["A"] + r["recvd"]["B"]
        bytes_moved += moved
        if moved > 0:
            nontrivial += 1
        k = f"{scn['kind']}/{scn['loop']}/{scn['arole']}"
        kinds[k] = kinds.get(k, 0) + 1
        for s_ in "AB":
            b = r["params"]["bound" + s_]
            leak_side = r["params"]["paused" + ("B" if s_ == "A" else "A")] == 0
            if b < c18_real.BIG and not leak_side:
                margin = max(margin, r["maxunread"][s_] / b)
        if not v["bad"]:
            continue
        if v.get("known_only"):
            rep.violation(f"known finding {v['known_only']} (real sockets, {k})", {"mode": "real", "scn": scn},
                          signature=v["known_only"])
            continue
        if set(v["bad"]) & TIMING_CLAUSES:
            # a stuck call is decided by a deadline: confirm on a second run before reporting
            again = c18_real.run_real(scn)
            v2, _ = _judge([{"events": again["events"], "params": again["params"]}], "C18rr")
            if not (set(v2[0]["bad"]) & TIMING_CLAUSES):
                rep.extra.setdefault("unconfirmed_timeouts", []).append(scn["id"])
                continue
        sig = _signature(v["bad"])
        if ("real", sig) in seen_sig:
            continue
        seen_sig.add(("real", sig))
        rep.violation(f"real sockets ({k}, bufsize {scn['bufsize']}, unit {scn['unit']}): clause {sig} violated at "
                      f"event {v['at']}: {json.dumps(r['events'][max(0, v['at'] - 4):v['at']])} notes={r['notes']}",
                      {"mode": "real", "scn": scn}, signature=sig)
    t_real = time.time() - t0 - t_tlc - t_unit

    rep.distinct = nuniq_unit + nuniq_real
    rep.rule = ("unit level: every transition of the exhaustive SockProto graphs (constants in 'models'), replayed "
                f"with {units} bytes per model unit; real sockets: {len(scns)} behaviours of `tlc -simulate` "
                "(three configurations) mapped to TCP loopback / UNIX / from_socket pairs on asyncio and uvloop with "
                "seeded buffer sizes (4 KiB..kernel default), unit sizes (1 byte..4 socket buffers), max_bytes and "
                "pacing; a case is distinct when its recorded event trace differs; non-trivial = moved data")
    for scn, r in list(zip(scns, real))[:4]:
        rep.sample({"scenario": {k: scn[k] for k in ("kind", "loop", "arole", "bufsize", "unit", "mb")},
                    "script_head": scn["script"][:6], "trace_head": r["events"][:8], "wall_s": r["wall"]})
    if src_judge:
        rep.sample({"unit_schedule": src_judge[len(src_judge) // 2]["item"]["h"],
                    "trace": to_judge[len(src_judge) // 2]["events"]})
    rep.extra.update({
        "unit_replays": nagree + ndrift, "unit_replays_agreeing_with_model": nagree,
        "unit_traces_judged_by_tlc": nuniq_unit, "unit_violating_traces": nviol_unit,
        "real_runs": len(real), "real_distinct_traces": nuniq_real, "real_nontrivial": nontrivial,
        "real_bytes_moved": bytes_moved, "real_by_kind": kinds,
        "real_wall_per_run_ms": round(1000 * sum(r["wall"] for r in real) / max(1, len(real)), 1),
        "backpressure_max_unread_over_bound": round(margin, 3),
        "real_timed_out_runs": sum(1 for r in real if r["timed_out"]),
        "phases_s": {"tlc": round(t_tlc, 1), "unit": round(t_unit, 1), "real": round(t_real, 1)},
    })
    rep.assumptions += [
        "the kernel (TCP loopback, AF_UNIX) and the asyncio / uvloop transports are environment, not verified; the "
        "scripted transport of the unit level follows CPython 3.12 selector_events as far as the stream uses it",
        "exhaustive only within the stated constants; real-socket runs are samples of schedules (real time)",
        "a connection that may have been reset by the kernel (a side closed with unread input, data sent to a closed "
        "side) carries no delivery obligations; a send in progress when its own stream is closed may report success",
        "back-pressure bound on real sockets: SO_SNDBUF + SO_RCVBUF (as reported) + two reads of at most "
        "min(256 KiB, SO_RCVBUF) + 256 KiB slack; runs with kernel-default (autotuned) buffers are exempt",
        "FIFO scheduling of ready tasks (asyncio, uvloop) for the 'settle' marker of the raw UNIX loops",
    ]
    return rep.finish()


def replay(path: str) -> int:
    data = json.loads(Path(path).read_text())
    rp = data["replay"]
    tries = 1 if rp["mode"] == "unit" else 3
    for _ in range(tries):
        if rp["mode"] == "unit":
            from . import c18_unit
            r = c18_unit.run_schedule(rp["item"], cfg=rp["cfg"], unit=rp["unit"])
        else:
            from . import c18_real
            r = c18_real.run_real(rp["scn"])
        v, _n = _judge([{"events": r["events"], "params": r["params"]}], "C18-replay")
        print(json.dumps({"verdict": v[0], "trace": r["events"][: (v[0]["at"] + 1 if v[0]["bad"] else 40)]})[:6000])
        if v[0]["bad"] and not v[0].get("known_only"):
            print(f"VIOLATION property={PROP} replay={path}")
            return 1
    return 0
