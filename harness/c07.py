"""C07 - TaskGroup.start(): readiness handshake is exact and loses nothing."""

from __future__ import annotations

from .family import ModelCfg, run_family
from .tgroups import consts, family

OPS = '{"tgopen", "close", "start", "started", "yield", "wait", "raise"}'
OPSX = '{"tgopen", "close", "start", "started", "spawn", "yield", "wait", "raise", "cancel"}'
FAMILY = family("C07", [
    ModelCfg("c07-n2o4e1", consts(2, 4, 1, OPS), emit=True, check=False, max_scenarios=5000),
    ModelCfg("c07-n3o3e1", consts(3, 3, 1, OPS), tiers=("quick",), check=False, simulate=2000),
    ModelCfg("c07-n2o4e2", consts(2, 4, 2, OPS), tiers=("thorough",), simulate=5000),
    ModelCfg("c07-n3o4e2", consts(3, 4, 2, OPSX), tiers=("thorough",), check=False, simulate=12000,
             sim_depth=700),
    ModelCfg("c07-n3o5e1", consts(3, 5, 1, OPS, cleanups="{0, 1}"), tiers=("thorough",), check=False,
             simulate=10000, sim_depth=800),
    # both iteration orders of the scopes' task / child-scope sets (Python sets), model check only
    ModelCfg("c07-n3o3e1-orders", consts(3, 3, 1, '{"tgopen", "close", "start", "started", "yield", "wait", "raise"}', orders="{FALSE, TRUE}"),
             tiers=("thorough",)),
])


def main(tier: str, seed: int) -> int:
    return run_family(FAMILY, tier, seed)
