"""C09 - Lock: mutual exclusion, FIFO hand-off, cancel-safe waiters."""

from __future__ import annotations

from .family import Family, ModelCfg, run_family

INVARIANTS = ["PropertyHolds", "TypeOK", "NoDuplicateWaiters", "NoLiveWaiterOnFreeLock",
              "OwnerAlive", "NoDeadWaiters", "Residue"]


def consts(nt: int, maxops: int, maxenv: int, fast: bool, ops: str = '{"acq", "nowait", "rel", "yield"}',
           env: str = '{"cancel", "native"}', retry: bool = False, cleanup: bool = False) -> dict[str, str]:
    return {"NT": str(nt), "INF": "99", "Ops": ops, "MaxOps": str(maxops), "MaxEnv": str(maxenv),
            "Fast": "TRUE" if fast else "FALSE", "EnvKinds": env,
            "Retry": "TRUE" if retry else "FALSE", "Cleanup": "TRUE" if cleanup else "FALSE"}


def compare_final(model: dict, real: dict) -> list[str]:
    diffs = []
    for k in ("owner", "waiting", "nh", "out", "nc"):
        if model.get(k) != real.get(k):
            diffs.append(f"{k}: model={model.get(k)} real={real.get(k)}")
    return diffs


FAMILY = Family(
    prop="C09",
    mc_module="MC_C09",
    t_module="T_Lock",
    fam_module="harness.fam_lock",
    invariants=INVARIANTS,
    nt_of=lambda c: int(c["NT"]),
    compare_final=compare_final,
    configs=[
        # exhaustive + every choice edge replayed
        ModelCfg("n2o2e1", consts(2, 2, 1, False), emit=True, check=False, replay_kw={"fast": False}),
        ModelCfg("n2o2e1f", consts(2, 2, 1, True), emit=True, check=False, replay_kw={"fast": True}),
        ModelCfg("n2o3e2", consts(2, 3, 2, False), emit=True, check=False, replay_kw={"fast": False},
                 max_scenarios=3500),
        # three contenders (holder + two queued waiters), acquire / release only: every choice edge
        ModelCfg("n3o2e1-ar", consts(3, 2, 1, False, ops='{"acq", "rel"}', env='{"cancel"}'), emit=True,
                 check=False, replay_kw={"fast": False}),
        ModelCfg("n3o2e1-arn", consts(3, 2, 1, False, ops='{"acq", "rel"}', env='{"native"}'), emit=True,
                 check=False, replay_kw={"fast": False}),
        # cancelled clients run their remaining operations as clean-up behind a shield before they re-raise
        ModelCfg("n3o3e1-cleanup", consts(3, 3, 1, False, ops='{"acq", "rel"}', env='{"cancel"}', cleanup=True),
                 emit=True, check=False, replay_kw={"fast": False, "cleanup": True}, max_scenarios=3000),
        ModelCfg("n3o3e2-cleanup", consts(3, 3, 2, False, cleanup=True), simulate=800, check=False,
                 replay_kw={"fast": False, "cleanup": True}),
        # clients survive the cancellation of their scope (move_on_after pattern) and carry on
        ModelCfg("n2o3e2-retry", consts(2, 3, 2, False, ops='{"acq", "rel"}', env='{"cancel"}', retry=True),
                 emit=True, replay_kw={"fast": False, "retry": True}),
        ModelCfg("n3o3e2-retry", consts(3, 3, 2, False, ops='{"acq", "rel", "nowait"}', retry=True),
                 simulate=800, check=False, replay_kw={"fast": False, "retry": True}),
        # exhaustive model check of the larger configuration, sampled behaviours replayed
        ModelCfg("n3o2e2", consts(3, 2, 2, False), tiers=("quick",), simulate=1500,
                 replay_kw={"fast": False}),
        ModelCfg("n3o3e2", consts(3, 3, 2, False), tiers=("thorough",), simulate=8000,
                 replay_kw={"fast": False}),
        ModelCfg("n3o3e2f", consts(3, 3, 2, True), tiers=("thorough",), simulate=4000,
                 replay_kw={"fast": True}),
        ModelCfg("n4o2e3", consts(4, 2, 3, False), tiers=("thorough",), check=False, simulate=8000,
                 replay_kw={"fast": False}),
    ],
    assumptions=[
        "CPython 3.12 asyncio semantics (FIFO call_soon, C Task) are environment, not verified",
        "exhaustive only within the stated constants (tasks, operations per task, environment actions)",
        "replay on the stock SelectorEventLoop-derived controlled loop; uvloop not covered by replay",
    ],
)


def main(tier: str, seed: int) -> int:
    return run_family(FAMILY, tier, seed)
