"""Command line of the checks: ./check <id> [--tier T] [--replay path] | ./check setup"""

from __future__ import annotations

import argparse
import importlib
import json
import subprocess
import sys
from pathlib import Path

from . import core, tlc
from .replay import ensure_repo_on_path

def _discover() -> dict[str, str]:
    """Every harness/cNN.py module is the check of property CNN (exports main(tier, seed))."""
    import re
    out = {}
    for f in sorted((core.VERIF / "harness").glob("c[0-9][0-9].py")):
        out["C" + re.match(r"c(\d\d)", f.name).group(1)] = f"harness.{f.stem}"
    return out


CHECKS = _discover()


def setup() -> int:
    """SANY-parse every specification module (offline; nothing else needs building)."""
    bad = 0
    for f in sorted((core.VERIF / "spec").glob("*.tla")):
        p = subprocess.run(["tla-sany", str(f)], cwd=str(f.parent), capture_output=True, text=True)
        ok = p.returncode == 0 and "Semantic errors" not in p.stdout and "Fatal" not in p.stdout \
            and "Could not" not in p.stdout
        print(("ok   " if ok else "FAIL ") + f.name)
        if not ok:
            print(p.stdout[-2000:])
            bad += 1
    (core.VERIF / "out").mkdir(exist_ok=True)
    (core.VERIF / "evidence").mkdir(exist_ok=True)
    return 1 if bad else 0


def main(argv: list[str] | None = None) -> int:
    ap = argparse.ArgumentParser()
    ap.add_argument("what")
    ap.add_argument("--tier", default=None)
    ap.add_argument("--replay", default=None)
    a = ap.parse_args(argv)
    if a.what == "setup":
        return setup()
    if a.what not in CHECKS:
        print(f"unknown check {a.what}", file=sys.stderr)
        return 2
    ensure_repo_on_path()
    mod = importlib.import_module(CHECKS[a.what])
    try:
        if a.replay:
            return mod.replay(a.replay) if hasattr(mod, "replay") else generic_replay(mod, a.replay)
        return mod.main(core.tier_from(a.tier), core.seed_from())
    except tlc.TLCError as exc:
        return core.machinery_failure(a.what, exc)
    except Exception as exc:  # noqa: BLE001
        return core.machinery_failure(a.what, exc)


def generic_replay(mod, path: str) -> int:
    """Re-execute the scenario of a violation file against /repo and re-validate its trace."""
    data = json.loads(Path(path).read_text())
    fam = mod.FAMILY
    rp = data["replay"]
    fmod = importlib.import_module(fam.fam_module)
    r = fmod.run_scenario(rp["scenario"], **rp.get("kw", {}))
    v = tlc.validate_traces(fam.t_module, [{"id": 0, "events": r["events"], "params": r.get("params")}], tag=fam.prop + "-replay")[0]
    print(json.dumps({"trace": r["events"], "verdict": v, "flags": r["flags"]}, indent=1))
    if v["bad"] or r["flags"].get("budget"):
        print(f"VIOLATION property={fam.prop} replay={path}")
        return 1
    return 0


if __name__ == "__main__":
    sys.exit(main())
