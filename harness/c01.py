"""C01 - task group join: no child outlives its task group block."""

from __future__ import annotations

import dataclasses

from .family import ModelCfg, run_family
from .tgroups import consts, family

OPS = '{"tgopen", "close", "spawn", "yield", "wait", "raise", "hcancel"}'
OPSX = '{"tgopen", "close", "spawn", "yield", "wait", "raise", "open", "cancel", "hcancel"}'
FAMILY = family("C01", [
    # three tasks, spawning only (into any active group, also while its block is being left): every edge
    ModelCfg("c01-n3o4e0-spawn", consts(3, 4, 0, '{"tgopen", "close", "spawn", "yield"}', env="{}"),
             emit=True, check=False, max_scenarios=6000),
    ModelCfg("c01-n2o3e1", consts(2, 3, 1, OPS), emit=True, check=False, max_scenarios=5000),
    ModelCfg("c01-n3o3e1", consts(3, 3, 1, OPS), tiers=("quick",), check=False, simulate=2000),
    ModelCfg("c01-n3o3e1x", consts(3, 3, 1, '{"tgopen", "close", "spawn", "yield", "wait", "raise"}'),
             tiers=("thorough",), simulate=6000),
    ModelCfg("c01-n3o4e2", consts(3, 4, 2, OPSX, cleanups="{0, 1}", shields="{0, 1}"),
             tiers=("thorough",), check=False, simulate=12000, sim_depth=700),
    ModelCfg("c01-n4o3e2", consts(4, 3, 2, OPS), tiers=("thorough",), check=False, simulate=10000,
             sim_depth=700),
    # both iteration orders of the scopes' task / child-scope sets (Python sets), model check only
    ModelCfg("c01-n3o3e1-orders", consts(3, 3, 1, '{"tgopen", "close", "spawn", "yield", "wait", "raise"}', orders="{FALSE, TRUE}"),
             tiers=("thorough",)),
    # five tasks, the two deepest limited to one operation: model check only (> 16 M states)
    ModelCfg("c01-n5o4-leaf", consts(5, 4, 0, '{"tgopen", "close", "spawn", "yield"}', depth=2, env="{}",
                                     leaf_from=4), tiers=("thorough",), timeout=7000),
])
FAMILY = dataclasses.replace(FAMILY, directed="C01.json")


def main(tier: str, seed: int) -> int:
    return run_family(FAMILY, tier, seed)
