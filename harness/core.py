"""Common plumbing of the checks: tiers, seeds, evidence, violations, known findings."""

from __future__ import annotations

import json
import os
import sys
import time
from pathlib import Path
from typing import Any

VERIF = Path(__file__).resolve().parent.parent
OUT = Path(os.environ.get("VERIF_OUT") or (VERIF / "out"))
EVIDENCE = Path(os.environ.get("VERIF_EVIDENCE") or (VERIF / "evidence"))
KNOWN = VERIF / "known_findings.json"


def tier_from(argv_tier: str | None) -> str:
    t = argv_tier or os.environ.get("VERIF_TIER") or "quick"
    return "thorough" if t.startswith("t") else "quick"


def seed_from() -> int:
    try:
        return int(os.environ.get("VERIF_SEED", "0"))
    except ValueError:
        return 0


def known_findings(prop: str) -> list[dict]:
    if not KNOWN.exists():
        return []
    data = json.loads(KNOWN.read_text())
    return [f for f in data.get("findings", []) if f.get("property") == prop and f.get("status") == "known"]


class Report:
    """Collects what a check run covered and found, then writes evidence and sets the exit code."""

    def __init__(self, prop: str, tier: str, seed: int, level: str = "model_checking") -> None:
        self.prop = prop
        self.tier = tier
        self.seed = seed
        self.level = level
        self.t0 = time.time()
        self.states = 0
        self.transitions = 0
        self.traces = 0
        self.samples: list[Any] = []
        self.extra: dict[str, Any] = {}
        self.assumptions: list[str] = []
        self.violations: list[dict] = []
        self.known_hits: list[str] = []
        self.drift = 0
        self.evaluations = 0
        self.distinct = 0
        self.rule = ""
        self.models: list[dict] = []
        vd = OUT / prop / "violations"
        if vd.exists():
            for f in vd.glob("v*.json"):
                f.unlink()

    # -- accumulation
    def add_model(self, name: str, res: Any, **kw: Any) -> None:
        self.states += res.distinct
        self.transitions += res.generated
        self.models.append({"model": name, "distinct_states": res.distinct,
                            "states_generated": res.generated, "depth": res.depth,
                            "wall_s": round(res.wall_s, 1), **kw})

    def sample(self, x: Any, limit: int = 6) -> None:
        if len(self.samples) < limit:
            self.samples.append(x)

    def violation(self, what: str, replay: dict, signature: str | None = None) -> None:
        """Record a property violation observed on the real code.

        ``signature`` is matched against known_findings.json; a listed finding is reported as
        KNOWN-FINDING and does not fail the check.
        """
        for f in known_findings(self.prop):
            if signature is not None and f.get("signature") == signature:
                if f["what"] not in self.known_hits:
                    self.known_hits.append(f["what"])
                return
        d = OUT / self.prop / "violations"
        d.mkdir(parents=True, exist_ok=True)
        path = d / f"v{len(self.violations):04d}.json"
        path.write_text(json.dumps({"property": self.prop, "what": what, "signature": signature,
                                    "replay": replay}, indent=1))
        self.violations.append({"what": what, "path": str(path)})

    # -- output
    def finish(self) -> int:
        wall = time.time() - self.t0
        cov: dict[str, Any] = {
            "states": self.states,
            "transitions": self.transitions,
            "traces_validated_against_impl": self.traces,
            "samples": self.samples or ["(none)"],
            "models": self.models,
            "model_conformance": {"drift": self.drift},
            "evaluations": self.evaluations,
            "distinct_nontrivial": self.distinct,
            "rule": self.rule,
        }
        cov.update(self.extra)
        ev = {
            "property_id": self.prop,
            "tier": self.tier,
            "seed": self.seed,
            "level": self.level,
            "coverage": cov,
            "assumptions": self.assumptions,
            "wall_s": round(wall, 2),
            "violations": len(self.violations),
            "known_findings_hit": self.known_hits,
        }
        EVIDENCE.mkdir(exist_ok=True)
        (EVIDENCE / f"{self.prop}.json").write_text(json.dumps(ev, indent=1, default=str))
        for k in self.known_hits:
            print(f"KNOWN-FINDING: property={self.prop} {k}")
        for v in self.violations[:20]:
            print(f"VIOLATION property={self.prop} replay={v['path']}")
            print(f"  {v['what']}")
        print(f"[{self.prop}] tier={self.tier} seed={self.seed} states={self.states} "
              f"traces={self.traces} drift={self.drift} violations={len(self.violations)} "
              f"wall={wall:.1f}s")
        return 1 if self.violations else 0


def machinery_failure(prop: str, exc: BaseException) -> int:
    import traceback

    print(f"MACHINERY-FAILURE property={prop}: {exc}", file=sys.stderr)
    traceback.print_exception(exc)
    return 2
