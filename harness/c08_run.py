"""C08 - executes one CELL of the checkpoint matrix on the real library.

A cell is what spec/CheckpointSpec.tla enumerates: an operation in a state in which it can complete
without waiting (op, q, a), the task that calls it (host), the cancel scopes the caller has entered
(stack: cancelled? shielded?) and how the cancelled ones got cancelled (how).  Every cell is its own
small program on its own event loop:

  vstock / veager   the controlled loop harness/vloop.py, stock / with asyncio.eager_task_factory,
  asyncio           anyio.run() on the plain asyncio loop,
  uvloop            anyio.run() on uvloop; creating a uvloop per cell costs ~30 ms, so the programs of
                    one batch run one after the other, each as its own task, on one loop.

Observation, exactly as the property names it: a callback is queued with loop.call_soon immediately
before the call; `yielded` says whether it had run when the call returned or raised.  `before` and
`after` are the public projection of the object and of its peers (locked(), value, borrowed_tokens,
statistics(), what a blocked receiver got, what is left in the stream, whether the thread function
ran ...).  On the controlled loop `ny` is the number of loop cycles that passed during the call (the
number of yields); it is compared with the model for conformance only.
"""

from __future__ import annotations

import asyncio
import contextlib
import math
import threading
import time
import warnings
from typing import Any

from . import vloop
from .replay import ensure_repo_on_path

CONFIGS = ("vstock", "veager", "asyncio", "uvloop")


class _IdleWait(vloop.Controller):
    """Lets the controlled loop wait (in real time) for a worker thread to report."""

    def __init__(self) -> None:
        self.spins = 0

    def on_idle(self, loop: vloop.VLoop) -> bool:
        self.spins += 1
        if self.spins > 40000:      # ~8 s: something is really stuck
            return False
        time.sleep(0.0002)
        return True


class _ANoYield:
    """An asynchronous iterator that never yields to the event loop."""

    def __init__(self, items: list) -> None:
        self._it = iter(items)

    def __aiter__(self) -> "_ANoYield":
        return self

    async def __anext__(self) -> Any:
        try:
            return next(self._it)
        except StopIteration:
            raise StopAsyncIteration from None


async def _agen(items: list):
    for x in items:
        yield x


def _src(kind: str, items: list) -> Any:
    items = list(items)
    if kind == "list":
        return items
    if kind == "tuple":
        return tuple(items)
    if kind == "gen":
        return (x for x in items)
    if kind == "iter":
        return iter(items)
    if kind == "anoyield":
        return _ANoYield(items)
    if kind == "agen":
        return _agen(items)
    raise ValueError(kind)


# ---------------------------------------------------------------------------------------------------
# operations


class Op:
    """One row of the table.  Subclasses say how to build the state q, how to call, what to observe."""

    needs_in_task = False
    waits_for_thread = False

    def __init__(self, prog: "Prog") -> None:
        self.prog = prog
        self.cell = prog.cell
        self.a = prog.cell["a"]
        self.q = prog.cell["q"]
        self.peers: list[asyncio.Task] = []

    # object creation: before the loop exists (impl == "adapter") or inside it
    def make(self) -> None:
        pass

    async def setup(self) -> None:       # in the root task, no scope
        pass

    async def in_task(self) -> None:     # in the calling task, shielded, before the scopes
        pass

    def proj(self) -> dict:              # immediate public projection (synchronous)
        return {"z": 0}

    def late0(self) -> dict:             # what late() reports when the call had no effect
        return {}

    async def late(self) -> dict:        # projection that needs the loop to run (peers, drains)
        return {}

    async def call(self) -> Any:
        self.prog.mark()
        return await self.do()

    async def do(self) -> Any:
        raise NotImplementedError

    async def settle(self, pred, n: int = 50) -> None:
        for _ in range(n):
            if pred():
                return
            await asyncio.sleep(0)
        raise RuntimeError(f"state {self.cell['op']}/{self.q} not reached")

    def spawn(self, coro) -> asyncio.Task:
        t = self.prog.loop.create_task(coro)
        self.peers.append(t)
        return t


class Sleep(Op):
    async def do(self) -> None:
        import anyio
        d: Any = {"0": 0, "0.0": 0.0, "-0.0": -0.0, "-1": -1, "-0.5": -0.5}[self.q]
        await anyio.sleep(d)


class SleepUntil(Op):
    async def do(self) -> None:
        import anyio
        now = anyio.current_time()
        await anyio.sleep_until(now - 5 if self.q == "past" else now)


class Checkpoint(Op):
    async def do(self) -> None:
        import anyio.lowlevel
        await anyio.lowlevel.checkpoint()


class EventWait(Op):
    def make(self) -> None:
        import anyio
        self.ev = anyio.Event()
        self.ev.set()

    def proj(self) -> dict:
        return {"set": int(self.ev.is_set()), "waiting": self.ev.statistics().tasks_waiting}

    async def do(self) -> None:
        await self.ev.wait()


def _me() -> int:
    import anyio
    return anyio.get_current_task().id


class LockAcquire(Op):
    def make(self) -> None:
        import anyio
        self.lock = anyio.Lock(fast_acquire=bool(self.cell["fast"]))

    def proj(self) -> dict:
        st = self.lock.statistics()
        return {"locked": int(self.lock.locked()), "mine": int(st.owner is not None and st.owner.id == _me()),
                "waiting": st.tasks_waiting}

    async def do(self) -> None:
        if self.a["via"] == "aenter":
            await self.lock.__aenter__()
        else:
            await self.lock.acquire()


class SemAcquire(Op):
    def make(self) -> None:
        import anyio
        self.sem = anyio.Semaphore(self.a["init"], fast_acquire=bool(self.cell["fast"]))

    def proj(self) -> dict:
        return {"value": self.sem.value, "waiting": self.sem.statistics().tasks_waiting}

    async def do(self) -> None:
        if self.a["via"] == "aenter":
            await self.sem.__aenter__()
        else:
            await self.sem.acquire()


class LimAcquire(Op):
    def make(self) -> None:
        import anyio
        total = self.a["total"]
        self.lim = anyio.CapacityLimiter(math.inf if total >= 99 else total)
        self.other = object()
        self.token = object()

    async def setup(self) -> None:
        for _ in range(self.a["used"]):
            self.lim.acquire_on_behalf_of_nowait(self.other)

    def proj(self) -> dict:
        st = self.lim.statistics()
        me = self.token if self.a["via"] == "behalf" else asyncio.current_task()
        return {"borrowed": self.lim.borrowed_tokens, "waiting": st.tasks_waiting,
                "has": int(any(b is me for b in st.borrowers))}

    async def do(self) -> None:
        via = self.a["via"]
        if via == "aenter":
            await self.lim.__aenter__()
        elif via == "behalf":
            await self.lim.acquire_on_behalf_of(self.token)
        else:
            await self.lim.acquire()


class CondOp(Op):
    lockfast = False

    def make(self) -> None:
        import anyio
        self.cond = anyio.Condition(anyio.Lock(fast_acquire=True)) if self.lockfast else anyio.Condition()

    def proj(self) -> dict:
        st = self.cond.statistics()
        ls = st.lock_statistics
        return {"locked": int(self.cond.locked()), "mine": int(ls.owner is not None and ls.owner.id == _me()),
                "waiting": st.tasks_waiting, "lockwait": ls.tasks_waiting}


class CondAcquire(CondOp):
    def make(self) -> None:
        self.lockfast = bool(self.cell["fast"])
        super().make()

    async def do(self) -> None:
        if self.a["via"] == "aenter":
            await self.cond.__aenter__()
        else:
            await self.cond.acquire()


class CondWait(CondOp):
    needs_in_task = True

    def make(self) -> None:
        self.lockfast = bool(self.a["lockfast"])
        self.contender_got = 0
        super().make()

    async def in_task(self) -> None:
        self.cond.acquire_nowait()
        if self.q == "held_contended":
            async def contender() -> None:
                await self.cond.acquire()
                self.contender_got = 1
                self.cond.release()
            self.spawn(contender())
            await self.settle(lambda: self.cond.statistics().lock_statistics.tasks_waiting == 1)

    def late0(self) -> dict:
        return {"contender_got": 0}

    async def late(self) -> dict:
        return {"contender_got": self.contender_got}

    async def do(self) -> None:
        await self.cond.wait()


class StreamOp(Op):
    def make_stream(self) -> None:
        import anyio
        buf = self.a["buf"]
        self.s, self.r = anyio.create_memory_object_stream(math.inf if buf >= 99 else buf)
        self.items = [100 + i for i in range(self.a["pre"])]
        for x in self.items:
            self.s.send_nowait(x)
        self.got: list = []
        self.result: list = []

    def proj(self) -> dict:
        st = self.s.statistics()
        return {"buf": st.current_buffer_used, "ws": st.tasks_waiting_send, "wr": st.tasks_waiting_receive,
                "os": st.open_send_streams, "or": st.open_receive_streams}

    def drain(self) -> str:
        import anyio
        out = []
        while True:
            try:
                out.append(self.r.receive_nowait())
            except (anyio.WouldBlock, anyio.EndOfStream, anyio.ClosedResourceError):
                break
        return ",".join(map(str, out))

    async def late(self) -> dict:
        for _ in range(3):
            await asyncio.sleep(0)
        return {"got": ",".join(map(str, self.got)), "res": ",".join(map(str, self.result)),
                "content": self.drain()}


class Send(StreamOp):
    async def setup(self) -> None:
        self.make_stream()
        if self.q == "receiver":
            async def receiver() -> None:
                self.got.append(await self.r.receive())
            self.spawn(receiver())
            await self.settle(lambda: self.s.statistics().tasks_waiting_receive == 1)
        elif self.q == "broken":
            self.r.close()
        elif self.q == "closed":
            self.s.close()

    def late0(self) -> dict:
        return {"got": "", "res": "", "content": ",".join(map(str, self.items))}

    async def do(self) -> None:
        await self.s.send(7)


class Receive(StreamOp):
    async def setup(self) -> None:
        self.make_stream()
        self.flight = list(self.items)      # buffer + items of blocked senders, in order
        if self.q in ("sender", "item_sender"):
            async def sender() -> None:
                await self.s.send(200)
            self.spawn(sender())
            await self.settle(lambda: self.s.statistics().tasks_waiting_send == 1)
            self.flight.append(200)
        elif self.q in ("item_closed", "eos"):
            self.s.close()
        elif self.q == "closed":
            self.r.close()

    def proj(self) -> dict:
        st = self.r.statistics()
        return {"buf": st.current_buffer_used, "ws": st.tasks_waiting_send, "wr": st.tasks_waiting_receive,
                "os": st.open_send_streams, "or": st.open_receive_streams}

    def late0(self) -> dict:
        return {"got": "", "res": "", "content": ",".join(map(str, self.flight))}

    async def do(self) -> None:
        self.result.append(await self.r.receive())


class RunSync(Op):
    waits_for_thread = True

    async def setup(self) -> None:
        import anyio
        from anyio import to_thread
        self.ran: list = []
        self.own = anyio.CapacityLimiter(1) if self.a["lim"] == "own" else None
        if self.q == "idle":          # leaves one idle worker thread behind
            await to_thread.run_sync(lambda: None)
        self.lim = self.own or to_thread.current_default_thread_limiter()

    def proj(self) -> dict:
        return {"ran": len(self.ran), "borrowed": self.lim.borrowed_tokens}

    async def late(self) -> dict:
        if self.prog.obs.get("outcome") != "return":
            time.sleep(0.003)         # a thread function started by mistake would have run by now
            for _ in range(2):
                await asyncio.sleep(0)
        return {"ran": len(self.ran)}

    async def do(self) -> None:
        from anyio import to_thread

        def fn() -> int:
            self.ran.append(threading.get_ident())
            return 5

        await to_thread.run_sync(fn, abandon_on_cancel=bool(self.a["abandon"]), limiter=self.own)


class HandleOp(Op):
    async def setup(self) -> None:
        import anyio

        async def child() -> int:
            if self.q == "failed":
                raise ValueError("x")
            if self.q == "cancelled":
                await anyio.sleep_forever()
            return 5

        try:
            async with anyio.create_task_group() as tg:
                self.h = tg.start_soon(child)
                if self.q == "cancelled":
                    await asyncio.sleep(0)
                    self.h.cancel()
        except BaseException as exc:  # noqa: BLE001 - the failing child's exception group
            if self.q != "failed" or isinstance(exc, asyncio.CancelledError):
                raise
        want = {"finished": "FINISHED", "failed": "FAILED", "cancelled": "CANCELLED"}[self.q]
        if self.h.status.name != want:
            raise RuntimeError(f"handle is {self.h.status.name}, wanted {want}")

    def proj(self) -> dict:
        return {"status": self.h.status.name}

    async def do(self) -> Any:
        if self.cell["op"] == "handle_wait":
            return await self.h.wait()
        return await self.h


class FutureOp(Op):
    def make(self) -> None:
        import anyio
        self.f = anyio.Future()
        if self.q == "finished":
            self.f.return_value = 5
        elif self.q == "failed":
            self.f.exception = ValueError("x")
        else:
            self.f.cancel()

    def proj(self) -> dict:
        return {"status": self.f.status.name}

    async def do(self) -> Any:
        if self.cell["op"] == "future_wait":
            return await self.f.wait()
        return await self.f


class Reduce(Op):
    def make(self) -> None:
        self.called: list = []

    def proj(self) -> dict:
        return {"called": len(self.called)}

    async def do(self) -> Any:
        from anyio import functools as afunctools

        async def f(x: int, y: int) -> int:
            self.called.append(1)
            return x + y

        if self.q == "empty_init":
            return await afunctools.reduce(f, _src(self.a["src"], []), 10)
        return await afunctools.reduce(f, _src(self.a["src"], [4]))


class GroupExit(Op):
    async def call(self) -> None:
        import anyio
        if self.q == "empty":
            self.prog.mark()
            async with anyio.create_task_group():
                pass
            return

        async def noop() -> None:
            pass

        tg = anyio.create_task_group()
        await tg.__aenter__()
        h = tg.start_soon(noop)
        with anyio.CancelScope(shield=True):
            await h.wait()
            for _ in range(3):      # the group's done-callback runs one cycle after the child's end
                await asyncio.sleep(0)
        self.prog.mark()
        await tg.__aexit__(None, None, None)


class Iter(Op):
    """A full traversal (or, for infinite iterators, a prefix of k elements) of an anyio.itertools iterator."""

    def proj(self) -> dict:
        return {"z": 0}

    async def call(self) -> int:
        import anyio
        from anyio import itertools as ait

        a, fn = self.a, self.q
        kind = a["kind"]

        async def pred(x: int) -> bool:
            return {"true": True, "false": False, "pos": x > 0}[a["p"]]

        async def mod2(x: int) -> int:
            return x % 2

        async def fsum(*args: int) -> int:
            return sum(args)

        take = None
        pre: Any = None
        if fn == "tee":
            its = ait.tee(_src(kind, a["s"]), a["n"])
            if a["after"]:
                other = its[1] if a["which"] == 1 else its[0]
                with anyio.CancelScope(shield=True):
                    async for _ in other:
                        pass
            pre = its[a["which"] - 1]
        self.prog.mark()
        if fn == "accumulate":
            it = ait.accumulate(_src(kind, a["s"])) if a["init"] == -1 else \
                ait.accumulate(_src(kind, a["s"]), initial=a["init"])
        elif fn == "batched":
            it = ait.batched(_src(kind, a["s"]), a["n"])
        elif fn == "chain":
            it = ait.chain(*[_src(kind, s) for s in a["ss"]])
        elif fn == "chain_from_iterable":
            it = ait.chain.from_iterable(_src(kind, [list(s) for s in a["ss"]]))
        elif fn == "combinations":
            it = ait.combinations(_src(kind, a["s"]), a["r"])
        elif fn == "combinations_with_replacement":
            it = ait.combinations_with_replacement(_src(kind, a["s"]), a["r"])
        elif fn == "compress":
            it = ait.compress(_src(kind, a["s"]), _src(kind, a["sel"]))
        elif fn == "count":
            it, take = ait.count(a["start"], a["step"]), a["k"]
        elif fn == "cycle":
            it = ait.cycle(_src(kind, a["s"]))
            take = a["k"] if a["s"] else None
        elif fn == "dropwhile":
            it = ait.dropwhile(pred, _src(kind, a["s"]))
        elif fn == "filterfalse":
            it = ait.filterfalse(pred, _src(kind, a["s"]))
        elif fn == "groupby":
            it = ait.groupby(_src(kind, a["s"])) if a["key"] == "none" else ait.groupby(_src(kind, a["s"]), mod2)
        elif fn == "islice":
            it = ait.islice(_src(kind, a["s"]), *[None if x == -1 else x for x in a["args"]])
        elif fn == "pairwise":
            it = ait.pairwise(_src(kind, a["s"]))
        elif fn == "permutations":
            it = ait.permutations(_src(kind, a["s"])) if a["r"] == -1 else ait.permutations(_src(kind, a["s"]), a["r"])
        elif fn == "product":
            it = ait.product(*[_src(kind, s) for s in a["ss"]], repeat=a["rep"])
        elif fn == "repeat":
            if a["tnone"]:
                it, take = ait.repeat(a["x"]), a["k"]
            else:
                it = ait.repeat(a["x"], a["times"])
        elif fn == "starmap":
            it = ait.starmap(fsum, _src(kind, [list(s) for s in a["ss"]]))
        elif fn == "tee":
            it = pre
        elif fn == "takewhile":
            it = ait.takewhile(pred, _src(kind, a["s"]))
        elif fn == "zip_longest":
            it = ait.zip_longest(*[_src(kind, s) for s in a["ss"]])
        else:
            raise ValueError(fn)
        n = 0
        if take is None:
            async for _ in it:
                n += 1
        else:
            try:
                while n < take:
                    await it.__anext__()
                    n += 1
            finally:
                await it.aclose()
        self.prog.obs["n"] = n
        return n


OPS: dict[str, type[Op]] = {
    "sleep": Sleep, "sleep_until": SleepUntil, "checkpoint": Checkpoint, "event_wait": EventWait,
    "lock_acquire": LockAcquire, "sem_acquire": SemAcquire, "lim_acquire": LimAcquire,
    "cond_acquire": CondAcquire, "cond_wait": CondWait, "send": Send, "receive": Receive,
    "run_sync": RunSync, "handle_wait": HandleOp, "handle_await": HandleOp,
    "future_wait": FutureOp, "future_await": FutureOp, "reduce": Reduce, "tg_exit": GroupExit, "iter": Iter,
}


# ---------------------------------------------------------------------------------------------------
# the program of one cell


class Prog:
    def __init__(self, cell: dict, config: str) -> None:
        self.cell = cell
        self.config = config
        self.op = OPS[cell["op"]](self)
        self.loop: Any = None
        self.obs: dict = {}
        self.flag = False
        self.c0 = 0
        self.marked = False

    # -- the observation the property names
    def mark(self) -> None:
        self.before = {**self.op.proj(), **self.op.late0()}
        self.flag = False
        self.marked = True
        self.loop.call_soon(self._set_flag)
        self.c0 = getattr(self.loop, "cycle", 0)

    def _set_flag(self) -> None:
        self.flag = True

    def _finish(self, exc: BaseException | None) -> None:
        import anyio
        yielded = self.flag
        ny = (self.loop.cycle - self.c0) if hasattr(self.loop, "cycle") else -1
        if exc is None:
            outcome, name = "return", ""
        elif isinstance(exc, anyio.get_cancelled_exc_class()):
            outcome, name = "cancelled", type(exc).__name__
        else:
            outcome, name = "error", type(exc).__name__
        if not self.marked:
            raise RuntimeError(f"the call was never reached: {exc!r}") from exc
        self.obs.update(outcome=outcome, exc=name, yielded=int(yielded), ny=ny, after_now=self.op.proj())

    # -- scopes
    async def _enter_stack(self, es: contextlib.ExitStack) -> None:
        import anyio
        how = self.cell["how"]
        scopes = []
        for sc in self.cell["stack"]:
            if sc["c"] and how == "deadline":
                scope = anyio.CancelScope(deadline=anyio.current_time() - 1, shield=bool(sc["s"]))
            else:
                scope = anyio.CancelScope(shield=bool(sc["s"]))
                if sc["c"] and how == "pre":
                    scope.cancel()
            es.enter_context(scope)
            scopes.append(scope)
        flagged = [s for s, sc in zip(scopes, self.cell["stack"]) if sc["c"]]
        if how in ("call", "caught"):
            for s in flagged:
                s.cancel()
        elif how == "peer" and flagged:
            with anyio.CancelScope(shield=True):
                done = anyio.Event()

                async def peer() -> None:
                    for s in flagged:
                        s.cancel()
                    done.set()

                t = self.loop.create_task(peer())
                await done.wait()
                await asyncio.wait([t])
        if how == "caught":
            try:
                await anyio.lowlevel.checkpoint()
            except anyio.get_cancelled_exc_class():
                pass
        for s, sc in zip(scopes, self.cell["stack"]):
            if bool(sc["c"]) != s.cancel_called:
                raise RuntimeError("scope stack not as specified")

    async def subject(self) -> None:
        import anyio
        import anyio.lowlevel
        if self.op.needs_in_task:
            with anyio.CancelScope(shield=True):
                await self.op.in_task()
        with contextlib.ExitStack() as es:
            await self._enter_stack(es)
            try:
                await self.op.call()
            except BaseException as exc:  # noqa: BLE001 - the outcome is what is observed
                self._finish(exc)
                if self.obs["outcome"] == "cancelled":
                    raise
            else:
                self._finish(None)

    async def main(self) -> None:
        import anyio
        self.loop = asyncio.get_running_loop()
        if self.cell["a"].get("impl") != "adapter":
            self.op.make()
        await self.op.setup()
        host = self.cell["host"]
        if host == "root":
            await self.subject()
        elif host == "task":
            t = self.loop.create_task(self.subject())
            await asyncio.wait([t])
            if t.cancelled():
                raise RuntimeError("the cancellation escaped the caller's scopes")
            if t.exception() is not None:
                raise t.exception()  # type: ignore[misc]
        else:
            async with anyio.create_task_group() as tg:
                h = tg.start_soon(self.subject)
                if host == "gchild":
                    tg.cancel_scope.cancel()
                elif host == "hchild":
                    h.cancel()
        if "outcome" not in self.obs:
            raise RuntimeError("the caller never ran the operation")
        self.obs["late"] = await self.op.late()
        for t in self.op.peers:
            t.cancel()
        if self.op.peers:
            await asyncio.wait(self.op.peers)

    def prepare(self) -> None:
        ensure_repo_on_path()
        if self.cell["a"].get("impl") == "adapter":
            self.op.make()               # outside any event loop: the *Adapter classes

    def event(self) -> dict:
        o = self.obs
        after = {**o["after_now"], **o["late"]}
        if set(after) != set(self.before):
            raise RuntimeError(f"projection keys differ: {self.before} / {after}")
        ev = {"cfg": self.config, "outcome": o["outcome"], "exc": o["exc"], "yielded": o["yielded"],
              "ny": o["ny"], "before": self.before, "after": after}
        if "n" in o:
            ev["n"] = o["n"]
        return ev

    def run(self) -> dict:
        self.prepare()
        import anyio
        with warnings.catch_warnings():
            warnings.simplefilter("ignore", ResourceWarning)
            if self.config in ("vstock", "veager"):
                ctl = _IdleWait() if self.op.waits_for_thread else None
                loop, _res, err = vloop.run(self.main, ctl, eager=self.config == "veager", max_handles=20000)
                if err is not None:
                    raise RuntimeError(f"cell did not run to its end on {self.config}: {err!r}") from err
            else:
                anyio.run(self.main, backend="asyncio",
                          backend_options={"use_uvloop": self.config == "uvloop"})
        return self.event()


def run_cell(cell: dict, config: str) -> dict:
    return Prog(cell, config).run()


def run_shared(cells: list[dict], config: str) -> list[dict]:
    """All cells of a batch on ONE loop started by anyio.run (a fresh uvloop per cell costs ~30 ms).

    Every cell still is its own program with its own objects: its main() runs as its own task, one
    after the other; that task is the cell's "root" task.
    """
    ensure_repo_on_path()
    import anyio
    progs = [Prog(c, config) for c in cells]
    for p in progs:
        p.prepare()

    async def driver() -> None:
        loop = asyncio.get_running_loop()
        for p in progs:
            t = loop.create_task(p.main())
            await asyncio.wait([t])
            if t.cancelled():
                raise RuntimeError(f"cell program was cancelled: {p.cell}")
            if t.exception() is not None:
                raise RuntimeError(f"cell program failed: {p.cell}") from t.exception()

    with warnings.catch_warnings():
        warnings.simplefilter("ignore", ResourceWarning)
        anyio.run(driver, backend="asyncio", backend_options={"use_uvloop": config == "uvloop"})
    return [p.event() for p in progs]


def run_batch(batch: dict, *, configs: list[str]) -> dict:
    """batch = {"cells": [{"i": index, "c": cell}, ...]} -> {"results": [{"i", "events": [...]}]}"""
    per: dict[int, list[dict]] = {item["i"]: [] for item in batch["cells"]}
    for cfg in configs:
        if cfg == "uvloop":
            evs = run_shared([item["c"] for item in batch["cells"]], cfg)
            for item, ev in zip(batch["cells"], evs):
                per[item["i"]].append(ev)
        else:
            for item in batch["cells"]:
                per[item["i"]].append(run_cell(item["c"], cfg))
    return {"results": [{"i": i, "events": evs} for i, evs in per.items()]}
