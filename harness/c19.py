"""C19 - anyio.itertools and anyio.functools.reduce agree with the standard library; tee.

Three parts, all decided by TLA+ operators evaluated by TLC:
 A. exhaustive: TLC enumerates the bounded input domain (spec/MC_C19.tla) and prints, for every case,
    the outcome the specification (spec/SeqFns.tla) defines; every case is executed on CPython's
    itertools/functools and on anyio (synchronous and asynchronous sources) and the three outcomes are
    compared (spec # stdlib is a specification error = machinery failure; anyio # spec is a violation);
 B. seeded random longer cases are executed first, the recorded outcomes are validated by TLC in
    batches (spec/T_SeqFns.tla: P_SeqFns evaluates the same operators);
 C. tee under concurrency: spec/AioTee.tla (shared linked list + lock, <= 3..4 consumers, every
    interleaving of task steps) is model-checked with the observer P_Tee as ghost state; the schedules
    TLC explores are replayed on the real tee (harness/c19_tee.py) and the recorded traces validated
    by TLC (spec/T_Tee.tla).
"""

from __future__ import annotations

import json
import random
from concurrent.futures import ThreadPoolExecutor
from pathlib import Path

from . import c19_fns, core, tlc
from . import replay as rpl

PROP = "C19"
MAX_VIOLATION_FILES = 25

ASSUME = [
    "callbacks are pure functions of their arguments drawn from a fixed named family (Pred/Key/Bin/ApplyN "
    "of SeqFns.tla); elements are small integers and tuples of them",
    "Python 3.12's itertools.batched has no `strict`: strict=True is compared with the documented "
    "reference implementation",
    "an error is compared by exception class name; stdlib raises argument errors at construction, anyio "
    "on the first __anext__: both count as 'raises before yielding anything'",
    "repeat(x, None) / permutations(s, None) / islice None arguments are the documented defaults; "
    "explicit None for other integer parameters must be a TypeError in both",
    "tee replay: asyncio (CPython 3.12) only; the controlled loop picks which ready task runs next, "
    "which covers asyncio's FIFO order and every other order a scheduler could choose",
    "exhaustive only within the stated bounds (alphabet 0..2, sequence length, parameter ranges, "
    "consumers, source length)",
]


# ---------------------------------------------------------------------------------------------------
# TLC runs (all started together; they are independent JVMs)

SMALL_A = ["accumulate", "batched", "compress", "predicates", "reduce", "tee", "infinite"]
SMALL_B = ["combinations", "permutations", "groupby", "product", "starmap"]


def _fn_runs(tier: str) -> list[dict]:
    if tier == "quick":
        return [dict(name="smallA-4", groups=SMALL_A, maxlen=4), dict(name="smallB-4", groups=SMALL_B, maxlen=4),
                dict(name="pairs-3", groups=["chain", "zip_longest"], maxlen=3),
                dict(name="islice-3", groups=["islice"], maxlen=3)]
    runs = [dict(name="smallA-4", groups=SMALL_A, maxlen=4), dict(name="smallB-4", groups=SMALL_B, maxlen=4),
            dict(name="chain-4", groups=["chain"], maxlen=4), dict(name="zip-4", groups=["zip_longest"], maxlen=4)]
    runs += [dict(name=f"islice-4-{i}", groups=["islice"], maxlen=4, part=i, nparts=3) for i in range(3)]
    runs += [dict(name="smallA-5", groups=SMALL_A, maxlen=5), dict(name="smallB-5", groups=SMALL_B, maxlen=5)]
    runs += [dict(name=f"islice-5-{i}", groups=["islice"], maxlen=5, part=i, nparts=8) for i in range(8)]
    return runs


def _run_fn_model(run: dict, d: Path) -> tlc.TLCResult:
    cfg = d / f"fns-{run['name']}.cfg"
    groups = "{" + ", ".join(f'"{g}"' for g in run["groups"]) + "}"
    tlc.write_cfg(cfg, constants={"Groups": groups, "MaxLen": str(run["maxlen"]),
                                  "Part": str(run.get("part", 0)), "NParts": str(run.get("nparts", 1))},
                  view=None, invariants=["OutcomeShape"])
    r = tlc.run_tlc("MC_C19", cfg, workers=1, timeout=3000, tag=f"{PROP}-fns-{run['name']}", marker="@@C")
    if r.violated:
        raise tlc.TLCError(f"MC_C19/{run['name']} violates {r.violated}\n{r.output[-2000:]}")
    return r


TEE_INV = ["PropertyHolds", "EachSeesAll", "SourceConsumedOnce", "LockConsistent", "NoStuck"]


def _tee_cfgs(tier: str) -> list[dict]:
    # mode: "edges" = exhaustive check + one schedule per edge of the state graph,
    #       "paths" = every complete interleaving (the schedule is part of the state),
    #       "sim"   = random complete interleavings, "check" = exhaustive check only
    if tier == "quick":
        return [dict(nc=2, l=2, d=0, mode="paths"), dict(nc=2, l=1, d=1, mode="paths"),
                dict(nc=3, l=2, d=1, mode="edges"), dict(nc=3, l=3, d=2, mode="edges"),
                dict(nc=3, l=3, d=1, mode="sim", num=400), dict(nc=4, l=3, d=1, mode="check")]
    return [dict(nc=2, l=1, d=1, mode="paths"), dict(nc=2, l=2, d=0, mode="paths"),
            dict(nc=2, l=2, d=1, mode="paths"), dict(nc=3, l=1, d=0, mode="paths"),
            dict(nc=2, l=2, d=1, mode="edges"), dict(nc=3, l=2, d=1, mode="edges"),
            dict(nc=3, l=3, d=0, mode="edges"), dict(nc=3, l=3, d=1, mode="edges"),
            dict(nc=3, l=3, d=2, mode="edges"), dict(nc=3, l=4, d=2, mode="edges"),
            dict(nc=4, l=3, d=1, mode="edges"),
            dict(nc=3, l=3, d=1, mode="sim", num=5000), dict(nc=4, l=4, d=2, mode="sim", num=5000),
            dict(nc=5, l=3, d=1, mode="check")]


def _run_tee_model(cfg: dict, d: Path, seed: int) -> tlc.TLCResult:
    name = f"tee-n{cfg['nc']}l{cfg['l']}d{cfg['d']}-{cfg['mode']}"
    p = d / f"{name}.cfg"
    consts = {"NC": str(cfg["nc"]), "L": str(cfg["l"]), "D": str(cfg["d"])}
    mode = cfg["mode"]
    kw: dict = {}
    if mode == "paths":
        tlc.write_cfg(p, constants=consts, view=None, invariants=TEE_INV, action_constraints=["EmitFinalAC"])
    elif mode == "edges":
        tlc.write_cfg(p, constants=consts, view="View", invariants=TEE_INV, action_constraints=["EmitAC"])
    elif mode == "sim":
        tlc.write_cfg(p, constants=consts, view="View", invariants=TEE_INV, action_constraints=["EmitFinalAC"])
        kw = dict(simulate=f"num={cfg['num']}", depth=300, seed=seed * 7919 + 23)
    else:
        tlc.write_cfg(p, constants=consts, view="View", invariants=TEE_INV)
    r = tlc.run_tlc("AioTee", p, workers=1 if mode != "check" else 2, timeout=3000,
                    tag=f"{PROP}-{name}", **kw)
    if r.violated:
        raise tlc.TLCError(f"model AioTee/{name} violates {r.violated}\n{r.output[-3000:]}")
    return r


# ---------------------------------------------------------------------------------------------------
# part B, first half: execute the seeded random longer cases and record what the code did


def record_random(rep: core.Report, tier: str, seed: int) -> list[dict]:
    n = 3000 if tier == "quick" else 40000
    rng = random.Random(seed * 1000003 + 19)
    cases = [c19_fns.random_case(rng) for _ in range(n)]
    modes = ["list", "gen", "agen", "aiter"]
    batches = [{"cases": [{"c": c} for c in cases[i:i + 250]], "record": True}
               for i in range(0, n, 250)]
    out = rpl.pmap("harness.c19_fns", "run_batch", batches, chunk=1, modes=modes)
    traces: list[dict] = []
    for o in out:
        if "machinery_error" in o:
            raise tlc.TLCError("case execution failed: " + o["machinery_error"])
        rep.evaluations += o["evals"]
        rep.distinct += o["nontrivial"]
        for rec in o["recorded"]:
            traces.append({"id": len(traces), "events": rec["events"], "params": {"c": rec["c"]}})
    rep.extra["random_cases"] = n
    return traces


def _report_fn_violation(rep: core.Report, counter: dict, c: dict, who: str, exp, got, src: str) -> None:
    counter["n"] += 1
    counter["by_fn"][c["fn"]] = counter["by_fn"].get(c["fn"], 0) + 1
    if counter["n"] > MAX_VIOLATION_FILES:
        return
    rep.violation(f"{c['fn']}{json.dumps(c['a'])} via {who}: anyio gives {json.dumps(got)}, "
                  f"specification and standard library give {json.dumps(exp)}",
                  {"kind": "fn", "case": c, "who": who, "expected": exp, "observed": got, "src": src},
                  signature=f"AnyioAgreesWithSpec:{c['fn']}")


def judge_random(rep: core.Report, traces: list[dict], verdicts: list[dict], counter: dict) -> None:
    rep.traces += len(verdicts)
    rep.sample({"random_case": traces[0]["params"]["c"], "recorded": traces[0]["events"][:2]})
    for v in verdicts:
        if not v["bad"]:
            continue
        t = traces[v["id"]]
        c = t["params"]["c"]
        ev = t["events"][v["at"] - 1]
        if "SpecAgreesWithStdlib" in v["bad"]:
            raise tlc.TLCError("SPECIFICATION ERROR: SeqFns disagrees with the standard library on "
                               f"{json.dumps(c)}: stdlib {ev['res']}")
        _report_fn_violation(rep, counter, c, ev["who"], json.loads(t["events"][0]["res"]),
                             json.loads(ev["res"]), "random")


# ---------------------------------------------------------------------------------------------------
# part A: execute the cases TLC enumerated


def part_functions(rep: core.Report, tier: str, seed: int, counter: dict,
                   results: list[tuple[dict, tlc.TLCResult]]) -> None:
    modes = ["list", "agen"] if tier == "quick" else ["list", "gen", "agen", "aiter", "mixed"]
    batches = []
    ncases = 0
    for run, r in results:
        cases = tlc.payloads(r.lines, "@@C")
        if not cases:
            raise tlc.TLCError(f"MC_C19 {run} printed no cases")
        rep.add_model(f"MC_C19/{run['name']}", r, mode="exhaustive+emit", cases=len(cases),
                      groups=run["groups"], maxlen=run["maxlen"])
        ncases += len(cases)
        if len(rep.samples) < 3:
            rep.sample(cases[len(cases) // 2])
        for i in range(0, len(cases), 400):
            batches.append({"cases": cases[i:i + 400]})
    rng = random.Random(seed)
    rng.shuffle(batches)   # balance the pool
    out = rpl.pmap("harness.c19_fns", "run_batch", batches, chunk=1, modes=modes)
    opts = []
    if tier == "thorough":   # the same cases once more on uvloop
        opts = rpl.pmap("harness.c19_fns", "run_batch", batches, chunk=1, modes=["list", "agen"],
                        backend_options={"use_uvloop": True})
    for o in out + opts:
        if "machinery_error" in o:
            raise tlc.TLCError("case execution failed: " + o["machinery_error"])
        rep.evaluations += o["evals"]
        for m in o["mismatches"]:
            if m["who"] == "stdlib":
                raise tlc.TLCError("SPECIFICATION ERROR: SeqFns disagrees with the standard library on "
                                   f"{json.dumps(m['c'])}: spec {m['exp']} stdlib {m['got']}")
            _report_fn_violation(rep, counter, m["c"], m["who"], m["exp"], m["got"], "exhaustive")
    rep.distinct += sum(o["nontrivial"] for o in out)
    rep.extra["exhaustive_cases"] = ncases
    rep.extra["source_modes"] = modes + (["uvloop:list", "uvloop:agen"] if opts else [])
    rep.extra["exhaustive"] = True


# ---------------------------------------------------------------------------------------------------
# part C: replay the schedules of AioTee on the real tee


def part_tee(rep: core.Report, tier: str, seed: int, results: list[tuple[dict, tlc.TLCResult]]) -> None:
    scenarios: list[dict] = []
    seen: set[str] = set()
    rng = random.Random(seed + 5)
    for cfg, r in results:
        name = f"AioTee/n{cfg['nc']}l{cfg['l']}d{cfg['d']}"
        if cfg["mode"] == "sim":
            rep.models.append({"model": name, "mode": "simulate", "behaviours": cfg["num"],
                               "wall_s": round(r.wall_s, 1)})
        else:
            rep.add_model(name, r, mode={"paths": "all interleavings (schedule in the state)",
                                         "edges": "exhaustive+emit", "check": "exhaustive"}[cfg["mode"]])
        fs = tlc.payloads(r.lines, "@@F")
        hs = tlc.payloads(r.lines, "@@H")
        fin = {json.dumps(f["h"]): f["pulls"] for f in fs}
        hists = rpl.leaves([h["h"] for h in hs] + [f["h"] for f in fs])
        cap = 350 if tier == "quick" else 6000
        if len(hists) > cap:
            rep.extra.setdefault("tee_schedules_sampled_from", {})[name] = len(hists)
            hists = rng.sample(hists, cap)
        src = [10 + i for i in range(1, cfg["l"] + 1)]
        for h in hists:
            for sync in ([False, True] if cfg["d"] == 1 else [False]):
                scn = {"sched": h, "nc": cfg["nc"], "src": src, "d": cfg["d"], "sync": sync}
                key = json.dumps(scn)
                if key in seen:
                    continue
                seen.add(key)
                scenarios.append({"scn": scn, "pulls": fin.get(json.dumps(h)), "src": f"{name}:{cfg['mode']}"})
    res = rpl.pmap("harness.c19_tee", "run_scenario", [s["scn"] for s in scenarios], chunk=100)
    traces = []
    for i, r in enumerate(res):
        if "machinery_error" in r:
            raise tlc.TLCError("tee replay failed: " + r["machinery_error"])
        traces.append({"id": i, "events": r["events"], "params": r["params"]})
    nparts = 2 if tier == "quick" else 6
    size = (len(traces) + nparts - 1) // nparts
    tparts = [traces[i:i + size] for i in range(0, len(traces), size)]
    with ThreadPoolExecutor(max_workers=6) as ex:
        vparts = list(ex.map(lambda kp: tlc.validate_traces("T_Tee", kp[1], tag=f"{PROP}-tee-{kp[0]}",
                                                            chunk=len(kp[1]) + 1), enumerate(tparts)))
    verdicts = [v for part in vparts for v in part]
    rep.traces += len(verdicts)
    complete = followed_exactly = 0
    for v in verdicts:
        s, r = scenarios[v["id"]], res[v["id"]]
        if r["flags"]["budget"] or r["flags"]["error"]:
            rep.violation(f"tee replay did not terminate normally: {r['flags']}",
                          {"kind": "tee", "scenario": s["scn"], "src": s["src"]}, signature="budget")
            continue
        if v["bad"]:
            ev = r["events"][v["at"] - 1] if 0 < v["at"] <= len(r["events"]) else None
            if len(rep.violations) < 2 * MAX_VIOLATION_FILES:
                rep.violation(f"tee: clause {','.join(v['bad'])} violated at event {v['at']}: {ev} "
                              f"(consumers stepped in the order {r['final']['order']})",
                              {"kind": "tee", "scenario": s["scn"], "src": s["src"], "trace": r["events"],
                               "failing_event_index": v["at"], "clauses": v["bad"]},
                              signature="Tee:" + ",".join(v["bad"]))
            rep.extra["tee_violating_schedules"] = rep.extra.get("tee_violating_schedules", 0) + 1
            continue
        if s["pulls"] is not None:      # a complete interleaving of the model
            complete += 1
            if r["final"]["drift"] == 0 and r["final"]["order"] == s["scn"]["sched"] \
                    and r["final"]["pulls"] == s["pulls"]:
                followed_exactly += 1
            else:
                rep.drift += 1
                if rep.drift <= 3:
                    print(f"DRIFT property={PROP} tee scenario={json.dumps(s['scn'])} "
                          f"real order={r['final']['order']} pulls={r['final']['pulls']}")
    for i in range(0, len(scenarios), max(1, len(scenarios) // 3)):
        rep.sample({"tee_scenario": scenarios[i]["scn"], "source": scenarios[i]["src"],
                    "trace": res[i]["events"][:10]})
    rep.evaluations += len(scenarios)
    rep.distinct += sum(1 for s in scenarios if len(s["scn"]["sched"]) >= 3)
    rep.extra["tee_scenarios"] = len(scenarios)
    rep.extra["tee_complete_interleavings_replayed"] = complete
    rep.extra["tee_complete_interleavings_followed_step_for_step"] = followed_exactly


# ---------------------------------------------------------------------------------------------------


def main(tier: str, seed: int) -> int:
    import os

    # many small JVMs run side by side: keep each one's GC / JIT thread pools small
    os.environ.setdefault("JAVA_TOOL_OPTIONS", "-XX:ParallelGCThreads=2 -XX:CICompilerCount=2 -Xmx4g")
    rep = core.Report(PROP, tier, seed)
    rep.assumptions += ASSUME
    counter = {"n": 0, "by_fn": {}}
    d = core.OUT / PROP
    d.mkdir(parents=True, exist_ok=True)

    import time
    t0 = time.time()
    phases: dict = {}
    rep.extra["phase_wall_s"] = phases
    rtraces = record_random(rep, tier, seed)                      # B, code side (before any thread exists)
    phases["record_random"] = round(time.time() - t0, 1)
    nchunks = 2 if tier == "quick" else 12
    size = (len(rtraces) + nchunks - 1) // nchunks
    rparts = [rtraces[i:i + size] for i in range(0, len(rtraces), size)]
    fn_runs, tee_cfgs = _fn_runs(tier), _tee_cfgs(tier)
    with ThreadPoolExecutor(max_workers=13 if tier == "quick" else 10) as ex:   # every TLC run of A, B, C
        f_fn = [ex.submit(_run_fn_model, r, d) for r in fn_runs]
        f_tee = [ex.submit(_run_tee_model, c, d, seed) for c in tee_cfgs]
        f_rnd = [ex.submit(tlc.validate_traces, "T_SeqFns", part, tag=f"{PROP}-fns-{k}", chunk=len(part) + 1)
                 for k, part in enumerate(rparts)]
        fn_results = [(r, f.result()) for r, f in zip(fn_runs, f_fn)]
        tee_results = [(c, f.result()) for c, f in zip(tee_cfgs, f_tee)]
        rverdicts = [v for f in f_rnd for v in f.result()]
    phases["all_tlc_runs"] = round(time.time() - t0 - sum(phases.values()), 1)
    part_functions(rep, tier, seed, counter, fn_results)          # A (smallest counterexamples first)
    judge_random(rep, rtraces, rverdicts, counter)                # B, verdicts
    phases["execute_enumerated_cases"] = round(time.time() - t0 - sum(phases.values()), 1)
    part_tee(rep, tier, seed, tee_results)                        # C
    phases["tee_replay_and_validation"] = round(time.time() - t0 - sum(phases.values()), 1)
    if counter["n"]:
        rep.extra["function_mismatches_total"] = counter["n"]
        rep.extra["function_mismatches_by_function"] = counter["by_fn"]
    rep.rule = ("A: every case of the TLA+-enumerated domain (all element sequences over 0..2 up to the "
                "length bound x all small parameters incl. invalid ones) executed on stdlib and on anyio per "
                "source mode; B: seeded random longer cases; C: tee schedules = maximal TLC histories (every "
                "edge of the state graph / every complete interleaving / -simulate). evaluations = executions "
                "on real code; non-trivial = case whose outcome is not the empty sequence (A, B), schedule of "
                "at least 3 steps (C)")
    return rep.finish()


def replay(path: str) -> int:
    data = json.loads(Path(path).read_text())
    rp = data["replay"]
    if rp["kind"] == "tee":
        r = rpl.pmap("harness.c19_tee", "run_scenario", [rp["scenario"]], procs=1)[0]
        v = tlc.validate_traces("T_Tee", [{"id": 0, "events": r["events"], "params": r["params"]}],
                                tag=f"{PROP}-replay")[0]
        print(json.dumps({"trace": r["events"], "verdict": v, "flags": r["flags"]}, indent=1))
        bad = bool(v["bad"] or r["flags"]["budget"] or r["flags"]["error"])
    else:
        c = rp["case"]
        mode = rp["who"].split(":", 1)[1]
        o = rpl.pmap("harness.c19_fns", "run_single", [c], procs=1, modes=[mode])[0]
        if "machinery_error" in o:
            raise tlc.TLCError(o["machinery_error"])
        events = [{"who": "stdlib", "res": c19_fns.canon(o["stdlib"])},
                  {"who": "anyio:" + mode, "res": c19_fns.canon(o["anyio:" + mode])}]
        v = tlc.validate_traces("T_SeqFns", [{"id": 0, "events": events, "params": {"c": c}}],
                                tag=f"{PROP}-replay")[0]
        print(json.dumps({"case": c, "outcomes": o, "verdict": v}, indent=1))
        if "SpecAgreesWithStdlib" in v["bad"]:
            raise tlc.TLCError("specification disagrees with the standard library")
        bad = bool(v["bad"])
    if bad:
        print(f"VIOLATION property={PROP} replay={path}")
        return 1
    return 0
