"""C11 (Event): replay of MC_C11E scenarios on the real anyio.Event."""

from __future__ import annotations

import asyncio

from .fam_common import Bench


def run_scenario(scn: dict, *, retry: bool = False, eager: bool = False, uv: bool = False) -> dict:
    import sys
    from .replay import ensure_repo_on_path
    ensure_repo_on_path()
    import anyio

    st: dict = {}

    def obs() -> dict:
        ev = st["ev"]
        return {"isset": ev.is_set(), "waiting": ev.statistics().tasks_waiting}

    b = Bench(scn, obs)

    def setup() -> None:
        st["ev"] = anyio.Event()

    async def client(t: int, script: list) -> None:
        ev = st["ev"]
        for op in script:
            if op == "wait":
                b.rec.emit(ev="start", t=t)
                try:
                    await ev.wait()
                except asyncio.CancelledError:
                    b.rec.emit(ev="end", t=t, res="cancelled", isset=ev.is_set())
                    raise
                except Exception:  # noqa: BLE001
                    b.rec.emit(ev="end", t=t, res="error", isset=ev.is_set())
                else:
                    b.rec.emit(ev="end", t=t, res="ok", isset=ev.is_set())
            elif op == "set":
                ev.set()
                b.rec.emit(ev="set", isset=ev.is_set())
            elif op == "yield":
                await anyio.lowlevel.checkpoint()
            elif op == "end":
                break

    return b.run(setup, client, eager=eager, uv=uv, retry=retry)
