"""Controlled, virtual-time asyncio event loop.

The loop is a subclass of ``asyncio.SelectorEventLoop`` whose ``_run_once`` is re-implemented so
that

* ``time()`` is a virtual clock that only moves when the controller says so or when nothing is
  runnable (it then jumps to the next live timer),
* nothing ever blocks in ``select``: an idle loop with no live timer calls ``controller.on_idle``
  and, if that injects nothing, raises the ``deadlock`` flag and stops,
* a controller hook runs before every *visible* handle (task steps and wake-ups, cancel-scope
  deliveries, task-group done callbacks, timers).  The hook is where scenario environment actions
  (an outside ``scope.cancel()``, a native ``Task.cancel()``, ``event.set()`` ...) are injected, at a
  position that is counted in visible handles since the start of the run.

Only asyncio internals are touched here (asyncio is part of the sandbox image, not of the code under
verification).  anyio runs on this loop unmodified.
"""

from __future__ import annotations

import asyncio
import heapq
import math
from asyncio import events
from typing import Any, Callable

_CLOCK_RES = 1e-9


class Deadlock(Exception):
    pass


class BudgetExceeded(Exception):
    pass


def classify(handle: events.Handle) -> tuple[str, Any]:
    """Return (kind, subject) of a handle.

    kinds: step (Task.__step: first step or bare-yield resume), wake (Task.__wakeup: awaited
    future done), deliver (CancelScope._deliver_cancellation), tgdone (TaskGroup task_done
    callback), timeout (CancelScope._timeout timer), sleep (timer resolving a sleep future), other.
    """
    cb = handle._callback  # type: ignore[attr-defined]
    name = getattr(cb, "__name__", None) or type(cb).__name__
    tname = type(cb).__name__
    if tname == "TaskStepMethWrapper":
        return "step", getattr(cb, "__self__", None)
    if name == "task_wakeup":
        return "wake", getattr(cb, "__self__", None)
    if name == "_deliver_cancellation":
        return "deliver", getattr(cb, "__self__", None)
    if name == "_timeout":
        return "timeout", getattr(cb, "__self__", None)
    if name == "task_done" and "TaskGroup._spawn" in getattr(cb, "__qualname__", ""):
        args = handle._args  # type: ignore[attr-defined]
        return "tgdone", (args[0] if args else None)
    if name == "_set_result_unless_cancelled":
        return "sleep", None
    # pure-python Task (not used on CPython builds with the C accelerator)
    if name in ("__step", "_Task__step"):
        return "step", getattr(cb, "__self__", None)
    if name in ("__wakeup", "_Task__wakeup"):
        return "wake", getattr(cb, "__self__", None)
    return "other", None


class Controller:
    """Base controller: override the callbacks you need."""

    def before_handle(self, loop: "VLoop", idx: int, kind: str, subject: Any) -> None:
        """Called before visible handle number ``idx`` (0-based, counted over the whole run)."""

    def after_handle(self, loop: "VLoop", idx: int, kind: str, subject: Any) -> None:
        pass

    def on_cycle(self, loop: "VLoop", cycle: int) -> None:
        """Called at the start of every loop cycle, before timers are collected."""

    def on_idle(self, loop: "VLoop") -> bool:
        """Loop has nothing ready and no live timer.  Return True if something was injected."""
        return False

    def visible(self, kind: str, subject: Any) -> bool:
        return kind != "other"


class VLoop(asyncio.SelectorEventLoop):
    def __init__(self, controller: Controller | None = None, max_handles: int = 200000):
        super().__init__()
        self._vtime = 0.0
        self._clock_resolution = _CLOCK_RES
        self.controller = controller or Controller()
        self.cycle = 0
        self.nhandles = 0  # visible handles run so far
        self.nall = 0  # all handles run so far
        self.max_handles = max_handles
        self.deadlocked = False
        self.budget_exceeded = False
        self.auto_advance = True  # jump to next timer when nothing is ready
        self.index_in_cycle = 0

    # -- virtual clock ---------------------------------------------------------------------
    def time(self) -> float:
        return self._vtime

    def advance(self, to: float) -> None:
        if to > self._vtime:
            self._vtime = to

    def next_timer(self) -> float | None:
        while self._scheduled and self._scheduled[0]._cancelled:
            h = heapq.heappop(self._scheduled)
            h._scheduled = False
            self._timer_cancelled_count = max(0, self._timer_cancelled_count - 1)
        live = [h._when for h in self._scheduled if not h._cancelled and h._when != math.inf]
        return min(live) if live else None

    def live_timers(self) -> int:
        return sum(1 for h in self._scheduled if not h._cancelled)

    # -- the loop ----------------------------------------------------------------------------
    def _run_once(self) -> None:
        ctl = self.controller
        self.cycle += 1
        ctl.on_cycle(self, self.cycle)

        if not self._ready and not self._stopping:
            nxt = self.next_timer()
            if nxt is not None and self.auto_advance:
                self.advance(nxt)
            elif not ctl.on_idle(self):
                nxt = self.next_timer()
                if nxt is not None:
                    self.advance(nxt)
                elif not self._ready:
                    self.deadlocked = True
                    self.stop()

        # poll I/O without ever blocking (self-pipe wake-ups from call_soon_threadsafe)
        event_list = self._selector.select(0)
        self._process_events(event_list)
        event_list = None

        end_time = self._vtime + self._clock_resolution
        while self._scheduled:
            handle = self._scheduled[0]
            if handle._when >= end_time:
                break
            handle = heapq.heappop(self._scheduled)
            handle._scheduled = False
            if handle._cancelled:
                self._timer_cancelled_count = max(0, self._timer_cancelled_count - 1)
                continue
            self._ready.append(handle)

        ntodo = len(self._ready)
        self.index_in_cycle = 0
        for _ in range(ntodo):
            handle = self._ready.popleft()
            if handle._cancelled:
                continue
            kind, subject = classify(handle)
            vis = ctl.visible(kind, subject)
            if vis:
                idx = self.nhandles
                ctl.before_handle(self, idx, kind, subject)
                if handle._cancelled:  # an env action may cancel it
                    self.nhandles += 1
                    continue
            self.nall += 1
            handle._run()
            if vis:
                self.nhandles += 1
                self.index_in_cycle += 1
                ctl.after_handle(self, idx, kind, subject)
            if self.nall > self.max_handles:
                self.budget_exceeded = True
                self.stop()
                break
        handle = None


def run(main: Callable[[], Any], controller: Controller | None = None, *, eager: bool = False,
        max_handles: int = 200000) -> tuple[VLoop, Any, BaseException | None]:
    """Run ``main()`` (a coroutine function) to completion on a fresh VLoop.

    Returns (loop, result, exception).  On deadlock / budget the loop is stopped, the flag is set on
    the loop and remaining tasks are cancelled and drained (not observed by the controller).
    """
    loop = VLoop(controller, max_handles=max_handles)
    if eager:
        loop.set_task_factory(asyncio.eager_task_factory)
    asyncio.set_event_loop(None)
    result = None
    error: BaseException | None = None
    try:
        events._set_running_loop(None)
        task = loop.create_task(main())
        hidden = getattr(loop.controller, "hidden_tasks", None)
        if hidden is not None:
            hidden.add(task)  # the harness' own root task is not part of any model
        try:
            loop.run_until_complete(task)
            result = task.result() if not task.cancelled() else None
        except RuntimeError as exc:
            if loop.deadlocked:
                error = Deadlock()
            elif loop.budget_exceeded:
                error = BudgetExceeded()
            else:
                error = exc
        except BaseException as exc:  # noqa: BLE001
            error = exc
    finally:
        stop = getattr(loop.controller, "on_stop", None)
        if stop is not None:
            stop()  # observation ends here: what follows is only the harness cleaning up
        try:
            _drain(loop)
        finally:
            loop.close()
    return loop, result, error


def _drain(loop: VLoop) -> None:
    loop.controller = Controller()
    loop.max_handles = loop.nall + 100000
    loop.deadlocked = False
    pending = [t for t in asyncio.all_tasks(loop) if not t.done()]
    if not pending:
        return
    for _ in range(50):
        for t in pending:
            t.cancel()
        try:
            loop.run_until_complete(asyncio.wait(pending, timeout=None))
        except BaseException:  # noqa: BLE001
            pass
        pending = [t for t in pending if not t.done()]
        if not pending:
            break
    for t in pending:
        # suppress "Task was destroyed but it is pending"
        t._log_destroy_pending = False  # type: ignore[attr-defined]
