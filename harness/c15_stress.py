"""C15 - bounded stress for finding C15-A (Future.cancel() racing _call_func's set_result).

Not a replay of a TLC scenario: the window is a few bytecodes wide, so the only way to land in it on
the real code is to try often with a tiny switch interval.  Used by the thorough tier as a
reproduction attempt of a model-level finding; never a verdict by itself unless the finding is
listed in known_findings.json (see notes/finding_C15.md).
"""

from __future__ import annotations

import sys
import threading
import time
from typing import Any


def stress(item: dict, **kw: Any) -> dict:
    from .replay import ensure_repo_on_path

    ensure_repo_on_path()
    import anyio
    from anyio.from_thread import BlockingPortal

    seconds = float(item.get("seconds", 10))
    res: dict[str, Any] = {"calls": 0, "reproduced": False}
    old = sys.getswitchinterval()

    def fn() -> int:
        return 1

    def worker(portal: Any) -> None:
        bystander = portal.start_task_soon(anyio.sleep, 3600)
        t0 = time.time()
        n = 0
        while time.time() - t0 < seconds and not bystander.done():
            n += 1
            try:
                f = portal.start_task_soon(fn)
            except RuntimeError:
                break
            f.cancel()
        res["calls"] = n
        res["bystander_cancelled_unasked"] = bystander.done()
        try:
            portal.call(portal.stop, True)
        except RuntimeError:
            pass

    async def main() -> None:
        async with BlockingPortal() as portal:
            th = threading.Thread(target=worker, args=(portal,), daemon=True)
            th.start()
            await portal.sleep_until_stopped()

    sys.setswitchinterval(1e-6)
    try:
        anyio.run(main)
    except BaseException as exc:  # noqa: BLE001
        leaves = []

        def walk(e: BaseException) -> None:
            if isinstance(e, BaseExceptionGroup):
                for x in e.exceptions:
                    walk(x)
            else:
                leaves.append(type(e).__name__)

        walk(exc)
        res["errors"] = leaves
        res["reproduced"] = "InvalidStateError" in leaves
    finally:
        sys.setswitchinterval(old)
    return res
