"""C01, C02, C07: task groups.  One model (MC_TG), one observer (P_TG), three clause sets."""

from __future__ import annotations

from . import fam_tg
from .family import Family, ModelCfg

ASSUME = [
    "CPython 3.12 asyncio semantics (FIFO call_soon, C Task) are environment, not verified",
    "exhaustive only within the stated constants (tasks, operations per task, nesting, environment actions)",
    "one active task group per task (nested groups live in children); replay on the controlled loop only",
    "a host that is cancelled natively re-raises that CancelledError (errors travel as its context): not a loss",
]

CLAUSES = {
    "C01": {"JoinAll", "NoStepAfterGroupExit", "HandleFinal", "EndsOnce", "SpawnOnlyIntoLiveGroup",
            "GroupScopeIsInnermost", "budget", "UnknownEvent"},
    # "the group's remaining tasks are cancelled": the level-triggered clauses evaluated on group members
    "C02": {"NoneDropped", "NoneInvented", "NoDuplicates", "NoCancelLeaves", "NoErrorNoRaise",
            "ErrorsRaiseGroup", "CancelOnlyPassesThrough", "EveryCheckpointRaises",
            "NothingBlockedInCancelledScope", "InterruptedWithinBoundedCycles",
            "StartErrorLostOnNativeCancelOfCaller"},
    "C07": {"ReturnsStartedValue", "ChildErrorToCaller", "EarlyFailureReported",
            "ChildDoneBeforeCancelledStartReturns", "GroupNotCancelledByStartFailure",
            "FirstStartedAccepted", "SecondStartedIsError", "NoneDropped", "NoDuplicates",
            "StartErrorLostOnNativeCancelOfCaller"},
}
INV = ["PropertyHolds", "JoinInv", "TasksSetExact", "QuiescentNotStuck", "Residue"]


def consts(nt, maxops, maxenv, ops, *, depth=3, shields="{0}", cleanups="{0}", pres="{0}",
           env='{"cancel", "native"}', orders="{FALSE}", leaf_from=99):
    return {"NT": str(nt), "INF": "99", "Ops": ops, "MaxOps": str(maxops), "MaxEnv": str(maxenv),
            "EnvKinds": env, "MaxDepth": str(depth), "Shields": shields, "Cleanups": cleanups, "Pres": pres,
            "Orders": orders, "LeafFrom": str(leaf_from)}


def cmp(model: dict, real: dict) -> list[str]:
    # a finished child's CancelledError has lost its message (the group's done callback consumed it),
    # so anyio / native cancellation of the task itself cannot be told apart afterwards
    def norm(d: dict) -> dict:
        d = dict(d)
        d["out"] = ["cancelled" if x == "native" else x for x in d.get("out", [])]
        return d
    model, real = norm(model), norm(real)
    return [f"{k}: model={model.get(k)} real={real.get(k)}" for k in ("nh", "out", "nc")
            if model.get(k) != real.get(k)]


def family(prop: str, configs: list[ModelCfg]) -> Family:
    return Family(
        prop=prop, mc_module="MC_TG", t_module="T_TG", fam_module="harness.fam_tg",
        invariants=INV, nt_of=lambda c: int(c["NT"]), compare_final=cmp, configs=configs,
        assumptions=ASSUME, clauses=CLAUSES[prop], scenario_of=fam_tg.scenario_of,
    )
